(* CvModel: executable model of internal/cv.c (nsync_cv_wait_with_deadline_generic, nsync_cv_signal,
   nsync_cv_broadcast, wake_waiters, cv_ready_time / cv_enqueue / cv_dequeue) and of the use it makes of
   nsync_spin_test_and_set_ (common.c) and nsync_sem_wait_with_cancel_ (sem_wait.c).  The code modelled is the
   CURRENT one, i.e. with the repair of finding F3 (commit 70eb6e5: cv_dequeue tests membership of the record in
   pcv->waiters under the spinlock and otherwise waits for waiting == 0; wake_waiters reads p_nw->sem before it
   clears waiting), and with the repair of F15 (commit 0f631a1: the CAS of wake_waiters that releases the mutex spinlock
   clears clear_on_release = MU_SPINLOCK, plus MU_WAITING when pmu->waiters is empty after the transfer) and of F16 (commit
   f28c99f: the transfer loop of wake_waiters moves only waiters with cv_mu == pmu; a waiter that came through
   nsync_cv_wait_with_deadline_generic with the caller's own lock routines is woken directly).

   One step = one atomic site of cv.c / nsync_spin_test_and_set_ followed by the thread-local work and the
   spinlock-protected plain accesses up to the next site (DESIGN.md 3.1).  Every value written to the cv word,
   to waiting, to remove_count and (in wake_waiters) to the mutex word is computed by the expression gen/sites.py
   extracted from the C source (Gen/Sites.v); masks and the lock_type tables come from Gen/Consts.v.

   SCOPE DECISIONS
   * Modelled exactly: the cv word (CV_SPINLOCK / CV_NON_EMPTY), the cv queue (list of record ids, head first),
     the waiter records {owner; waiting; remove_count; is_mucv (native waiter struct vs nsync_wait_n record);
     l_type (Some R / Some W / None = not an nsync_mu); cv_mu (still associated with the mutex / cleared by a
     transfer)}.  Record t (t < number of threads) is the per-thread waiter struct of thread t (nsync_waiter_new_
     hands the same struct to every call of a thread); every nsync_wait_n call gets a FRESH record id
     (the nw[] element lives in the caller's frame) with a ghost [live] flag cleared when the call returns.
   * While a waker holds the cv spinlock the model moves all the records it selects from the queue to its private
     list in the step of the acquiring CAS (the C code unlinks them one by one between the remove_count sites;
     nobody else can look at the queue meanwhile); the remove_count load/CAS sites are then stepped one by one.
   * ABSTRACT (marked below): the associated nsync_mu.  Its word is present (lock field, spinlock, waiting,
     designated-waker, writer-waiting, all-false ... bits as in common.h) and so is the part of its queue that
     consists of records transferred by wake_waiters; but acquiring / releasing it (nsync_mu_lock/rlock/unlock/
     runlock, and nsync_mu_lock_slow_ with MU_DESIG_WAKER for a transferred waiter) are ATOMIC steps that only
     change the lock field (+-MU_WLOCK, +-MU_RLOCK) -- licence: the C01/C02 theorems about Model/MuModel.v.
     Everything else the real mutex code does is the ENVIRONMENT: [MuEnv f] rewrites the flag bits of the word
     (it cannot clear the spinlock bit while a wake_waiters of the model owns it), [MuDeq r] dequeues a transferred
     record from the mutex queue (nsync_remove_from_mu_queue_: remove_count + 1; only while no wake_waiters of the model
     owns the mutex spinlock: the real dequeue is made under that spinlock), [MuWakeSt r] is the unlocker's
     store waiting = 0 for such a record, [EnvV t] a post on thread t's semaphore (the unlocker's V; also any stale
     post: the semaphore is shared with the thread's own mutex sleeps).  The two are COUPLED by the ghost counter
     [owed]: nsync_mu_unlock_slow_ always posts right after clearing waiting (mu.c: ATM_STORE_REL (&w->nw.waiting, 0);
     nsync_mu_semaphore_v (&w->sem)), so [MuWakeSt r] records a post owed to the owner of r and [EnvV t] pays an owed
     post first (it is a stale post only when nothing is owed); theorems about quiescent worlds can thus exclude
     "owed but never posted".  [EnvRc r] is the remove_count increment of a
     mutex-internal dequeue of a thread blocked inside an abstract acquisition (or, between two calls of its program,
     on some other nsync_mu; [EnvP t] is the P of such a sleep).  A thread inside an abstract
     acquisition may consume posts of its semaphore (choice [CIntP]: the P of nsync_mu_lock_slow_).
     "pmu->waiters is empty" (wake_waiters, F15) is therefore: [muq] is empty after this call's transfer AND the environment
     reports that no plain locker is queued (choice [CMuEmpty] of the step [VCas1], recorded in the ghost k_envq); the test is
     made once, under the spinlock, before the release loop: clear_on_release is the local [k_clr].
   * nsync_sem_wait_with_cancel_ is one step: P on the thread's abstract semaphore (count : Z).  It returns 0
     only when count > 0 ([CNormal]), ETIMEDOUT only when clock >= deadline ([CTimeout]), ECANCELED only when the
     note is notified or its expiry has been reached, in which case the note becomes notified ([CCancel]); the
     clock is monotone ([Tick]); the note is a monotone flag with an optional expiry ([Notify]).
   * nsync_wait_n callers: cv_enqueue, the ready_time / P loop, cv_dequeue with a record of their own
     (is_mucv = false), and the release / re-acquisition of the mutex if the caller holds it.
   * Client contract = the [Crash] pcs: re-locking a held mutex, unlocking a free one, waiting without holding
     the mutex in the mode its word shows (nsync_mu_unlock / runlock panic in the C code).  A crashed thread stops.
   * Ghost state (used by the theorems only, never read by a step): [live] and [dead_touch] (accesses to records of
     returned nsync_wait_n calls), [taker] (who unlinked a record from the cv queue), [loc] (on which list a record
     is: cv queue / private list of waker t / mutex queue / dequeued by an unlocker / none), [held], [rets] (log of
     the returns with the facts C04_outcome / C05 talk about), [mspin], [owed], [wlog] (log of the completed
     signal / broadcast calls), in the locals w_entry, w_toclk, w_pafter, and in the waker's locals k_q .. k_posts.
   * [touch] / [touch_all] mark every step that really accesses a record (for records of nsync_wait_n calls; the
     per-thread waiter structs are never freed).  wake_waiters reads p_nw->sem BEFORE it stores waiting = 0 and never
     accesses *p_nw afterwards: the step [VStore] captures the semaphore's owner in the pc [VV k o] and [VV] touches
     nothing.  (A model that read the owner in [VV] -- the code before the repair of F3 -- violates dead_touch = 0.)
   * The semaphore of a thread is shared by its cv sleeps and its mutex sleeps (one waiter struct per thread), so
     the model lets the environment post it ([EnvV]) at any time; a consumed post is always a step of its owner.
   No proofs in this file. *)
From NsyncBase Require Import CSem.
From NsyncGen Require Import Consts Sites.
From Coq Require Import List ZArith Bool.
Import ListNotations.
Local Open Scope Z_scope.

Inductive mode := W | R.
Definition mode_eqb (a b : mode) := match a, b with W, W | R, R => true | _, _ => false end.
Definition is_R (o : option mode) : bool := match o with Some R => true | _ => false end.
Definition is_W (o : option mode) : bool := match o with Some W => true | _ => false end.
Definition zta_of (m : mode) : Z := match m with W => writer_type_zero_to_acquire | R => reader_type_zero_to_acquire end.
Definition add_of (m : mode) : Z := match m with W => writer_type_add_to_acquire | R => reader_type_add_to_acquire end.

Definition band (a b : Z) := Z.land a b.
Definition bnot32 (a : Z) := 4294967295 - a.
Definition has (w m : Z) : bool := negb (band w m =? 0).

(* ---------- records ---------- *)
(* ghost: where a record currently is *)
Inductive place := PNone | PCvq | PPriv (t : nat) | PMuq | PMwake.
Record rec := mk_rec {
  owner : nat;            (* the thread whose semaphore nw->sem points to *)
  waiting : Z;            (* nw.waiting *)
  rcount : Z;             (* waiter.remove_count (native records only) *)
  is_mucv : bool;         (* nw.flags & NSYNC_WAITER_FLAG_MUCV *)
  l_type : option mode;   (* waiter.l_type *)
  cv_mu : bool;           (* waiter.cv_mu != NULL *)
  live : bool;            (* ghost: the memory of the record is still owned by its nsync_wait_n call (native: always) *)
  taker : option nat;     (* ghost: the thread that unlinked the record from the cv queue since its last enqueue *)
  loc : place             (* ghost: on the cv queue / on the private list of waker t / on the mutex queue / dequeued from it
                             and not yet woken / on no list *)
}.
Definition rec0 (t : nat) : rec := mk_rec t 0 0 true None false true None PNone.

(* ---------- locals ---------- *)
(* nsync_cv_wait_with_deadline_generic *)
Record wl := mk_wl {
  w_dl : option Z;        (* abs_deadline in ns, None = nsync_time_no_deadline *)
  w_can : bool;           (* cancel_note != NULL *)
  w_gen : bool;           (* lock/unlock are not the nsync_mu functions: cv_mu == NULL *)
  w_entry : option mode;  (* ghost: what the thread held on entry *)
  w_rdr : bool;           (* is_reader_mu *)
  w_old : Z;              (* old_word *)
  w_rc : Z;               (* remove_count *)
  w_so : Z;               (* sem_outcome *)
  w_out : Z;              (* outcome *)
  w_toclk : option Z;     (* ghost: the clock when sem_outcome became ETIMEDOUT *)
  w_pafter : Z            (* ghost: successful P's performed after sem_outcome became non-zero *)
}.
(* nsync_cv_signal / nsync_cv_broadcast / wake_waiters *)
Record kl := mk_kl {
  k_bc : bool;            (* broadcast? *)
  k_old : Z;              (* old_word *)
  k_wake : list nat;      (* to_wake_list *)
  k_allr : bool;          (* all_readers *)
  k_todo : list nat;      (* selected native records whose remove_count is still to be incremented *)
  k_first : bool;         (* the next remove_count site is the one of the first waiter (nsync_cv_signal) *)
  k_set : Z;              (* set_on_release *)
  k_clr : Z;              (* clear_on_release *)
  (* ghost: the history of this call, for the run-level theorems (never read by a step) *)
  k_q : list nat;         (* pcv->waiters at the CAS that acquired the cv spinlock *)
  k_rdrs : list nat;      (* the native readers among them (flags & MUCV, l_type == reader) at that moment *)
  k_taken : list nat;     (* the records this call unlinked from pcv->waiters *)
  k_xfer : list nat;      (* of those: handed to the mutex queue by wake_waiters (cv_mu = NULL) *)
  k_woken : list nat;     (* of those: waiting = 0 stored by wake_waiters, in order *)
  k_posts : list nat;     (* the threads whose semaphore wake_waiters has posted, in order *)
  k_envq : bool           (* when wake_waiters tested nsync_dll_is_empty_ (pmu->waiters) under the mutex spinlock: the environment
                             reported a plain locker (a waiter CvModel does not model) on the mutex queue *)
}.
(* an nsync_wait_n call on the cv *)
Record nl := mk_nl {
  n_r : nat;              (* its record *)
  n_dl : option Z;
  n_old : Z;              (* old_word of cv_enqueue / cv_dequeue *)
  n_wasq : bool;          (* was_queued *)
  n_rel : option mode     (* the mode in which the caller's mutex was released, if it held it *)
}.

Inductive spk := KWaitEnq (l : wl) | KWaitTo (l : wl) | KSig | KBc | KEnq (n : nl) | KDeq (n : nl).

Inductive pc :=
| Idle | Crash (why : Z)
| MLock (m : mode) | MUnlock                                      (* ABSTRACT *)
| SpLoad (first : bool) (k : spk) | SpCas (k : spk) (old : Z)      (* nsync_spin_test_and_set_ on the cv word *)
| WStore1 (l : wl) | WLoadMu (l : wl) | WLoadRc (l : wl) | WStoreRel (l : wl)
| WMuRel (l : wl)                                                  (* ABSTRACT *)
| WLoop (l : wl) | WSem (l : wl) | WLoad6 (l : wl) | WLoad7 (l : wl) | WLoad8 (l : wl)
| WRcLoad (l : wl) | WRcCas (l : wl) (old : Z) | WStore0 (l : wl) | WStoreW (l : wl) | WLoad13 (l : wl)
| WMuAcq (l : wl)                                                  (* ABSTRACT *)
| KLoadW (bc : bool) | KRcLoad (k : kl) | KRcCas (k : kl) (old : Z) | KStoreW (k : kl)
| VLoad1 (k : kl) | VCas1 (k : kl) (old : Z) | VLoad3 (k : kl) | VCas2 (k : kl) (old : Z) | VLoad5 (k : kl)
| VStore (k : kl) | VV (k : kl) (o : nat)     (* o: the thread whose semaphore p_sem is (read BEFORE waiting = 0 was stored) *)
| NEnqStore (n : nl) | NEnqRel (n : nl)
| NMuRel (n : nl)                                                  (* ABSTRACT *)
| NReady (n : nl) | NSem (n : nl) | NDeqLoad (n : nl) | NDeqStore (n : nl) | NDeqRel (n : nl) | NDeqSpin (n : nl)
| NMuAcq (n : nl).                                                 (* ABSTRACT *)

Inductive op :=
| OLock (m : mode) | OUnlock
| OWait (dl : option Z) (cancellable generic : bool)
| OSignal | OBroadcast
| OWaitN (dl : option Z).

(* ghost log of the returns of OWait / OWaitN *)
Record ret := mk_ret {
  r_wait : bool;          (* true: nsync_cv_wait_with_deadline_generic; false: nsync_wait_n *)
  r_code : Z;             (* wait: the returned outcome; wait_n: 1 if cv_dequeue reported "still queued", else 0 *)
  r_entry : option mode;  (* held at entry *)
  r_held : option mode;   (* held at return *)
  r_rec : nat;            (* the record used *)
  r_taker : option nat;   (* who unlinked the record from the cv queue *)
  r_dl : option Z;
  r_toclk : option Z;     (* clock at the step that produced ETIMEDOUT *)
  r_clk : Z;              (* clock at return *)
  r_can : bool;
  r_notified : bool;      (* note notified at return *)
  r_pafter : Z
}.

Record tstate := mk_t { t_pc : pc; t_ops : list op; held : option mode (* ghost *); rets : list ret (* ghost, newest first *) }.

Record world := mk_w {
  cvw : Z;                 (* pcv->word *)
  cvq : list nat;          (* pcv->waiters, head first *)
  recs : nat -> rec;
  nrec : nat;              (* next fresh record id *)
  sem : nat -> Z;          (* abstract semaphore of each thread *)
  muw : Z;                 (* ABSTRACT mutex: mu->word *)
  muq : list nat;          (* ABSTRACT mutex: the transferred records on mu->waiters, in order *)
  mwake : list nat;        (* ABSTRACT mutex: records an unlocker has dequeued and not yet woken *)
  mspin : option nat;      (* ghost: the thread inside wake_waiters that owns the mutex spinlock *)
  clock : Z;
  notified : bool;         (* the cancel note *)
  expiry : option Z;       (* its expiry *)
  thr : list tstate;
  dead_touch : Z;          (* ghost: accesses to a record whose nsync_wait_n call has returned (must stay 0) *)
  owed : nat -> Z;         (* ghost, ABSTRACT mutex: posts the unlocker owes: it has cleared the waiting flag of a transferred waiter
                              of thread u ([MuWakeSt]) and has not yet posted u's semaphore (mu.c: the V follows the store) *)
  wlog : list (nat * kl)   (* ghost: the completed nsync_cv_signal / broadcast calls that got past the early exit: (thread, final
                              locals with the ghost history), newest first *)
}.

Inductive actor :=
| Thr (t : nat)
| Tick (dt : Z) | Notify
| MuEnv (flags : Z) | MuDeq (r : nat) | MuWakeSt (r : nat) | EnvV (t : nat) | EnvRc (r : nat)    (* ABSTRACT mutex internals *)
| EnvP (t : nat).         (* thread t, between two calls of its program, sleeps on some other nsync object *)
(* [CMuEmpty] is read by ONE step, the successful CAS of wake_waiters that takes the mutex spinlock ([VCas1]): the ENVIRONMENT
   reports that the mutex queue holds no plain locker (no waiter other than the transferred records [muq] the model knows);
   every other choice at that step reports that one is queued.  Everywhere else it behaves as [CNormal]. *)
Inductive choice := CNormal | CTimeout | CCancel | CIntP | CMuEmpty.

(* observable event of a step; obj: record id, -1 = the cv word, -2 = the mutex word *)
Inductive ev :=
| EvLoad (site : Z) (obj : Z) (v : Z)
| EvStore (site : Z) (obj : Z) (v : Z)
| EvCas (site : Z) (obj : Z) (old new : Z) (ok : bool)
| EvP (res : Z) | EvV (o : nat)          (* V on the semaphore of thread o *)
| EvMu (acq : bool) (m : mode)
| EvEnv (ok : bool)
| EvBlocked | EvNone | EvCrash.

(* ---------- state access ---------- *)
Definition fupd {A} (f : nat -> A) (k : nat) (v : A) : nat -> A := fun x => if Nat.eqb x k then v else f x.
Fixpoint lupd {A} (l : list A) (k : nat) (v : A) : list A :=
  match l, k with
  | [], _ => []
  | _ :: t, O => v :: t
  | x :: t, S k' => x :: lupd t k' v
  end.
Fixpoint remove_id (r : nat) (l : list nat) : list nat :=
  match l with [] => [] | x :: t => if Nat.eqb x r then remove_id r t else x :: remove_id r t end.
Fixpoint mem_id (r : nat) (l : list nat) : bool :=
  match l with [] => false | x :: t => if Nat.eqb x r then true else mem_id r t end.
Definition is_nil {A} (l : list A) : bool := match l with [] => true | _ => false end.

Definition dflt_t := mk_t Idle [] None [].
Definition get (w : world) (t : nat) : tstate := nth t (thr w) dflt_t.

Definition set_thr (w : world) (l : list tstate) : world :=
  mk_w (cvw w) (cvq w) (recs w) (nrec w) (sem w) (muw w) (muq w) (mwake w) (mspin w) (clock w) (notified w) (expiry w) l (dead_touch w) (owed w) (wlog w).
Definition set_t (w : world) (t : nat) (s : tstate) : world := set_thr w (lupd (thr w) t s).
Definition set_pc (w : world) (t : nat) (p : pc) : world :=
  let s := get w t in set_t w t (mk_t p (t_ops s) (held s) (rets s)).
Definition set_held (w : world) (t : nat) (h : option mode) : world :=
  let s := get w t in set_t w t (mk_t (t_pc s) (t_ops s) h (rets s)).
Definition add_ret (w : world) (t : nat) (r : ret) : world :=
  let s := get w t in set_t w t (mk_t (t_pc s) (t_ops s) (held s) (r :: rets s)).
Definition set_cvw (w : world) (v : Z) : world :=
  mk_w v (cvq w) (recs w) (nrec w) (sem w) (muw w) (muq w) (mwake w) (mspin w) (clock w) (notified w) (expiry w) (thr w) (dead_touch w) (owed w) (wlog w).
Definition set_cvq (w : world) (q : list nat) : world :=
  mk_w (cvw w) q (recs w) (nrec w) (sem w) (muw w) (muq w) (mwake w) (mspin w) (clock w) (notified w) (expiry w) (thr w) (dead_touch w) (owed w) (wlog w).
Definition set_recs (w : world) (f : nat -> rec) : world :=
  mk_w (cvw w) (cvq w) f (nrec w) (sem w) (muw w) (muq w) (mwake w) (mspin w) (clock w) (notified w) (expiry w) (thr w) (dead_touch w) (owed w) (wlog w).
Definition set_rec (w : world) (r : nat) (x : rec) : world := set_recs w (fupd (recs w) r x).
Definition set_nrec (w : world) (n : nat) : world :=
  mk_w (cvw w) (cvq w) (recs w) n (sem w) (muw w) (muq w) (mwake w) (mspin w) (clock w) (notified w) (expiry w) (thr w) (dead_touch w) (owed w) (wlog w).
Definition set_sem (w : world) (t : nat) (v : Z) : world :=
  mk_w (cvw w) (cvq w) (recs w) (nrec w) (fupd (sem w) t v) (muw w) (muq w) (mwake w) (mspin w) (clock w) (notified w) (expiry w) (thr w) (dead_touch w) (owed w) (wlog w).
Definition set_muw (w : world) (v : Z) : world :=
  mk_w (cvw w) (cvq w) (recs w) (nrec w) (sem w) v (muq w) (mwake w) (mspin w) (clock w) (notified w) (expiry w) (thr w) (dead_touch w) (owed w) (wlog w).
Definition set_muq (w : world) (q : list nat) : world :=
  mk_w (cvw w) (cvq w) (recs w) (nrec w) (sem w) (muw w) q (mwake w) (mspin w) (clock w) (notified w) (expiry w) (thr w) (dead_touch w) (owed w) (wlog w).
Definition set_mwake (w : world) (q : list nat) : world :=
  mk_w (cvw w) (cvq w) (recs w) (nrec w) (sem w) (muw w) (muq w) q (mspin w) (clock w) (notified w) (expiry w) (thr w) (dead_touch w) (owed w) (wlog w).
Definition set_mspin (w : world) (o : option nat) : world :=
  mk_w (cvw w) (cvq w) (recs w) (nrec w) (sem w) (muw w) (muq w) (mwake w) o (clock w) (notified w) (expiry w) (thr w) (dead_touch w) (owed w) (wlog w).
Definition set_clock (w : world) (c : Z) : world :=
  mk_w (cvw w) (cvq w) (recs w) (nrec w) (sem w) (muw w) (muq w) (mwake w) (mspin w) c (notified w) (expiry w) (thr w) (dead_touch w) (owed w) (wlog w).
Definition set_notified (w : world) (b : bool) : world :=
  mk_w (cvw w) (cvq w) (recs w) (nrec w) (sem w) (muw w) (muq w) (mwake w) (mspin w) (clock w) b (expiry w) (thr w) (dead_touch w) (owed w) (wlog w).
Definition set_dead (w : world) (d : Z) : world :=
  mk_w (cvw w) (cvq w) (recs w) (nrec w) (sem w) (muw w) (muq w) (mwake w) (mspin w) (clock w) (notified w) (expiry w) (thr w) d (owed w) (wlog w).
Definition set_owed (w : world) (t : nat) (v : Z) : world :=
  mk_w (cvw w) (cvq w) (recs w) (nrec w) (sem w) (muw w) (muq w) (mwake w) (mspin w) (clock w) (notified w) (expiry w) (thr w) (dead_touch w)
       (fupd (owed w) t v) (wlog w).
Definition set_wlog (w : world) (l : list (nat * kl)) : world :=
  mk_w (cvw w) (cvq w) (recs w) (nrec w) (sem w) (muw w) (muq w) (mwake w) (mspin w) (clock w) (notified w) (expiry w) (thr w) (dead_touch w)
       (owed w) l.

(* record field updates *)
Definition r_set_waiting (x : rec) (v : Z) : rec := mk_rec (owner x) v (rcount x) (is_mucv x) (l_type x) (cv_mu x) (live x) (taker x) (loc x).
Definition r_set_rcount (x : rec) (v : Z) : rec := mk_rec (owner x) (waiting x) v (is_mucv x) (l_type x) (cv_mu x) (live x) (taker x) (loc x).
Definition r_set_assoc (x : rec) (lt : option mode) (c : bool) : rec := mk_rec (owner x) (waiting x) (rcount x) (is_mucv x) lt c (live x) (taker x) (loc x).
Definition r_set_cv_mu (x : rec) (c : bool) : rec := mk_rec (owner x) (waiting x) (rcount x) (is_mucv x) (l_type x) c (live x) (taker x) (loc x).
Definition r_set_live (x : rec) (b : bool) : rec := mk_rec (owner x) (waiting x) (rcount x) (is_mucv x) (l_type x) (cv_mu x) b (taker x) (loc x).
(* ghost moves: the record goes to place p; a move off the cv queue records who did it *)
Definition r_move (x : rec) (o : option nat) (p : place) : rec :=
  mk_rec (owner x) (waiting x) (rcount x) (is_mucv x) (l_type x) (cv_mu x) (live x) o p.
Definition r_set_loc (x : rec) (p : place) : rec := r_move x (taker x) p.

Definition upd_rec (w : world) (r : nat) (f : rec -> rec) : world := set_rec w r (f (recs w r)).
(* ghost: an access to record r *)
Definition touch (w : world) (r : nat) : world :=
  set_dead w (dead_touch w + (if live (recs w r) then 0 else 1)).
Definition touch_all (w : world) (l : list nat) : world :=
  set_dead w (dead_touch w + fold_right (fun r a => (if live (recs w r) then 0 else 1) + a) 0 l).
(* an operation on the list pcv->waiters under the cv spinlock: the nsync_dll_ functions read and write the links of the
   neighbours of the element they insert / remove, cv_dequeue walks the list, nsync_cv_signal / broadcast read flags and
   l_type of the elements they examine.  The model counts an access to EVERY record on the list at that moment (a
   superset of what the code touches). *)
Definition touch_queue (w : world) : world := touch_all w (cvq w).

Definition wl_set_old (l : wl) (v : Z) : wl :=
  mk_wl (w_dl l) (w_can l) (w_gen l) (w_entry l) (w_rdr l) v (w_rc l) (w_so l) (w_out l) (w_toclk l) (w_pafter l).
Definition wl_set_rc (l : wl) (v : Z) : wl :=
  mk_wl (w_dl l) (w_can l) (w_gen l) (w_entry l) (w_rdr l) (w_old l) v (w_so l) (w_out l) (w_toclk l) (w_pafter l).
Definition wl_set_rdr (l : wl) (b : bool) : wl :=
  mk_wl (w_dl l) (w_can l) (w_gen l) (w_entry l) b (w_old l) (w_rc l) (w_so l) (w_out l) (w_toclk l) (w_pafter l).
Definition wl_set_so (l : wl) (v : Z) (c : option Z) : wl :=
  mk_wl (w_dl l) (w_can l) (w_gen l) (w_entry l) (w_rdr l) (w_old l) (w_rc l) v (w_out l) c (w_pafter l).
Definition wl_set_out (l : wl) (v : Z) : wl :=
  mk_wl (w_dl l) (w_can l) (w_gen l) (w_entry l) (w_rdr l) (w_old l) (w_rc l) (w_so l) v (w_toclk l) (w_pafter l).
Definition wl_inc_pafter (l : wl) : wl :=
  mk_wl (w_dl l) (w_can l) (w_gen l) (w_entry l) (w_rdr l) (w_old l) (w_rc l) (w_so l) (w_out l) (w_toclk l)
        (if w_so l =? 0 then w_pafter l else w_pafter l + 1).
Definition kl_set_old (k : kl) (v : Z) : kl :=
  mk_kl (k_bc k) v (k_wake k) (k_allr k) (k_todo k) (k_first k) (k_set k) (k_clr k) (k_q k) (k_rdrs k) (k_taken k) (k_xfer k) (k_woken k) (k_posts k) (k_envq k).
Definition kl_next_todo (k : kl) : kl :=
  mk_kl (k_bc k) (k_old k) (k_wake k) (k_allr k) (tl (k_todo k)) false (k_set k) (k_clr k) (k_q k) (k_rdrs k) (k_taken k) (k_xfer k) (k_woken k) (k_posts k) (k_envq k).
(* wake_waiters: [moved] went to the mutex queue, [stay] is what is left of to_wake_list; set_on_release, clear_on_release;
   ghost: what the environment reported about plain lockers on the mutex queue *)
Definition kl_set_xfer (k : kl) (stay moved : list nat) (s : Z) (clr : Z) (envq : bool) : kl :=
  mk_kl (k_bc k) (k_old k) stay (k_allr k) (k_todo k) (k_first k) s clr (k_q k) (k_rdrs k) (k_taken k) (k_xfer k ++ moved) (k_woken k) (k_posts k) envq.
(* wake_waiters: p was unlinked from to_wake_list ([rest] remains) and its waiting flag cleared *)
Definition kl_wake_one (k : kl) (rest : list nat) (p : nat) : kl :=
  mk_kl (k_bc k) (k_old k) rest (k_allr k) (k_todo k) (k_first k) (k_set k) (k_clr k) (k_q k) (k_rdrs k) (k_taken k) (k_xfer k) (k_woken k ++ [p]) (k_posts k) (k_envq k).
Definition kl_add_post (k : kl) (o : nat) : kl :=
  mk_kl (k_bc k) (k_old k) (k_wake k) (k_allr k) (k_todo k) (k_first k) (k_set k) (k_clr k) (k_q k) (k_rdrs k) (k_taken k) (k_xfer k) (k_woken k) (k_posts k ++ [o]) (k_envq k).
Definition nl_set_old (n : nl) (v : Z) : nl := mk_nl (n_r n) (n_dl n) v (n_wasq n) (n_rel n).
Definition nl_set_wasq (n : nl) (b : bool) : nl := mk_nl (n_r n) (n_dl n) (n_old n) b (n_rel n).
Definition nl_set_rel (n : nl) (o : option mode) : nl := mk_nl (n_r n) (n_dl n) (n_old n) (n_wasq n) o.

(* ---------- site ids: 100*function + ordinal of Gen/Sites.v ----------
   1 wake_waiters  2 nsync_cv_wait_with_deadline_generic  3 nsync_cv_signal  4 nsync_cv_broadcast
   5 cv_ready_time  6 cv_enqueue  7 cv_dequeue  8 nsync_spin_test_and_set_ *)
Definition OBJ_CV : Z := -1.
Definition OBJ_MU : Z := -2.
Definition oid (r : nat) : Z := Z.of_nat r.

(* ---------- selection under the cv spinlock ---------- *)
Definition is_rdr (x : rec) : bool := is_mucv x && is_R (l_type x).

(* nsync_cv_signal, first waiter a reader: all readers and the first non-reader *)
Fixpoint sig_scan (rs : nat -> rec) (q : list nat) (wokew : bool) : list nat * list nat * bool :=
  match q with
  | [] => ([], [], wokew)
  | p :: rest =>
      if is_rdr (rs p) then let '(wk, kp, ww) := sig_scan rs rest wokew in (p :: wk, kp, ww)
      else if negb wokew then let '(wk, kp, ww) := sig_scan rs rest true in (p :: wk, kp, ww)
      else let '(wk, kp, ww) := sig_scan rs rest wokew in (wk, p :: kp, ww)
  end.
(* (to_wake_list, remaining queue, all_readers) *)
Definition sel_signal (rs : nat -> rec) (q : list nat) : list nat * list nat * bool :=
  match q with
  | [] => ([], [], false)
  | first :: rest =>
      if is_rdr (rs first) then let '(wk, kp, ww) := sig_scan rs rest false in (first :: wk, kp, negb ww)
      else ([first], rest, false)
  end.
Definition sel_broadcast (rs : nat -> rec) (q : list nat) : list nat * list nat * bool :=
  (q, [], forallb (fun p => is_rdr (rs p)) q).

(* wake_waiters, the loop over the waiters after the first: (moved to the mutex queue, still to wake,
   transferred_a_writer, woke_areader) *)
Fixpoint xfer_rest (rs : nat -> rec) (fca fw : bool) (q : list nat) (taw war : bool) : list nat * list nat * bool * bool :=
  match q with
  | [] => ([], [], taw, war)
  | p :: rest =>
      let piw := is_mucv (rs p) && is_W (l_type (rs p)) in
      if negb (is_mucv (rs p)) || negb (cv_mu (rs p))      (* p_w == NULL || p_w->cv_mu != pmu (one mutex here: cv_mu != NULL means pmu); the F16 repair *)
      then let '(m, s, a, b) := xfer_rest rs fca fw rest taw war in (m, p :: s, a, b)
      else if fca || fw || piw then let '(m, s, a, b) := xfer_rest rs fca fw rest (taw || piw) war in (p :: m, s, a, b)
      else let '(m, s, a, b) := xfer_rest rs fca fw rest taw (war || negb piw) in (m, p :: s, a, b)
  end.
Definition xfer (rs : nat -> rec) (fca : bool) (wake : list nat) : list nat * list nat * Z :=
  match wake with
  | [] => ([], [], 0)
  | first :: rest =>
      let fw := is_W (l_type (rs first)) in
      let '(m, s, a, b) := xfer_rest rs fca fw rest (if fca then fw else false) (if fca then false else negb fw) in
      (if fca then first :: m else m, if fca then s else first :: s,
       if a && negb b then MU_WRITER_WAITING else 0)
  end.
(* apply g to the records listed in l *)
Fixpoint map_recs (g : rec -> rec) (l : list nat) (f : nat -> rec) : nat -> rec :=
  match l with [] => f | p :: l' => map_recs g l' (fupd f p (g (f p))) end.
(* wake_waiters: the records in l go to the mutex queue: w->cv_mu = NULL *)
Definition clear_cv_mu (rs : nat -> rec) (l : list nat) : nat -> rec := map_recs (fun x => r_set_loc (r_set_cv_mu x false) PMuq) l rs.

(* ---------- ABSTRACT mutex ---------- *)
(* wake_waiters, under the mutex spinlock: does the environment report a plain locker on the mutex queue? *)
Definition env_reports_queued (c : choice) : bool := match c with CMuEmpty => false | _ => true end.
(* wake_waiters: clear_on_release = MU_SPINLOCK; if (nsync_dll_is_empty_ (pmu->waiters)) clear_on_release |= MU_WAITING;
   q: the transferred records on the mutex queue, envq: the environment's report about the others *)
Definition clear_on_release (q : list nat) (envq : bool) : Z :=
  if is_nil q && negb envq then Z.lor MU_SPINLOCK MU_WAITING else MU_SPINLOCK.
Definition can_acquire (word : Z) (m : mode) : bool :=
  match m with
  | W => (word mod 2 =? 0) && (word / 256 =? 0)
  | R => (word mod 2 =? 0) && (word / 256 + 1 <? 16777216)
  end.
Definition mu_acquire (w : world) (t : nat) (m : mode) : world := set_held (set_muw w (muw w + add_of m)) t (Some m).
Definition mu_release (w : world) (t : nat) (m : mode) : world := set_held (set_muw w (muw w - add_of m)) t None.
Definition int_p (w : world) (t : nat) : world * ev :=     (* the P of nsync_mu_lock_slow_ inside an abstract acquisition *)
  if 0 <? sem w t then (set_sem w t (sem w t - 1), EvP 0) else (w, EvBlocked).
Definition is_acq_pc (p : pc) : bool := match p with MLock _ | WMuAcq _ | NMuAcq _ => true | _ => false end.
(* where the remove_count of a thread's waiter struct can be incremented by mutex code: the thread is queued on a
   mutex, i.e. inside an abstract acquisition of THE mutex, or between two calls (using some other nsync_mu) *)
Definition rc_env_ok (p : pc) : bool := match p with Idle => true | _ => is_acq_pc p end.

(* ---------- the step function ---------- *)
Definition begin_op (w : world) (t : nat) : world :=
  let s := get w t in
  match t_pc s, t_ops s with
  | Idle, o :: rest =>
      let w1 := set_t w t (mk_t Idle rest (held s) (rets s)) in
  match o with
      | OLock m => set_pc w1 t (match held s with None => MLock m | Some _ => Crash 4 end)
      | OUnlock => set_pc w1 t (match held s with Some _ => MUnlock | None => Crash 1 end)
      | OWait dl can gen => set_pc w1 t (WStore1 (mk_wl dl can gen (held s) false 0 0 0 0 None 0))
      | OSignal => set_pc w1 t (KLoadW false)
      | OBroadcast => set_pc w1 t (KLoadW true)
      | OWaitN dl =>
          let r := nrec w1 in
          let w2 := set_nrec (set_rec w1 r (mk_rec t 0 0 false None false true None PNone)) (S r) in
          set_pc w2 t (SpLoad true (KEnq (mk_nl r dl 0 false None)))
      end
  | _, _ => w
  end.

Definition spin_set (k : spk) : Z :=
  match k with KWaitEnq _ => Z.lor CV_SPINLOCK CV_NON_EMPTY | _ => CV_SPINLOCK end.

Definition enter_wake_loop (k : kl) : pc := match k_wake k with [] => Idle | _ => VStore k end.
(* ghost: wake_waiters has nothing left to wake: the nsync_cv_signal / broadcast call returns; log it *)
Definition wake_done (w : world) (t : nat) (k : kl) : world :=
  match k_wake k with [] => set_wlog w ((t, k) :: wlog w) | _ => w end.
Definition after_todo (k : kl) : pc := match k_todo k with [] => KStoreW k | _ => KRcLoad k end.
Definition rc_site (k : kl) : Z := if k_bc k then 402 else if k_first k then 302 else 304.

(* continuation of a successful nsync_spin_test_and_set_ *)
Definition spin_done (w : world) (t : nat) (k : spk) (old : Z) : world :=
  match k with
  | KWaitEnq l =>
      let w1 := upd_rec (set_cvq (touch_queue w) (cvq w ++ [t])) t (fun x => r_move x None PCvq) in
      set_pc w1 t (WLoadRc (wl_set_old l old))
  | KWaitTo l => set_pc w t (WLoad7 (wl_set_old l old))
  | KSig | KBc =>
      let bc := match k with KBc => true | _ => false end in
      let '(wk, kp, allr) := if bc then sel_broadcast (recs w) (cvq w) else sel_signal (recs w) (cvq w) in
      (* broadcast examines (flags, l_type) and unlinks every element; signal the first one and, if that is a native
         reader, every element *)
      let w1 := touch_queue w in
      let w2 := set_recs w1 (map_recs (fun x => r_move x (Some t) (PPriv t)) wk (recs w1)) in
      let old' := if is_nil (cvq w) then old else if is_nil kp then band old (bnot32 CV_NON_EMPTY) else old in
      let kk := mk_kl bc old' wk allr (filter (fun p => is_mucv (recs w p)) wk) (negb bc) 0 0
                      (cvq w) (filter (fun p => is_rdr (recs w p)) (cvq w)) wk [] [] [] false in
      set_pc (set_cvq w2 kp) t (after_todo kk)
  | KEnq n =>
      let w1 := upd_rec (touch (set_cvq (touch_queue w) (cvq w ++ [n_r n])) (n_r n)) (n_r n) (fun x => r_move x None PCvq) in
      set_pc w1 t (NEnqStore (nl_set_old n old))
  | KDeq n => set_pc w t (NDeqLoad (nl_set_old n old))
  end.

Definition wait_ret (w : world) (t : nat) (l : wl) : ret :=
  mk_ret true (w_out l) (w_entry l) (held (get w t)) t (taker (recs w t)) (w_dl l) (w_toclk l) (clock w) (w_can l)
         (notified w) (w_pafter l).
Definition waitn_ret (w : world) (t : nat) (n : nl) : ret :=
  mk_ret false (if n_wasq n then 1 else 0) (n_rel n) (held (get w t)) (n_r n) (taker (recs w (n_r n))) (n_dl n) None (clock w)
         false (notified w) 0.
(* the nsync_wait_n call is over: its record is dead from now on *)
Definition waitn_end (w : world) (t : nat) (n : nl) : world :=
  let w1 := upd_rec w (n_r n) (fun x => r_set_live x false) in
  match n_rel n with
  | Some _ => set_pc w1 t (NMuAcq n)
  | None => set_pc (add_ret w1 t (waitn_ret w1 t n)) t Idle
  end.

(* ---------- one definition per pc ---------- *)
Definition st_MLock (w : world) (t : nat) (m : mode) (c : choice) : world * ev :=
  match c with
  | CIntP => int_p w t
  | _ => if can_acquire (muw w) m then (set_pc (mu_acquire w t m) t Idle, EvMu true m) else (w, EvBlocked)
  end.
Definition st_MUnlock (w : world) (t : nat) (c : choice) : world * ev :=
  match held (get w t) with
  | Some m => (set_pc (mu_release w t m) t Idle, EvMu false m)
  | None => (set_pc w t (Crash 1), EvCrash)
  end.
(* ----- nsync_spin_test_and_set_ (&pcv->word, CV_SPINLOCK, set, 0) ----- *)
Definition st_SpLoad (w : world) (t : nat) (first : bool) (k : spk) (c : choice) : world * ev :=
  let old := cvw w in
  let site := if first then 801 else 803 in
  if nsync_spin_test_and_set_cas1_guard old CV_SPINLOCK then (set_pc w t (SpCas k old), EvLoad site OBJ_CV old)
  else (set_pc w t (SpLoad false k), EvLoad site OBJ_CV old).
Definition st_SpCas (w : world) (t : nat) (k : spk) (old : Z) (c : choice) : world * ev :=
  let new := nsync_spin_test_and_set_cas1_new old (spin_set k) 0 in
  if cvw w =? nsync_spin_test_and_set_cas1_old old
  then (spin_done (set_cvw w new) t k old, EvCas 802 OBJ_CV old new true)
  else (set_pc w t (SpLoad false k), EvCas 802 OBJ_CV old new false).
(* ----- nsync_cv_wait_with_deadline_generic ----- *)
Definition st_WStore1 (w : world) (t : nat) (l : wl) (c : choice) : world * ev :=
  let v := nsync_cv_wait_with_deadline_generic_store1_new in
  let w1 := upd_rec w t (fun x => r_set_assoc (r_set_waiting x v) None (negb (w_gen l))) in
  if nsync_cv_wait_with_deadline_generic_load1_guard (if w_gen l then 0 else 1)
  then (set_pc w1 t (WLoadMu l), EvStore 201 (oid t) v)
  else
    (* cv_mu == NULL: the caller's own lock routines.  ABSTRACT mutex: they are the shared or the exclusive routines of THE
       mutex of the model, whichever mode the caller holds; [w_rdr] (is_reader_mu in the C code, which stays 0 here) carries that
       for the two abstract steps [WMuRel] (the call of the caller's unlock routine) and [WMuAcq] (of its lock routine); no atomic
       site depends on it *)
    (set_pc w1 t (SpLoad true (KWaitEnq (wl_set_rdr l (is_R (held (get w t)))))), EvStore 201 (oid t) v).
Definition st_WLoadMu (w : world) (t : nat) (l : wl) (c : choice) : world * ev :=
  let old := muw w in
  let is_writer := has old MU_WHELD_IF_NON_ZERO in
  let is_reader := has old MU_RHELD_IF_NON_ZERO in
  if is_writer then
    if is_reader then (set_pc w t (Crash 5), EvLoad 202 OBJ_MU old)
    else (set_pc (upd_rec w t (fun x => r_set_assoc x (Some W) true)) t (SpLoad true (KWaitEnq l)), EvLoad 202 OBJ_MU old)
  else if is_reader then
    (set_pc (upd_rec w t (fun x => r_set_assoc x (Some R) true)) t (SpLoad true (KWaitEnq (wl_set_rdr l true))), EvLoad 202 OBJ_MU old)
  else (set_pc w t (Crash 6), EvLoad 202 OBJ_MU old).
Definition st_WLoadRc (w : world) (t : nat) (l : wl) (c : choice) : world * ev :=
  let v := rcount (recs w t) in
  (set_pc w t (WStoreRel (wl_set_rc l v)), EvLoad 203 (oid t) v).
Definition st_WStoreRel (w : world) (t : nat) (l : wl) (c : choice) : world * ev :=
  let v := nsync_cv_wait_with_deadline_generic_store2_new (w_old l) in
  (set_pc (set_cvw w v) t (WMuRel l), EvStore 204 OBJ_CV v).
Definition st_WMuRel (w : world) (t : nat) (l : wl) (c : choice) : world * ev := (* ABSTRACT: nsync_mu_runlock (cv_mu) / unlock (pmu) *)
  let m := if w_rdr l then R else W in
  match held (get w t) with
  | Some m' => if mode_eqb m m' then (set_pc (mu_release w t m) t (WLoop l), EvMu false m)
               else (set_pc w t (Crash 2), EvCrash)
  | None => (set_pc w t (Crash 2), EvCrash)
  end.
Definition st_WLoop (w : world) (t : nat) (l : wl) (c : choice) : world * ev :=
  let v := waiting (recs w t) in
  if v =? 0 then (set_pc w t (WMuAcq l), EvLoad 205 (oid t) v)
  else if w_so l =? 0 then (set_pc w t (WSem l), EvLoad 205 (oid t) v)
  else (set_pc w t (WLoad6 l), EvLoad 205 (oid t) v).
Definition st_WSem (w : world) (t : nat) (l : wl) (c : choice) : world * ev := (* nsync_sem_wait_with_cancel_ (w, abs_deadline, cancel_note) *)
  let next l' := if nsync_cv_wait_with_deadline_generic_load4_guard (w_so l') then WLoad6 l' else WLoad13 l' in
  match c with
  | CTimeout =>
      match w_dl l with
      | Some d => if d <=? clock w then let l' := wl_set_so l ETIMEDOUT (Some (clock w)) in (set_pc w t (next l'), EvP ETIMEDOUT)
                  else (w, EvBlocked)
      | None => (w, EvBlocked)
      end
  | CCancel =>
      if w_can l && (notified w || match expiry w with Some e => e <=? clock w | None => false end)
      then let l' := wl_set_so l ECANCELED None in (set_pc (set_notified w true) t (next l'), EvP ECANCELED)
      else (w, EvBlocked)
  | _ =>
      if 0 <? sem w t then (set_pc (set_sem w t (sem w t - 1)) t (next (wl_inc_pafter l)), EvP 0)
      else (w, EvBlocked)
  end.
Definition st_WLoad6 (w : world) (t : nat) (l : wl) (c : choice) : world * ev :=
  let v := waiting (recs w t) in
  if v =? 0 then (set_pc w t (WLoad13 l), EvLoad 206 (oid t) v)
  else (set_pc w t (SpLoad true (KWaitTo l)), EvLoad 206 (oid t) v).
Definition st_WLoad7 (w : world) (t : nat) (l : wl) (c : choice) : world * ev :=
  let v := waiting (recs w t) in
  if v =? 0 then (set_pc w t (WStoreW l), EvLoad 207 (oid t) v)
  else (set_pc w t (WLoad8 l), EvLoad 207 (oid t) v).
Definition st_WLoad8 (w : world) (t : nat) (l : wl) (c : choice) : world * ev :=
  let v := rcount (recs w t) in
  if w_rc l =? v then
    (* still in the cv waiter queue: remove *w, declare a timeout / cancellation *)
    let w1 := if mem_id t (cvq w) then upd_rec (set_cvq (touch_queue w) (remove_id t (cvq w))) t (fun x => r_move x (Some t) PNone) else w in
    (set_pc w1 t (WRcLoad (wl_set_out l (w_so l))), EvLoad 208 (oid t) v)
  else (set_pc w t (WStoreW l), EvLoad 208 (oid t) v).
Definition st_WRcLoad (w : world) (t : nat) (l : wl) (c : choice) : world * ev :=
  let v := rcount (recs w t) in (set_pc w t (WRcCas l v), EvLoad 209 (oid t) v).
Definition st_WRcCas (w : world) (t : nat) (l : wl) (old : Z) (c : choice) : world * ev :=
  let new := nsync_cv_wait_with_deadline_generic_cas1_new old in
  if rcount (recs w t) =? nsync_cv_wait_with_deadline_generic_cas1_old old then
    let l' := if is_nil (cvq w) then wl_set_old l (band (w_old l) (bnot32 CV_NON_EMPTY)) else l in
    (set_pc (upd_rec w t (fun x => r_set_rcount x new)) t (WStore0 l'), EvCas 210 (oid t) old new true)
  else (set_pc w t (WRcLoad l), EvCas 210 (oid t) old new false).
Definition st_WStore0 (w : world) (t : nat) (l : wl) (c : choice) : world * ev :=
  let v := nsync_cv_wait_with_deadline_generic_store3_new in
  (set_pc (upd_rec w t (fun x => r_set_waiting x v)) t (WStoreW l), EvStore 211 (oid t) v).
Definition st_WStoreW (w : world) (t : nat) (l : wl) (c : choice) : world * ev :=
  let v := nsync_cv_wait_with_deadline_generic_store4_new (w_old l) in
  (set_pc (set_cvw w v) t (WLoad13 l), EvStore 212 OBJ_CV v).
Definition st_WLoad13 (w : world) (t : nat) (l : wl) (c : choice) : world * ev :=
  let v := waiting (recs w t) in (set_pc w t (WLoop l), EvLoad 213 (oid t) v).
Definition st_WMuAcq (w : world) (t : nat) (l : wl) (c : choice) : world * ev := (* ABSTRACT: nsync_mu_lock_slow_ (cv_mu, w, MU_DESIG_WAKER, w->l_type) for a transferred waiter,
                 else nsync_mu_rlock (cv_mu) / lock (pmu); then return outcome *)
  match c with
  | CIntP => int_p w t
  | _ =>
      let x := recs w t in
      let m := if negb (w_gen l) && negb (cv_mu x) then match l_type x with Some m => m | None => W end
               else if w_rdr l then R else W in
      if can_acquire (muw w) m then
        let w1 := mu_acquire w t m in
        (set_pc (add_ret w1 t (wait_ret w1 t l)) t Idle, EvMu true m)
      else (w, EvBlocked)
  end.
(* ----- nsync_cv_signal / nsync_cv_broadcast ----- *)
Definition st_KLoadW (w : world) (t : nat) (bc : bool) (c : choice) : world * ev :=
  let v := cvw w in
  let site := if bc then 401 else 301 in
  if has v CV_NON_EMPTY then (set_pc w t (SpLoad true (if bc then KBc else KSig)), EvLoad site OBJ_CV v)
  else (set_pc w t Idle, EvLoad site OBJ_CV v).
Definition st_KRcLoad (w : world) (t : nat) (k : kl) (c : choice) : world * ev :=
  match k_todo k with
  | [] => (set_pc w t (KStoreW k), EvNone)
  | p :: _ => let v := rcount (recs w p) in (set_pc (touch w p) t (KRcCas k v), EvLoad (rc_site k) (oid p) v)
  end.
Definition st_KRcCas (w : world) (t : nat) (k : kl) (old : Z) (c : choice) : world * ev :=
  match k_todo k with
  | [] => (set_pc w t (KStoreW k), EvNone)
  | p :: _ =>
      let new := if k_bc k then nsync_cv_broadcast_cas1_new old
                 else if k_first k then nsync_cv_signal_cas1_new old else nsync_cv_signal_cas2_new old in
      if rcount (recs w p) =? old then
        (set_pc (upd_rec (touch w p) p (fun x => r_set_rcount x new)) t (after_todo (kl_next_todo k)),
         EvCas (rc_site k + 1) (oid p) old new true)
      else (set_pc w t (KRcLoad k), EvCas (rc_site k + 1) (oid p) old new false)
  end.
Definition st_KStoreW (w : world) (t : nat) (k : kl) (c : choice) : world * ev :=
  let v := if k_bc k then nsync_cv_broadcast_store1_new else nsync_cv_signal_store1_new (k_old k) in
  let site := if k_bc k then 404 else 306 in
  let w1 := set_cvw w v in
  match k_wake k with
  | [] => (set_pc (set_wlog w1 ((t, k) :: wlog w1)) t Idle, EvStore site OBJ_CV v)     (* the queue was empty: nothing to wake *)
  | first :: _ =>
      (* wake_waiters: pmu = first_w->cv_mu if the first waiter is a native one *)
      let x := recs w first in
      let pmu := if is_mucv x && cv_mu x then 1 else 0 in
      if wake_waiters_load1_guard pmu then (set_pc (touch w1 first) t (VLoad1 k), EvStore site OBJ_CV v)
      else (set_pc (touch w1 first) t (VStore k), EvStore site OBJ_CV v)
  end.
(* ----- wake_waiters ----- *)
Definition st_VLoad1 (w : world) (t : nat) (k : kl) (c : choice) : world * ev :=
  let old := muw w in
  match k_wake k with
  | [] => (set_pc (wake_done w t k) t Idle, EvNone)       (* unreachable: wake_waiters is called with a non-empty list *)
  | first :: rest =>
      (* first_w->l_type->zero_to_acquire: an access to the first record *)
      let fca := has old (match l_type (recs w first) with Some m => zta_of m | None => 0 end) in
      if has old MU_ANY_LOCK && negb (has old MU_SPINLOCK) && (fca || (negb (is_nil rest) && negb (k_allr k)))
      then (set_pc (touch w first) t (VCas1 k old), EvLoad 101 OBJ_MU old)
      else (set_pc (wake_done (touch w first) t k) t (enter_wake_loop k), EvLoad 101 OBJ_MU old)
  end.
Definition st_VCas1 (w : world) (t : nat) (k : kl) (old : Z) (c : choice) : world * ev :=
  let new := wake_waiters_cas1_new old in
  if muw w =? wake_waiters_cas1_old old then
    let fca := match k_wake k with
               | first :: _ => has old (match l_type (recs w first) with Some m => zta_of m | None => 0 end)
               | [] => false end in
    let '(moved, stay, set_on) := xfer (recs w) fca (k_wake k) in
    let w1 := touch_all (set_muw w new) (k_wake k) in
    let w2 := set_muq (set_recs w1 (clear_cv_mu (recs w1) moved)) (muq w1 ++ moved) in
    (* clear_on_release = MU_SPINLOCK, plus MU_WAITING if nsync_dll_is_empty_ (pmu->waiters) now, under the mutex spinlock, after
       the transfer (the repair of F15).  ABSTRACT mutex: pmu->waiters = the transferred records [muq] + the plain lockers the
       model does not see; whether one of THOSE is queued is the environment's report (the step's choice). *)
    let envq := env_reports_queued c in
    let clr := clear_on_release (muq w2) envq in
    (set_pc (set_mspin w2 (Some t)) t (VLoad3 (kl_set_xfer k stay moved set_on clr envq)), EvCas 102 OBJ_MU old new true)
  else (set_pc (wake_done w t k) t (enter_wake_loop k), EvCas 102 OBJ_MU old new false).
Definition st_VLoad3 (w : world) (t : nat) (k : kl) (c : choice) : world * ev :=
  (set_pc w t (VCas2 k (muw w)), EvLoad 103 OBJ_MU (muw w)).
Definition st_VCas2 (w : world) (t : nat) (k : kl) (old : Z) (c : choice) : world * ev :=
  let new := wake_waiters_cas2_new old (k_set k) (k_clr k) in
  if muw w =? wake_waiters_cas2_old old
  then (set_pc (wake_done (set_mspin (set_muw w new) None) t k) t (enter_wake_loop k), EvCas 104 OBJ_MU old new true)
  else (set_pc w t (VLoad5 k), EvCas 104 OBJ_MU old new false).
Definition st_VLoad5 (w : world) (t : nat) (k : kl) (c : choice) : world * ev :=
  (set_pc w t (VCas2 k (muw w)), EvLoad 105 OBJ_MU (muw w)).
Definition st_VStore (w : world) (t : nat) (k : kl) (c : choice) : world * ev :=
  match k_wake k with
  | [] => (set_pc (wake_done w t k) t Idle, EvNone)       (* unreachable *)
  | p :: rest =>
      (* p_sem = p_nw->sem (READ HERE, before the store: the repair of F3); next = nsync_dll_next_ (to_wake_list, p);
         unlink p from to_wake_list (the links of its neighbours on that list); ATM_STORE_REL (&p_nw->waiting, 0).
         After this store the code never accesses *p_nw again: the pc carries the semaphore's owner. *)
      let v := wake_waiters_store1_new in
      let o := owner (recs w p) in
      (set_pc (upd_rec (touch_all w (k_wake k)) p (fun x => r_set_loc (r_set_waiting x v) PNone)) t (VV (kl_wake_one k rest p) o),
       EvStore 106 (oid p) v)
  end.
(* nsync_mu_semaphore_v (p_sem): no access to the record *)
Definition st_VV (w : world) (t : nat) (k : kl) (o : nat) (c : choice) : world * ev :=
  let k' := kl_add_post k o in
  (set_pc (wake_done (set_sem w o (sem w o + 1)) t k') t (enter_wake_loop k'), EvV o).
(* ----- nsync_wait_n on the cv: cv_enqueue ----- *)
Definition st_NEnqStore (w : world) (t : nat) (n : nl) (c : choice) : world * ev :=
  let v := cv_enqueue_store1_new in
  (set_pc (upd_rec (touch w (n_r n)) (n_r n) (fun x => r_set_waiting x v)) t (NEnqRel n), EvStore 601 (oid (n_r n)) v).
Definition st_NEnqRel (w : world) (t : nat) (n : nl) (c : choice) : world * ev :=
  let v := cv_enqueue_store2_new (n_old n) in
  let w1 := set_cvw w v in
  match held (get w t) with
  | Some m => (set_pc w1 t (NMuRel (nl_set_rel n (Some m))), EvStore 602 OBJ_CV v)
  | None => (set_pc w1 t (NReady n), EvStore 602 OBJ_CV v)
  end.
Definition st_NMuRel (w : world) (t : nat) (n : nl) (c : choice) : world * ev := (* ABSTRACT: unlock (mu) *)
  match held (get w t) with
  | Some m => (set_pc (mu_release w t m) t (NReady n), EvMu false m)
  | None => (set_pc w t (Crash 2), EvCrash)
  end
  (* cv_ready_time (v, &nw[j]) and the sleep of nsync_wait_n *).
Definition st_NReady (w : world) (t : nat) (n : nl) (c : choice) : world * ev :=
  let v := waiting (recs w (n_r n)) in
  if cv_ready_time_load1_guard 1 then
    if v =? 0 then (set_pc (touch w (n_r n)) t (SpLoad true (KDeq n)), EvLoad 501 (oid (n_r n)) v)
    else (set_pc (touch w (n_r n)) t (NSem n), EvLoad 501 (oid (n_r n)) v)
  else (set_pc w t (Crash 7), EvCrash).
Definition st_NSem (w : world) (t : nat) (n : nl) (c : choice) : world * ev := (* nsync_mu_semaphore_p_with_deadline (&w->sem, abs_deadline) *)
  match c with
  | CTimeout =>
      match n_dl n with
      | Some d => if d <=? clock w then (set_pc w t (SpLoad true (KDeq n)), EvP ETIMEDOUT) else (w, EvBlocked)
      | None => (w, EvBlocked)
      end
  | _ => if 0 <? sem w t then (set_pc (set_sem w t (sem w t - 1)) t (NReady n), EvP 0) else (w, EvBlocked)
  end
  (* cv_dequeue *).
Definition st_NDeqLoad (w : world) (t : nat) (n : nl) (c : choice) : world * ev :=
  let r := n_r n in
  let v := waiting (recs w r) in
  (* if not yet woken: the walk over pcv->waiters looking for &nw->q *)
  let w0' := touch (if v =? 0 then w else touch_queue w) r in
  if (negb (v =? 0)) && cv_dequeue_store1_guard (if mem_id r (cvq w) then 1 else 0) then
    (* not yet woken and still on pcv->waiters: unlink it *)
    let w1 := upd_rec (set_cvq w0' (remove_id r (cvq w))) r (fun x => r_move x (Some t) PNone) in
    let n' := nl_set_wasq n true in
    let n'' := if is_nil (cvq w1) then nl_set_old n' (band (n_old n) (bnot32 CV_NON_EMPTY)) else n' in
    (set_pc w1 t (NDeqStore n''), EvLoad 701 (oid r) v)
  else
    let n' := if is_nil (cvq w) then nl_set_old n (band (n_old n) (bnot32 CV_NON_EMPTY)) else n in
    (set_pc w0' t (NDeqRel n'), EvLoad 701 (oid r) v).
Definition st_NDeqStore (w : world) (t : nat) (n : nl) (c : choice) : world * ev :=
  let v := cv_dequeue_store1_new in
  (set_pc (upd_rec (touch w (n_r n)) (n_r n) (fun x => r_set_waiting x v)) t (NDeqRel n), EvStore 702 (oid (n_r n)) v).
Definition st_NDeqRel (w : world) (t : nat) (n : nl) (c : choice) : world * ev :=
  let v := cv_dequeue_store2_new (n_old n) in
  let w1 := set_cvw w v in
  if cv_dequeue_load2_guard (if n_wasq n then 1 else 0) then (set_pc w1 t (NDeqSpin n), EvStore 703 OBJ_CV v)
  else (waitn_end w1 t n, EvStore 703 OBJ_CV v).
Definition st_NDeqSpin (w : world) (t : nat) (n : nl) (c : choice) : world * ev :=
  let v := waiting (recs w (n_r n)) in
  let w1 := touch w (n_r n) in
  if v =? 0 then (waitn_end w1 t n, EvLoad 704 (oid (n_r n)) v)
  else (w1, EvLoad 704 (oid (n_r n)) v).
Definition st_NMuAcq (w : world) (t : nat) (n : nl) (c : choice) : world * ev := (* ABSTRACT: lock (mu) *)
  match c with
  | CIntP => int_p w t
  | _ =>
      let m := match n_rel n with Some m => m | None => W end in
      if can_acquire (muw w) m then
        let w1 := mu_acquire w t m in
        (set_pc (add_ret w1 t (waitn_ret w1 t n)) t Idle, EvMu true m)
      else (w, EvBlocked)
  end.

(* one step of thread t from its current pc *)
Definition step_core (w : world) (t : nat) (c : choice) : world * ev :=
  match t_pc (get w t) with
  | Idle => (w, EvNone)
  | Crash _ => (w, EvCrash)
  | MLock m => st_MLock w t m c
  | MUnlock => st_MUnlock w t c
  | SpLoad first k => st_SpLoad w t first k c
  | SpCas k old => st_SpCas w t k old c
  | WStore1 l => st_WStore1 w t l c
  | WLoadMu l => st_WLoadMu w t l c
  | WLoadRc l => st_WLoadRc w t l c
  | WStoreRel l => st_WStoreRel w t l c
  | WMuRel l => st_WMuRel w t l c
  | WLoop l => st_WLoop w t l c
  | WSem l => st_WSem w t l c
  | WLoad6 l => st_WLoad6 w t l c
  | WLoad7 l => st_WLoad7 w t l c
  | WLoad8 l => st_WLoad8 w t l c
  | WRcLoad l => st_WRcLoad w t l c
  | WRcCas l old => st_WRcCas w t l old c
  | WStore0 l => st_WStore0 w t l c
  | WStoreW l => st_WStoreW w t l c
  | WLoad13 l => st_WLoad13 w t l c
  | WMuAcq l => st_WMuAcq w t l c
  | KLoadW bc => st_KLoadW w t bc c
  | KRcLoad k => st_KRcLoad w t k c
  | KRcCas k old => st_KRcCas w t k old c
  | KStoreW k => st_KStoreW w t k c
  | VLoad1 k => st_VLoad1 w t k c
  | VCas1 k old => st_VCas1 w t k old c
  | VLoad3 k => st_VLoad3 w t k c
  | VCas2 k old => st_VCas2 w t k old c
  | VLoad5 k => st_VLoad5 w t k c
  | VStore k => st_VStore w t k c
  | VV k o => st_VV w t k o c
  | NEnqStore n => st_NEnqStore w t n c
  | NEnqRel n => st_NEnqRel w t n c
  | NMuRel n => st_NMuRel w t n c
  | NReady n => st_NReady w t n c
  | NSem n => st_NSem w t n c
  | NDeqLoad n => st_NDeqLoad w t n c
  | NDeqStore n => st_NDeqStore w t n c
  | NDeqRel n => st_NDeqRel w t n c
  | NDeqSpin n => st_NDeqSpin w t n c
  | NMuAcq n => st_NMuAcq w t n c
  end.

(* a thread step: fetch the next operation of the program if the thread is idle, then one step *)
Definition step_thr (w0 : world) (t : nat) (c : choice) : world * ev := step_core (begin_op w0 t) t c.

(* flag bits of the mutex word: everything but the lock field *)
Definition mu_flags (v : Z) : Z := band v (bnot32 MU_ANY_LOCK).
Definition mu_lockf (v : Z) : Z := band v MU_ANY_LOCK.

Definition step (w : world) (a : actor) (c : choice) : world * ev :=
  match a with
  | Thr t => step_thr w t c
  | Tick dt => if 0 <=? dt then (set_clock w (clock w + dt), EvEnv true) else (w, EvEnv false)
  | Notify => (set_notified w true, EvEnv true)
  (* ----- ABSTRACT mutex internals ----- *)
  | MuEnv f =>
      let f' := mu_flags (wrap_u 32 f) in
      if match mspin w with Some _ => has f' MU_SPINLOCK | None => true end
      then (set_muw w (mu_lockf (muw w) + f'), EvEnv true) else (w, EvEnv false)
  | MuDeq r =>      (* nsync_remove_from_mu_queue_ is only called with the mutex spinlock held: never while a wake_waiters of the
                       model owns it *)
      if match mspin w with None => mem_id r (muq w) | Some _ => false end then
        let x := recs w r in
        (set_mwake (set_muq (set_rec w r (r_set_loc (r_set_rcount x (wrap_u 32 (rcount x + 1))) PMwake)) (remove_id r (muq w))) (mwake w ++ [r]), EvEnv true)
      else (w, EvEnv false)
  | MuWakeSt r =>
      if mem_id r (mwake w) then
        (* nsync_mu_unlock_slow_: ATM_STORE_REL (&w->nw.waiting, 0); the nsync_mu_semaphore_v (&w->sem) that ALWAYS follows
           is the [EnvV] step that pays the post owed from here on *)
        let u := owner (recs w r) in
        (set_owed (set_mwake (upd_rec w r (fun x => r_set_loc (r_set_waiting x 0) PNone)) (remove_id r (mwake w))) u (owed w u + 1), EvEnv true)
      else (w, EvEnv false)
  | EnvV t =>      (* a post of thread t's semaphore by mutex code: the one owed by an unlocker, if any; otherwise a stale post *)
      let w1 := if 0 <? owed w t then set_owed w t (owed w t - 1) else w in
      (set_sem w1 t (sem w1 t + 1), EvEnv true)
  | EnvRc r =>     (* only the waiter struct of a thread has a remove_count *)
      let x := recs w r in
      if Nat.ltb r (length (thr w)) && is_mucv x && rc_env_ok (t_pc (get w (owner x))) && negb (mem_id r (cvq w))
      then (set_rec w r (r_set_rcount x (wrap_u 32 (rcount x + 1))), EvEnv true) else (w, EvEnv false)
  | EnvP t =>
      match t_pc (get w t) with
      | Idle => if 0 <? sem w t then (set_sem w t (sem w t - 1), EvEnv true) else (w, EvEnv false)
      | _ => (w, EvEnv false)
      end
  end.

Definition init (progs : list (list op)) (clock0 : Z) (exp : option Z) : world :=
  mk_w 0 [] rec0 (length progs) (fun _ => 0) 0 [] [] None clock0 false exp
       (map (fun p => mk_t Idle p None []) progs) 0 (fun _ => 0) [].

Definition run (w : world) (sched : list (actor * choice)) : world :=
  fold_left (fun w ac => fst (step w (fst ac) (snd ac))) sched w.
