(* Happens-before instrumentation of MuWaitModel executions (C03: the mutex of mu.c + mu_wait.c, including
   nsync_mu_wait_with_deadline, nsync_mu_unlock_without_wakeup and mu_try_acquire_after_timeout_or_cancel with its two
   plain release STORES to the mutex word, mu_wait.c:106 and :111).

   Same operational release/acquire semantics as Model/HbModel.v / HbOnce.v / HbCounter.v ([view], [vle], [vjoin],
   [vtick], [has_acq], [has_rel], [order_at] of HbModel are reused; C++20 release sequences):

     release store      rel_x := V_t                    relaxed store   rel_x := bottom  (the release sequence is BROKEN)
     successful RMW     V_t := V_t join rel_x  (if acquire);   rel_x := rel_x join V_t (if release)
                        (a relaxed RMW leaves rel_x alone: it continues the release sequence)
     acquire load       V_t := V_t join rel_x           relaxed load / failed CAS: nothing

   Locations: the mutex word, and the `waiting' flag of every waiter record (a record is named by its thread, as in
   MuWaitModel).  remove_count and the semaphores carry no ordering here: the sleeping primitive gets NO credit.
   Views are driven ONLY by the order Gen/Sites.v records for the site of the event MuWaitModel's [step] returns, and
   only if the inventory agrees that this site IS an access of the event's KIND (CAS / load / store) to the event's
   OBJECT (the mutex word: target "word.mu", or the parameter "w" of nsync_spin_test_and_set_, which the model calls on
   &mu->word only; a waiting flag: a target "waiting.<...>"); otherwise the access is treated as relaxed.
   MuWaitModel is not re-implemented: its [step] runs alongside and the instrumentation consumes the event it returns.
   Definitions only; proofs in Proof/HbMuWaitProof.v. *)
From NsyncBase Require Import CSem.
From NsyncGen Require Import Consts Sites.
From NsyncModel Require Import HbModel.
From Coq Require Import List ZArith Bool String.
(* MuWaitModel last: its [get], [mode], [ev], [step], [init] ... must win *)
From NsyncModel Require Import MuWaitModel.
Import ListNotations.
Local Open Scope Z_scope.

(* ---------- orders, from the inventory ---------- *)
(* MuWaitModel's site ids: 100 * function + ordinal in Gen/Sites.v *)
Definition mw_fn_of_site (s : Z) : string :=
  match s / 100 with
  | 1 => "nsync_mu_lock" | 2 => "nsync_mu_rlock" | 3 => "nsync_mu_trylock" | 4 => "nsync_mu_rtrylock"
  | 5 => "nsync_mu_lock_slow_" | 6 => "mu_release_spinlock" | 7 => "nsync_mu_unlock" | 8 => "nsync_mu_runlock"
  | 9 => "nsync_mu_unlock_slow_" | 10 => "nsync_mu_wait_with_deadline" | 11 => "mu_try_acquire_after_timeout_or_cancel"
  | 12 => "nsync_mu_unlock_without_wakeup" | 13 => "nsync_remove_from_mu_queue_" | 14 => "nsync_spin_test_and_set_"
  | _ => ""
  end%string.
(* the file the function is in *)
Definition mw_sites_of_site (s : Z) : list site :=
  match s / 100 with
  | 10 | 11 | 12 => sites_mu_wait_c
  | 14 => sites_common_c
  | _ => sites_mu_c
  end.
Definition mw_ord_of_site (s : Z) : nat := Z.to_nat (s mod 100).
(* how the mutex word is named at that site *)
Definition mw_word_target (s : Z) : string := if s / 100 =? 14 then "w"%string else "word.mu"%string.

(* order of site s, provided it is an access of kind k to the mutex word *)
Definition mw_word_order (k : akind) (s : Z) : aorder :=
  order_at (mw_sites_of_site s) (mw_fn_of_site s) (mw_ord_of_site s) k (mw_word_target s).
(* order of site s, provided it is an access of kind k to the `waiting' flag of some waiter record *)
Definition mw_waiting_order (k : akind) (s : Z) : aorder :=
  match find (fun x => String.eqb (s_fn x) (mw_fn_of_site s) && Nat.eqb (s_ord x) (mw_ord_of_site s)) (mw_sites_of_site s) with
  | Some x => if akind_eqb (s_kind x) k && String.prefix "waiting." (s_target x) then s_order x else Orlx
  | None => Orlx
  end.

(* ---------- the instrumentation ---------- *)
Record mhb := mk_mhb { mviews : nat -> view;          (* per thread *)
                       mrel_word : view;              (* release view of the current value of the mutex word *)
                       mrel_waiting : nat -> view }.  (* release view of the waiting flag of thread p's waiter record *)
Definition mhb0 : mhb := mk_mhb (fun _ => vbot) vbot (fun _ => vbot).

Definition vupd (f : nat -> view) (k : nat) (v : view) : nat -> view := fun x => if Nat.eqb x k then v else f x.

(* effect of one MuWaitModel event of thread t on the happens-before state *)
Definition mhb_thread_step (h : mhb) (t : nat) (e : ev) : mhb :=
  let vt := vtick (mviews h t) t in
  match e with
  | EvCas s _ _ true =>                       (* successful compare-and-swap on the mutex word *)
      let o := mw_word_order Kcas s in
      let v := if has_acq o then vjoin vt (mrel_word h) else vt in
      mk_mhb (vupd (mviews h) t v) (if has_rel o then vjoin (mrel_word h) v else mrel_word h) (mrel_waiting h)
  | EvLoad s _ =>                             (* load of the mutex word *)
      mk_mhb (vupd (mviews h) t (if has_acq (mw_word_order Kload s) then vjoin vt (mrel_word h) else vt))
             (mrel_word h) (mrel_waiting h)
  | EvStoreWord s _ =>                        (* plain store to the mutex word: heads a release sequence or breaks it *)
      mk_mhb (vupd (mviews h) t vt) (if has_rel (mw_word_order Kstore s) then vt else vbot) (mrel_waiting h)
  | EvStoreW s p _ =>                         (* store to the waiting flag of p's record *)
      mk_mhb (vupd (mviews h) t vt) (mrel_word h)
             (vupd (mrel_waiting h) p (if has_rel (mw_waiting_order Kstore s) then vt else vbot))
  | EvLoadW s _ =>                            (* load of the thread's own waiting flag *)
      mk_mhb (vupd (mviews h) t (if has_acq (mw_waiting_order Kload s) then vjoin vt (mrel_waiting h t) else vt))
             (mrel_word h) (mrel_waiting h)
  | _ => mk_mhb (vupd (mviews h) t vt) (mrel_word h) (mrel_waiting h)
  end.

Definition actor_thread (a : actor) : option nat := match a with Thr t _ => Some t | _ => None end.
(* the environment (clock, cancel note, the note's V) carries no ordering *)
Definition mhb_step (h : mhb) (a : actor) (e : ev) : mhb :=
  match actor_thread a with Some t => mhb_thread_step h t e | None => h end.
Definition mview_of (h : mhb) (a : actor) : view :=
  match actor_thread a with Some t => mviews h t | None => vbot end.

(* run the model and the instrumentation together; per step: actor, world before and after, event, the acting
   thread's view before and after the step *)
Record mobs := mk_mobs { mo_a : actor; mo_w : world; mo_w' : world; mo_ev : ev; mo_pre : view; mo_view : view }.

Fixpoint run_hb_muwait (w : world) (h : mhb) (sched : list actor) : list mobs :=
  match sched with
  | [] => []
  | a :: rest =>
      let '(w', e) := step w a in
      let h' := mhb_step h a e in
      mk_mobs a w w' e (mview_of h a) (mview_of h' a) :: run_hb_muwait w' h' rest
  end.

(* ---------- vocabulary of the statements: the model's own ghost [held] ---------- *)
(* [held] = the lock bits of the word the thread owns.  A step RELEASES the mutex when the acting thread owned lock bits
   before it and owns none after it: the release CAS of nsync_mu_unlock / nsync_mu_runlock / nsync_mu_unlock_without_wakeup
   (fast path or nsync_mu_unlock_slow_, early or late release), the ATM_CAS_REL of nsync_mu_wait_with_deadline that
   enqueues the caller and releases "by blocking" (mu_wait.c:226), the back-out ATM_STORE_REL of
   mu_try_acquire_after_timeout_or_cancel (mu_wait.c:111).  It ACQUIRES it when the thread owned none before and owns
   some after: nsync_mu_lock / rlock / trylock / rtrylock (fast path, nsync_mu_lock_slow_), the re-acquisition inside
   nsync_mu_wait_with_deadline after a wake-up (nsync_mu_lock_slow_) and after a timeout or a cancellation (the
   ATM_CAS_ACQ of mu_try_acquire_after_timeout_or_cancel, mu_wait.c:73). *)
Definition mw_release (ob : mobs) : Prop :=
  exists t, actor_thread (mo_a ob) = Some t /\ held (get (mo_w ob) t) <> None /\ held (get (mo_w' ob) t) = None.
Definition mw_acquire (ob : mobs) : Prop :=
  exists t, actor_thread (mo_a ob) = Some t /\ held (get (mo_w ob) t) = None /\ held (get (mo_w' ob) t) <> None.

(* finer vocabulary, for the lemma that says which events these steps are and for the examples *)
Definition mw_cas_at (s : Z) (ob : mobs) : Prop := exists o n, mo_ev ob = EvCas s o n true.
Definition mw_store_at (s : Z) (ob : mobs) : Prop := exists n, mo_ev ob = EvStoreWord s n.
(* sites at which the model gives up lock bits / takes lock bits *)
Definition mw_release_cas_sites : list Z := [701; 703; 801; 803; 902; 903; 905; 1005; 1201; 1203].
Definition mw_release_store_sites : list Z := [1109].
Definition mw_acquire_cas_sites : list Z := [101; 103; 201; 203; 301; 303; 401; 403; 502; 1102].

(* the wake-up edge of the mutex: nsync_mu_unlock_slow_ stores waiting := 0 on p's record; p's loop re-checks it *)
Definition mw_wakes (p : nat) (ob : mobs) : Prop :=
  exists t, actor_thread (mo_a ob) = Some t /\ mo_ev ob = EvStoreW 907 p 0 /\ t <> p.
Definition mw_stores_waiting (p : nat) (ob : mobs) : Prop := exists s v, mo_ev ob = EvStoreW s p v.
Definition mw_sees_woken (p : nat) (ob : mobs) : Prop :=
  actor_thread (mo_a ob) = Some p /\ (mo_ev ob = EvLoadW 505 0 \/ mo_ev ob = EvLoadW 1006 0).
