(* CvDbgModel: the cv debug-state functions of internal/debug.c as participants of the condition-variable model.

   A WRAPPER around Model/CvModel.v (as MuDbgModel.v is around MuModel.v): a combined world is a CvModel.world plus a
   list of DEBUGGER threads running
     CState            nsync_cv_debug_state              emit_cv_state (blocking = 0, print_waiters = 0)
     CStateWaiters     nsync_cv_debug_state_and_waiters  emit_cv_state (1, 1)
     CDebugger         nsync_cv_debugger                 emit_cv_state (0, 1)
   with a pc over the atomic sites of emit_cv_state, nsync_spin_test_and_set_ (common.c) and emit_waiters.
   CvModel's actors (threads, clock, note, abstract mutex) step with CvModel.step UNCHANGED.

   emit_cv_state releases the spinlock with a PLAIN STORE of the value nsync_spin_test_and_set_ returned (the word before
   the acquiring CAS): ATM_STORE_REL (&cv->word, word).  That is correct only because every write of cv->word by cv.c
   happens under CV_SPINLOCK (Proof/CvDbgProof.v proves that the word cannot change while a debugger owns the spinlock).
   Values and guards from Gen/Sites.v: nsync_spin_test_and_set_cas1_guard/_new, emit_cv_state_store1_new/_guard.
   The branch that decides to take the spinlock (debug.c:245-246) is hand-written with the masks of Gen/Consts.v.

   emit_waiters walks cv->waiters; for a record that is not embedded in a waiter struct (an nsync_wait_n record:
   flags & NSYNC_WAITER_FLAG_MUCV == 0) DLL_WAITER computes a pointer in front of the caller's nsync_waiter_s, the tag
   test fails ("bad WAITER_TAG"), no atomic load is made and the loop ends (next stays NULL): the locked walk of the
   model covers the native records in front of the first such record.  [recs] bounds the number of records printed
   (capacity of the text buffer), [loads] is the number of relaxed loads of an UNLOCKED walk (see MuDbgModel.v).
   Ghost: c_owner, c_read (records read under the lock), c_unsafe.  No proofs in this file. *)
From NsyncBase Require Import CSem.
From NsyncGen Require Import Consts Sites.
From NsyncModel Require Import CvModel.
From Coq Require Import List ZArith Bool.
Import ListNotations.
Local Open Scope Z_scope.

Inductive cdop := CState | CStateWaiters (recs loads : nat) | CDebugger (recs loads : nat).

Record cdcall := mk_cdcall { cc_blocking : bool; cc_print : bool; cc_recs : nat; cc_loads : nat }.
Definition ccall_of (o : cdop) : cdcall :=
  match o with
  | CState => mk_cdcall false false 0 0
  | CStateWaiters r l => mk_cdcall true true r l
  | CDebugger r l => mk_cdcall false true r l
  end.

Inductive cdpc :=
| CIdle
| CLoad (c : cdcall)                          (* emit_cv_state: word = ATM_LOAD (&cv->word)                  debug.c:244 *)
| CSpinLoad (c : cdcall) (first : bool)       (* nsync_spin_test_and_set_: old = ATM_LOAD (w)          common.c:105 / 108 *)
| CSpinCas (c : cdcall) (old : Z)             (* nsync_spin_test_and_set_: ATM_CAS_ACQ (w, old, ...)         common.c:106 *)
| CWalkW (word : Z) (p : nat) (rest : list nat)   (* emit_waiters under the lock: ATM_LOAD (&nw->waiting)     debug.c:166 *)
| CWalkR (word : Z) (p : nat) (rest : list nat)   (* emit_waiters under the lock: ATM_LOAD (&w->remove_count) debug.c:173 *)
| CRelStore (word : Z)                        (* emit_cv_state: ATM_STORE_REL (&cv->word, word)              debug.c:257 *)
| CWalkU (n : nat).                           (* emit_waiters WITHOUT the lock: n relaxed loads still to make *)

Record cdstate := mk_cd { c_pc : cdpc; c_ops : list cdop; c_owner : bool; c_read : list nat; c_unsafe : nat }.
Record cdworld := mk_cdw { cbase : world; cdbg : list cdstate }.

Inductive cwho := CBase (a : actor) (c : choice) | CDbg (d : nat).

Inductive cdev :=
| CEvBase (e : ev)
| CEvLoad (site : Z) (v : Z)                     (* a load of cv->word *)
| CEvCas (site : Z) (old new : Z) (ok : bool)
| CEvStore (site : Z) (old new : Z)              (* the releasing store: previous value, value stored *)
| CEvReadWaiting (r : nat) (v : Z)               (* under the lock: waiting flag of record r *)
| CEvReadRemove (r : nat) (v : Z)                (* under the lock: remove_count of record r *)
| CEvReadUnsafe
| CEvNone.
(* site ids: 1000 nsync_spin_test_and_set_, 1100 emit_waiters, 1300 emit_cv_state (+ ordinal in Gen/Sites.v) *)

Definition dflt_cd := mk_cd CIdle [] false [] 0.
Definition cdget (w : cdworld) (d : nat) : cdstate := nth d (cdbg w) dflt_cd.
Definition cdset (w : cdworld) (d : nat) (s : cdstate) : cdworld := mk_cdw (cbase w) (lupd (cdbg w) d s).
Definition cdset_pc (w : cdworld) (d : nat) (p : cdpc) : cdworld :=
  let s := cdget w d in cdset w d (mk_cd p (c_ops s) (c_owner s) (c_read s) (c_unsafe s)).
Definition cdset_base (w : cdworld) (b : world) : cdworld := mk_cdw b (cdbg w).
Definition cdset_owner (w : cdworld) (d : nat) (o : bool) : cdworld :=
  let s := cdget w d in cdset w d (mk_cd (c_pc s) (c_ops s) o (c_read s) (c_unsafe s)).
Definition cdnote_read (w : cdworld) (d : nat) (p : nat) : cdworld :=
  let s := cdget w d in cdset w d (mk_cd (c_pc s) (c_ops s) (c_owner s) (c_read s ++ [p]) (c_unsafe s)).
Definition cdnote_unsafe (w : cdworld) (d : nat) : cdworld :=
  let s := cdget w d in cdset w d (mk_cd (c_pc s) (c_ops s) (c_owner s) (c_read s) (S (c_unsafe s))).

(* the native records in front of the first nsync_wait_n record *)
Fixpoint natives (rs : nat -> rec) (q : list nat) : list nat :=
  match q with
  | [] => []
  | p :: rest => if is_mucv (rs p) then p :: natives rs rest else []
  end.

(* emit_cv_state after emit_waiters: "if (acquired)" decides whether the releasing store is made *)
Definition cafter_walk (acquired : Z) (word : Z) : cdpc := if emit_cv_state_store1_guard acquired then CRelStore word else CIdle.
Definition cwalk_pc (word : Z) (rest : list nat) : cdpc :=
  match rest with p :: r => CWalkW word p r | [] => cafter_walk 1 word end.
Definition cwalku_pc (n : nat) : cdpc := match n with S _ => CWalkU n | O => cafter_walk 0 0 end.

(* debug.c:245-246 *)
Definition cwants_spinlock (c : cdcall) (v : Z) : bool :=
  has v CV_NON_EMPTY && cc_print c && (cc_blocking c || negb (has v CV_SPINLOCK)).

Definition cdbegin (w : cdworld) (d : nat) : cdworld :=
  let s := cdget w d in
  match c_pc s, c_ops s with
  | CIdle, o :: rest => cdset w d (mk_cd (CLoad (ccall_of o)) rest (c_owner s) (c_read s) (c_unsafe s))
  | _, _ => w
  end.

Definition cdbg_step (w0 : cdworld) (d : nat) : cdworld * cdev :=
  let w := cdbegin w0 d in
  let b := cbase w in
  match c_pc (cdget w d) with
  | CIdle => (w, CEvNone)
  | CLoad c =>
      let v := cvw b in
      let p := if cwants_spinlock c v then CSpinLoad c true
               else if cc_print c then cwalku_pc (cc_loads c) else CIdle in
      (cdset_pc w d p, CEvLoad 1301 v)
  | CSpinLoad c first =>
      let v := cvw b in
      let site := if first then 1001 else 1003 in
      if nsync_spin_test_and_set_cas1_guard v CV_SPINLOCK
      then (cdset_pc w d (CSpinCas c v), CEvLoad site v)
      else (cdset_pc w d (CSpinLoad c false), CEvLoad site v)
  | CSpinCas c old =>
      let new := nsync_spin_test_and_set_cas1_new old CV_SPINLOCK 0 in
      if cvw b =? nsync_spin_test_and_set_cas1_old old
      then (cdset_pc (cdset_owner (cdset_base w (set_cvw b new)) d true) d
                     (cwalk_pc old (natives (recs b) (firstn (cc_recs c) (cvq b)))),
            CEvCas 1002 old new true)
      else (cdset_pc w d (CSpinLoad c false), CEvCas 1002 old new false)
  | CWalkW word p rest =>
      (cdset_pc (cdnote_read w d p) d (CWalkR word p rest), CEvReadWaiting p (waiting (recs b p)))
  | CWalkR word p rest => (cdset_pc w d (cwalk_pc word rest), CEvReadRemove p (rcount (recs b p)))
  | CRelStore word =>
      let v := emit_cv_state_store1_new word in
      (cdset_pc (cdset_owner (cdset_base w (set_cvw b v)) d false) d CIdle, CEvStore 1302 (cvw b) v)
  | CWalkU n => (cdset_pc (cdnote_unsafe w d) d (cwalku_pc (pred n)), CEvReadUnsafe)
  end.

Definition cdstep (w : cdworld) (a : cwho) : cdworld * cdev :=
  match a with
  | CBase a c => let '(b1, e) := step (cbase w) a c in (cdset_base w b1, CEvBase e)
  | CDbg d => cdbg_step w d
  end.

Definition cdinit (progs : list (list op)) (clock0 : Z) (exp : option Z) (dprogs : list (list cdop)) : cdworld :=
  mk_cdw (init progs clock0 exp) (map (fun p => mk_cd CIdle p false [] 0) dprogs).

Definition cdrun (w : cdworld) (sched : list cwho) : cdworld := fold_left (fun w a => fst (cdstep w a)) sched w.
