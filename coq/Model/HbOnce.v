(* Happens-before instrumentation of OnceModel executions (C03, once hand-off).
   Same operational release/acquire semantics as Model/HbModel.v (whose [view], [vle], [vjoin], [vtick], [has_acq],
   [has_rel] are reused), now with one release view PER ONCE WORD and with plain stores:

     release store      rel_x := V_t                    relaxed store   rel_x := bottom  (it heads no release sequence)
     successful RMW     V_t := V_t join rel_x  (if acquire);   rel_x := rel_x join V_t (if release)
                        (a relaxed RMW leaves rel_x alone: it continues the release sequence)
     acquire load       V_t := V_t join rel_x           relaxed load / failed CAS: nothing

   The order of every access is the one the C source requests, looked up in the REGENERATED inventory
   Gen/Sites.v (sites_once_c); a site that is missing, has another kind than the event the model emits, or is not an
   access to the once word, gets no ordering credit (relaxed).  OnceModel is not re-implemented: its [step] runs
   alongside and the instrumentation consumes the event it returns; the once word an event is on is read off the pc the
   model's own [begin_call] leaves the thread at.  Definitions only; proofs in Proof/HbOnceProof.v. *)
From NsyncBase Require Import CSem.
From NsyncGen Require Import Consts Sites.
From NsyncModel Require Import HbModel.
From Coq Require Import List ZArith Bool String.
(* OnceModel last: its [get] must win over Coq.Strings.String.get *)
From NsyncModel Require Import OnceModel.
Import ListNotations.
Local Open Scope Z_scope.

(* ---------- orders, from the inventory ---------- *)
Definition kind_eqb (a b : akind) : bool :=
  match a, b with Kcas, Kcas | Kload, Kload | Kstore, Kstore => true | _, _ => false end.
(* the strongest order both sites guarantee *)
Definition omeet (a b : aorder) : aorder :=
  match has_acq a && has_acq b, has_rel a && has_rel b with
  | true, true => Oacqrel | true, false => Oacq | false, true => Orel | false, false => Orlx
  end.
Definition omeet_all (l : list aorder) : aorder := match l with [] => Orlx | _ => fold_right omeet Oacqrel l end.

(* order requested by site number n of function fn in [sites], provided it is an access of kind k to [target] *)
Definition site_order_in (sites : list site) (fn : string) (n : nat) (k : akind) (target : string) : aorder :=
  match find (fun x => String.eqb (s_fn x) fn && Nat.eqb (s_ord x) n) sites with
  | Some x => if kind_eqb (s_kind x) k && String.eqb (s_target x) target then s_order x else Orlx
  | None => Orlx
  end.

(* OnceModel's event site 1 is the entry load of whichever of the four public functions was called: credit only what
   all four request; 10 + n is site n of nsync_run_once_impl *)
Definition once_entry_fns : list string :=
  ["nsync_run_once"; "nsync_run_once_arg"; "nsync_run_once_spin"; "nsync_run_once_arg_spin"]%string.
Definition once_order_of (k : akind) (s : Z) : aorder :=
  if s =? 1 then omeet_all (map (fun f => site_order_in sites_once_c f 1 k "once") once_entry_fns)
  else site_order_in sites_once_c "nsync_run_once_impl" (Z.to_nat (s - 10)) k "once".

(* ---------- the instrumentation ---------- *)
Record ohb := mk_ohb { oviews : nat -> view;      (* per thread *)
                       orel : nat -> view }.      (* per once word: release view of its current value *)
Definition ohb0 : ohb := mk_ohb (fun _ => vbot) (fun _ => vbot).

(* the once word the thread's next site is on: [pc_obj] of Model/OnceModel.v *)

(* effect of one OnceModel event of thread t, on once word x, on the happens-before state *)
Definition ohb_step (h : ohb) (t : nat) (x : option nat) (e : ev) : ohb :=
  let vt := vtick (oviews h t) t in
  match x, e with
  | Some o, EvLoad s _ =>
      mk_ohb (fupd (oviews h) t (if has_acq (once_order_of Kload s) then vjoin vt (orel h o) else vt)) (orel h)
  | Some o, EvStore s _ =>
      mk_ohb (fupd (oviews h) t vt) (fupd (orel h) o (if has_rel (once_order_of Kstore s) then vt else vbot))
  | Some o, EvCas s true =>
      let v := if has_acq (once_order_of Kcas s) then vjoin vt (orel h o) else vt in
      mk_ohb (fupd (oviews h) t v)
             (if has_rel (once_order_of Kcas s) then fupd (orel h) o (vjoin (orel h o) v) else orel h)
  | _, _ => mk_ohb (fupd (oviews h) t vt) (orel h)
      (* a failed CAS; and every step of OnceModel that is not an access to the once word: f-begin / f-end, and the abstract
         steps on once_mu / once_cv (lock, unlock, broadcast, timed wait), which get NO ordering credit *)
  end.

(* run the model and the instrumentation together; per step: thread, world before and after, event,
   the thread's view before and after the step *)
Record oobs := mk_oobs { ob_t : nat; ob_w : world; ob_w' : world; ob_ev : ev; ob_pre : view; ob_view : view }.

Fixpoint run_hb_once (w : world) (h : ohb) (sched : list nat) : list oobs :=
  match sched with
  | [] => []
  | t :: rest =>
      let '(w', e) := step w t in
      let h' := ohb_step h t (pc_obj (pc (get (begin_call w t) t))) e in
      mk_oobs t w w' e (oviews h t) (oviews h' t) :: run_hb_once w' h' rest
  end.

(* ---------- vocabulary of the statements: the model's own state ---------- *)
(* the step at which the word of object o takes the value 2: the winner's ATM_STORE_REL (once, 2) *)
Definition once_publishes (o : nat) (ob : oobs) : Prop :=
  once (ob_w ob) o <> 2 /\ once (ob_w' ob) o = 2.
(* the step at which the once-function of word o returns to nsync_run_once_impl (the model's ghost [completed] flips):
   OnceModel's f-end step, which the winner makes BEFORE its store of 2 (Props/Properties_C07.v, C07_order) *)
Definition once_fn_ends (o : nat) (ob : oobs) : Prop :=
  completed (ob_w ob) o = false /\ completed (ob_w' ob) o = true.
(* a step at which a call of nsync_run_once / _arg / _spin / _arg_spin on word o returns to its caller *)
Definition once_returns (o : nat) (ob : oobs) : Prop :=
  returned (get (ob_w' ob) (ob_t ob)) = o :: returned (get (ob_w ob) (ob_t ob)).
