(* MuXferModel: the mutex model Model/MuModel.v (mu.c, stepped site by site) COMBINED with the part of cv.c that
   touches the mutex: nsync_cv_wait_with_deadline_generic (release of the mutex, park, re-acquisition either afresh
   or -- after a transfer to the mutex queue -- through nsync_mu_lock_slow_ (cv_mu, w, MU_DESIG_WAKER, l_type)),
   nsync_cv_signal / nsync_cv_broadcast and wake_waiters (transfer of cv waiters to mu->waiters under the mutex
   spinlock, or store waiting = 0 + V).

   It is a WRAPPER: the world contains a MuModel.world; every step of mu.c is MuModel.step on that component (the
   wrapper never re-implements a mutex site), wake_waiters' sites on the mutex word are stepped one atomic site at a
   time with the values of Gen/Sites.v (wake_waiters_cas1_new, wake_waiters_cas2_new), and the waiter's re-entry into
   nsync_mu_lock_slow_ is the MuModel pc [LsLoad m (mk_lsl zta' MU_DESIG_WAKER 0 0)] with zta' as lock_slow
   computes it for clear != 0.

   SCOPE DECISIONS
   * one mutex, one cv; the cv waiters are native nsync_mu waiters (cv_mu != NULL), GENERIC-INTERFACE waiters ([XWaitG m]:
     nsync_cv_wait_with_deadline_generic with the caller's own lock / unlock routines -- thin wrappers around nsync_mu_lock /
     rlock / unlock / runlock of the same mutex, held in mode m; the library cannot recognise the lock: cv_mu == NULL, w->l_type
     == NULL, no look at the mutex word, is_reader_mu = 0; [w_gen] in the locals, [xg_rec] of the pc) and NSYNC_WAIT_N RECORDS.
     A generic waiter is a non-reader for nsync_cv_signal / broadcast (l_type == NULL), makes pmu = NULL when it is first on the
     to_wake_list, and -- since the repair of finding F16, commit f28c99f: `p_w == NULL || p_w->cv_mu != pmu` -- is woken
     directly, never transferred ([nrec] = xn_rec or xg_rec is that test); it re-acquires through its lock routine (MuModel's
     LkFast: the model's test is `xferred`, which Properties_C04x.C04x_generic_never_transferred shows false for it).
     [XWaitN om]: [XWaitN om] is nsync_wait_n (mu, lock, unlock, no-deadline-or-future-deadline, 1, {cv}) with
     mu = NULL (om = None) or with the mutex held in mode m and thin lock / unlock callbacks (om = Some m).  Its record
     (flags = 0: not NSYNC_WAITER_FLAG_MUCV) sits on the cv queue like a waiter, is never transferred to the mutex queue
     (wake_waiters: `p_w == NULL`), counts as a non-reader in nsync_cv_signal / broadcast's all_readers, and as first
     element of a to_wake_list makes pmu = NULL (wake_waiters then never looks at the mutex).
     One waiter struct and one semaphore per thread (MuModel's [waiting], [sem], [wtype]).  The record of a wait_n call
     is [xn_rec (pc of its thread)]: a thread has at most one record on the cv (native or not), and it is a wait_n record
     exactly while the thread is between cv_enqueue and the end of cv_dequeue.  ONE CELL for the two waiting flags of a
     thread (w->nw.waiting of its waiter struct and nw[0].waiting of its wait_n call): MuModel's [waiting]; the two are
     never live together (a thread inside nsync_wait_n is neither on the mutex queue nor a native cv waiter:
     Properties_C04x.C04x_record_kinds), and the replay compares every load and store of either cell.
   * The cv spinlock is modelled as ATOMIC SECTIONS, one step per critical section of cv.c, linearised at the store
     that releases the cv spinlock: [XwEnq] (enqueue on the cv), [XwConfirm] (timeout / cancellation: remove itself
     from the cv queue iff still there, then waiting = 0), [XkSelect] (signal / broadcast: unlink the chosen waiters).
     The cv word itself is not in the model: CV_NON_EMPTY clear implies an empty queue (it is set by the CAS that opens
     the enqueue section and cleared only by a section that leaves the queue empty), so the early exit of
     signal / broadcast is the choice [CAlt] at [XkLoad], allowed only when the model's queue is empty.  remove_count is
     not modelled: "still governed by the cv" is membership in [cvq].
   * The MUTEX word, queue, waiting flags and semaphores are stepped site by site.  wake_waiters' transfer loop (plain
     accesses to pmu->waiters and w->cv_mu under the mutex spinlock) is merged into the step of the successful
     acquiring CAS (site wake_waiters.2).
   * nsync_sem_wait_with_cancel_ is one step: [CGo] = P on the thread's semaphore (blocked when the count is 0),
     [CAlt] = it returns non-zero (deadline or cancellation; no clock in this model: a timeout may happen at any time).
     [EnvV p] is a post on thread p's semaphore by code outside the model (the note's notifier posts the same semaphore).
   * Client contract = [XCrash]: XWait m by a thread that does not hold the mutex in mode m (the C code panics when the
     word shows no lock; MuModel's own contract crashes are its [Crash] pcs).
   * wake_waiters' release of the mutex spinlock: clear_on_release (MU_SPINLOCK, plus MU_WAITING when pmu->waiters is
     empty after the transfer loop -- a plain access under the spinlock, merged like the loop into the step of the
     acquiring CAS) is the local [k_clr], computed in the step of site wake_waiters.2 from the model's queue.
   * Ghost: [held] (MuModel), [x_rets] (log of the returns of XWait and of XWaitN (Some m): entry mode, what is held at
     return), w_m,
     [w_out] (the result "outcome != 0" of the wait: set, as in cv.c, only in the branch of the confirmation section
     that finds the waiter still on the cv queue).
   * nsync_wait_n: wait.c:54 (store waiting = 0) is [XnStore0]; cv_enqueue is the section [XnEnq] (enqueue + store
     waiting = 1, linearised at the store that releases the cv spinlock); the do-loop is [XnReady] (cv_ready_time's
     acquire load) / [XnSem] (nsync_mu_semaphore_p_with_deadline: [CGo] = P, [CAlt] = the deadline passed); cv_dequeue
     is the section [XnDeq] (still queued: unlink + store waiting = 0) followed, when a waker had taken the record, by
     the spin [XnSpin] on waiting; the callbacks are MuModel steps ([XnUnlock], [XnReacq]).  The deadline is in the
     future at the call (an expired one makes nsync_wait_n return at once without touching anything).
   No proofs in this file. *)
From NsyncBase Require Import CSem.
From NsyncGen Require Import Consts Sites.
From NsyncModel Require Import MuModel.
From Coq Require Import List ZArith Bool.
Import ListNotations.
Local Open Scope Z_scope.

Inductive xop := XOp (o : op) | XWait (m : mode) | XSignal | XBroadcast | XWaitN (om : option mode) | XWaitG (m : mode).

(* locals of nsync_cv_wait_with_deadline_generic *)
Record xwl := mk_xwl {
  w_m : mode;          (* ghost: the mode the client declared (= held on entry) *)
  w_lm : mode;         (* w->l_type / is_reader_mu, computed from the mutex word *)
  w_so : bool;         (* sem_outcome != 0 *)
  w_out : bool;        (* ghost: outcome != 0 (the value the wait returns) *)
  w_gen : bool         (* cv_mu == NULL: the generic interface with the caller's own lock routines (w->cv_mu = NULL, w->l_type = NULL) *)
}.
(* locals of wake_waiters *)
Record kl := mk_kl {
  k_wake : list nat;   (* to_wake_list, head first *)
  k_allr : bool;       (* all_readers *)
  k_set : Z;           (* set_on_release *)
  k_clr : Z            (* clear_on_release (meaningful after the acquiring CAS) *)
}.

Inductive xpc :=
| XIdle                                   (* no cv.c call in progress (a plain mutex operation may be) *)
| XCrash (why : Z)
(* nsync_cv_wait_with_deadline_generic *)
| XwStore (m : mode)                      (* ATM_STORE (&w->nw.waiting, 1); w->cv_mu = cv_mu *)
| XwLoadMu (m : mode)                     (* ATM_LOAD (&cv_mu->word): l_type *)
| XwEnq (l : xwl)                          (* section: enqueue on the cv *)
| XwUnlock (l : xwl)                       (* nsync_mu_unlock / nsync_mu_runlock: MuModel steps *)
| XwLoop (l : xwl)                         (* while (ATM_LOAD_ACQ (&w->nw.waiting) != 0) *)
| XwSem (l : xwl)                          (* nsync_sem_wait_with_cancel_ *)
| XwLoad6 (l : xwl)                        (* sem_outcome != 0 && ATM_LOAD (&w->nw.waiting) != 0 *)
| XwConfirm (l : xwl)                      (* section: still on the cv queue? remove, waiting = 0 *)
| XwLoad13 (l : xwl)                       (* if (ATM_LOAD (&w->nw.waiting) != 0) spin delay *)
| XwReacq (l : xwl)                        (* nsync_mu_lock_slow_ (.., MU_DESIG_WAKER, ..) or nsync_mu_lock / rlock: MuModel steps *)
(* nsync_cv_signal / nsync_cv_broadcast *)
| XkLoad (bc : bool)                      (* ATM_LOAD_ACQ (&pcv->word) & CV_NON_EMPTY *)
| XkSelect (bc : bool)                    (* section: unlink the waiters to wake *)
(* wake_waiters *)
| XvLoad1 (k : kl) | XvCas1 (k : kl) (old : Z) | XvLoad3 (k : kl) | XvCas2 (k : kl) (old : Z) | XvLoad5 (k : kl)
| XvStore (k : kl) | XvV (k : kl) (p : nat)
(* nsync_wait_n (mu, lock, unlock, deadline, 1, {cv}) *)
| XnStore0 (om : option mode)             (* wait.c: ATM_STORE (&nw[0].waiting, 0) *)
| XnEnq (om : option mode)                (* cv_enqueue: section: pcv->waiters += nw; ATM_STORE (&nw->waiting, 1) *)
| XnUnlock (m : mode)                     (* unlock (mu): MuModel steps *)
| XnReady (om : option mode)              (* cv_ready_time: ATM_LOAD_ACQ (&nw->waiting) *)
| XnSem (om : option mode)                (* nsync_mu_semaphore_p_with_deadline (&w->sem, min_ntime) *)
| XnDeq (om : option mode)                (* cv_dequeue: section: still queued? unlink, ATM_STORE (&nw->waiting, 0) *)
| XnSpin (om : option mode)               (* cv_dequeue: while (ATM_LOAD_ACQ (&nw->waiting) != 0) spin delay *)
| XnReacq (m : mode)
(* nsync_cv_wait_with_deadline_generic with the caller's own lock / unlock routines *)
| XgStore (m : mode).                     (* ATM_STORE (&w->nw.waiting, 1); w->cv_mu = NULL; w->l_type = NULL *)                     (* lock (mu): MuModel steps *)

(* the thread's record on the cv (queue or a to_wake_list) is the record of an nsync_wait_n call: flags == 0 *)
Definition xn_rec (xp : xpc) : bool :=
  match xp with XnUnlock _ | XnReady _ | XnSem _ | XnDeq _ | XnSpin _ => true | _ => false end.
(* the thread's record on the cv is a waiter struct that is NOT associated with the mutex: cv_mu == NULL, l_type == NULL *)
Definition xg_rec (xp : xpc) : bool :=
  match xp with XwUnlock l | XwLoop l | XwSem l | XwLoad6 l | XwConfirm l | XwLoad13 l => w_gen l | _ => false end.

Record xtstate := mk_xt { x_pc : xpc; x_ops : list xop; x_rets : list (mode * option mode) (* ghost, newest first *) }.

Record xworld := mk_xw {
  mw : world;                 (* the mutex: Model/MuModel.v *)
  cvq : list nat;             (* pcv->waiters: thread ids, head first (mode of each: wtype (mw)) *)
  xferred : nat -> bool;      (* w->cv_mu == NULL: the thread's waiter was handed to the mutex queue *)
  xthr : list xtstate }.

Inductive choice := CGo | CAlt.
Inductive actor := Thr (t : nat) (c : choice) | EnvV (p : nat).

(* observable events.  Sites of cv.c: 1000 + ordinal in wake_waiters, 1100 + ordinal in
   nsync_cv_wait_with_deadline_generic, 1200 + .. nsync_cv_signal, 1300 + .. nsync_cv_broadcast, 1400 + .. cv_ready_time,
   1500 + .. cv_enqueue, 1600 + .. cv_dequeue; wait.c: 1700 + .. nsync_wait_n (Gen/Sites.v) *)
Inductive xev :=
| XMu (e : ev)                 (* a MuModel event: a step of mu.c, or a step of cv.c on the mutex word / waiting / semaphore *)
| XSec (site : Z) (n : Z)      (* an atomic section of the cv spinlock / the load of the cv word; n: what it did *)
| XTimeout                     (* nsync_sem_wait_with_cancel_ returned non-zero *)
| XEnv
| XRefused.                    (* the choice is not available in this state (no step taken) *)

(* ---------- state access ---------- *)
Definition dflt_xt := mk_xt XIdle [] [].
Definition xget (xw : xworld) (t : nat) : xtstate := nth t (xthr xw) dflt_xt.
Definition set_mw (xw : xworld) (m : world) : xworld := mk_xw m (cvq xw) (xferred xw) (xthr xw).
Definition set_cvq (xw : xworld) (q : list nat) : xworld := mk_xw (mw xw) q (xferred xw) (xthr xw).
Definition set_xferred (xw : xworld) (f : nat -> bool) : xworld := mk_xw (mw xw) (cvq xw) f (xthr xw).
Definition set_xt (xw : xworld) (t : nat) (s : xtstate) : xworld :=
  mk_xw (mw xw) (cvq xw) (xferred xw) (lupd (xthr xw) t s).
Definition set_xpc (xw : xworld) (t : nat) (p : xpc) : xworld :=
  let s := xget xw t in set_xt xw t (mk_xt p (x_ops s) (x_rets s)).
Definition add_xret (xw : xworld) (t : nat) (r : mode * option mode) : xworld :=
  let s := xget xw t in set_xt xw t (mk_xt (x_pc s) (x_ops s) (r :: x_rets s)).

Definition wl_set_so (l : xwl) (b : bool) : xwl := mk_xwl (w_m l) (w_lm l) b (w_out l) (w_gen l).
Definition wl_set_out (l : xwl) (b : bool) : xwl := mk_xwl (w_m l) (w_lm l) (w_so l) b (w_gen l).

Fixpoint mem_id (r : nat) (l : list nat) : bool :=
  match l with [] => false | x :: t => if Nat.eqb x r then true else mem_id r t end.
Fixpoint remove_id (r : nat) (l : list nat) : list nat :=
  match l with [] => [] | x :: t => if Nat.eqb x r then remove_id r t else x :: remove_id r t end.
Fixpoint set_all (f : nat -> bool) (l : list nat) (v : bool) : nat -> bool :=
  match l with [] => f | p :: l' => set_all (fupd f p v) l' v end.

(* the thread has no mutex operation in progress *)
Definition mu_idle (w : world) (t : nat) : bool :=
  match t_pc (get w t), t_ops (get w t) with Idle, [] => true | _, _ => false end.
Definition mu_pc_idle (w : world) (t : nat) : bool :=
  match t_pc (get w t) with Idle => true | _ => false end.
(* hand one operation to the MuModel thread *)
Definition push_op (w : world) (t : nat) (o : op) : world :=
  let s := get w t in set_t w t (mk_t (t_pc s) [o] (held s) (sleeps s) (last_try s)).

(* ---------- selection under the cv spinlock (cv.c: nsync_cv_signal / nsync_cv_broadcast) ---------- *)
(* rd p: `(p_nw->flags & NSYNC_WAITER_FLAG_MUCV) != 0 && DLL_WAITER (p)->l_type == nsync_reader_type_` *)
(* first waiter a reader: all readers and the first non-reader (a writer or an nsync_wait_n record): (woken, kept, woke_writer) *)
Fixpoint sig_scan (rd : nat -> bool) (q : list nat) (wokew : bool) : list nat * list nat * bool :=
  match q with
  | [] => ([], [], wokew)
  | p :: rest =>
      if rd p then let '(wk, kp, ww) := sig_scan rd rest wokew in (p :: wk, kp, ww)
      else if negb wokew then let '(wk, kp, ww) := sig_scan rd rest true in (p :: wk, kp, ww)
      else let '(wk, kp, ww) := sig_scan rd rest wokew in (wk, p :: kp, ww)
  end.
(* (to_wake_list, remaining queue, all_readers) *)
Definition sel_signal (rd : nat -> bool) (q : list nat) : list nat * list nat * bool :=
  match q with
  | [] => ([], [], false)
  | first :: rest =>
      if rd first then let '(wk, kp, ww) := sig_scan rd rest false in (first :: wk, kp, negb ww)
      else ([first], rest, false)
  end.
Definition sel_broadcast (rd : nat -> bool) (q : list nat) : list nat * list nat * bool :=
  (q, [], forallb rd q).

(* ---------- wake_waiters: transfer vs wake, under the mutex spinlock ---------- *)
(* the loop over the waiters after the first: (moved to mu->waiters, still to wake, transferred_a_writer, woke_areader) *)
(* nn p: `p_w == NULL` (the record is not embedded in a waiter struct: an nsync_wait_n record): it stays on the list *)
Fixpoint xfer_rest (nn : nat -> bool) (ty : nat -> mode) (fca fw : bool) (q : list nat) (taw war : bool) : list nat * list nat * bool * bool :=
  match q with
  | [] => ([], [], taw, war)
  | p :: rest =>
      let piw := mode_eqb (ty p) W in
      if nn p then let '(m, s, a, b) := xfer_rest nn ty fca fw rest taw war in (m, p :: s, a, b)
      else if fca || fw || piw then let '(m, s, a, b) := xfer_rest nn ty fca fw rest (taw || piw) war in (p :: m, s, a, b)
      else let '(m, s, a, b) := xfer_rest nn ty fca fw rest taw (war || negb piw) in (m, p :: s, a, b)
  end.
(* (moved, stay, set_on_release); the first element is a native waiter (pmu != NULL) *)
Definition xfer (nn : nat -> bool) (ty : nat -> mode) (fca : bool) (wake : list nat) : list nat * list nat * Z :=
  match wake with
  | [] => ([], [], 0)
  | first :: rest =>
      let fw := mode_eqb (ty first) W in
      let '(m, s, a, b) := xfer_rest nn ty fca fw rest (if fca then fw else false) (if fca then false else negb fw) in
      (if fca then first :: m else m, if fca then s else first :: s,
       if a && negb b then MU_WRITER_WAITING else 0)
  end.
(* first_cant_acquire = (old_mu_word & first_w->l_type->zero_to_acquire) != 0 *)
Definition first_cant_acquire (ty : nat -> mode) (old : Z) (wake : list nat) : bool :=
  match wake with first :: _ => has old (lt_zero_to_acquire (lt_of (ty first))) | [] => false end.
(* the condition in front of the acquiring CAS of wake_waiters *)
Definition xfer_wanted (ty : nat -> mode) (old : Z) (k : kl) : bool :=
  has old MU_ANY_LOCK && negb (has old MU_SPINLOCK) &&
  (first_cant_acquire ty old (k_wake k) || (match k_wake k with _ :: _ :: _ => true | _ => false end && negb (k_allr k))).

(* nsync_mu_lock_slow_ entered with clear = MU_DESIG_WAKER: zero_to_acquire &= ~(MU_WRITER_WAITING | MU_LONG_WAIT),
   wait_count = 0, long_wait = 0 *)
Definition ls_desig (m : mode) : lsl :=
  mk_lsl (band (lt_zero_to_acquire (lt_of m)) (bnot32 (bor MU_WRITER_WAITING MU_LONG_WAIT))) MU_DESIG_WAKER 0 0.

Definition wake_loop (k : kl) : xpc := match k_wake k with [] => XIdle | _ => XvStore k end.

(* the kind of the record thread p has on the cv *)
Definition nrec (xw : xworld) (p : nat) : bool := xn_rec (x_pc (xget xw p)) || xg_rec (x_pc (xget xw p)).
Definition xrd (xw : xworld) (p : nat) : bool := negb (nrec xw p) && mode_eqb (wtype (mw xw) p) R.

(* ---------- the step function ---------- *)
Definition xbegin (xw : xworld) (t : nat) : xworld :=
  let xs := xget xw t in
  match x_pc xs, x_ops xs with
  | XIdle, o :: rest =>
      if mu_idle (mw xw) t then
        let xw1 := set_xt xw t (mk_xt XIdle rest (x_rets xs)) in
        match o with
        | XOp o' => set_mw xw1 (push_op (mw xw1) t o')
        | XWait m =>
            set_xpc xw1 t (match held (get (mw xw) t) with
                           | Some m' => if mode_eqb m m' then XwStore m else XCrash 5
                           | None => XCrash 5 end)
        | XSignal => set_xpc xw1 t (XkLoad false)
        | XBroadcast => set_xpc xw1 t (XkLoad true)
        | XWaitN None => set_xpc xw1 t (XnStore0 None)
        | XWaitN (Some m) =>
            set_xpc xw1 t (match held (get (mw xw) t) with
                           | Some m' => if mode_eqb m m' then XnStore0 (Some m) else XCrash 8
                           | None => XCrash 8 end)
        | XWaitG m =>
            set_xpc xw1 t (match held (get (mw xw) t) with
                           | Some m' => if mode_eqb m m' then XgStore m else XCrash 9
                           | None => XCrash 9 end)
        end
      else xw
  | _, _ => xw
  end.

(* a step of mu.c by thread t *)
Definition mu_step (xw : xworld) (t : nat) : xworld * ev :=
  let '(m', e) := step (mw xw) t in (set_mw xw m', e).

Definition xstep_thr (xw0 : xworld) (t : nat) (c : choice) : xworld * xev :=
  let xw := xbegin xw0 t in
  let w := mw xw in
  match x_pc (xget xw t) with
  | XIdle => let '(xw1, e) := mu_step xw t in (xw1, XMu e)
  | XCrash _ => (xw, XMu EvCrash)
  (* --- nsync_cv_wait_with_deadline_generic --- *)
  | XwStore m =>
      let v := nsync_cv_wait_with_deadline_generic_store1_new in
      let xw1 := set_xferred (set_mw xw (set_waiting w t (negb (v =? 0)))) (fupd (xferred xw) t false) in
      (set_xpc xw1 t (XwLoadMu m), XMu (EvStoreWaiting t v))
  | XwLoadMu m =>
      let old := word w in
      let is_writer := has old MU_WHELD_IF_NON_ZERO in
      let is_reader := has old MU_RHELD_IF_NON_ZERO in
      if is_writer then
        if is_reader then (set_xpc xw t (XCrash 6), XMu (EvLoad 1102 old))
        else (set_xpc (set_mw xw (set_wtype w t W)) t (XwEnq (mk_xwl m W false false false)), XMu (EvLoad 1102 old))
      else if is_reader then (set_xpc (set_mw xw (set_wtype w t R)) t (XwEnq (mk_xwl m R false false false)), XMu (EvLoad 1102 old))
      else (set_xpc xw t (XCrash 7), XMu (EvLoad 1102 old))
  | XwEnq l =>
      (* under the cv spinlock: pcv->waiters += w; then, spinlock released: nsync_mu_runlock (cv_mu) / unlock (pmu) *)
      let xw1 := set_cvq (set_mw xw (set_pc w t (UlFast (w_lm l)))) (cvq xw ++ [t]) in
      (set_xpc xw1 t (XwUnlock l), XSec 1104 1)
  | XwUnlock l =>
      let '(xw1, e) := mu_step xw t in
      if mu_pc_idle (mw xw1) t then (set_xpc xw1 t (XwLoop l), XMu e) else (xw1, XMu e)
  | XwLoop l =>
      if waiting w t then (set_xpc xw t (if w_so l then XwLoad6 l else XwSem l), XMu (EvLoad 1105 1))
      else
        (* if (cv_mu != NULL && w->cv_mu == NULL) nsync_mu_lock_slow_ (cv_mu, w, MU_DESIG_WAKER, w->l_type)
           else nsync_mu_rlock (cv_mu) / lock (pmu) *)
        let m := w_lm l in
        let p := if xferred xw t then LsLoad m (ls_desig m) else LkFast m in
        (set_xpc (set_mw xw (set_pc (set_wtype w t m) t p)) t (XwReacq l), XMu (EvLoad 1105 0))
  | XwSem l =>
      match c with
      | CGo =>
          if 0 <? sem w t then (set_xpc (set_mw xw (set_sem w t (sem w t - 1))) t (XwLoad13 l), XMu EvP)
          else (xw, XMu EvBlocked)
      | CAlt => (set_xpc xw t (XwLoad6 (wl_set_so l true)), XTimeout)
      end
  | XwLoad6 l =>
      if waiting w t then (set_xpc xw t (XwConfirm l), XMu (EvLoad 1106 1))
      else (set_xpc xw t (XwLoad13 l), XMu (EvLoad 1106 0))
  | XwConfirm l =>
      (* under the cv spinlock: if (waiting != 0 && remove_count unchanged) { remove; ATM_STORE_REL (&w->nw.waiting, 0) } *)
      if mem_id t (cvq xw) then
        let v := nsync_cv_wait_with_deadline_generic_store3_new in
        let xw1 := set_cvq (set_mw xw (set_waiting w t (negb (v =? 0)))) (remove_id t (cvq xw)) in
        (* outcome = sem_outcome *)
        (set_xpc xw1 t (XwLoad13 (wl_set_out l (w_so l))), XSec 1112 1)
      else (set_xpc xw t (XwLoad13 l), XSec 1112 0)
  | XwLoad13 l => (set_xpc xw t (XwLoop l), XMu (EvLoad 1113 (b2z (waiting w t))))
  | XwReacq l =>
      let '(xw1, e) := mu_step xw t in
      if mu_pc_idle (mw xw1) t
      then (set_xpc (add_xret xw1 t (w_m l, held (get (mw xw1) t))) t XIdle, XMu e)
      else (xw1, XMu e)
  (* --- nsync_cv_signal / nsync_cv_broadcast --- *)
  | XkLoad bc =>
      let site := if bc then 1301 else 1201 in
      match c with
      | CGo => (set_xpc xw t (XkSelect bc), XSec site 1)
      | CAlt => match cvq xw with
                | [] => (set_xpc xw t XIdle, XSec site 0)      (* CV_NON_EMPTY clear: the queue is empty *)
                | _ => (xw, XRefused)
                end
      end
  | XkSelect bc =>
      let '(wk, kp, allr) := if bc then sel_broadcast (xrd xw) (cvq xw) else sel_signal (xrd xw) (cvq xw) in
      let site := if bc then 1304 else 1206 in
      let xw1 := set_cvq xw kp in
      match wk with
      | [] => (set_xpc xw1 t XIdle, XSec site 0)
      | first :: _ =>
          (* wake_waiters: pmu = first_w->cv_mu if the first record is a native waiter's (NSYNC_WAITER_FLAG_MUCV), else NULL:
             with pmu == NULL it goes straight to the loop that wakes *)
          let k := mk_kl wk allr 0 0 in
          (set_xpc xw1 t (if nrec xw first then XvStore k else XvLoad1 k), XSec site (Z.of_nat (length wk)))
      end
  (* --- wake_waiters, pmu != NULL (the first element of to_wake_list is a native waiter) --- *)
  | XvLoad1 k =>
      let old := word w in
      if xfer_wanted (wtype w) old k then (set_xpc xw t (XvCas1 k old), XMu (EvLoad 1001 old))
      else (set_xpc xw t (wake_loop k), XMu (EvLoad 1001 old))
  | XvCas1 k old =>
      let new := wake_waiters_cas1_new old in
      let '(w1, ok) := cas w (wake_waiters_cas1_old old) new in
      if ok then
        let '(moved, stay, set_on) := xfer (nrec xw) (wtype w) (first_cant_acquire (wtype w) old (k_wake k)) (k_wake k) in
        (* pmu->waiters = make_last (pmu->waiters, p); p_w->cv_mu = NULL; waiting stays 1 *)
        let q' := queue w1 ++ moved in
        (* clear_on_release = MU_SPINLOCK; if (nsync_dll_is_empty_ (pmu->waiters)) clear_on_release |= MU_WAITING *)
        let clr := match q' with [] => bor MU_SPINLOCK MU_WAITING | _ => MU_SPINLOCK end in
        let xw1 := set_xferred (set_mw xw (set_queue w1 q')) (set_all (xferred xw) moved true) in
        (set_xpc xw1 t (XvLoad3 (mk_kl stay (k_allr k) set_on clr)), XMu (EvCas 1002 old new true))
      else (set_xpc xw t (wake_loop k), XMu (EvCas 1002 old new false))
  | XvLoad3 k => (set_xpc xw t (XvCas2 k (word w)), XMu (EvLoad 1003 (word w)))
  | XvCas2 k old =>
      let new := wake_waiters_cas2_new old (k_set k) (k_clr k) in
      let '(w1, ok) := cas w (wake_waiters_cas2_old old) new in
      if ok then (set_xpc (set_mw xw w1) t (wake_loop k), XMu (EvCas 1004 old new true))
      else (set_xpc xw t (XvLoad5 k), XMu (EvCas 1004 old new false))
  | XvLoad5 k => (set_xpc xw t (XvCas2 k (word w)), XMu (EvLoad 1005 (word w)))
  | XvStore k =>
      match k_wake k with
      | [] => (set_xpc xw t XIdle, XMu EvNone)
      | p :: rest =>
          let v := wake_waiters_store1_new in
          (set_xpc (set_mw xw (set_waiting w p (negb (v =? 0)))) t (XvV (mk_kl rest (k_allr k) (k_set k) (k_clr k)) p),
           XMu (EvStoreWaiting p v))
      end
  | XvV k p => (set_xpc (set_mw xw (set_sem w p (sem w p + 1))) t (wake_loop k), XMu (EvV p))
  (* --- nsync_wait_n (mu, lock, unlock, deadline, 1, {cv}) --- *)
  | XnStore0 om =>
      let v := nsync_wait_n_store1_new in
      (set_xpc (set_mw xw (set_waiting w t (negb (v =? 0)))) t (XnEnq om), XMu (EvStoreWaiting t v))
  | XnEnq om =>
      (* cv_enqueue, under the cv spinlock: pcv->waiters += nw; ATM_STORE (&nw->waiting, 1); then, if (mu != NULL) unlock (mu) *)
      let v := cv_enqueue_store1_new in
      let w1 := set_waiting w t (negb (v =? 0)) in
      match om with
      | Some m => (set_xpc (set_cvq (set_mw xw (set_pc w1 t (UlFast m))) (cvq xw ++ [t])) t (XnUnlock m), XSec 1502 1)
      | None => (set_xpc (set_cvq (set_mw xw w1) (cvq xw ++ [t])) t (XnReady None), XSec 1502 1)
      end
  | XnUnlock m =>
      let '(xw1, e) := mu_step xw t in
      if mu_pc_idle (mw xw1) t then (set_xpc xw1 t (XnReady (Some m)), XMu e) else (xw1, XMu e)
  | XnReady om =>
      (* cv_ready_time: waiting != 0 ? no deadline : zero; zero ends the do-loop *)
      if cv_ready_time_load1_guard (b2z (waiting w t)) then (set_xpc xw t (XnSem om), XMu (EvLoad 1401 1))
      else (set_xpc xw t (XnDeq om), XMu (EvLoad 1401 0))
  | XnSem om =>
      match c with
      | CGo =>
          if 0 <? sem w t then (set_xpc (set_mw xw (set_sem w t (sem w t - 1))) t (XnReady om), XMu EvP)
          else (xw, XMu EvBlocked)
      | CAlt => (set_xpc xw t (XnDeq om), XTimeout)
      end
  | XnDeq om =>
      (* cv_dequeue, under the cv spinlock: if (ATM_LOAD_ACQ (&nw->waiting) != 0 && nw is on pcv->waiters)
         { unlink; ATM_STORE (&nw->waiting, 0); was_queued = 1 }; spinlock released; if (!was_queued) spin *)
      if waiting w t && cv_dequeue_store1_guard (b2z (mem_id t (cvq xw))) then
        let v := cv_dequeue_store1_new in
        let w1 := set_waiting w t (negb (v =? 0)) in
        match om with
        | Some m => (set_xpc (set_cvq (set_mw xw (set_pc w1 t (LkFast m))) (remove_id t (cvq xw))) t (XnReacq m), XSec 1603 1)
        | None => (set_xpc (set_cvq (set_mw xw w1) (remove_id t (cvq xw))) t XIdle, XSec 1603 1)
        end
      else (set_xpc xw t (XnSpin om), XSec 1603 0)
  | XnSpin om =>
      if waiting w t then (xw, XMu (EvLoad 1604 1))
      else
        match om with
        | Some m => (set_xpc (set_mw xw (set_pc w t (LkFast m))) t (XnReacq m), XMu (EvLoad 1604 0))
        | None => (set_xpc xw t XIdle, XMu (EvLoad 1604 0))
        end
  | XnReacq m =>
      let '(xw1, e) := mu_step xw t in
      if mu_pc_idle (mw xw1) t
      then (set_xpc (add_xret xw1 t (m, held (get (mw xw1) t))) t XIdle, XMu e)
      else (xw1, XMu e)
  (* --- the generic interface: cv_mu == NULL, so no look at a mutex word, l_type = NULL, is_reader_mu = 0; the release and the
     re-acquisition go through the caller's routines (thin wrappers around nsync_mu_unlock / runlock / lock / rlock: MuModel steps) --- *)
  | XgStore m =>
      let v := nsync_cv_wait_with_deadline_generic_store1_new in
      let xw1 := set_xferred (set_mw xw (set_waiting w t (negb (v =? 0)))) (fupd (xferred xw) t false) in
      (set_xpc xw1 t (XwEnq (mk_xwl m m false false true)), XMu (EvStoreWaiting t v))
  end.

Definition xstep (xw : xworld) (a : actor) : xworld * xev :=
  match a with
  | Thr t c => xstep_thr xw t c
  | EnvV p => (set_mw xw (set_sem (mw xw) p (sem (mw xw) p + 1)), XEnv)
  end.

Definition xinit (progs : list (list xop)) : xworld :=
  mk_xw (init (map (fun _ => []) progs)) [] (fun _ => false) (map (fun p => mk_xt XIdle p []) progs).

Definition xrun (xw : xworld) (sched : list actor) : xworld := fold_left (fun w a => fst (xstep w a)) sched xw.
