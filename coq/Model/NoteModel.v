(* NoteModel: executable model of internal/note.c (all of it) plus the part of internal/wait.c that
   nsync_note_wait runs (nsync_wait_n with one waitable and no mutex), for any number of threads, any tree of notes.

   Granularity: one step = one atomic site of note.c (a load/store of `notified`, a store of a waiter's `waiting`)
   OR one boundary of an nsync_mu operation on a note's note_mu (lock / trylock / unlock / the release and the
   re-acquisition inside nsync_mu_wait) OR one of: malloc, free, a clock read, a V / P on the waiting thread's
   semaphore.  The plain accesses that follow a step while the thread keeps what it owns (the note_mu's it holds, its own
   stack) are merged into that step; the only forward merges are `n->disconnecting--`, which is done in the step that
   unlocks n->note_mu right after it (notify, nsync_note_free).
   note_mu is ABSTRACT: an exclusive lock `option thread`; lock is enabled iff free, trylock succeeds if free (it may also
   fail although the lock is free -- nsync_mu_trylock gives up when its CAS loses a race on the other bits of the word --
   this is the choice c = true of the step),
   nsync_mu_wait (cond) = nothing if cond holds on entry, else a release step and then a blocking step that is enabled
   iff the lock is free and cond holds (C01/C02/C05/C06 are the licence).
   The recursion of note_notify_child is an explicit stack of frames in the thread state, so that every lock, unlock and
   site of every level is one step.
   A waiter record (struct nsync_waiter_s on the stack of nsync_wait_n, at most one per thread) is identified with its
   owner thread: `waiters` lists owner threads, the record's `waiting` word is the owner's `tw`, its semaphore the
   owner's `sem` (a counting semaphore).
   Values stored and the two generated guards come from Gen/Sites.v.  No proofs in this file. *)
From NsyncBase Require Import CSem.
From NsyncGen Require Import Consts Sites.
From Coq Require Import List ZArith Bool.
Import ListNotations.
Local Open Scope Z_scope.

(* ---------- time: nanoseconds, None = nsync_time_no_deadline ---------- *)
Definition time := option Z.
Definition tzero : time := Some 0.
Definition tpos (a : time) : bool := match a with None => true | Some z => 0 <? z end.          (* nsync_time_cmp (a, zero) > 0 *)
Definition tlt (a b : time) : bool :=                                                              (* nsync_time_cmp (a, b) < 0 *)
  match a, b with None, _ => false | Some _, None => true | Some x, Some y => x <? y end.
Definition tle_z (a : time) (now : Z) : bool := match a with None => false | Some z => z <=? now end. (* cmp (a, now) <= 0 *)
Definition tmin (a b : time) : time := if tlt a b then a else b.

(* ---------- notes ---------- *)
Record note := mk_note {
  alive : bool;             (* allocated and not yet freed *)
  expiry : time;            (* expiry_time (expiry_time_valid is always 1 after nsync_note_new) *)
  flag : Z;                 (* the `notified` word *)
  parent : option nat;
  children : list nat;      (* in list order *)
  waiters : list nat;       (* owner threads of the queued waiter records, in list order *)
  disc : nat;               (* disconnecting *)
  lock : option nat;        (* note_mu: the holder *)
  adoptions : nat;          (* number of children handed to this note by nsync_note_free of a child (uint32_t in C; overflow is not modelled) *)
  (* ghost: how the note was created *)
  cdl : time;               (* abs_deadline passed to nsync_note_new *)
  cpar : option nat;        (* parent passed to nsync_note_new *)
  cinh : bool;              (* nsync_note_new compared with the parent (it does so whenever the parent is not NULL) *)
  cpz : bool                (* ... and the parent's `notified` was already set then *)
}.
Definition note0 : note := mk_note false None 0 None [] [] O None O None None false false.

Definition set_alive (x : note) (v : bool) := mk_note v (expiry x) (flag x) (parent x) (children x) (waiters x) (disc x) (lock x) (adoptions x) (cdl x) (cpar x) (cinh x) (cpz x).
Definition set_expiry (x : note) (v : time) := mk_note (alive x) v (flag x) (parent x) (children x) (waiters x) (disc x) (lock x) (adoptions x) (cdl x) (cpar x) (cinh x) (cpz x).
Definition set_flag (x : note) (v : Z) := mk_note (alive x) (expiry x) v (parent x) (children x) (waiters x) (disc x) (lock x) (adoptions x) (cdl x) (cpar x) (cinh x) (cpz x).
Definition set_parent (x : note) (v : option nat) := mk_note (alive x) (expiry x) (flag x) v (children x) (waiters x) (disc x) (lock x) (adoptions x) (cdl x) (cpar x) (cinh x) (cpz x).
Definition set_children (x : note) (v : list nat) := mk_note (alive x) (expiry x) (flag x) (parent x) v (waiters x) (disc x) (lock x) (adoptions x) (cdl x) (cpar x) (cinh x) (cpz x).
Definition set_waiters (x : note) (v : list nat) := mk_note (alive x) (expiry x) (flag x) (parent x) (children x) v (disc x) (lock x) (adoptions x) (cdl x) (cpar x) (cinh x) (cpz x).
Definition set_disc (x : note) (v : nat) := mk_note (alive x) (expiry x) (flag x) (parent x) (children x) (waiters x) v (lock x) (adoptions x) (cdl x) (cpar x) (cinh x) (cpz x).
Definition set_lock (x : note) (v : option nat) := mk_note (alive x) (expiry x) (flag x) (parent x) (children x) (waiters x) (disc x) v (adoptions x) (cdl x) (cpar x) (cinh x) (cpz x).
Definition set_cinh (x : note) (i z : bool) := mk_note (alive x) (expiry x) (flag x) (parent x) (children x) (waiters x) (disc x) (lock x) (adoptions x) (cdl x) (cpar x) i z.
Definition set_adoptions (x : note) (v : nat) := mk_note (alive x) (expiry x) (flag x) (parent x) (children x) (waiters x) (disc x) (lock x) v (cdl x) (cpar x) (cinh x) (cpz x).

(* ---------- programs ---------- *)
Inductive op :=
| ONew (par : option nat) (dl : time)     (* nsync_note_new; the new note gets the next unused id (allocation order) *)
| ONotify (n : nat)
| OIsNotified (n : nat)
| OWait (n : nat) (dl : time)
| OExpiry (n : nat)
| OFree (n : nat).
Inductive res := RNone | RBool (b : bool) | RNote (r : option nat) | RTime (x : time) | RSkip.

(* ---------- control: a stack of frames per thread, callee on top ---------- *)
Inductive dst := D1 | D2 | D3 | D4 (x : time) | D5 (x : time).
  (* nsync_note_notified_deadline_: D1 load#1 (156) | D2 lock | D3 load#2 (160) | D4 unlock | D5 nsync_time_now; during the
     nested notify the frame stays at D5 *)
Inductive nst := N1 | N2 | N3 | N4 | N5 | N6 | N7 | N8 | N9 | N10 | N11.
  (* notify: N1 lock n | N2 mu_wait releases | N3 mu_wait re-acquires when not_disconnecting | N4 load#1 (130), disconnecting++
     | N5 trylock parent | N6 unlock n | N7 lock parent | N8 lock n | N9 inside note_notify_child (n, parent) | N10 unlock parent
     | N11 disconnecting-- (if it was incremented), unlock n *)
Inductive cst := C1 | C2 | C3 (o : nat) | C4 (o : nat) | C5 (c : nat) (nx : option nat) | CR (c : nat) (nx : option nat)
             | C6 (c : nat) (nx : option nat) (dec : bool) | C7 | C8.
  (* note_notify_child: C1 load#1 (85) | C2 store notified (89) | C3 store waiting=0 of o (93) | C4 V (o's semaphore)
     | C5 lock child c (and child->disconnecting++ if it was 0) | CR inside the recursive call for c
     | C6 child->disconnecting-- (if dec: the call was made), unlock child c | C7 mu_wait releases | C8 mu_wait re-acquires when no_children *)
Inductive fstg := F1 | Fw1 | Fw2 | F2 | F3 | F4 | F5 | F6 (c : nat) (nx : option nat) | F7 (c : nat) (nx : option nat)
                | FR (c : nat) (nx : option nat) | F8 (c : nat) (nx : option nat) (dec : bool) | F9 | F10 (seen : nat)
                | F11 | F12 | F13.
  (* nsync_note_free: F1 lock n | Fw1 mu_wait releases | Fw2 mu_wait re-acquires when not_disconnecting | (disconnecting++)
     | F2 trylock parent | F3 unlock n | F4 lock parent | F5 lock n | F6 lock child | F7 load parent->notified, child->disconnecting++
     if set | FR inside note_notify_child (c, n) | F8 child->disconnecting-- (if dec), unlock child
     | F9 cc.seen_adoptions = n->adoptions, mu_wait releases | F10 re-acquires when children_changed (no children left, or
     n->adoptions differs), and runs the adoption pass again | F11 unlock parent | F12 disconnecting--, unlock n | F13 free *)
Inductive newst := W1 | WD (n : nat) | W2 (n p : nat) (e : bool) | W3 (n p : nat) (e : bool) | W4 (n p : nat).
  (* nsync_note_new: W1 malloc | WD expired = nsync_note_is_notified (n) | W2 lock parent | W3 load parent->notified (NOTIFIED_TIME
     (parent)), the comparison with abs_deadline, the link under the parent unless expired | W4 unlock parent;
     e is the local `expired` *)
Inductive wst := WReady | E1 | E2 | E3 | E4 | E5 | WLoop | S1 (d : time) | WDeq | Q1 | Q2 | Q3 | Q4 (was : bool).
  (* nsync_note_wait: WReady first ready_time | note_enqueue: E1 lock, E2 load (285), E3 store waiting=1 (288), E4 store
     waiting=0 (291), E5 unlock | WLoop ready_time in the loop | S1 P with deadline d | note_dequeue: WDeq its call of
     nsync_note_notified_deadline_, Q1 lock, Q2 load (304), Q3 store waiting=0 (307), Q4 unlock *)
Inductive frame :=
| FD (n : nat) (s : dst)
| FN (n : nat) (s : nst) (par : option nat) (inc : bool)     (* inc: this call has incremented n->disconnecting *)
| FC (n : nat) (par : option nat) (s : cst)
| FF (n : nat) (s : fstg) (par : option nat)
| AIs (n : nat)
| ANotify (n : nat)
| ANew (par : option nat) (dl : time) (s : newst)
| AWait (n : nat) (dl : time) (s : wst)
| AExp (n : nat).

Record tstate := mk_t {
  stack : list frame;
  prog : list op;               (* remaining calls *)
  hist : list (op * res);       (* ghost: completed calls, latest first *)
  tw : Z;                       (* `waiting` of this thread's waiter record *)
  sem : nat;                    (* this thread's semaphore *)
  sb : bool                     (* ghost: the current call is an observation (is_notified / wait) and, when it started, a completed
                                   observation had already seen its note notified *)
}.

Record ghost := mk_g {
  freed : list nat;             (* notes whose free () has run *)
  notify_called : list nat;     (* notes on which nsync_note_notify has been called *)
  seen : list nat;              (* notes that a COMPLETED nsync_note_is_notified / nsync_note_wait reported notified *)
  obs : list (nat * nat * bool);(* history of observations (thread, note, result), latest first *)
  mono_bad : bool;              (* an observation that started after one in `seen` completed reported un-notified *)
  broken : bool;                (* the client broke the contract (see begin_call) *)
  crashed : bool                (* ASSERT (waiters empty) of nsync_note_free failed *)
}.

Record world := mk_w {
  notes : nat -> note;
  nnext : nat;                  (* number of notes allocated so far = the id of the next one *)
  clock : Z;
  thr : nat -> tstate;          (* thread states; threads >= nthr have empty programs *)
  nthr : nat;
  gh : ghost }.

Inductive ev :=
| EvLoad (site : Z) (n : nat) (v : Z)          (* load of notes[n].notified *)
| EvStoreN (site : Z) (n : nat) (v : Z)        (* store to notes[n].notified *)
| EvStoreW (site : Z) (o : nat) (v : Z)        (* store to the `waiting` word of thread o's waiter record *)
| EvLock (n : nat)                             (* nsync_mu_lock returned, or nsync_mu_wait re-acquired *)
| EvTry (n : nat) (ok : bool)
| EvUnlock (n : nat)                           (* nsync_mu_unlock, or the release inside nsync_mu_wait *)
| EvV (o : nat)
| EvP (ok : bool)                              (* true: took a count; false: ETIMEDOUT *)
| EvClock (now : Z)
| EvMalloc (r : option nat)
| EvFree (n : nat)
| EvExpiry (n : nat) (x : time)
| EvBlocked                                    (* the step is not enabled; nothing changed *)
| EvNone.

(* site ids: function * 10 + ordinal of the site inside the function in Gen/Sites.sites_note_c *)
Definition s_C (k : Z) := 10 + k.      (* note_notify_child 1..3 *)
Definition s_N (k : Z) := 20 + k.      (* notify 1 *)
Definition s_D (k : Z) := 30 + k.      (* nsync_note_notified_deadline_ 1..2 *)
Definition s_W (k : Z) := 40 + k.      (* nsync_note_new 1 *)
Definition s_F (k : Z) := 50 + k.      (* nsync_note_free 1 *)
Definition s_E (k : Z) := 60 + k.      (* note_enqueue 1..3 *)
Definition s_Q (k : Z) := 70 + k.      (* note_dequeue 1..2 *)

(* ---------- small helpers ---------- *)
Definition fupd {A} (f : nat -> A) (k : nat) (v : A) : nat -> A := fun x => if Nat.eqb x k then v else f x.
Fixpoint remove_nat (x : nat) (l : list nat) : list nat :=
  match l with [] => [] | y :: r => if Nat.eqb y x then r else y :: remove_nat x r end.       (* nsync_dll_remove_: one occurrence *)
Fixpoint next_in (l : list nat) (x : nat) : option nat :=                                        (* nsync_dll_next_ *)
  match l with [] => None | y :: r => if Nat.eqb y x then hd_error r else next_in r x end.
Fixpoint mem_nat (x : nat) (l : list nat) : bool := match l with [] => false | y :: r => Nat.eqb y x || mem_nat x r end.
Definition ptr_of (p : option nat) : Z := match p with None => 0 | Some n => Z.of_nat n + 1 end.   (* NULL = 0 *)

Definition dflt := mk_t [] [] [] 0 O false.
Definition get (w : world) (t : nat) := thr w t.
Definition nt (w : world) (n : nat) := notes w n.
Definition set_thr (w : world) (t : nat) (s : tstate) : world := mk_w (notes w) (nnext w) (clock w) (fupd (thr w) t s) (nthr w) (gh w).
Definition setst (w : world) (t : nat) (st : list frame) : world :=
  let s := get w t in set_thr w t (mk_t st (prog s) (hist s) (tw s) (sem s) (sb s)).
Definition set_tw (w : world) (o : nat) (v : Z) : world :=
  let s := get w o in set_thr w o (mk_t (stack s) (prog s) (hist s) v (sem s) (sb s)).
Definition set_sem (w : world) (o : nat) (v : nat) : world :=
  let s := get w o in set_thr w o (mk_t (stack s) (prog s) (hist s) (tw s) v (sb s)).
Definition set_note (w : world) (n : nat) (x : note) : world := mk_w (fupd (notes w) n x) (nnext w) (clock w) (thr w) (nthr w) (gh w).
Definition set_gh (w : world) (g : ghost) : world := mk_w (notes w) (nnext w) (clock w) (thr w) (nthr w) g.
Definition lock_free (w : world) (n : nat) : bool := match lock (nt w n) with None => true | Some _ => false end.
Definition acquire (w : world) (t n : nat) : world := set_note w n (set_lock (nt w n) (Some t)).
Definition release (w : world) (n : nat) : world := set_note w n (set_lock (nt w n) None).
Definition notified_time (w : world) (n : nat) (v : Z) : time := if v =? 0 then expiry (nt w n) else tzero.   (* NOTIFIED_TIME, v = the word loaded *)
Definition no_children (w : world) (n : nat) : bool := match children (nt w n) with [] => true | _ => false end.
Definition not_disconnecting (w : world) (n : nat) : bool := Nat.eqb (disc (nt w n)) 0.

(* ---------- ghost bookkeeping ---------- *)
Definition g_set_broken (g : ghost) := mk_g (freed g) (notify_called g) (seen g) (obs g) (mono_bad g) true (crashed g).
Definition g_set_crashed (g : ghost) := mk_g (freed g) (notify_called g) (seen g) (obs g) (mono_bad g) (broken g) true.
Definition g_add_freed (g : ghost) (n : nat) := mk_g (n :: freed g) (notify_called g) (seen g) (obs g) (mono_bad g) (broken g) (crashed g).
Definition g_add_called (g : ghost) (n : nat) := mk_g (freed g) (n :: notify_called g) (seen g) (obs g) (mono_bad g) (broken g) (crashed g).
Definition g_observe (g : ghost) (t n : nat) (b before : bool) :=
  mk_g (freed g) (notify_called g) (if b then n :: seen g else seen g) ((t, n, b) :: obs g)
       (mono_bad g || (before && negb b)) (broken g) (crashed g).

(* the call o of thread t returns r: the whole stack is popped *)
Definition finish (w : world) (t : nat) (o : op) (r : res) : world :=
  let s := get w t in
  let w1 := set_thr w t (mk_t [] (prog s) ((o, r) :: hist s) (tw s) (sem s) false) in
  match o, r with
  | OIsNotified n, RBool b => set_gh w1 (g_observe (gh w) t n b (sb s))
  | OWait n _, RBool b => set_gh w1 (g_observe (gh w) t n b (sb s))
  | _, _ => w1
  end.

(* ---------- client contract, checked when a call starts (ghost `broken`) ----------
   A call may name only notes that are not freed, that no thread is freeing, and whose nsync_note_new has returned;
   nsync_note_free (n) may start only when no other thread is inside a call that names n.  (So: each note is freed at most once, and only after every
   other thread's operations on that note have finished; nobody uses it afterwards.)  Calls naming a note that has not
   been allocated yet are skipped (result RSkip). *)
Definition op_note (o : op) : option nat :=
  match o with ONew p _ => p | ONotify n | OIsNotified n | OWait n _ | OExpiry n | OFree n => Some n end.
Definition frame_note (f : frame) : option nat :=       (* the note named by the call whose bottom frame is f *)
  match f with
  | AIs n | ANotify n | AWait n _ _ | AExp n => Some n
  | ANew p _ _ => p
  | FF n _ _ => Some n
  | _ => None
  end.
Definition cur_note (s : tstate) : option nat := match rev (stack s) with f :: _ => frame_note f | [] => None end.
Definition cur_free (s : tstate) : option nat := match rev (stack s) with FF n _ _ :: _ => Some n | _ => None end.
Definition cur_new (s : tstate) : option nat :=           (* the note this thread's nsync_note_new is still constructing *)
  match rev (stack s) with
  | ANew _ _ (WD n) :: _ | ANew _ _ (W2 n _ _) :: _ | ANew _ _ (W3 n _ _) :: _ | ANew _ _ (W4 n _) :: _ => Some n
  | _ => None
  end.
Definition opt_is (x : option nat) (n : nat) : bool := match x with Some m => Nat.eqb m n | None => false end.
Definition any_other (w : world) (t : nat) (p : tstate -> bool) : bool :=      (* some thread other than t satisfies p *)
  existsb (fun k => negb (Nat.eqb k t) && p (thr w k)) (seq 0 (nthr w)).
Definition contract_ok (w : world) (t : nat) (o : op) : bool :=
  match op_note o with
  | None => true
  | Some n =>
      negb (mem_nat n (freed (gh w)))
      && negb (any_other w t (fun s => opt_is (cur_free s) n))
      && negb (any_other w t (fun s => opt_is (cur_new s) n))
      && match o with OFree _ => negb (any_other w t (fun s => opt_is (cur_note s) n)) | _ => true end
  end.

Definition begin_call (w : world) (t : nat) : world :=
  let s := get w t in
  match stack s, prog s with
  | [], o :: rest =>
      match op_note o with
      | Some n => if Nat.ltb n (nnext w) then
                    let g := if contract_ok w t o then gh w else g_set_broken (gh w) in
                    let g := match o with ONotify m => g_add_called g m | _ => g end in
                    let f := match o with
                             | ONew p dl => ANew p dl W1 | ONotify m => ANotify m | OIsNotified m => AIs m
                             | OWait m dl => AWait m dl WReady | OExpiry m => AExp m | OFree m => FF m F1 None end in
                    let st := match o with
                              | ONotify m | OIsNotified m | OWait m _ => [FD m D1; f]
                              | _ => [f] end in
                    let b := match o with OIsNotified _ | OWait _ _ => mem_nat n (seen (gh w)) | _ => false end in
                    set_gh (set_thr w t (mk_t st rest (hist s) (tw s) (sem s) b)) g
                  else set_thr w t (mk_t [] rest ((o, RSkip) :: hist s) (tw s) (sem s) false)
      | None => match o with
                | ONew p dl => set_thr w t (mk_t [ANew p dl W1] rest (hist s) (tw s) (sem s) false)
                | _ => w
                end
      end
  | _, _ => w
  end.

(* ---------- returns ---------- *)
(* nsync_note_notified_deadline_ returns v to the frame below it (rest = the stack below the FD frame) *)
Definition ret_D (w : world) (t : nat) (rest : list frame) (v : time) : world :=
  match rest with
  | AIs n :: _ => finish w t (OIsNotified n) (RBool (negb (tpos v)))
  | ANotify n :: _ => if tpos v then setst w t (FN n N1 None false :: rest) else finish w t (ONotify n) RNone
  | ANew par dl (WD n) :: r =>
      match par with      (* expired = (cmp (v, zero) <= 0); if (parent != NULL) -- Sites.nsync_note_new_load1_guard, pinned by NoteProof.new_guard *)
      | Some p => setst w t (ANew par dl (W2 n p (negb (tpos v))) :: r)
      | None => finish w t (ONew par dl) (RNote (Some n))
      end
  | AWait n dl WReady :: r =>
      if tpos v && tpos dl then setst (set_tw w t nsync_wait_n_store1_new) t (AWait n dl E1 :: r)      (* wait.c: ATM_STORE (&nw[i].waiting, 0) on the private record *)
      else finish w t (OWait n dl) (RBool (negb (tpos v)))
  | AWait n dl WLoop :: r =>
      let m := if tlt v dl then v else dl in
      if tpos m then setst w t (AWait n dl (S1 m) :: r) else setst w t (FD n D1 :: AWait n dl WDeq :: r)
  | AWait n dl WDeq :: r => setst w t (AWait n dl Q1 :: r)
  | _ => w
  end.
(* notify returns *)
Definition ret_N (w : world) (t : nat) (rest : list frame) : world :=
  match rest with
  | FD n (D5 _) :: r => ret_D w t r tzero
  | ANotify n :: _ => finish w t (ONotify n) RNone
  | _ => w
  end.

(* note_notify_child returns (rest = the stack below its frame): the caller moves to its next program point *)
Definition ret_C (w : world) (t : nat) (rest : list frame) : world :=
  match rest with
  | FN n N9 par inc :: r => setst w t (FN n (match par with Some _ => N10 | None => N11 end) par inc :: r)
  | FC n par (CR c nx) :: r => setst w t (FC n par (C6 c nx true) :: r)
  | FF n (FR c nx) par :: r => setst w t (FF n (F8 c nx true) par :: r)
  | _ => setst w t rest
  end.

(* ---------- note_notify_child: the thread-local parts ---------- *)
Definition c_finish (w : world) (t n : nat) (par : option nat) (rest : list frame) : world :=
  match par with
  | Some p => let w1 := set_note w p (set_children (nt w p) (remove_nat n (children (nt w p)))) in
              ret_C (set_note w1 n (set_parent (nt w1 n) None)) t rest
  | None => ret_C w t rest
  end.
Definition c_wait (w : world) (t n : nat) (par : option nat) (rest : list frame) : world :=
  if no_children w n then c_finish w t n par rest else setst w t (FC n par C7 :: rest).
Definition c_loop (w : world) (t n : nat) (par : option nat) (rest : list frame) (p : option nat) : world :=
  match p with
  | Some c => setst w t (FC n par (C5 c (next_in (children (nt w n)) c)) :: rest)
  | None => c_wait w t n par rest
  end.
Definition c_wloop (w : world) (t n : nat) (par : option nat) (rest : list frame) : world :=
  match waiters (nt w n) with
  | o :: ws => setst (set_note w n (set_waiters (nt w n) ws)) t (FC n par (C3 o) :: rest)
  | [] => c_loop w t n par rest (hd_error (children (nt w n)))
  end.

Definition step_C (w : world) (t : nat) (n : nat) (par : option nat) (s : cst) (rest : list frame) : world * ev :=
  match s with
  | C1 => let v := flag (nt w n) in
          if tpos (notified_time w n v) then (setst w t (FC n par C2 :: rest), EvLoad (s_C 1) n v)
          else (ret_C w t rest, EvLoad (s_C 1) n v)
  | C2 => let w1 := set_note w n (set_flag (nt w n) note_notify_child_store1_new) in
          (c_wloop w1 t n par rest, EvStoreN (s_C 2) n note_notify_child_store1_new)
  | C3 o => (setst (set_tw w o note_notify_child_store2_new) t (FC n par (C4 o) :: rest), EvStoreW (s_C 3) o note_notify_child_store2_new)
  | C4 o => (c_wloop (set_sem w o (S (sem (get w o)))) t n par rest, EvV o)
  | C5 c nx => if lock_free w c then
                 let w1 := acquire w t c in
                 if Nat.eqb (disc (nt w1 c)) 0 then
                   (setst (set_note w1 c (set_disc (nt w1 c) (S (disc (nt w1 c))))) t (FC c (Some n) C1 :: FC n par (CR c nx) :: rest), EvLock c)
                 else (setst w1 t (FC n par (C6 c nx false) :: rest), EvLock c)
               else (w, EvBlocked)
  | CR _ _ => (w, EvNone)
  | C6 c nx dec => let w1 := if dec then set_note w c (set_disc (nt w c) (pred (disc (nt w c)))) else w in
                   (c_loop (release w1 c) t n par rest nx, EvUnlock c)
  | C7 => (setst (release w n) t (FC n par C8 :: rest), EvUnlock n)
  | C8 => if lock_free w n && no_children w n then (c_finish (acquire w t n) t n par rest, EvLock n) else (w, EvBlocked)
  end.

(* ---------- notify ---------- *)
Definition step_N (w : world) (t : nat) (c : bool) (n : nat) (s : nst) (par : option nat) (inc : bool) (rest : list frame) : world * ev :=
  match s with
  | N1 => if lock_free w n then
            let w1 := acquire w t n in
            if not_disconnecting w1 n then (setst w1 t (FN n N4 par inc :: rest), EvLock n)
            else (setst w1 t (FN n N2 par inc :: rest), EvLock n)
          else (w, EvBlocked)
  | N2 => (setst (release w n) t (FN n N3 par inc :: rest), EvUnlock n)
  | N3 => if lock_free w n && not_disconnecting w n then (setst (acquire w t n) t (FN n N4 par inc :: rest), EvLock n) else (w, EvBlocked)
  | N4 => let v := flag (nt w n) in
          if tpos (notified_time w n v) then
            let w1 := set_note w n (set_disc (nt w n) (S (disc (nt w n)))) in
            let p := parent (nt w n) in
            match p with
            | Some _ => (setst w1 t (FN n N5 p true :: rest), EvLoad (s_N 1) n v)
            | None => (setst w1 t (FC n None C1 :: FN n N9 None true :: rest), EvLoad (s_N 1) n v)
            end
          else (setst w t (FN n N11 par false :: rest), EvLoad (s_N 1) n v)
  | N5 => match par with
          | Some p => if lock_free w p && negb c then (setst (acquire w t p) t (FC n par C1 :: FN n N9 par inc :: rest), EvTry p true)
                      else (setst w t (FN n N6 par inc :: rest), EvTry p false)
          | None => (w, EvNone)
          end
  | N6 => (setst (release w n) t (FN n N7 par inc :: rest), EvUnlock n)
  | N7 => match par with
          | Some p => if lock_free w p then (setst (acquire w t p) t (FN n N8 par inc :: rest), EvLock p) else (w, EvBlocked)
          | None => (w, EvNone)
          end
  | N8 => if lock_free w n then (setst (acquire w t n) t (FC n par C1 :: FN n N9 par inc :: rest), EvLock n) else (w, EvBlocked)
  | N9 => (w, EvNone)
  | N10 => match par with
           | Some p => (setst (release w p) t (FN n N11 par inc :: rest), EvUnlock p)
           | None => (w, EvNone)
           end
  | N11 => let w1 := if inc then set_note w n (set_disc (nt w n) (pred (disc (nt w n)))) else w in
           (ret_N (release w1 n) t rest, EvUnlock n)
  end.

(* ---------- nsync_note_notified_deadline_ ---------- *)
Definition step_D (w : world) (t : nat) (n : nat) (s : dst) (rest : list frame) : world * ev :=
  match s with
  | D1 => let v := flag (nt w n) in
          if v =? 0 then (setst w t (FD n D2 :: rest), EvLoad (s_D 1) n v) else (ret_D w t rest tzero, EvLoad (s_D 1) n v)
  | D2 => if lock_free w n then (setst (acquire w t n) t (FD n D3 :: rest), EvLock n) else (w, EvBlocked)
  | D3 => let v := flag (nt w n) in (setst w t (FD n (D4 (notified_time w n v)) :: rest), EvLoad (s_D 2) n v)
  | D4 x => let w1 := release w n in
            if tpos x then (setst w1 t (FD n (D5 x) :: rest), EvUnlock n) else (ret_D w1 t rest x, EvUnlock n)
  | D5 x => if tle_z x (clock w) then (setst w t (FN n N1 None false :: FD n (D5 x) :: rest), EvClock (clock w))
            else (ret_D w t rest x, EvClock (clock w))
  end.

(* ---------- nsync_note_free ---------- *)
Definition f_post (w : world) (t n : nat) (par : option nat) (rest : list frame) : world :=
  match par with
  | Some p => let w1 := set_note w p (set_children (nt w p) (remove_nat n (children (nt w p)))) in
              setst (set_note w1 n (set_parent (nt w1 n) None)) t (FF n F11 par :: rest)
  | None => setst w t (FF n F12 par :: rest)
  end.
Definition f_wait (w : world) (t n : nat) (par : option nat) (rest : list frame) : world :=
  if no_children w n then f_post w t n par rest else setst w t (FF n F9 par :: rest).
Definition children_changed (w : world) (n : nat) (seen : nat) : bool := no_children w n || negb (Nat.eqb (adoptions (nt w n)) seen).
Definition f_loop (w : world) (t n : nat) (par : option nat) (rest : list frame) (p : option nat) : world :=
  match p with
  | Some c => setst w t (FF n (F6 c (next_in (children (nt w n)) c)) par :: rest)
  | None => f_wait w t n par rest
  end.
(* the re-parenting branch: child c of n goes to n's parent (or becomes a root) *)
Definition adopt (w : world) (n c : nat) (par : option nat) : world :=
  let w1 := set_note w n (set_children (nt w n) (remove_nat c (children (nt w n)))) in
  match par with
  | Some p => let w2 := set_note w1 c (set_parent (nt w1 c) (Some p)) in
              let w3 := set_note w2 p (set_children (nt w2 p) (children (nt w2 p) ++ [c])) in
              set_note w3 p (set_adoptions (nt w3 p) (S (adoptions (nt w3 p))))
  | None => set_note w1 c (set_parent (nt w1 c) None)
  end.

(* after nsync_mu_wait (not_disconnecting): disconnecting++, the ASSERT, parent = n->parent, and on to the trylock or the loop *)
Definition f_enter (w1 : world) (t n : nat) (rest : list frame) : world :=
  let w2 := set_note w1 n (set_disc (nt w1 n) (S (disc (nt w1 n)))) in
  let w3 := match waiters (nt w2 n) with [] => w2 | _ => set_gh w2 (g_set_crashed (gh w2)) end in
  let p := parent (nt w3 n) in
  match p with
  | Some _ => setst w3 t (FF n F2 p :: rest)
  | None => f_loop w3 t n None rest (hd_error (children (nt w3 n)))
  end.

Definition step_F (w : world) (t : nat) (c : bool) (n : nat) (s : fstg) (par : option nat) (rest : list frame) : world * ev :=
  match s with
  | F1 => if lock_free w n then
            let w1 := acquire w t n in
            if not_disconnecting w1 n then (f_enter w1 t n rest, EvLock n) else (setst w1 t (FF n Fw1 par :: rest), EvLock n)
          else (w, EvBlocked)
  | Fw1 => (setst (release w n) t (FF n Fw2 par :: rest), EvUnlock n)
  | Fw2 => if lock_free w n && not_disconnecting w n then (f_enter (acquire w t n) t n rest, EvLock n) else (w, EvBlocked)
  | F2 => match par with
          | Some p => if lock_free w p && negb c then (f_loop (acquire w t p) t n par rest (hd_error (children (nt w n))), EvTry p true)
                      else (setst w t (FF n F3 par :: rest), EvTry p false)
          | None => (w, EvNone)
          end
  | F3 => (setst (release w n) t (FF n F4 par :: rest), EvUnlock n)
  | F4 => match par with
          | Some p => if lock_free w p then (setst (acquire w t p) t (FF n F5 par :: rest), EvLock p) else (w, EvBlocked)
          | None => (w, EvNone)
          end
  | F5 => if lock_free w n then let w1 := acquire w t n in (f_loop w1 t n par rest (hd_error (children (nt w1 n))), EvLock n)
          else (w, EvBlocked)
  | F6 c nx => if lock_free w c then
                 let w1 := acquire w t c in
                 if Nat.eqb (disc (nt w1 c)) 0 then
                   if nsync_note_free_load1_guard (ptr_of par) then (setst w1 t (FF n (F7 c nx) par :: rest), EvLock c)
                   else (setst (adopt w1 n c None) t (FF n (F8 c nx false) par :: rest), EvLock c)
                 else (setst w1 t (FF n (F8 c nx false) par :: rest), EvLock c)
               else (w, EvBlocked)
  | F7 c nx => match par with
               | Some p => let v := flag (nt w p) in
                           if negb (v =? 0) then
                             (setst (set_note w c (set_disc (nt w c) (S (disc (nt w c))))) t (FC c (Some n) C1 :: FF n (FR c nx) par :: rest), EvLoad (s_F 1) p v)
                           else (setst (adopt w n c par) t (FF n (F8 c nx false) par :: rest), EvLoad (s_F 1) p v)
               | None => (w, EvNone)
               end
  | FR _ _ => (w, EvNone)
  | F8 c nx dec => let w1 := if dec then set_note w c (set_disc (nt w c) (pred (disc (nt w c)))) else w in
                   (f_loop (release w1 c) t n par rest nx, EvUnlock c)
  | F9 => (setst (release w n) t (FF n (F10 (adoptions (nt w n))) par :: rest), EvUnlock n)
  | F10 seen => if lock_free w n && children_changed w n seen then
                  let w1 := acquire w t n in (f_loop w1 t n par rest (hd_error (children (nt w1 n))), EvLock n)
                else (w, EvBlocked)
  | F11 => match par with
           | Some p => (setst (release w p) t (FF n F12 par :: rest), EvUnlock p)
           | None => (w, EvNone)
           end
  | F12 => let w1 := set_note w n (set_disc (nt w n) (pred (disc (nt w n)))) in
           (setst (release w1 n) t (FF n F13 par :: rest), EvUnlock n)
  | F13 => let w1 := set_note w n (set_alive (nt w n) false) in
           (finish (set_gh w1 (g_add_freed (gh w1) n)) t (OFree n) RNone, EvFree n)
  end.

(* ---------- nsync_note_new ---------- *)
Definition step_New (w : world) (t : nat) (c : bool) (par : option nat) (dl : time) (s : newst) (rest : list frame) : world * ev :=
  match s with
  | W1 => if c then (finish w t (ONew par dl) (RNote None), EvMalloc None)             (* malloc failed: nothing touched *)
          else let n := nnext w in
               let x := mk_note true dl 0 None [] [] O None O dl par false false in    (* memset 0, dll_init, set_expiry_time *)
               let w1 := mk_w (fupd (notes w) n x) (S n) (clock w) (thr w) (nthr w) (gh w) in
               (setst w1 t (FD n D1 :: ANew par dl (WD n) :: rest), EvMalloc (Some n))
  | WD _ => (w, EvNone)
  | W2 n p e => if lock_free w p then (setst (acquire w t p) t (ANew par dl (W3 n p e) :: rest), EvLock p) else (w, EvBlocked)
  | W3 n p e => let v := flag (nt w p) in
              let pt := notified_time w p v in
              let w1 := set_note w n (set_cinh (nt w n) true (negb (v =? 0))) in
              let w2 := if tlt pt dl then set_note w1 n (set_expiry (nt w1 n) pt) else w1 in
              let w3 := if negb e && tpos pt then
                          let w' := set_note w2 n (set_parent (nt w2 n) (Some p)) in
                          set_note w' p (set_children (nt w' p) (children (nt w' p) ++ [n]))
                        else w2 in
              (setst w3 t (ANew par dl (W4 n p) :: rest), EvLoad (s_W 1) p v)
  | W4 n p => (finish (release w p) t (ONew par dl) (RNote (Some n)), EvUnlock p)
  end.

(* ---------- nsync_note_wait ---------- *)
Definition step_Wait (w : world) (t : nat) (c : bool) (n : nat) (dl : time) (s : wst) (rest : list frame) : world * ev :=
  match s with
  | WReady | WLoop | WDeq => (w, EvNone)
  | E1 => if lock_free w n then (setst (acquire w t n) t (AWait n dl E2 :: rest), EvLock n) else (w, EvBlocked)
  | E2 => let v := flag (nt w n) in
          if tpos (notified_time w n v) then
            (setst (set_note w n (set_waiters (nt w n) (waiters (nt w n) ++ [t]))) t (AWait n dl E3 :: rest), EvLoad (s_E 1) n v)
          else (setst w t (AWait n dl E4 :: rest), EvLoad (s_E 1) n v)
  | E3 => (setst (set_tw w t note_enqueue_store1_new) t (AWait n dl E5 :: rest), EvStoreW (s_E 2) t note_enqueue_store1_new)
  | E4 => (setst (set_tw w t note_enqueue_store2_new) t (AWait n dl E5 :: rest), EvStoreW (s_E 3) t note_enqueue_store2_new)
  | E5 => (setst (release w n) t (FD n D1 :: AWait n dl WLoop :: rest), EvUnlock n)
  | S1 d => if c then
              (if tle_z d (clock w) then (setst w t (FD n D1 :: AWait n dl WDeq :: rest), EvP false) else (w, EvBlocked))
            else match sem (get w t) with
                 | S k => (setst (set_sem w t k) t (FD n D1 :: AWait n dl WLoop :: rest), EvP true)
                 | O => (w, EvBlocked)
                 end
  | Q1 => if lock_free w n then (setst (acquire w t n) t (AWait n dl Q2 :: rest), EvLock n) else (w, EvBlocked)
  | Q2 => let v := flag (nt w n) in
          if tpos (notified_time w n v) then
            (setst (set_note w n (set_waiters (nt w n) (remove_nat t (waiters (nt w n))))) t (AWait n dl Q3 :: rest), EvLoad (s_Q 1) n v)
          else (setst w t (AWait n dl (Q4 false) :: rest), EvLoad (s_Q 1) n v)
  | Q3 => (setst (set_tw w t note_dequeue_store1_new) t (AWait n dl (Q4 true) :: rest), EvStoreW (s_Q 2) t note_dequeue_store1_new)
  | Q4 was => (finish (release w n) t (OWait n dl) (RBool (negb was)), EvUnlock n)
  end.

(* ---------- the step of thread t; c resolves malloc failure (W1), P-success vs. timeout (S1), and a spurious trylock failure (N5, F2) ---------- *)
Definition step (w0 : world) (t : nat) (c : bool) : world * ev :=
  let w := begin_call w0 t in
  match stack (get w t) with
  | [] => (w, EvNone)
  | f :: rest =>
      match f with
      | FD n s => step_D w t n s rest
      | FN n s par inc => step_N w t c n s par inc rest
      | FC n par s => step_C w t n par s rest
      | FF n s par => step_F w t c n s par rest
      | ANew par dl s => step_New w t c par dl s rest
      | AWait n dl s => step_Wait w t c n dl s rest
      | AExp n => (finish w t (OExpiry n) (RTime (expiry (nt w n))), EvExpiry n (expiry (nt w n)))
      | AIs _ | ANotify _ => (w, EvNone)
      end
  end.

(* the notes the step of thread t reads or writes (its footprint), including taking or testing their lock *)
Definition opt_cons (p : option nat) (l : list nat) : list nat := match p with Some x => x :: l | None => l end.
Definition touches (w0 : world) (t : nat) : list nat :=
  let w := begin_call w0 t in
  match stack (get w t) with
  | [] => []
  | f :: _ =>
      match f with
      | FD n _ => [n]
      | FN n s par _ => match s with
                        | N5 | N7 | N10 => opt_cons par []
                        | _ => [n]
                        end
      | FC n par s => match s with
                      | C1 | C3 _ | C7 | CR _ _ => [n]
                      | C5 c _ => [c]
                      | C6 c _ _ => n :: c :: opt_cons par []     (* the unlink at the end of the function may follow in the same step *)
                      | C2 | C4 _ | C8 => n :: opt_cons par []
                      end
      | FF n s par => match s with
                      | F1 | Fw1 | Fw2 | F3 | F9 | F12 | F13 | FR _ _ => [n]
                      | F4 | F11 => opt_cons par []
                      | F2 | F5 | F10 _ => n :: opt_cons par []
                      | F6 c _ => [n; c]
                      | F7 c _ | F8 c _ _ => n :: c :: opt_cons par []
                      end
      | ANew par dl s => match s with
                         | W1 => []
                         | WD n => [n]
                         | W2 n p _ => [p]
                         | W3 n p _ => [n; p]
                         | W4 n p => [p]
                         end
      | AWait n _ _ => [n]
      | AExp n => [n]
      | AIs n | ANotify n => [n]
      end
  end.

Inductive act := AStep (t : nat) (c : bool) | ATick (d : Z).
Definition tick (w : world) (d : Z) : world := mk_w (notes w) (nnext w) (clock w + Z.max 0 d) (thr w) (nthr w) (gh w).
Definition exec (w : world) (a : act) : world := match a with AStep t c => fst (step w t c) | ATick d => tick w d end.
Definition g0 : ghost := mk_g [] [] [] [] false false false.
Definition init (clock0 : Z) (progs : list (list op)) : world :=
  mk_w (fun _ => note0) O clock0 (fun t => nth t (map (fun p => mk_t [] p [] 0 O false) progs) dflt) (length progs) g0.
Definition run (w : world) (sched : list act) : world := fold_left exec sched w.
Definition reachable (w : world) : Prop := exists c0 progs sched, 0 <= c0 /\ w = run (init c0 progs) sched.

(* ---------- vocabulary of the statements ---------- *)
Definition is_notified (w : world) (n : nat) : Prop := flag (nt w n) <> 0.
(* what every observer reports: the word is set, or the note was created with a deadline that is not after the epoch
   (NOTIFIED_TIME is then <= 0 although nobody ever stores to `notified`) *)
Definition obs_notified (w : world) (n : nat) : Prop := flag (nt w n) <> 0 \/ tpos (expiry (nt w n)) = false.
Inductive cpath (w : world) : nat -> nat -> Prop :=       (* a is n or a creation-time ancestor of n *)
| cp_refl n : cpath w n n
| cp_step n p a : cpar (nt w n) = Some p -> cpath w p a -> cpath w n a.
Definition cause (w : world) (n : nat) : Prop :=
  exists a, cpath w n a /\ (In a (notify_called (gh w)) \/ exists d, cdl (nt w a) = Some d /\ d <= clock w).
Fixpoint path_min (w : world) (fuel : nat) (n : nat) : time :=   (* min of the creation deadlines on the creation path; a parent already notified counts as zero *)
  match fuel with
  | O => cdl (nt w n)
  | S k => match cpar (nt w n) with
           | None => cdl (nt w n)
           | Some p => tmin (if cpz (nt w n) then tzero else path_min w k p) (cdl (nt w n))
           end
  end.
Fixpoint subtree (w : world) (fuel : nat) (n : nat) : list nat :=    (* n and its current descendants, to depth fuel *)
  match fuel with
  | O => [n]
  | S k => n :: flat_map (subtree w k) (children (nt w n))
  end.
Definition returned (w w' : world) (t : nat) (o : op) (r : res) : Prop := hist (get w' t) = (o, r) :: hist (get w t).
Definition unfinished (w : world) (t : nat) : Prop := stack (get w t) <> [] \/ prog (get w t) <> [].
