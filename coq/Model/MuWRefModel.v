(* MuWRefModel: the reference-count client of property C13 on top of Model/MuWaitModel.v (mu.c + mu_wait.c: the mutex WITH
   conditional critical sections -- nsync_mu_wait_with_deadline, mu_try_acquire_after_timeout_or_cancel, the full conditional
   nsync_mu_unlock_slow_ with the conversion to a writer lock and the late release, nsync_mu_unlock_without_wakeup).  The
   wrapper of Model/MuRefModel.v (over the condition-free MuModel) and Model/MuXRefModel.v (over MuXferModel) lifted to the
   setting in which a timed-out nsync_mu_wait leaves MU_WAITING | MU_CONDITION set over an EMPTY mu->waiters.

   N threads share an object { nsync_mu mu; int refs; <the state the conditions read> } and each thread owns one reference.
   Every thread is a USER and runs

        ... any number of extra rounds: lock/unlock, rlock/runlock, trylock [+ the guarded block when it succeeded],
            writes to the protected state in a write section, nsync_mu_wait_with_deadline in either mode with any condition /
            condition_arg_eq / deadline / cancel note (also calls that time out or are cancelled INSIDE the critical section and
            return with the lock held: the VRT_MUWAIT shape of harness/scen/refcount.c), nsync_mu_unlock_without_wakeup ...
        acquire in write mode;  last = (--refs == 0);  nsync_mu_unlock (or nsync_mu_unlock_without_wakeup);  if (last) free (obj);

   MuWaitModel.step_thr is used UNCHANGED for every step a thread takes inside an nsync_mu_* call; this file only adds the
   client's own steps (the decrement, the free, the `if (trylock ...)` guard) and the ghost fields

     refs   the client's counter (lives in the same object as the mutex)
     freed  ghost: free (obj) has been called
     bad    ghost: set when, after [freed], a thread takes a step that accesses mu->word or mu->waiters or the protected state
            ([touches_mu]), when the client reads/writes refs again, or when free is called a second time
     ph     the client pc of every thread: Pre (still owns its reference), Dec last (has decremented, last is the value it
            computed), Done (has passed `if (last) free`)

   What is part of the freed object: mu->word, mu->waiters (MuWaitModel's [word], [queue]) and the protected state ([pst]).
   NOT part of it: the waiter structs of the threads (w->nw.waiting, w->sem, w->l_type, w->cond, w->remove_count, the dll
   links and the same_condition links: [waiting] [sem] [wtype] [wcond] [weq] [rcount] [scp] [scn]) -- they live in nsync's
   waiter pool and are never freed; the scanner's lists waiters / new_waiters / wake of nsync_mu_unlock_slow_ are LOCAL
   variables (heads of lists threaded through those waiter structs); the clock and the cancel note.
   No proofs in this file. *)
From NsyncBase Require Import CSem.
From NsyncGen Require Import Consts Sites.
From NsyncModel Require Import MuWaitModel.
From Coq Require Import List ZArith Bool.
Import ListNotations.
Local Open Scope Z_scope.

Inductive phase := Pre | Dec (is_last : bool) | Done.

Record rwworld := mk_rw { ww : world; refs : Z; freed : bool; bad : bool; ph : list phase }.

(* does the step taken at this pc (the pc AFTER begin_op, i.e. the pc whose branch of MuWaitModel.step_thr runs) access
   mu->word, mu->waiters or the protected state?  From MuWaitModel.step_thr, branch by branch
   (W = the mutex word, Q = mu->waiters, S = protected state, r = waiter records / semaphores / locals only):

     pc                                     what the branch does                                               touches
     Idle, Crash                            returns the world unchanged                                        -       false
     LkFast LkCas2 TryFast TryCas2          [cas] on W                                                          W       true
     LkLoad TryLoad                         reads W (the slow path also writes the thread's OWN l_type / cond)  W       true
     LsLoad                                 reads W                                                             W       true
     LsCasAcq LsCasEnq                      [cas] on W                                                          W       true
     LsStoreWaiting                         own waiting flag := 1; mu->waiters := dll_make_first/last           Q       true
     LsWaitLoad, LsSemP                     own waiting flag / own semaphore only                               r       true [+]
     RelLoad k                              reads W  (mu_release_spinlock)                                      W       true
     RelCas k                               [cas] on W; k = KScan: goes on through the scanner's local list     W       true
     SpinLoad k                             reads W  (nsync_spin_test_and_set_)                                 W       true
     SpinCas k                              [cas] on W; KWait: merges with dll_last/first (mu->waiters) and
                                            queues the waiter; KScan: appends new_waiters to the local waiters
                                            and picks up mu->waiters (round_end), maybe mu->waiters := waiters  W Q     true
     RmLoad k                               reads remove_count of the waiter being removed                      r       true [+]
     RmCas k                                CAS on that remove_count; KTry: mu->waiters := remove (mu->waiters, w);
                                            KScan: removes from the LOCAL new_waiters, then (spinlock held, not
                                            testing) round_end / finalize: mu->waiters read and written         Q       true
     UlFast UlCas2 UwFast UwCas2            [cas] on W                                                          W       true
     UlLoad UwLoad                          reads W                                                             W       true
     UsLoad                                 reads W                                                             W       true
     UsCasRel                               [cas] on W (the uncontended release of nsync_mu_unlock_slow_)       W       true
     UsCasSpin                              [cas] on W; new_waiters := mu->waiters; mu->waiters := NULL; scan   W Q     true
     UsEval                                 calls the condition of a waiter: reads that waiter's cond fields
                                            and the protected state; then local list work; may reach round_end  S (Q)   true
     UsRelLoad                              reads W                                                             W       true
     UsRelCas                               [cas] on W: the LAST access of nsync_mu_unlock_slow_ to the mutex   W       true
     UsWakeStore                            [set_waiting w p false]: the waiting flag of the dequeued waiter p  r       false
     UsWakeV                                [set_sem w p ..]: p's semaphore                                     r       false
     SetC                                   writes the protected state                                          S       true
     MwLoad                                 reads W                                                             W       true
     MwEval                                 calls the caller's condition: protected state                       S       true
     MwStoreWaiting MwRcLoad                own waiter record only                                              r       true [+]
     MwRelLoad                              reads W                                                             W       true
     MwRelCas                               [cas] on W                                                          W       true
     MwLoadW1 MwLoadW2 MwLoadW3 MwSemP      own waiting flag / own semaphore / clock / note only                r       true [+]
     MtLoad                                 reads W                                                             W       true
     MtCas1 MtCas2                          [cas] on W                                                          W       true
     MtLoadW MtLoadRc MtStoreW              own waiting flag / own remove_count                                 r       true [+]
     MtStore2 MtStore3                      ATM_STORE_REL (&mu->word, ..)                                       W       true

   [+] these steps touch only the waiter record of the thread itself (or of the waiter under the scan's cursor) but are taken
   in the MIDDLE of an nsync call whose next atomic site is on the mutex; they are counted as touching all the same, which only
   makes [bad] easier to set (as Model/MuRefModel.v does for LsWaitLoad / LsSemP).  The two pcs with touches_mu = false are
   exactly the tail of nsync_mu_unlock_slow_ after its last CAS: the store to the dequeued waiter's flag and the V on its
   semaphore.  (Proof/MuWRefProof3.v, touches_mu_sound: a step with touches_mu = false leaves word, queue and pst unchanged.) *)
Definition touches_mu (p : pc) : bool :=
  match p with
  | Idle | Crash _ | UsWakeStore _ _ | UsWakeV _ _ _ => false
  | _ => true
  end.

Definition phase_of (w : rwworld) (t : nat) : phase := nth t (ph w) Done.

Definition is_idle (p : pc) : bool := match p with Idle => true | _ => false end.
Definition no_ops (l : list op) : bool := match l with [] => true | _ => false end.
(* all that is left of the program is the release of the write lock: nsync_mu_unlock or nsync_mu_unlock_without_wakeup *)
Definition only_release (l : list op) : bool := match l with [OUnlock] | [OUnlockNW] => true | _ => false end.
Definition holds_w (h : option mode) : bool := match h with Some W => true | _ => false end.

(* the client rewrites its own remaining program (thread-local control flow of the client, no shared access) *)
Definition set_ops (w : world) (t : nat) (o : list op) : world :=
  let s := get w t in set_t w t (mk_t (t_pc s) o (held s) (conv s) (spin s) (mw s) (last_ret s)).

(* ---- the client's steps ---- *)
(* last = (--refs == 0) *)
Definition do_dec (w : rwworld) (t : nat) : rwworld :=
  let r := refs w - 1 in
  mk_rw (ww w) r (freed w) (bad w || freed w) (lupd (ph w) t (Dec (r =? 0))).
(* if (last) free (obj) *)
Definition do_free (w : rwworld) (t : nat) (l : bool) : rwworld :=
  mk_rw (ww w) (refs w) (freed w || l) (bad w || (l && freed w)) (lupd (ph w) t Done).
(* one step inside an nsync_mu_* call (or a write to the protected state): MuWaitModel.step_thr, unchanged *)
Definition step_touches (w : world) (t : nat) : bool := touches_mu (t_pc (get (begin_op w t) t)).
Definition do_mu (w : rwworld) (t : nat) (c : choice) : rwworld :=
  mk_rw (fst (step_thr (ww w) t c)) (refs w) (freed w) (bad w || (freed w && step_touches (ww w) t)) (ph w).
(* the client changes what it will call next (no access to shared memory) *)
Definition do_ops (w : rwworld) (t : nat) (o : list op) : rwworld :=
  mk_rw (set_ops (ww w) t o) (refs w) (freed w) (bad w) (ph w).

(* may the thread decrement now?  it is back from its acquiring call (nsync_mu_lock, a successful nsync_mu_trylock, or an
   nsync_mu_wait_with_deadline that returned -- perhaps by timeout or cancellation -- with the write lock), holds the lock in
   write mode, and all that is left of its program is the release *)
Definition dec_ready (s : tstate) : bool := is_idle (t_pc s) && only_release (t_ops s) && holds_w (held s).
(* the release has returned *)
Definition free_ready (s : tstate) : bool := is_idle (t_pc s) && no_ops (t_ops s).

(* `if (nsync_mu_trylock (mu)) { ...; nsync_mu_unlock (mu); }`: the thread is between calls, holds nothing, and the next
   call of its list needs the lock -- the guarded block (up to and including its release) is skipped.  When that release was
   the LAST call the failed trylock was the acquisition of the decrement round: the client tries again
   (`while (!nsync_mu_trylock (mu)) yield ();`, as harness/scen/refcount.c does). *)
Definition needs_lock (o : op) : bool :=
  match o with OUnlock | OUnlockNW | OSetCond _ _ _ | OMuWait _ _ _ _ => true | _ => false end.
Fixpoint skip_block (l : list op) : list op :=
  match l with
  | [] => []
  | OUnlock :: r | OUnlockNW :: r => r
  | _ :: r => skip_block r
  end.
Definition skip_ready (s : tstate) : option (list op) :=
  match t_pc s, held s, t_ops s with
  | Idle, None, o :: rest => if needs_lock o then Some (skip_block (o :: rest)) else None
  | _, _, _ => None
  end.
Definition after_skip (rest : list op) : list op :=
  match rest with [] => [OTry W; OUnlock] | _ => rest end.

Definition rwstep_thr (w : rwworld) (t : nat) (c : choice) : rwworld :=
  let s := get (ww w) t in
  match phase_of w t with
  | Pre =>
      if dec_ready s then do_dec w t
      else match skip_ready s with
           | Some rest => do_ops w t (after_skip rest)
           | None => do_mu w t c
           end
  | Dec l => if free_ready s then do_free w t l else do_mu w t c
  | Done => do_mu w t c
  end.

(* the other actors of MuWaitModel (the clock, the cancel note and its posts on the waiters' semaphores) touch neither the
   mutex nor the client's fields *)
Definition rwstep (w : rwworld) (a : actor) : rwworld :=
  match a with
  | Thr t c => rwstep_thr w t c
  | _ => mk_rw (fst (step (ww w) a)) (refs w) (freed w) (bad w) (ph w)
  end.

(* any programs; refs starts at the number of threads *)
Definition rwinit (progs : list (list op)) (cl : nat -> nat) (clock0 : Z) : rwworld :=
  mk_rw (init progs cl clock0) (Z.of_nat (length progs)) false false (map (fun _ => Pre) progs).

(* the programs of the pattern: extra rounds, then the decrement round *)
Definition pattern (extras : list (list op)) : list (list op) := map (fun e => e ++ [OLock W; OUnlock]) extras.

Definition rwrun (w : rwworld) (sched : list actor) : rwworld := fold_left rwstep sched w.
