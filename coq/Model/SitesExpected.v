(* The atomic-site inventory of each nsync source file as it was when the models were written and validated:
   (function, ordinal, kind, memory order, target).  Proof/SitesPinned.v proves that the inventory regenerated from
   /repo (Gen/Sites.v) still equals it; line numbers are deliberately not part of the signature. *)
From NsyncGen Require Import Sites.
From Coq Require Import String List.
Import ListNotations.
Local Open Scope string_scope.

Definition site_sig (s : site) := (s_fn s, s_ord s, s_kind s, s_order s, s_target s).

Definition expected_common_c : list (string * nat * akind * aorder * string) := [
  ("nsync_spin_test_and_set_", 1%nat, Kload, Orlx, "w");
  ("nsync_spin_test_and_set_", 2%nat, Kcas, Oacq, "w");
  ("nsync_spin_test_and_set_", 3%nat, Kload, Orlx, "w");
  ("waiter_destroy", 1%nat, Kstore, Orel, "free_waiters_mu");
  ("nsync_waiter_new_", 1%nat, Kstore, Orel, "free_waiters_mu");
  ("nsync_waiter_new_", 2%nat, Kstore, Orlx, "remove_count.w");
  ("nsync_waiter_free_", 1%nat, Kstore, Orel, "free_waiters_mu")].

Definition expected_counter_c : list (string * nat * akind * aorder * string) := [
  ("nsync_counter_new", 1%nat, Kstore, Orlx, "value.c");
  ("nsync_counter_add", 1%nat, Kload, Oacq, "value.c");
  ("nsync_counter_add", 2%nat, Kload, Orlx, "value.c");
  ("nsync_counter_add", 3%nat, Kcas, Oacqrel, "value.c");
  ("nsync_counter_add", 4%nat, Kload, Orlx, "waited.c");
  ("nsync_counter_add", 5%nat, Kstore, Orel, "waiting.nw");
  ("nsync_counter_value", 1%nat, Kload, Oacq, "value.c");
  ("nsync_counter_wait", 1%nat, Kload, Oacq, "value.c");
  ("counter_ready_time", 1%nat, Kstore, Orlx, "waited.c");
  ("counter_ready_time", 2%nat, Kload, Oacq, "value.c");
  ("counter_enqueue", 1%nat, Kload, Oacq, "value.c");
  ("counter_enqueue", 2%nat, Kstore, Orlx, "waiting.nw");
  ("counter_enqueue", 3%nat, Kstore, Orlx, "waiting.nw");
  ("counter_dequeue", 1%nat, Kload, Oacq, "value.c");
  ("counter_dequeue", 2%nat, Kload, Oacq, "waiting.nw");
  ("counter_dequeue", 3%nat, Kstore, Orlx, "waiting.nw")].

Definition expected_cv_c : list (string * nat * akind * aorder * string) := [
  ("wake_waiters", 1%nat, Kload, Orlx, "word.pmu");
  ("wake_waiters", 2%nat, Kcas, Oacq, "word.pmu");
  ("wake_waiters", 3%nat, Kload, Orlx, "word.pmu");
  ("wake_waiters", 4%nat, Kcas, Orel, "word.pmu");
  ("wake_waiters", 5%nat, Kload, Orlx, "word.pmu");
  ("wake_waiters", 6%nat, Kstore, Orel, "waiting.p_nw");
  ("nsync_cv_wait_with_deadline_generic", 1%nat, Kstore, Orlx, "waiting.nw.w");
  ("nsync_cv_wait_with_deadline_generic", 2%nat, Kload, Orlx, "word.cv_mu");
  ("nsync_cv_wait_with_deadline_generic", 3%nat, Kload, Orlx, "remove_count.w");
  ("nsync_cv_wait_with_deadline_generic", 4%nat, Kstore, Orel, "word.pcv");
  ("nsync_cv_wait_with_deadline_generic", 5%nat, Kload, Oacq, "waiting.nw.w");
  ("nsync_cv_wait_with_deadline_generic", 6%nat, Kload, Orlx, "waiting.nw.w");
  ("nsync_cv_wait_with_deadline_generic", 7%nat, Kload, Orlx, "waiting.nw.w");
  ("nsync_cv_wait_with_deadline_generic", 8%nat, Kload, Orlx, "remove_count.w");
  ("nsync_cv_wait_with_deadline_generic", 9%nat, Kload, Orlx, "remove_count.w");
  ("nsync_cv_wait_with_deadline_generic", 10%nat, Kcas, Orlx, "remove_count.w");
  ("nsync_cv_wait_with_deadline_generic", 11%nat, Kstore, Orel, "waiting.nw.w");
  ("nsync_cv_wait_with_deadline_generic", 12%nat, Kstore, Orel, "word.pcv");
  ("nsync_cv_wait_with_deadline_generic", 13%nat, Kload, Orlx, "waiting.nw.w");
  ("nsync_cv_signal", 1%nat, Kload, Oacq, "word.pcv");
  ("nsync_cv_signal", 2%nat, Kload, Orlx, "remove_count.nsync_dll_waiter_.first");
  ("nsync_cv_signal", 3%nat, Kcas, Orlx, "remove_count.nsync_dll_waiter_.first");
  ("nsync_cv_signal", 4%nat, Kload, Orlx, "remove_count.nsync_dll_waiter_.p");
  ("nsync_cv_signal", 5%nat, Kcas, Orlx, "remove_count.nsync_dll_waiter_.p");
  ("nsync_cv_signal", 6%nat, Kstore, Orel, "word.pcv");
  ("nsync_cv_broadcast", 1%nat, Kload, Oacq, "word.pcv");
  ("nsync_cv_broadcast", 2%nat, Kload, Orlx, "remove_count.nsync_dll_waiter_.p");
  ("nsync_cv_broadcast", 3%nat, Kcas, Orlx, "remove_count.nsync_dll_waiter_.p");
  ("nsync_cv_broadcast", 4%nat, Kstore, Orel, "word.pcv");
  ("cv_ready_time", 1%nat, Kload, Oacq, "waiting.nw");
  ("cv_enqueue", 1%nat, Kstore, Orlx, "waiting.nw");
  ("cv_enqueue", 2%nat, Kstore, Orel, "word.pcv");
  ("cv_dequeue", 1%nat, Kload, Oacq, "waiting.nw");
  ("cv_dequeue", 2%nat, Kstore, Orlx, "waiting.nw");
  ("cv_dequeue", 3%nat, Kstore, Orel, "word.pcv");
  ("cv_dequeue", 4%nat, Kload, Oacq, "waiting.nw")].

Definition expected_debug_c : list (string * nat * akind * aorder * string) := [
  ("emit_waiters", 1%nat, Kload, Orlx, "waiting.nw");
  ("emit_waiters", 2%nat, Kload, Orlx, "remove_count.w");
  ("emit_mu_state", 1%nat, Kload, Orlx, "word.mu");
  ("emit_mu_state", 2%nat, Kload, Orlx, "word.mu");
  ("emit_mu_state", 3%nat, Kcas, Orel, "word.mu");
  ("emit_mu_state", 4%nat, Kload, Orlx, "word.mu");
  ("emit_cv_state", 1%nat, Kload, Orlx, "word.cv");
  ("emit_cv_state", 2%nat, Kstore, Orel, "word.cv")].

Definition expected_mu_c : list (string * nat * akind * aorder * string) := [
  ("mu_release_spinlock", 1%nat, Kload, Orlx, "word.mu");
  ("mu_release_spinlock", 2%nat, Kcas, Orel, "word.mu");
  ("mu_release_spinlock", 3%nat, Kload, Orlx, "word.mu");
  ("nsync_mu_lock_slow_", 1%nat, Kload, Orlx, "word.mu");
  ("nsync_mu_lock_slow_", 2%nat, Kcas, Oacq, "word.mu");
  ("nsync_mu_lock_slow_", 3%nat, Kcas, Oacq, "word.mu");
  ("nsync_mu_lock_slow_", 4%nat, Kstore, Orlx, "waiting.nw.w");
  ("nsync_mu_lock_slow_", 5%nat, Kload, Oacq, "waiting.nw.w");
  ("nsync_mu_trylock", 1%nat, Kcas, Oacq, "word.mu");
  ("nsync_mu_trylock", 2%nat, Kload, Orlx, "word.mu");
  ("nsync_mu_trylock", 3%nat, Kcas, Oacq, "word.mu");
  ("nsync_mu_lock", 1%nat, Kcas, Oacq, "word.mu");
  ("nsync_mu_lock", 2%nat, Kload, Orlx, "word.mu");
  ("nsync_mu_lock", 3%nat, Kcas, Oacq, "word.mu");
  ("nsync_mu_rtrylock", 1%nat, Kcas, Oacq, "word.mu");
  ("nsync_mu_rtrylock", 2%nat, Kload, Orlx, "word.mu");
  ("nsync_mu_rtrylock", 3%nat, Kcas, Oacq, "word.mu");
  ("nsync_mu_rlock", 1%nat, Kcas, Oacq, "word.mu");
  ("nsync_mu_rlock", 2%nat, Kload, Orlx, "word.mu");
  ("nsync_mu_rlock", 3%nat, Kcas, Oacq, "word.mu");
  ("nsync_remove_from_mu_queue_", 1%nat, Kload, Orlx, "remove_count.nsync_dll_waiter_.e");
  ("nsync_remove_from_mu_queue_", 2%nat, Kcas, Orlx, "remove_count.nsync_dll_waiter_.e");
  ("nsync_mu_unlock_slow_", 1%nat, Kload, Orlx, "word.mu");
  ("nsync_mu_unlock_slow_", 2%nat, Kcas, Orel, "word.mu");
  ("nsync_mu_unlock_slow_", 3%nat, Kcas, Oacqrel, "word.mu");
  ("nsync_mu_unlock_slow_", 4%nat, Kload, Orlx, "word.mu");
  ("nsync_mu_unlock_slow_", 5%nat, Kcas, Orel, "word.mu");
  ("nsync_mu_unlock_slow_", 6%nat, Kload, Orlx, "word.mu");
  ("nsync_mu_unlock_slow_", 7%nat, Kstore, Orel, "waiting.nsync_dll_nsync_waiter_.p");
  ("nsync_mu_unlock", 1%nat, Kcas, Orel, "word.mu");
  ("nsync_mu_unlock", 2%nat, Kload, Orlx, "word.mu");
  ("nsync_mu_unlock", 3%nat, Kcas, Orel, "word.mu");
  ("nsync_mu_runlock", 1%nat, Kcas, Orel, "word.mu");
  ("nsync_mu_runlock", 2%nat, Kload, Orlx, "word.mu");
  ("nsync_mu_runlock", 3%nat, Kcas, Orel, "word.mu");
  ("nsync_mu_assert_held", 1%nat, Kload, Orlx, "word.mu");
  ("nsync_mu_rassert_held", 1%nat, Kload, Orlx, "word.mu");
  ("nsync_mu_is_reader", 1%nat, Kload, Orlx, "word.mu")].

Definition expected_mu_wait_c : list (string * nat * akind * aorder * string) := [
  ("mu_try_acquire_after_timeout_or_cancel", 1%nat, Kload, Orlx, "word.mu");
  ("mu_try_acquire_after_timeout_or_cancel", 2%nat, Kcas, Oacq, "word.mu");
  ("mu_try_acquire_after_timeout_or_cancel", 3%nat, Kcas, Oacqrel, "word.mu");
  ("mu_try_acquire_after_timeout_or_cancel", 4%nat, Kload, Orlx, "word.mu");
  ("mu_try_acquire_after_timeout_or_cancel", 5%nat, Kload, Orlx, "waiting.nw.w");
  ("mu_try_acquire_after_timeout_or_cancel", 6%nat, Kload, Orlx, "remove_count.w");
  ("mu_try_acquire_after_timeout_or_cancel", 7%nat, Kstore, Orlx, "waiting.nw.w");
  ("mu_try_acquire_after_timeout_or_cancel", 8%nat, Kstore, Orel, "word.mu");
  ("mu_try_acquire_after_timeout_or_cancel", 9%nat, Kstore, Orel, "word.mu");
  ("nsync_mu_wait_with_deadline", 1%nat, Kload, Orlx, "word.mu");
  ("nsync_mu_wait_with_deadline", 2%nat, Kstore, Orlx, "waiting.nw.w");
  ("nsync_mu_wait_with_deadline", 3%nat, Kload, Orlx, "remove_count.w");
  ("nsync_mu_wait_with_deadline", 4%nat, Kload, Orlx, "word.mu");
  ("nsync_mu_wait_with_deadline", 5%nat, Kcas, Orel, "word.mu");
  ("nsync_mu_wait_with_deadline", 6%nat, Kload, Oacq, "waiting.nw.w");
  ("nsync_mu_wait_with_deadline", 7%nat, Kload, Orlx, "waiting.nw.w");
  ("nsync_mu_wait_with_deadline", 8%nat, Kload, Orlx, "waiting.nw.w");
  ("nsync_mu_unlock_without_wakeup", 1%nat, Kcas, Orel, "word.mu");
  ("nsync_mu_unlock_without_wakeup", 2%nat, Kload, Orlx, "word.mu");
  ("nsync_mu_unlock_without_wakeup", 3%nat, Kcas, Orel, "word.mu")].

Definition expected_note_c : list (string * nat * akind * aorder * string) := [
  ("note_notify_child", 1%nat, Kload, Oacq, "notified.n");
  ("note_notify_child", 2%nat, Kstore, Orel, "notified.n");
  ("note_notify_child", 3%nat, Kstore, Orel, "waiting.nw");
  ("notify", 1%nat, Kload, Oacq, "notified.n");
  ("nsync_note_notified_deadline_", 1%nat, Kload, Oacq, "notified.n");
  ("nsync_note_notified_deadline_", 2%nat, Kload, Oacq, "notified.n");
  ("nsync_note_new", 1%nat, Kload, Oacq, "notified.parent");
  ("nsync_note_free", 1%nat, Kload, Oacq, "notified.parent");
  ("note_enqueue", 1%nat, Kload, Oacq, "notified.n");
  ("note_enqueue", 2%nat, Kstore, Orlx, "waiting.nw");
  ("note_enqueue", 3%nat, Kstore, Orlx, "waiting.nw");
  ("note_dequeue", 1%nat, Kload, Oacq, "notified.n");
  ("note_dequeue", 2%nat, Kstore, Orlx, "waiting.nw")].

Definition expected_nsync_semaphore_futex_c : list (string * nat * akind * aorder * string) := [
  ("nsync_mu_semaphore_p", 1%nat, Kload, Orlx, "i.f");
  ("nsync_mu_semaphore_p", 2%nat, Kcas, Oacq, "i.f");
  ("nsync_mu_semaphore_p_with_deadline", 1%nat, Kload, Orlx, "i.f");
  ("nsync_mu_semaphore_p_with_deadline", 2%nat, Kcas, Oacq, "i.f");
  ("nsync_mu_semaphore_v", 1%nat, Kload, Orlx, "i.f");
  ("nsync_mu_semaphore_v", 2%nat, Kcas, Orel, "i.f")].

Definition expected_once_c : list (string * nat * akind * aorder * string) := [
  ("nsync_run_once_impl", 1%nat, Kload, Oacq, "once");
  ("nsync_run_once_impl", 2%nat, Kcas, Oacq, "once");
  ("nsync_run_once_impl", 3%nat, Kload, Orlx, "once");
  ("nsync_run_once_impl", 4%nat, Kstore, Orel, "once");
  ("nsync_run_once_impl", 5%nat, Kload, Oacq, "once");
  ("nsync_run_once", 1%nat, Kload, Oacq, "once");
  ("nsync_run_once_arg", 1%nat, Kload, Oacq, "once");
  ("nsync_run_once_spin", 1%nat, Kload, Oacq, "once");
  ("nsync_run_once_arg_spin", 1%nat, Kload, Oacq, "once")].

Definition expected_per_thread_waiter_c : list (string * nat * akind * aorder * string) := [
  ("do_once", 1%nat, Kload, Oacq, "ponce");
  ("do_once", 2%nat, Kcas, Oacq, "ponce");
  ("do_once", 3%nat, Kload, Orlx, "ponce");
  ("do_once", 4%nat, Kstore, Orel, "ponce");
  ("do_once", 5%nat, Kload, Oacq, "ponce")].

Definition expected_sem_wait_c : list (string * nat * akind * aorder * string) := [
  ("nsync_sem_wait_with_cancel_", 1%nat, Kstore, Orlx, "waiting.nw");
  ("nsync_sem_wait_with_cancel_", 2%nat, Kload, Oacq, "notified.cancel_note");
  ("nsync_sem_wait_with_cancel_", 3%nat, Kload, Oacq, "notified.cancel_note")].

Definition expected_wait_c : list (string * nat * akind * aorder * string) := [
  ("nsync_wait_n", 1%nat, Kstore, Orlx, "waiting.nw.i")].

