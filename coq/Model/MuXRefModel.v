(* MuXRefModel: the reference-count client of property C13 on top of Model/MuXferModel.v (mutex + condition-variable
   traffic: nsync_cv_wait with the transfer to the mutex queue, nsync_cv_signal / broadcast / wake_waiters, nsync_wait_n
   records on the cv).  The wrapper of Model/MuRefModel.v (which is over the condition-free MuModel) lifted to the
   combined model -- the setting in which finding F15 lived.

   The threads share an object { nsync_mu mu; int refs; } and a condition variable cv that is NOT part of the object.
   USER threads own one reference each and run

        ... any number of extra rounds: lock/unlock, rlock/runlock, trylock [+unlock when it succeeded],
            nsync_cv_wait in either mode, nsync_wait_n with or without the mutex, nsync_cv_signal / broadcast under
            either lock or none ...
        lock (mu);  last = (--refs == 0);  unlock (mu);  if (last) free (obj);

   NON-USER threads own no reference and never call an nsync_mu_* function: they wait on the cv through
   nsync_wait_n (NULL, ...) and call nsync_cv_signal / nsync_cv_broadcast (whose wake_waiters DOES read and CAS the
   mutex word of the waiters it has picked, and may take the mutex spinlock).

   MuXferModel.xstep_thr is used UNCHANGED for every step inside an nsync call; this file only adds the client's own
   steps (the decrement, the free, the `if (trylock ...)` guard) and the ghost fields

     refs   the client's counter (lives in the same object as the mutex)
     freed  ghost: free (obj) has been called
     bad    ghost: set when, after [freed], a thread takes a step that accesses mu->word or mu->waiters
            ([xtouches_mu]), when the client reads/writes refs again, or when free is called a second time
     ph     the client pc of every thread: Pre (still owns its reference), Dec last (has decremented, last is the value
            it computed), Done (has passed `if (last) free`), NonUser

   What is part of the freed object: mu->word and mu->waiters.  NOT part of it: the cv (word, queue), the waiter
   structs of the threads (w->nw.waiting, w->sem, w->l_type, w->cv_mu: nsync's waiter pool, never freed), the
   nsync_wait_n records (in their callers' frames).  No proofs in this file. *)
From NsyncBase Require Import CSem.
From NsyncGen Require Import Consts Sites.
From NsyncModel Require Import MuModel MuXferModel.
From NsyncModel Require MuRefModel.
From Coq Require Import List ZArith Bool.
Import ListNotations.
Local Open Scope Z_scope.

Inductive phase := Pre | Dec (is_last : bool) | Done | NonUser.

Record rxworld := mk_rx { xw : xworld; refs : Z; freed : bool; bad : bool; ph : list phase }.

(* does the MuModel step taken at this pc access mu->word or mu->waiters?  The table of Model/MuRefModel.v: every pc but
   Idle, Crash, UsWakeStore (the waiting flag of the dequeued waiter), UsWakeV (its semaphore). *)
Definition mu_touches (p : pc) : bool := MuRefModel.touches_mu p.

(* does the step taken at wrapper pc xp (MuModel pc p, both AFTER xbegin / begin_op) access mu->word or mu->waiters?
   From MuXferModel.xstep_thr, branch by branch:
     XIdle XwUnlock XwReacq XnUnlock XnReacq          a MuModel step                                     -> mu_touches p
     XwLoadMu                                         ATM_LOAD (&cv_mu->word)                            -> true
     XvLoad1 XvCas1 XvLoad3 XvCas2 XvLoad5            wake_waiters' sites on pmu->word; the successful XvCas1 also
                                                      appends to pmu->waiters and tests it for emptiness -> true
     XCrash                                           nothing                                            -> false
     XwStore XwLoop XwLoad6 XwLoad13 XvStore          the waiting flag of a waiter struct / wait_n record, w->cv_mu
     XnStore0 XnReady XnSpin                          (XwLoop also sets the thread's own next MuModel pc) -> false
     XwSem XnSem XvV                                  a semaphore                                        -> false
     XwEnq XwConfirm XkLoad XkSelect XnEnq XnDeq      the cv word and the cv queue (+ the flag of the thread's own
                                                      record; XwEnq / XnEnq / XnDeq also set the thread's next
                                                      MuModel pc)                                        -> false
   (Proof/MuXRefProof.v, xtouches_mu_sound: a step with xtouches_mu = false leaves word and queue unchanged.) *)
Definition xtouches_mu (xp : xpc) (p : pc) : bool :=
  match xp with
  | XIdle | XwUnlock _ | XwReacq _ | XnUnlock _ | XnReacq _ => mu_touches p
  | XwLoadMu _ | XvLoad1 _ | XvCas1 _ _ | XvLoad3 _ | XvCas2 _ _ | XvLoad5 _ => true
  | _ => false
  end.

Definition phase_of (w : rxworld) (t : nat) : phase := nth t (ph w) Done.

Definition is_xidle (p : xpc) : bool := match p with XIdle => true | _ => false end.
Definition only_unlock (l : list xop) : bool := match l with [XOp OUnlock] => true | _ => false end.
Definition no_xops (l : list xop) : bool := match l with [] => true | _ => false end.
Definition holds_w (h : option mode) : bool := match h with Some W => true | _ => false end.

(* the thread is between nsync calls *)
Definition between (x : xworld) (t : nat) : bool := is_xidle (x_pc (xget x t)) && mu_idle (mw x) t.

(* may the thread decrement now?  it is back from its acquiring call, holds the lock in write mode, and all that is
   left of its program is the release *)
Definition dec_ready (x : xworld) (t : nat) : bool :=
  between x t && only_unlock (x_ops (xget x t)) && holds_w (held (get (mw x) t)).
(* the release has returned *)
Definition free_ready (x : xworld) (t : nat) : bool := between x t && no_xops (x_ops (xget x t)).

(* `if (nsync_mu_trylock (mu)) { ...; nsync_mu_unlock (mu); }`: the thread is between calls, holds nothing, and the
   next call of its list is the release -- the guarded block is skipped.  When that release is the LAST call the failed
   trylock was the acquisition of the decrement round: the client tries again (`while (!nsync_mu_trylock (mu)) yield ();`) *)
Definition skip_ready (x : xworld) (t : nat) : option (list xop) :=
  if between x t then
    match held (get (mw x) t), x_ops (xget x t) with
    | None, XOp OUnlock :: rest => Some rest
    | _, _ => None
    end
  else None.
Definition after_skip (rest : list xop) : list xop :=
  match rest with [] => [XOp (OTry W); XOp OUnlock] | _ => rest end.

(* the client rewrites its own remaining program (thread-local control flow, no shared access) *)
Definition set_xops (x : xworld) (t : nat) (o : list xop) : xworld :=
  let s := xget x t in set_xt x t (mk_xt (x_pc s) o (x_rets s)).

(* ---- the client's steps ---- *)
(* last = (--refs == 0) *)
Definition do_dec (w : rxworld) (t : nat) : rxworld :=
  let r := refs w - 1 in
  mk_rx (xw w) r (freed w) (bad w || freed w) (lupd (ph w) t (Dec (r =? 0))).
(* if (last) free (obj) *)
Definition do_free (w : rxworld) (t : nat) (l : bool) : rxworld :=
  mk_rx (xw w) (refs w) (freed w || l) (bad w || (l && freed w)) (lupd (ph w) t Done).
(* one step inside an nsync call: MuXferModel.xstep_thr, unchanged *)
Definition step_touches (x : xworld) (t : nat) : bool :=
  let x1 := xbegin x t in
  xtouches_mu (x_pc (xget x1 t)) (t_pc (get (begin_op (mw x1) t) t)).
Definition do_x (w : rxworld) (t : nat) (c : choice) : rxworld :=
  mk_rx (fst (xstep_thr (xw w) t c)) (refs w) (freed w) (bad w || (freed w && step_touches (xw w) t)) (ph w).
Definition do_ops (w : rxworld) (t : nat) (o : list xop) : rxworld :=
  mk_rx (set_xops (xw w) t o) (refs w) (freed w) (bad w) (ph w).

Definition rxstep_thr (w : rxworld) (t : nat) (c : choice) : rxworld :=
  match phase_of w t with
  | Pre =>
      if dec_ready (xw w) t then do_dec w t
      else match skip_ready (xw w) t with
           | Some rest => do_ops w t (after_skip rest)
           | None => do_x w t c
           end
  | Dec l => if free_ready (xw w) t then do_free w t l else do_x w t c
  | Done | NonUser => do_x w t c
  end.

Definition rxstep (w : rxworld) (a : actor) : rxworld :=
  match a with
  | Thr t c => rxstep_thr w t c
  | EnvV p => mk_rx (fst (xstep (xw w) (EnvV p))) (refs w) (freed w) (bad w) (ph w)
  end.

(* what a thread that does not own a reference may call: nsync_wait_n (NULL, ..., {cv}), nsync_cv_signal, nsync_cv_broadcast *)
Definition nonuser_op (o : xop) : bool :=
  match o with XWaitN None | XSignal | XBroadcast => true | _ => false end.

(* a thread: (is a user of the object, its program).  A user's program is ANY list of calls (ill-formed ones crash in the
   models and then never give their reference back); a non-user's program is cut down to the calls it may make.
   refs starts at the number of users. *)
Definition prog_of (up : bool * list xop) : list xop := if fst up then snd up else filter nonuser_op (snd up).
Definition rxinit (progs : list (bool * list xop)) : rxworld :=
  mk_rx (xinit (map prog_of progs)) (Z.of_nat (length (filter fst progs))) false false
        (map (fun up : bool * list xop => if fst up then Pre else NonUser) progs).

(* the intended programs: extra rounds, then the decrement round *)
Definition user (extras : list xop) : bool * list xop := (true, extras ++ [XOp (OLock W); XOp OUnlock]).
Definition nonuser (calls : list xop) : bool * list xop := (false, calls).

Definition rxrun (w : rxworld) (sched : list actor) : rxworld := fold_left rxstep sched w.
