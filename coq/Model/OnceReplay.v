(* helpers used only by replay/once_replay.ml *)
From NsyncModel Require Import OnceModel.
From Coq Require Import List.
Import ListNotations.
Definition push_call (w : world) (t o : nat) (spin : bool) : world :=
  let s := get w t in
  match pc s with
  | OIdle => set_thr w (lupd (thr w) t (mk_t (pc s) (cur s) (calls s ++ [(o, spin)]) (returned s)))
  | _ => w
  end.
