(* helpers used only by replay/once_replay.ml *)
From NsyncModel Require Import OnceModel.
From Coq Require Import List.
Import ListNotations.
Definition push_call (w : world) (t o : nat) (spin : bool) : world :=
  let s := get w t in
  match pc s with
  | OIdle => mk_w (once w) (runs w) (completed w) (early w) (lupd (thr w) t (mk_t (pc s) (calls s ++ [(o, spin)]) (returned s)))
  | _ => w
  end.
