(* helpers used only by the lock-step replayer (replay/sem_replay.ml) *)
From NsyncBase Require Import CSem.
From NsyncModel Require Import SemModel.
From Coq Require Import List ZArith.
Import ListNotations.

Definition push_call (w : world) (c : option tm) : world :=
  mk_w (word w) (clock w) (owner w) (oprog w ++ [c]) (SemModel.last w) (posters w) (nP w) (nV w) (cbeg w) (rets w).
Definition add_post (w : world) (k : nat) : world :=   (* poster k is about to call V once more *)
  match nth_error (posters w) k with
  | Some (p, n) => set_poster w k (p, S n)
  | None => w
  end.
Definition poster_idle (w : world) (k : nat) : bool :=
  match nth_error (posters w) k with Some (VIdle, _) => true | _ => false end.
Definition expected_ts (w : world) : option (option tm) :=
  match owner w with TFutex d => Some (ts_of d) | PFutex => Some None | _ => None end.
Definition last_code (w : world) : Z := match SemModel.last w with RNone => (-1)%Z | ROk => 0%Z | RTimedOut => Consts.ETIMEDOUT end.
Definition timeout_due (w : world) : bool :=
  match owner w with
  | TSleep d => match ts_of d with Some ts => Z.leb (tm_ns ts) (clock w) | None => false end
  | _ => false
  end.
