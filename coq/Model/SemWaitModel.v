(* SemWaitModel: executable model of internal/sem_wait.c (nsync_sem_wait_with_cancel_, all of it) together with the
   functions of internal/note.c it calls into or races with -- nsync_note_notified_deadline_, nsync_note_notify, notify,
   note_notify_child -- seen from the cancel note: any number of threads, any number of notes, several waiters per note.

   Threads run programs of
     OWait no dl       nsync_sem_wait_with_cancel_ (w, dl, no) with w = the calling thread's waiter (semaphore `sem`)
     ONotify n         nsync_note_notify (n)
     OIsNotified n     nsync_note_is_notified (n)
     OParentNotify n   what a notification of n's PARENT does to n (note_notify_child (parent)'s loop over its children:
                       lock n->note_mu; if n->disconnecting == 0 { disconnecting++; note_notify_child (n, parent); disconnecting-- };
                       unlock) -- the parent itself is not an object of this model
   and the environment may post any thread's semaphore at any time (AEnvV: the V of a cv signaller / mutex unlocker that
   ends a wait with result 0; the semaphore of a waiter struct is shared with those uses) and a thread that is between two
   calls may consume a post of its own semaphore (AEnvP: its sleeps inside nsync_mu_lock); the clock only moves forward (ATick).

   Granularity: one step = one atomic site of sem_wait.c / note.c (the store of nw.waiting, a load / the store of `notified`,
   the store of a queued record's `waiting`) OR one boundary of an nsync_mu operation on a note's note_mu (lock, unlock, the
   release and the re-acquisition inside nsync_mu_wait (not_disconnecting)) OR a clock read OR a V / P of a semaphore.  The
   plain accesses that follow a step while the thread keeps what it owns (the note_mu it holds, its own stack) are merged
   into that step (DESIGN 3.1): the enqueue of nw is done in the step of the load of `notified` under note_mu (site 2), the
   dequeue in the step of site 3, the notifier's unlink of the first queued record in the step that precedes the store of its
   `waiting` word.  note_mu is ABSTRACT: an exclusive lock `option thread` (licence: C01/C02); nsync_mu_wait (cond) is nothing
   if cond holds on entry, else a release step and a blocking re-acquisition enabled iff the lock is free and cond holds.
   The semaphore is ABSTRACT: a count; P takes a count if there is one (choice c = false) or times out, only when the clock has
   reached the deadline (choice c = true) (licence: C12).  A note is {expiry, notified flag, parent != NULL, waiters,
   disconnecting, note_mu}; it has NO CHILDREN (cancel notes of waits are leaves in everything we run; with children the
   notifier would go on to them after the waiters, still holding note_mu, or release it inside WAIT_FOR_NO_CHILDREN only after
   the waiter loop -- nothing a waiter of this note can see).  The parent's note_mu is not modelled: trylock of it succeeds or
   fails by choice (c), locking it is always enabled.
   A record (the on-stack struct nsync_waiter_s nw of one call) gets a FRESH id per call; ghost `live` is cleared when the
   call returns; every step that reads or writes a record (also through the dll links of its list neighbours: we charge a
   list operation with touching EVERY record on that list) is counted in `dead_touch` if the record is dead.
   Values written and the guard cancel_note != NULL come from Gen/Sites.v.  No proofs in this file. *)
From NsyncBase Require Import CSem.
From NsyncGen Require Import Consts Sites.
From Coq Require Import List ZArith Bool.
Import ListNotations.
Local Open Scope Z_scope.

(* ---------- time: nanoseconds, None = nsync_time_no_deadline ---------- *)
Definition time := option Z.
Definition tzero : time := Some 0.
Definition tpos (a : time) : bool := match a with None => true | Some z => 0 <? z end.             (* nsync_time_cmp (a, zero) > 0 *)
Definition tlt (a b : time) : bool :=                                                               (* nsync_time_cmp (a, b) < 0 *)
  match a, b with None, _ => false | Some _, None => true | Some x, Some y => x <? y end.
Definition tle_z (a : time) (now : Z) : bool := match a with None => false | Some z => z <=? now end.  (* cmp (a, now) <= 0 *)

(* ---------- notes, records ---------- *)
Record note := mk_note {
  expiry : time;            (* expiry_time; never changes after nsync_note_new *)
  flag : Z;                 (* the `notified` word *)
  has_par : bool;           (* parent != NULL *)
  waiters : list nat;       (* ids of the queued records, in list order *)
  disc : nat;               (* disconnecting *)
  lock : option nat         (* note_mu: the holder *)
}.
Definition note0 : note := mk_note None 0 false [] O None.
Definition set_flag (x : note) (v : Z) := mk_note (expiry x) v (has_par x) (waiters x) (disc x) (lock x).
Definition set_has_par (x : note) (v : bool) := mk_note (expiry x) (flag x) v (waiters x) (disc x) (lock x).
Definition set_waiters (x : note) (v : list nat) := mk_note (expiry x) (flag x) (has_par x) v (disc x) (lock x).
Definition set_disc (x : note) (v : nat) := mk_note (expiry x) (flag x) (has_par x) (waiters x) v (lock x).
Definition set_lock (x : note) (v : option nat) := mk_note (expiry x) (flag x) (has_par x) (waiters x) (disc x) v.

(* ghost: where a record is in its life *)
Inductive rst :=
| RNew          (* created, not (yet) on the note's list *)
| RQueued       (* on the list of its note *)
| RTaken        (* unlinked by a notifier that has not yet posted for it *)
| RPosted       (* the notifier has posted the owner's semaphore *)
| RGone.        (* dequeued by its owner *)
Record rec := mk_rec {
  owner : nat;              (* the thread whose stack holds the record; nw.sem = &its waiter's semaphore *)
  rwaiting : Z;             (* nw.waiting *)
  live : bool;              (* ghost: the call that owns the record has not returned *)
  rnote : nat;              (* ghost: the cancel note of that call *)
  rs : rst                  (* ghost *)
}.
Definition rec0 : rec := mk_rec O 0 false O RGone.
Definition set_rwaiting (x : rec) (v : Z) := mk_rec (owner x) v (live x) (rnote x) (rs x).
Definition set_live (x : rec) (v : bool) := mk_rec (owner x) (rwaiting x) v (rnote x) (rs x).
Definition set_rs (x : rec) (v : rst) := mk_rec (owner x) (rwaiting x) (live x) (rnote x) v.

(* ---------- programs, results ---------- *)
Inductive op :=
| OWait (no : option nat) (dl : time)
| ONotify (n : nat)
| OIsNotified (n : nat)
| OParentNotify (n : nat).
Inductive res := RNone | RBool (b : bool) | RInt (r : Z).
(* ghost: why a wait returned what it returned *)
Inductive why :=
| YOk            (* the P took a count: 0 *)
| YTimeout       (* the P timed out and the caller's deadline was the nearer one (or there is no note): ETIMEDOUT *)
| YEarly         (* the first nsync_note_notified_deadline_ said notified / expired: ECANCELED, nw never created *)
| YLocked        (* found notified under note_mu before enqueueing: ECANCELED *)
| YExpiry.       (* the P timed out at the note's expiry (deadline not strictly earlier): ECANCELED after nsync_note_notify *)

(* locals of nsync_sem_wait_with_cancel_ *)
Record wl := mk_wl {
  w_note : option nat;      (* cancel_note *)
  w_dl : time;              (* abs_deadline *)
  w_rec : nat;              (* the id of nw (meaningful from the store of nw.waiting on) *)
  w_ct : time;              (* cancel_time as read under note_mu (site 2) *)
  w_near : bool;            (* deadline_is_nearer *)
  w_ldl : time;             (* local_abs_deadline *)
  w_so : Z;                 (* sem_outcome *)
  w_why : why;              (* ghost *)
  w_chk : option Z;         (* ghost: the clock value the first nsync_note_notified_deadline_ compared the expiry with *)
  w_toclk : option Z;       (* ghost: the clock at the moment the P timed out *)
  w_took : option nat       (* ghost: the semaphore count found by the P that succeeded *)
}.
Definition wl0 (no : option nat) (dl : time) : wl := mk_wl no dl O None false None ECANCELED YEarly None None None.
Definition wl_rec (l : wl) (r : nat) := mk_wl (w_note l) (w_dl l) r (w_ct l) (w_near l) (w_ldl l) (w_so l) (w_why l) (w_chk l) (w_toclk l) (w_took l).
Definition wl_enq (l : wl) (ct : time) (near : bool) (ldl : time) :=
  mk_wl (w_note l) (w_dl l) (w_rec l) ct near ldl (w_so l) (w_why l) (w_chk l) (w_toclk l) (w_took l).
Definition wl_out (l : wl) (so : Z) (y : why) := mk_wl (w_note l) (w_dl l) (w_rec l) (w_ct l) (w_near l) (w_ldl l) so y (w_chk l) (w_toclk l) (w_took l).
Definition wl_chk (l : wl) (c : option Z) := mk_wl (w_note l) (w_dl l) (w_rec l) (w_ct l) (w_near l) (w_ldl l) (w_so l) (w_why l) c (w_toclk l) (w_took l).
Definition wl_toclk (l : wl) (c : Z) := mk_wl (w_note l) (w_dl l) (w_rec l) (w_ct l) (w_near l) (w_ldl l) (w_so l) (w_why l) (w_chk l) (Some c) (w_took l).
Definition wl_took (l : wl) (k : nat) := mk_wl (w_note l) (w_dl l) (w_rec l) (w_ct l) (w_near l) (w_ldl l) (w_so l) (w_why l) (w_chk l) (w_toclk l) (Some k).

(* ---------- control: a stack of frames per thread, callee on top ---------- *)
Inductive dst := D1 | D2 | D3 | D4 (x : time) | D5 (x : time) | D6 (now : Z).
  (* nsync_note_notified_deadline_: D1 load#1 (161) | D2 lock | D3 load#2 (165) | D4 unlock | D5 nsync_time_now | D6 inside notify (n),
     having read `now` *)
Inductive nst := N1 | N2 | N3 | N4 | N5 | N6 | N7 | N8 | N9 | N10 | N11.
  (* notify: N1 lock n | N2 mu_wait releases | N3 mu_wait re-acquires when not_disconnecting | N4 load#1 (135), disconnecting++, parent = n->parent
     | N5 trylock parent | N6 unlock n | N7 lock parent | N8 lock n | N9 inside note_notify_child (n, parent) | N10 unlock parent
     | N11 disconnecting-- (if it was incremented), unlock n *)
Inductive cst := C1 | C2 | C3 (o : nat) | C4 (o : nat).
  (* note_notify_child: C1 load#1 (85) | C2 store notified (89), unlink the first record | C3 store waiting=0 of record o (93) |
     C4 V (o's owner's semaphore), unlink the next record; after the last one: parent->children, n->parent = NULL if parent != NULL *)
Inductive pst := P1 | P2 | P3 (dec : bool).
  (* the parent's notifier at child n: P1 lock n, disconnecting++ if it is 0 | P2 inside note_notify_child (n, parent) | P3 disconnecting--
     (if dec), unlock n *)
Inductive wst :=
| WPlain                    (* cancel_note == NULL: nsync_mu_semaphore_p_with_deadline (&w->sem, abs_deadline) *)
| WChk (n : nat)            (* inside the first nsync_note_notified_deadline_ (cancel_note) *)
| WSt (n : nat)             (* ATM_STORE (&nw.waiting, 1)  (site 1, line 46): nw comes into being *)
| WLk1 (n : nat)            (* nsync_mu_lock (&cancel_note->note_mu) *)
| WLd1 (n : nat)            (* cancel_time = NOTIFIED_TIME (cancel_note) (site 2, line 49); enqueue nw, local_abs_deadline, deadline_is_nearer *)
| WUn1 (n : nat)            (* nsync_mu_unlock *)
| WP (n : nat)              (* nsync_mu_semaphore_p_with_deadline (&w->sem, local_abs_deadline) *)
| WNtf (n : nat)            (* inside nsync_note_notify (cancel_note) *)
| WLk2 (n : nat)            (* nsync_mu_lock *)
| WLd2 (n : nat)            (* NOTIFIED_TIME (site 3, line 68); dequeue nw if the note is not notified *)
| WUnl (n : nat).           (* nsync_mu_unlock; return sem_outcome: nw dies *)
Inductive frame :=
| FD (n : nat) (s : dst)
| FN (n : nat) (s : nst) (par : bool) (inc : bool)   (* par: the local `parent` != NULL; inc: this call has incremented n->disconnecting *)
| FC (n : nat) (par : bool) (s : cst)
| FP (n : nat) (s : pst)
| FNotify (n : nat)                                  (* nsync_note_notify (n): if (cmp (notified_deadline_ (n), zero) > 0) notify (n) *)
| AIs (n : nat)
| AWait (l : wl) (s : wst).

Record tstate := mk_t {
  stack : list frame;
  prog : list op;               (* remaining calls *)
  hist : list (op * res);       (* ghost: completed calls, latest first *)
  sem : nat                     (* the semaphore of this thread's waiter *)
}.

(* ghost: log entry of a returned nsync_sem_wait_with_cancel_ *)
Record rentry := mk_re {
  e_thr : nat; e_note : option nat; e_dl : time; e_res : Z; e_why : why;
  e_clock : Z;              (* the clock at the return *)
  e_flag : Z;               (* the note's `notified` word at the return (0 without note) *)
  e_exp : time;             (* the note's expiry (None without note) *)
  e_ct : time; e_near : bool; e_chk : option Z; e_toclk : option Z; e_took : option nat;
  e_rec : option nat        (* the call's record, if it created one *)
}.

Record world := mk_w {
  notes : nat -> note;
  recs : nat -> rec;
  nrec : nat;                   (* number of records created so far = the id of the next one *)
  clock : Z;
  thr : nat -> tstate;
  dead_touch : Z;               (* ghost: accesses to a record whose call has returned (must stay 0) *)
  rets : list rentry            (* ghost: the returned waits, latest first *)
}.

Inductive ev :=
| EvLoad (site : Z) (n : nat) (v : Z)          (* load of notes[n].notified *)
| EvStoreN (site : Z) (n : nat) (v : Z)        (* store to notes[n].notified *)
| EvStoreW (site : Z) (r : nat) (v : Z)        (* store to the `waiting` word of record r *)
| EvLock (n : nat)                             (* nsync_mu_lock returned, or nsync_mu_wait re-acquired *)
| EvUnlock (n : nat)                           (* nsync_mu_unlock, or the release inside nsync_mu_wait *)
| EvTryPar (ok : bool) | EvLockPar | EvUnlockPar   (* the parent's note_mu *)
| EvV (r : nat) (o : nat)                      (* V for record r on thread o's semaphore *)
| EvP (ok : bool)                              (* true: took a count; false: ETIMEDOUT *)
| EvClock (now : Z)
| EvBlocked                                    (* the step is not enabled; nothing changed *)
| EvNone.

(* site ids: function * 10 + ordinal of the site inside the function in Gen/Sites.v *)
Definition s_C (k : Z) := 10 + k.      (* note_notify_child 1..3 *)
Definition s_N (k : Z) := 20 + k.      (* notify 1 *)
Definition s_D (k : Z) := 30 + k.      (* nsync_note_notified_deadline_ 1..2 *)
Definition s_W (k : Z) := 80 + k.      (* nsync_sem_wait_with_cancel_ 1..3 *)

(* ---------- small helpers ---------- *)
Definition fupd {A} (f : nat -> A) (k : nat) (v : A) : nat -> A := fun x => if Nat.eqb x k then v else f x.
Fixpoint remove_nat (x : nat) (l : list nat) : list nat :=
  match l with [] => [] | y :: r => if Nat.eqb y x then r else y :: remove_nat x r end.       (* nsync_dll_remove_: one occurrence *)
Definition ptr_of (p : option nat) : Z := match p with None => 0 | Some n => Z.of_nat n + 1 end.   (* NULL = 0 *)

Definition dflt := mk_t [] [] [] O.
Definition get (w : world) (t : nat) := thr w t.
Definition nt (w : world) (n : nat) := notes w n.
Definition set_thr (w : world) (t : nat) (s : tstate) : world :=
  mk_w (notes w) (recs w) (nrec w) (clock w) (fupd (thr w) t s) (dead_touch w) (rets w).
Definition setst (w : world) (t : nat) (st : list frame) : world :=
  let s := get w t in set_thr w t (mk_t st (prog s) (hist s) (sem s)).
Definition set_sem (w : world) (o : nat) (v : nat) : world :=
  let s := get w o in set_thr w o (mk_t (stack s) (prog s) (hist s) v).
Definition set_note (w : world) (n : nat) (x : note) : world :=
  mk_w (fupd (notes w) n x) (recs w) (nrec w) (clock w) (thr w) (dead_touch w) (rets w).
Definition set_rec (w : world) (r : nat) (x : rec) : world :=
  mk_w (notes w) (fupd (recs w) r x) (nrec w) (clock w) (thr w) (dead_touch w) (rets w).
Definition new_rec (w : world) (x : rec) : world :=
  mk_w (notes w) (fupd (recs w) (nrec w) x) (S (nrec w)) (clock w) (thr w) (dead_touch w) (rets w).
Definition set_dead (w : world) (v : Z) : world := mk_w (notes w) (recs w) (nrec w) (clock w) (thr w) v (rets w).
Definition add_ret (w : world) (e : rentry) : world := mk_w (notes w) (recs w) (nrec w) (clock w) (thr w) (dead_touch w) (e :: rets w).
Definition lock_free (w : world) (n : nat) : bool := match lock (nt w n) with None => true | Some _ => false end.
Definition acquire (w : world) (t n : nat) : world := set_note w n (set_lock (nt w n) (Some t)).
Definition release (w : world) (n : nat) : world := set_note w n (set_lock (nt w n) None).
Definition notified_time (w : world) (n : nat) (v : Z) : time := if v =? 0 then expiry (nt w n) else tzero.   (* NOTIFIED_TIME, v = the word loaded *)
Definition not_disconnecting (w : world) (n : nat) : bool := Nat.eqb (disc (nt w n)) 0.
(* ghost: an access to record r / to every record of a list *)
Definition dead1 (w : world) (r : nat) : Z := if live (recs w r) then 0 else 1.
Definition touch (w : world) (r : nat) : world := set_dead w (dead_touch w + dead1 w r).
Definition touch_all (w : world) (l : list nat) : world := set_dead w (dead_touch w + fold_right (fun r a => dead1 w r + a) 0 l).

(* a call other than a wait returns r: the whole stack is popped *)
Definition finish (w : world) (t : nat) (o : op) (r : res) : world :=
  let s := get w t in set_thr w t (mk_t [] (prog s) ((o, r) :: hist s) (sem s)).
(* nsync_sem_wait_with_cancel_ returns w_so l; hasrec: the call created nw, which dies now *)
Definition finish_wait (w : world) (t : nat) (l : wl) (hasrec : bool) : world :=
  let w1 := if hasrec then set_rec w (w_rec l) (set_live (recs w (w_rec l)) false) else w in
  let e := mk_re t (w_note l) (w_dl l) (w_so l) (w_why l) (clock w)
                 (match w_note l with Some n => flag (nt w n) | None => 0 end)
                 (match w_note l with Some n => expiry (nt w n) | None => None end)
                 (w_ct l) (w_near l) (w_chk l) (w_toclk l) (w_took l) (if hasrec then Some (w_rec l) else None) in
  finish (add_ret w1 e) t (OWait (w_note l) (w_dl l)) (RInt (w_so l)).

Definition begin_call (w : world) (t : nat) : world :=
  let s := get w t in
  match stack s, prog s with
  | [], o :: rest =>
      let st := match o with
                | OWait no dl =>
                    (* if (cancel_note == NULL) ... else ...: Sites.nsync_sem_wait_with_cancel_load1_guard *)
                    match no with
                    | Some n => if nsync_sem_wait_with_cancel_load1_guard (ptr_of no)
                                then [FD n D1; AWait (wl0 no dl) (WChk n)] else [AWait (wl0 no dl) WPlain]
                    | None => [AWait (wl0 no dl) WPlain]
                    end
                | ONotify n => [FD n D1; FNotify n]
                | OIsNotified n => [FD n D1; AIs n]
                | OParentNotify n => [FP n P1]
                end in
      set_thr w t (mk_t st rest (hist s) (sem s))
  | _, _ => w
  end.

(* ---------- returns ---------- *)
(* nsync_note_notify (n) returns to the frame below it *)
Definition ret_Notify (w : world) (t : nat) (n : nat) (rest : list frame) : world :=
  match rest with
  | AWait l (WNtf m) :: r => setst w t (AWait l (WLk2 m) :: r)
  | _ => finish w t (ONotify n) RNone
  end.
(* nsync_note_notified_deadline_ returns v (rest = the stack below the FD frame); clk = the clock value it compared with, if it read the clock *)
Definition ret_D (w : world) (t : nat) (rest : list frame) (v : time) (clk : option Z) : world :=
  match rest with
  | FNotify n :: r => if tpos v then setst w t (FN n N1 false false :: rest) else ret_Notify w t n r
  | AIs n :: _ => finish w t (OIsNotified n) (RBool (negb (tpos v)))
  | AWait l (WChk n) :: r =>
      (* sem_outcome = ECANCELED; if (nsync_time_cmp (cancel_time, nsync_time_zero) > 0) { ... } *)
      if tpos v then setst w t (AWait (wl_chk l clk) (WSt n) :: r)
      else finish_wait w t (wl_out (wl_chk l clk) ECANCELED YEarly) false
  | _ => w
  end.
(* notify returns *)
Definition ret_N (w : world) (t : nat) (rest : list frame) : world :=
  match rest with
  | FD n (D6 now) :: r => ret_D w t r tzero (Some now)
  | FNotify n :: r => ret_Notify w t n r
  | _ => w
  end.
(* note_notify_child returns: the caller moves to its next program point *)
Definition ret_C (w : world) (t : nat) (rest : list frame) : world :=
  match rest with
  | FN n N9 par inc :: r => setst w t (FN n (if par then N10 else N11) par inc :: r)
  | FP n P2 :: r => setst w t (FP n (P3 true) :: r)
  | _ => setst w t rest
  end.

(* ---------- note_notify_child ---------- *)
(* after the waiter loop (no children): if (parent != NULL) { unlink from parent->children; n->parent = NULL } *)
Definition c_tail (w : world) (t n : nat) (par : bool) (rest : list frame) : world :=
  let w1 := if par then set_note w n (set_has_par (nt w n) false) else w in ret_C w1 t rest.
(* while ((p = nsync_dll_first_ (n->waiters)) != NULL) { nw = ...; n->waiters = nsync_dll_remove_ (n->waiters, p); *)
Definition c_wloop (w : world) (t n : nat) (par : bool) (rest : list frame) : world :=
  match waiters (nt w n) with
  | o :: ws => let w1 := touch_all w (o :: ws) in
               let w2 := set_rec w1 o (set_rs (recs w1 o) RTaken) in
               setst (set_note w2 n (set_waiters (nt w2 n) ws)) t (FC n par (C3 o) :: rest)
  | [] => c_tail w t n par rest
  end.
Definition step_C (w : world) (t : nat) (n : nat) (par : bool) (s : cst) (rest : list frame) : world * ev :=
  match s with
  | C1 => let v := flag (nt w n) in
          if tpos (notified_time w n v) then (setst w t (FC n par C2 :: rest), EvLoad (s_C 1) n v)
          else (ret_C w t rest, EvLoad (s_C 1) n v)
  | C2 => let w1 := set_note w n (set_flag (nt w n) note_notify_child_store1_new) in
          (c_wloop w1 t n par rest, EvStoreN (s_C 2) n note_notify_child_store1_new)
  | C3 o => let w1 := touch w o in
            (setst (set_rec w1 o (set_rwaiting (recs w1 o) note_notify_child_store2_new)) t (FC n par (C4 o) :: rest),
             EvStoreW (s_C 3) o note_notify_child_store2_new)
  | C4 o => (* nsync_mu_semaphore_v (nw->sem): nw->sem is read after the store of nw->waiting *)
            let w1 := touch w o in
            let ow := owner (recs w1 o) in
            let w2 := set_sem w1 ow (S (sem (get w1 ow))) in
            let w3 := set_rec w2 o (set_rs (recs w2 o) RPosted) in
            (c_wloop w3 t n par rest, EvV o ow)
  end.

(* ---------- notify ---------- *)
Definition step_N (w : world) (t : nat) (c : bool) (n : nat) (s : nst) (par inc : bool) (rest : list frame) : world * ev :=
  match s with
  | N1 => if lock_free w n then
            let w1 := acquire w t n in
            if not_disconnecting w1 n then (setst w1 t (FN n N4 par inc :: rest), EvLock n)
            else (setst w1 t (FN n N2 par inc :: rest), EvLock n)
          else (w, EvBlocked)
  | N2 => (setst (release w n) t (FN n N3 par inc :: rest), EvUnlock n)
  | N3 => if lock_free w n && not_disconnecting w n then (setst (acquire w t n) t (FN n N4 par inc :: rest), EvLock n) else (w, EvBlocked)
  | N4 => let v := flag (nt w n) in
          if tpos (notified_time w n v) then
            let w1 := set_note w n (set_disc (nt w n) (S (disc (nt w n)))) in
            if has_par (nt w n) then (setst w1 t (FN n N5 true true :: rest), EvLoad (s_N 1) n v)
            else (setst w1 t (FC n false C1 :: FN n N9 false true :: rest), EvLoad (s_N 1) n v)
          else (setst w t (FN n N11 par false :: rest), EvLoad (s_N 1) n v)
  | N5 => if c then (setst w t (FN n N6 par inc :: rest), EvTryPar false)
          else (setst w t (FC n par C1 :: FN n N9 par inc :: rest), EvTryPar true)
  | N6 => (setst (release w n) t (FN n N7 par inc :: rest), EvUnlock n)
  | N7 => (setst w t (FN n N8 par inc :: rest), EvLockPar)
  | N8 => if lock_free w n then (setst (acquire w t n) t (FC n par C1 :: FN n N9 par inc :: rest), EvLock n) else (w, EvBlocked)
  | N9 => (w, EvNone)
  | N10 => (setst w t (FN n N11 par inc :: rest), EvUnlockPar)
  | N11 => let w1 := if inc then set_note w n (set_disc (nt w n) (pred (disc (nt w n)))) else w in
           (ret_N (release w1 n) t rest, EvUnlock n)
  end.

(* ---------- nsync_note_notified_deadline_ ---------- *)
Definition step_D (w : world) (t : nat) (n : nat) (s : dst) (rest : list frame) : world * ev :=
  match s with
  | D1 => let v := flag (nt w n) in
          if v =? 0 then (setst w t (FD n D2 :: rest), EvLoad (s_D 1) n v) else (ret_D w t rest tzero None, EvLoad (s_D 1) n v)
  | D2 => if lock_free w n then (setst (acquire w t n) t (FD n D3 :: rest), EvLock n) else (w, EvBlocked)
  | D3 => let v := flag (nt w n) in (setst w t (FD n (D4 (notified_time w n v)) :: rest), EvLoad (s_D 2) n v)
  | D4 x => let w1 := release w n in
            if tpos x then (setst w1 t (FD n (D5 x) :: rest), EvUnlock n) else (ret_D w1 t rest x None, EvUnlock n)
  | D5 x => let now := clock w in
            if tle_z x now then (setst w t (FN n N1 false false :: FD n (D6 now) :: rest), EvClock now)
            else (ret_D w t rest x (Some now), EvClock now)
  | D6 _ => (w, EvNone)
  end.

(* ---------- the parent's notifier at this note ---------- *)
Definition step_P (w : world) (t : nat) (n : nat) (s : pst) (rest : list frame) : world * ev :=
  match s with
  | P1 => if lock_free w n then
            let w1 := acquire w t n in
            if Nat.eqb (disc (nt w1 n)) 0 then
              (setst (set_note w1 n (set_disc (nt w1 n) (S (disc (nt w1 n))))) t (FC n true C1 :: FP n P2 :: rest), EvLock n)
            else (setst w1 t (FP n (P3 false) :: rest), EvLock n)
          else (w, EvBlocked)
  | P2 => (w, EvNone)
  | P3 dec => let w1 := if dec then set_note w n (set_disc (nt w n) (pred (disc (nt w n)))) else w in
              (finish (release w1 n) t (OParentNotify n) RNone, EvUnlock n)
  end.

(* ---------- nsync_sem_wait_with_cancel_ ---------- *)
Definition step_W (w : world) (t : nat) (c : bool) (l : wl) (s : wst) (rest : list frame) : world * ev :=
  match s with
  | WPlain =>
      if c then
        if tle_z (w_dl l) (clock w) then (finish_wait w t (wl_toclk (wl_out l ETIMEDOUT YTimeout) (clock w)) false, EvP false)
        else (w, EvBlocked)
      else match sem (get w t) with
           | S k => (finish_wait (set_sem w t k) t (wl_took (wl_out l 0 YOk) (S k)) false, EvP true)
           | O => (w, EvBlocked)
           end
  | WChk _ | WNtf _ => (w, EvNone)
  | WSt n =>
      (* struct nsync_waiter_s nw; nw.tag, nw.sem = &w->sem, nsync_dll_init_ (&nw.q, &nw); ATM_STORE (&nw.waiting, 1); nw.flags = 0 *)
      let r := nrec w in
      let w1 := new_rec w (mk_rec t nsync_sem_wait_with_cancel_store1_new true n RNew) in
      (setst w1 t (AWait (wl_rec l r) (WLk1 n) :: rest), EvStoreW (s_W 1) r nsync_sem_wait_with_cancel_store1_new)
  | WLk1 n => if lock_free w n then (setst (acquire w t n) t (AWait l (WLd1 n) :: rest), EvLock n) else (w, EvBlocked)
  | WLd1 n =>
      let v := flag (nt w n) in
      let ct := notified_time w n v in
      if tpos ct then
        (* make_last_in_list; local_abs_deadline = cancel_time; if (cmp (abs_deadline, cancel_time) < 0) { = abs_deadline; nearer = 1 } *)
        let w1 := touch (touch_all w (waiters (nt w n))) (w_rec l) in
        let w2 := set_note (set_rec w1 (w_rec l) (set_rs (recs w1 (w_rec l)) RQueued)) n (set_waiters (nt w1 n) (waiters (nt w1 n) ++ [w_rec l])) in
        let near := tlt (w_dl l) ct in
        (setst w2 t (AWait (wl_enq l ct near (if near then w_dl l else ct)) (WUn1 n) :: rest), EvLoad (s_W 2) n v)
      else (setst w t (AWait (wl_out (wl_enq l ct false None) ECANCELED YLocked) (WUnl n) :: rest), EvLoad (s_W 2) n v)
  | WUn1 n => (setst (release w n) t (AWait l (WP n) :: rest), EvUnlock n)
  | WP n =>
      if c then
        if tle_z (w_ldl l) (clock w) then
          (* sem_outcome == ETIMEDOUT; if (!deadline_is_nearer) { sem_outcome = ECANCELED; nsync_note_notify (cancel_note); } *)
          if w_near l then (setst w t (AWait (wl_toclk (wl_out l ETIMEDOUT YTimeout) (clock w)) (WLk2 n) :: rest), EvP false)
          else (setst w t (FD n D1 :: FNotify n :: AWait (wl_toclk (wl_out l ECANCELED YExpiry) (clock w)) (WNtf n) :: rest), EvP false)
        else (w, EvBlocked)
      else match sem (get w t) with
           | S k => (setst (set_sem w t k) t (AWait (wl_took (wl_out l 0 YOk) (S k)) (WLk2 n) :: rest), EvP true)
           | O => (w, EvBlocked)
           end
  | WLk2 n => if lock_free w n then (setst (acquire w t n) t (AWait l (WLd2 n) :: rest), EvLock n) else (w, EvBlocked)
  | WLd2 n =>
      let v := flag (nt w n) in
      if tpos (notified_time w n v) then
        let w1 := touch (touch_all w (waiters (nt w n))) (w_rec l) in
        let w2 := set_rec w1 (w_rec l) (set_rs (recs w1 (w_rec l)) RGone) in
        (setst (set_note w2 n (set_waiters (nt w2 n) (remove_nat (w_rec l) (waiters (nt w2 n))))) t (AWait l (WUnl n) :: rest), EvLoad (s_W 3) n v)
      else (setst w t (AWait l (WUnl n) :: rest), EvLoad (s_W 3) n v)
  | WUnl n => (finish_wait (release w n) t l true, EvUnlock n)
  end.

(* ---------- the step of thread t; c resolves P-success vs. timeout (WPlain, WP) and a failing trylock of the parent (N5) ---------- *)
Definition step (w0 : world) (t : nat) (c : bool) : world * ev :=
  let w := begin_call w0 t in
  match stack (get w t) with
  | [] => (w, EvNone)
  | f :: rest =>
      match f with
      | FD n s => step_D w t n s rest
      | FN n s par inc => step_N w t c n s par inc rest
      | FC n par s => step_C w t n par s rest
      | FP n s => step_P w t n s rest
      | AWait l s => step_W w t c l s rest
      | FNotify _ | AIs _ => (w, EvNone)
      end
  end.

Inductive act :=
| AStep (t : nat) (c : bool)
| ATick (d : Z)
| AEnvV (o : nat)          (* somebody outside the model posts thread o's semaphore *)
| AEnvP (t : nat).         (* thread t, between two calls of its program, consumes a post of its own semaphore *)
Definition tick (w : world) (d : Z) : world := mk_w (notes w) (recs w) (nrec w) (clock w + Z.max 0 d) (thr w) (dead_touch w) (rets w).
Definition env_v (w : world) (o : nat) : world := set_sem w o (S (sem (get w o))).
Definition env_p (w : world) (t : nat) : world :=
  match stack (get w t), sem (get w t) with
  | [], S k => set_sem w t k
  | _, _ => w
  end.
Definition exec (w : world) (a : act) : world :=
  match a with AStep t c => fst (step w t c) | ATick d => tick w d | AEnvV o => env_v w o | AEnvP t => env_p w t end.
(* notes: (expiry, parent != NULL) in id order; progs: the threads' programs in id order *)
Definition init (clock0 : Z) (ns : list (time * bool)) (progs : list (list op)) : world :=
  mk_w (fun n => match nth_error ns n with Some (e, p) => mk_note e 0 p [] O None | None => note0 end)
       (fun _ => rec0) O clock0
       (fun t => nth t (map (fun p => mk_t [] p [] O) progs) dflt) 0 [].
Definition run (w : world) (sched : list act) : world := fold_left exec sched w.
Definition reachable (w : world) : Prop := exists c0 ns progs sched, 0 <= c0 /\ w = run (init c0 ns progs) sched.

(* ---------- vocabulary of the statements ---------- *)
(* thread u is a notifier that has unlinked record r from note n's list and has not yet posted for it *)
Definition taking (w : world) (u n r : nat) : Prop :=
  exists par rest, stack (get w u) = FC n par (C3 r) :: rest \/ stack (get w u) = FC n par (C4 r) :: rest.
(* thread u holds note_mu of n inside the waiter loop of note_notify_child *)
Definition draining (w : world) (u n : nat) : Prop :=
  exists par o rest, stack (get w u) = FC n par (C3 o) :: rest \/ stack (get w u) = FC n par (C4 o) :: rest.
(* thread t is inside nsync_mu_semaphore_p_with_deadline of a wait on note n, with locals l *)
Definition in_P (w : world) (t n : nat) (l : wl) : Prop := exists rest, stack (get w t) = AWait l (WP n) :: rest.
(* no step of thread t is enabled *)
Definition stuck (w : world) (t : nat) : Prop := forall c, snd (step w t c) = EvBlocked.
(* nobody is inside a notification *)
Definition no_notifier (w : world) : Prop := forall u n, ~ draining w u n.
Definition tmin (a b : time) : time := if tlt a b then a else b.
