(* PINNED copy of Gen/Body.v (written by gen/pin_body.py): the digests of the function bodies against which the
   hand-written model skeletons were validated. *)
From Coq Require Import String List.
Import ListNotations.
Local Open Scope string_scope.

Definition expected_body_common_c : list (string * string) := [
  ("nsync_dll_nsync_waiter_", "f8f0b5ce3141ea178539");
  ("nsync_dll_waiter_", "b6bfa0ac8ff4d585facc");
  ("nsync_dll_waiter_samecond_", "7d1769a25bb4d202c39c");
  ("nsync_spin_delay_", "9632a4f566389a39db00");
  ("nsync_spin_test_and_set_", "531260d2cc06fa331bd1");
  ("nsync_waiter_free_", "f36f67da0fa20e530d6a");
  ("nsync_waiter_new_", "16cf23b1a85589fa2269");
  ("waiter_destroy", "b71024cd9a0cb1991c82")].

Definition expected_body_counter_c : list (string * string) := [
  ("counter_dequeue", "dd7af55db22f86c4c616");
  ("counter_enqueue", "a40674428b0db14acd2e");
  ("counter_ready_time", "c40f86ab65e26313d2ca");
  ("nsync_counter_add", "afb5da9c4e87bc78ff86");
  ("nsync_counter_free", "4534f89e5a4dcbeb271a");
  ("nsync_counter_new", "fc0456eac39ad13b5adb");
  ("nsync_counter_value", "4f7acc1daa6ce5d25680");
  ("nsync_counter_wait", "aa77f8f12e161776eee1")].

Definition expected_body_cv_c : list (string * string) := [
  ("cv_dequeue", "4831d625f89def7f50e6");
  ("cv_enqueue", "d2508923dec1538ae0ab");
  ("cv_ready_time", "171efc8c8c7a4af452a2");
  ("nsync_cv_broadcast", "64eed046e54bec3ec50d");
  ("nsync_cv_init", "e920f757f8d74367e88c");
  ("nsync_cv_signal", "9057c9dcbffa76e86f1d");
  ("nsync_cv_wait", "37db477aeb2dc19405d1");
  ("nsync_cv_wait_with_deadline", "e166b2e85773e32452a0");
  ("nsync_cv_wait_with_deadline_generic", "b5e35bfc352bcd6b6c8c");
  ("void_mu_lock", "bd228afe80152268de76");
  ("void_mu_unlock", "b78a784d0866c722ee8d");
  ("wake_waiters", "969a7e1c56ff3ab7f3f2")].

Definition expected_body_debug_c : list (string * string) := [
  ("emit_c", "89235dbdd916035c1cb1");
  ("emit_cv_state", "93565684c54acdcfda94");
  ("emit_init", "99d75dd445a13c214ce2");
  ("emit_mu_state", "4c3b19757661af2dec71");
  ("emit_print", "9b44906be6703663086b");
  ("emit_waiters", "ab152b8b5157034ff3f1");
  ("emit_word", "3f96fdde060afb6c7bda");
  ("nsync_cv_debug_state", "630929f292769c9ab2c6");
  ("nsync_cv_debug_state_and_waiters", "b956e3799793ff8f8631");
  ("nsync_cv_debugger", "e213447a750fe7b1f99f");
  ("nsync_mu_debug_state", "be16b31e0db12fdddde0");
  ("nsync_mu_debug_state_and_waiters", "d2c3ffa3240fe130dd3d");
  ("nsync_mu_debugger", "13442e02770887cd17bb")].

Definition expected_body_mu_c : list (string * string) := [
  ("condition_true", "97e02b39b6bc7f53ef56");
  ("mu_release_spinlock", "b10626f2b2d0d367eb8c");
  ("nsync_maybe_merge_conditions_", "1318473eab3ef28a738d");
  ("nsync_mu_assert_held", "b0198a7b9d4d6ce016f2");
  ("nsync_mu_init", "c3e93dbc226ed4df0608");
  ("nsync_mu_is_reader", "326482e1d9c6173b4146");
  ("nsync_mu_lock", "d1464c738d58faa8e024");
  ("nsync_mu_lock_slow_", "066d76926f10160d4c44");
  ("nsync_mu_rassert_held", "b9d83e9d7eb447361bee");
  ("nsync_mu_rlock", "6cdfefe57e49fb31e842");
  ("nsync_mu_rtrylock", "50ebefafc74834c4f221");
  ("nsync_mu_runlock", "659622db32eca1a793be");
  ("nsync_mu_trylock", "17b11a805e16ac75f5e9");
  ("nsync_mu_unlock", "93f64a175d63e659e6b8");
  ("nsync_mu_unlock_slow_", "67c0db9335c2a342ad7c");
  ("nsync_remove_from_mu_queue_", "a26b07608220e4c7158f");
  ("skip_past_same_condition", "b24c21119608aad1fae5")].

Definition expected_body_mu_wait_c : list (string * string) := [
  ("mu_try_acquire_after_timeout_or_cancel", "ea076316354820ce9b8f");
  ("nsync_mu_unlock_without_wakeup", "a04cdb7bdc213f58ab54");
  ("nsync_mu_wait", "19f6d3d33d2cdcb943e7");
  ("nsync_mu_wait_with_deadline", "a1e2e3d6f44b7528c923")].

Definition expected_body_note_c : list (string * string) := [
  ("children_changed", "ddcd99e60c7dd41ab8de");
  ("no_children", "d90d1e0ab5c5deee09b4");
  ("not_disconnecting", "de8829ac5df6d98f7b5e");
  ("note_dequeue", "5626685e3aefeea18cda");
  ("note_enqueue", "f087e775c6a44c3316cc");
  ("note_notify_child", "0791a3f7586593164389");
  ("note_ready_time", "b885ba7466412daa7ce6");
  ("notify", "2151c40e7e8969f5aacc");
  ("nsync_note_expiry", "3b655acd7e40ba89874e");
  ("nsync_note_free", "97b2811ca2dd864eb416");
  ("nsync_note_is_notified", "ea951fd89f88e907ebeb");
  ("nsync_note_new", "a520ba4e4224c4662f14");
  ("nsync_note_notified_deadline_", "8b135e7227576ce96eda");
  ("nsync_note_notify", "4ef26ae5073a9c475e8a");
  ("nsync_note_wait", "e9c035c01bb08df9f757");
  ("set_expiry_time", "42125f5f450881e74a61")].

Definition expected_body_nsync_semaphore_futex_c : list (string * string) := [
  ("futex", "f567eb552433139cf68a");
  ("nsync_mu_semaphore_init", "b59e19827de87e62214e");
  ("nsync_mu_semaphore_p", "efdca941d27bd264cb09");
  ("nsync_mu_semaphore_p_with_deadline", "3d083a771f3463e7aaf9");
  ("nsync_mu_semaphore_v", "8e628e37a824d7d945e5")].

Definition expected_body_once_c : list (string * string) := [
  ("nsync_run_once", "8c5362e394f2fb09c60b");
  ("nsync_run_once_arg", "6ca36996ebd626d56119");
  ("nsync_run_once_arg_spin", "e2c5550c614b7dae89f1");
  ("nsync_run_once_impl", "625658b3fd0d8880ff3b");
  ("nsync_run_once_spin", "4b1cd6e5732422dd4ff8")].

Definition expected_body_per_thread_waiter_c : list (string * string) := [
  ("do_once", "662a7ef1a4245ec121bf");
  ("nsync_per_thread_waiter_", "103dd2d3d80ea6b97d3c");
  ("nsync_set_per_thread_waiter_", "8fc7c963b6bbcd97f5f9")].

Definition expected_body_sem_wait_c : list (string * string) := [
  ("nsync_sem_wait_with_cancel_", "608b00054d4b23d4a34c")].

Definition expected_body_wait_c : list (string * string) := [
  ("nsync_wait_n", "69ec81a6006a396f2eb0")].

