(* helpers used only by the lock-step replayer (replay/mudbg_replay.ml) *)
From NsyncBase Require Import CSem.
From NsyncModel Require Import MuModel MuReplay MuDbgModel.
From Coq Require Import List ZArith.
Import ListNotations.

Definition push_base_op (w : dworld) (t : nat) (o : op) : dworld := dset_base w (push_op (base w) t o).
Definition base_is_idle (w : dworld) (t : nat) : bool := is_idle (base w) t.
Definition push_dop (w : dworld) (d : nat) (o : dop) : dworld :=
  let s := dget w d in dset w d (mk_d (d_pc s) (d_ops s ++ [o]) (d_owner s) (d_read s) (d_unsafe s)).
Definition dbg_is_idle (w : dworld) (d : nat) : bool :=
  match d_pc (dget w d), d_ops (dget w d) with DIdle, [] => true | _, _ => false end.
Definition dinit_n (n nd : nat) : dworld := dinit (repeat [] n) (repeat [] nd).
(* coverage key of the pc a debugger is at (before its step) *)
Definition dpc_code (w : dworld) (d : nat) : Z :=
  match d_pc (dget (dbegin w d) d) with
  | DIdle => 0 | DLoad _ => 1 | DSpinLoad _ true => 2 | DSpinLoad _ false => 3 | DSpinCas _ _ => 4
  | DWalkW _ _ => 5 | DWalkR _ _ => 6 | DRelLoad true => 7 | DRelLoad false => 8 | DRelCas _ => 9 | DWalkU _ => 10
  end%Z.
Definition dbg_owner (w : dworld) (d : nat) : bool := d_owner (dget w d).
Definition dbg_nread (w : dworld) (d : nat) : nat := length (d_read (dget w d)).
Definition dbg_nunsafe (w : dworld) (d : nat) : nat := d_unsafe (dget w d).
