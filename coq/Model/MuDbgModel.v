(* MuDbgModel: the debug-state functions of internal/debug.c as participants of the mutex model.

   A WRAPPER around Model/MuModel.v: a combined world is a MuModel.world (word, queue, waiting flags,
   semaphores, the locker threads) plus a list of DEBUGGER threads.  Each debugger runs a program of calls
     DState            nsync_mu_debug_state              emit_mu_state (blocking = 0, print_waiters = 0)
     DStateWaiters     nsync_mu_debug_state_and_waiters  emit_mu_state (1, 1)
     DDebugger         nsync_mu_debugger                 emit_mu_state (0, 1)
   and has a pc over the atomic sites of emit_mu_state, nsync_spin_test_and_set_ (internal/common.c),
   emit_waiters and the release loop of emit_mu_state.  One step = one atomic site plus the thread-local
   work up to the next site, as in MuModel.  Base threads step with MuModel.step UNCHANGED.

   Values written to mu->word and the guards of the two CAS loops come from Gen/Sites.v
   (nsync_spin_test_and_set_cas1_guard/_new, emit_mu_state_cas1_new, emit_mu_state_load2_guard);
   the branch of emit_mu_state that decides whether to take the spinlock is not the guard of an atomic
   site, so it is written here from debug.c:202-203 with the masks of Gen/Consts.v and validated by the
   lock-step replay (replay/mudbg_replay.ml).

   The text buffer is not modelled (C16's second sentence, Gen/Emit.v); the only thing the buffer decides
   about the atomic sites is how many waiter records emit_waiters prints before b->overflow stops its loop.
   That number is a parameter of the call (an oracle, like the buffer size it stands for):
     recs   how many records the walk may print when it runs UNDER the spinlock;
     loads  how many relaxed loads an UNLOCKED walk makes.  An unlocked walk happens when print_waiters != 0
            and the spinlock was not taken: MU_WAITING was clear at the first load, or (nsync_mu_debugger
            only) the spinlock was found taken -- "unsafe, intended for use within interactive debuggers"
            says debug.c.  What such a walk reads is not determined by the model state (it follows plain
            pointers that the spinlock owner is changing); the model makes it [loads] read-only steps and
            says nothing about the values.
   Ghost fields: d_owner (this debugger owns MU_SPINLOCK), d_read (the waiter records it has read under the
   lock, in order), d_unsafe (number of unlocked loads it made).  No proofs in this file. *)
From NsyncBase Require Import CSem.
From NsyncGen Require Import Consts Sites.
From NsyncModel Require Import MuModel.
From Coq Require Import List ZArith Bool.
Import ListNotations.
Local Open Scope Z_scope.

Inductive dop := DState | DStateWaiters (recs loads : nat) | DDebugger (recs loads : nat).

(* the arguments emit_mu_state is called with (debug.c:264-291) *)
Record dcall := mk_dcall { c_blocking : bool; c_print : bool; c_recs : nat; c_loads : nat }.
Definition call_of (o : dop) : dcall :=
  match o with
  | DState => mk_dcall false false 0 0
  | DStateWaiters r l => mk_dcall true true r l
  | DDebugger r l => mk_dcall false true r l
  end.

Inductive dpc :=
| DIdle
| DLoad (c : dcall)                      (* emit_mu_state: word = ATM_LOAD (&mu->word)                      debug.c:201 *)
| DSpinLoad (c : dcall) (first : bool)   (* nsync_spin_test_and_set_: old = ATM_LOAD (w)              common.c:105 / 108 *)
| DSpinCas (c : dcall) (old : Z)         (* nsync_spin_test_and_set_: ATM_CAS_ACQ (w, old, (old|set)&~clear) common.c:106 *)
| DWalkW (p : nat) (rest : list nat)     (* emit_waiters under the lock: ATM_LOAD (&nw->waiting)            debug.c:166 *)
| DWalkR (p : nat) (rest : list nat)     (* emit_waiters under the lock: ATM_LOAD (&w->remove_count)        debug.c:173 *)
| DRelLoad (first : bool)                (* emit_mu_state: old_word = ATM_LOAD (&mu->word)            debug.c:221 / 223 *)
| DRelCas (old : Z)                      (* emit_mu_state: ATM_CAS_REL (&mu->word, old_word, old_word & ~MU_SPINLOCK) :222 *)
| DWalkU (n : nat).                      (* emit_waiters WITHOUT the lock: n relaxed loads still to make   debug.c:166/173 *)

Record dstate := mk_d { d_pc : dpc; d_ops : list dop;
                        d_owner : bool;          (* ghost: owns MU_SPINLOCK *)
                        d_read : list nat;       (* ghost: waiter records read under the lock *)
                        d_unsafe : nat }.        (* ghost: loads made by unlocked walks *)

Record dworld := mk_dw { base : world; dbg : list dstate }.

Inductive who := TBase (t : nat) | TDbg (d : nat).

Inductive dev :=
| DEvBase (e : ev)                          (* a step of a locker thread: MuModel's event *)
| DEvLoad (site : Z) (v : Z)                (* a load of mu->word *)
| DEvCas (site : Z) (old new : Z) (ok : bool)
| DEvReadWaiting (p : nat) (v : Z)          (* under the lock: waiting flag of thread p's waiter *)
| DEvReadRemove (p : nat)                   (* under the lock: remove_count of thread p's waiter *)
| DEvReadUnsafe                             (* a load of an unlocked walk *)
| DEvNone.

(* site ids: 1000 nsync_spin_test_and_set_, 1100 emit_waiters, 1200 emit_mu_state (+ ordinal in Gen/Sites.v) *)

Definition dflt_d := mk_d DIdle [] false [] 0.
Definition dget (w : dworld) (d : nat) : dstate := nth d (dbg w) dflt_d.
Definition dset (w : dworld) (d : nat) (s : dstate) : dworld := mk_dw (base w) (lupd (dbg w) d s).
Definition dset_pc (w : dworld) (d : nat) (p : dpc) : dworld :=
  let s := dget w d in dset w d (mk_d p (d_ops s) (d_owner s) (d_read s) (d_unsafe s)).
Definition dset_base (w : dworld) (b : world) : dworld := mk_dw b (dbg w).
Definition dset_owner (w : dworld) (d : nat) (o : bool) : dworld :=
  let s := dget w d in dset w d (mk_d (d_pc s) (d_ops s) o (d_read s) (d_unsafe s)).
Definition dnote_read (w : dworld) (d : nat) (p : nat) : dworld :=
  let s := dget w d in dset w d (mk_d (d_pc s) (d_ops s) (d_owner s) (d_read s ++ [p]) (d_unsafe s)).
Definition dnote_unsafe (w : dworld) (d : nat) : dworld :=
  let s := dget w d in dset w d (mk_d (d_pc s) (d_ops s) (d_owner s) (d_read s) (S (d_unsafe s))).

(* emit_mu_state after emit_waiters: "if (acquired)" decides whether the release loop runs *)
Definition after_walk (acquired : Z) : dpc := if emit_mu_state_load2_guard acquired then DRelLoad true else DIdle.
(* the loop of emit_waiters under the lock: next record, or the loop ends *)
Definition walk_pc (rest : list nat) : dpc := match rest with p :: r => DWalkW p r | [] => after_walk 1 end.
(* the loop of emit_waiters without the lock *)
Definition walku_pc (n : nat) : dpc := match n with S _ => DWalkU n | O => after_walk 0 end.

(* debug.c:202-203 *)
Definition wants_spinlock (c : dcall) (v : Z) : bool :=
  has v MU_WAITING && c_print c && (c_blocking c || negb (has v MU_SPINLOCK)).

Definition dbegin (w : dworld) (d : nat) : dworld :=
  let s := dget w d in
  match d_pc s, d_ops s with
  | DIdle, o :: rest => dset w d (mk_d (DLoad (call_of o)) rest (d_owner s) (d_read s) (d_unsafe s))
  | _, _ => w
  end.

Definition dbg_step (w0 : dworld) (d : nat) : dworld * dev :=
  let w := dbegin w0 d in
  let b := base w in
  match d_pc (dget w d) with
  | DIdle => (w, DEvNone)
  | DLoad c =>
      let v := word b in
      let p := if wants_spinlock c v then DSpinLoad c true
               else if c_print c then walku_pc (c_loads c) else DIdle in
      (dset_pc w d p, DEvLoad 1201 v)
  | DSpinLoad c first =>
      let v := word b in
      let site := if first then 1001 else 1003 in
      if nsync_spin_test_and_set_cas1_guard v MU_SPINLOCK
      then (dset_pc w d (DSpinCas c v), DEvLoad site v)
      else (dset_pc w d (DSpinLoad c false), DEvLoad site v)          (* spin delay, loop *)
  | DSpinCas c old =>
      let new := nsync_spin_test_and_set_cas1_new old MU_SPINLOCK 0 in
      let '(b1, ok) := cas b old new in
      if ok then (dset_pc (dset_owner (dset_base w b1) d true) d (walk_pc (firstn (c_recs c) (queue b1))),
                  DEvCas 1002 old new true)
      else (dset_pc w d (DSpinLoad c false), DEvCas 1002 old new false)
  | DWalkW p rest =>
      (dset_pc (dnote_read w d p) d (DWalkR p rest), DEvReadWaiting p (if waiting b p then 1 else 0))
  | DWalkR p rest => (dset_pc w d (walk_pc rest), DEvReadRemove p)
  | DRelLoad first => (dset_pc w d (DRelCas (word b)), DEvLoad (if first then 1202 else 1204) (word b))
  | DRelCas old =>
      let new := emit_mu_state_cas1_new old in
      let '(b1, ok) := cas b old new in
      if ok then (dset_pc (dset_owner (dset_base w b1) d false) d DIdle, DEvCas 1203 old new true)
      else (dset_pc w d (DRelLoad false), DEvCas 1203 old new false)
  | DWalkU n => (dset_pc (dnote_unsafe w d) d (walku_pc (pred n)), DEvReadUnsafe)
  end.

Definition dstep (w : dworld) (a : who) : dworld * dev :=
  match a with
  | TBase t => let '(b1, e) := step (base w) t in (dset_base w b1, DEvBase e)
  | TDbg d => dbg_step w d
  end.

Definition dinit (progs : list (list op)) (dprogs : list (list dop)) : dworld :=
  mk_dw (init progs) (map (fun p => mk_d DIdle p false [] 0) dprogs).

Definition drun (w : dworld) (sched : list who) : dworld := fold_left (fun w a => fst (dstep w a)) sched w.
