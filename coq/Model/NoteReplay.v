(* helpers used only by replay/note_replay.ml *)
From NsyncBase Require Import CSem.
From NsyncModel Require Import NoteModel.
From Coq Require Import List ZArith Bool.
Import ListNotations.
Local Open Scope Z_scope.

Definition push_op (w : world) (t : nat) (o : op) : world :=
  let s := get w t in set_thr w t (mk_t (stack s) (prog s ++ [o]) (hist s) (tw s) (sem s) (sb s)).
Definition init_n (k : nat) (c0 : Z) : world := init c0 (repeat [] k).

(* what the next step of thread t is, as seen in a trace:
   0 idle | 1 a site of note.c or a lock/unlock boundary | 2 malloc | 3 clock read | 4 V | 5 P | 6 free | 7 expiry read | 8 trylock *)
Definition expects (w0 : world) (t : nat) : Z :=
  let w := begin_call w0 t in
  match stack (get w t) with
  | [] => 0
  | f :: _ =>
      match f with
      | FD _ (D5 _) => 3
      | FN _ N5 _ _ => 8
      | FC _ _ (C4 _) => 4
      | FF _ F2 _ => 8
      | FF _ F13 _ => 6
      | ANew _ _ W1 => 2
      | AWait _ _ (S1 _) => 5
      | AExp _ => 7
      | _ => 1
      end
  end.
(* coverage key of the next step: frame kind * 100 + stage *)
Definition pc_code (w0 : world) (t : nat) : Z :=
  let w := begin_call w0 t in
  match stack (get w t) with
  | [] => 0
  | f :: _ =>
      match f with
      | FD _ s => 100 + match s with D1 => 1 | D2 => 2 | D3 => 3 | D4 _ => 4 | D5 _ => 5 end
      | FN _ s _ _ => 200 + match s with N1 => 1 | N2 => 2 | N3 => 3 | N4 => 4 | N5 => 5 | N6 => 6 | N7 => 7 | N8 => 8 | N9 => 0 | N10 => 10 | N11 => 11 end
      | FC _ _ s => 300 + match s with C1 => 1 | C2 => 2 | C3 _ => 3 | C4 _ => 4 | C5 _ _ => 5 | CR _ _ => 0 | C6 _ _ _ => 6 | C7 => 7 | C8 => 8 end
      | FF _ s _ => 400 + match s with F1 => 1 | Fw1 => 14 | Fw2 => 15 | F2 => 2 | F3 => 3 | F4 => 4 | F5 => 5 | F6 _ _ => 6 | F7 _ _ => 7
                                      | FR _ _ => 0 | F8 _ _ _ => 8 | F9 => 9 | F10 _ => 10 | F11 => 11 | F12 => 12 | F13 => 13 end
      | ANew _ _ s => 500 + match s with W1 => 1 | WD _ => 0 | W2 _ _ _ => 2 | W3 _ _ _ => 3 | W4 _ _ => 4 end
      | AWait _ _ s => 600 + match s with WReady => 0 | E1 => 1 | E2 => 2 | E3 => 3 | E4 => 4 | E5 => 5 | WLoop => 0 | S1 _ => 6 | WDeq => 0
                                          | Q1 => 7 | Q2 => 8 | Q3 => 9 | Q4 _ => 10 end
      | AExp _ => 700
      | AIs _ | ANotify _ => 0
      end
  end.
Definition sleep_due (w : world) (t : nat) : bool :=
  match stack (get w t) with AWait _ _ (S1 d) :: _ => tle_z d (clock w) | _ => false end.
Definition last_res (w : world) (t : nat) : option (op * res) := hd_error (hist (get w t)).
Definition ncalls_done (w : world) (t : nat) : nat := length (hist (get w t)).
Definition idle (w : world) (t : nat) : bool :=
  match stack (get w t), prog (get w t) with [], [] => true | _, _ => false end.
Definition flags (w : world) : bool * bool * bool := (mono_bad (gh w), broken (gh w), crashed (gh w)).
Definition lock_is_free (w : world) (n : nat) : bool := lock_free w n.
Definition note_flag (w : world) (n : nat) : Z := flag (nt w n).
