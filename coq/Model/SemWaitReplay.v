(* helpers used only by replay/semwait_replay.ml *)
From NsyncBase Require Import CSem.
From NsyncModel Require Import SemWaitModel.
From Coq Require Import List ZArith Bool.
Import ListNotations.
Local Open Scope Z_scope.

Definition push_op (w : world) (t : nat) (o : op) : world :=
  let s := get w t in set_thr w t (mk_t (stack s) (prog s ++ [o]) (hist s) (sem s)).
Definition init_c (c0 : Z) : world := init c0 [] [].
(* the scenario announces a note: expiry and whether it has a parent (the note is fresh: not notified, no waiters) *)
Definition add_note (w : world) (n : nat) (e : time) (p : bool) : world := set_note w n (mk_note e 0 p [] O None).

(* what the next step of thread t is, as seen in a trace:
   0 idle | 1 a site of sem_wait.c / note.c or a lock / unlock boundary of the note's note_mu | 3 clock read | 4 V | 5 P |
   8 trylock of the parent's note_mu | 9 lock of it | 10 unlock of it | 99 a frame that never steps is on top *)
Definition expects (w0 : world) (t : nat) : Z :=
  let w := begin_call w0 t in
  match stack (get w t) with
  | [] => 0
  | f :: _ =>
      match f with
      | FD _ (D5 _) => 3
      | FD _ (D6 _) => 99
      | FC _ _ (C4 _) => 4
      | FN _ N5 _ _ => 8
      | FN _ N7 _ _ => 9
      | FN _ N10 _ _ => 10
      | FN _ N9 _ _ => 99
      | FP _ P2 => 99
      | AWait _ WPlain | AWait _ (WP _) => 5
      | AWait _ (WChk _) | AWait _ (WNtf _) => 99
      | FNotify _ | AIs _ => 99
      | _ => 1
      end
  end.
(* coverage key of the next step: frame kind * 100 + stage *)
Definition pc_code (w0 : world) (t : nat) : Z :=
  let w := begin_call w0 t in
  match stack (get w t) with
  | [] => 0
  | f :: _ =>
      match f with
      | FD _ s => 100 + match s with D1 => 1 | D2 => 2 | D3 => 3 | D4 _ => 4 | D5 _ => 5 | D6 _ => 6 end
      | FN _ s _ _ => 200 + match s with N1 => 1 | N2 => 2 | N3 => 3 | N4 => 4 | N5 => 5 | N6 => 6 | N7 => 7 | N8 => 8 | N9 => 9 | N10 => 10 | N11 => 11 end
      | FC _ _ s => 300 + match s with C1 => 1 | C2 => 2 | C3 _ => 3 | C4 _ => 4 end
      | FP _ s => 400 + match s with P1 => 1 | P2 => 2 | P3 _ => 3 end
      | AWait _ s => 500 + match s with WPlain => 0 | WChk _ => 1 | WSt _ => 2 | WLk1 _ => 3 | WLd1 _ => 4 | WUn1 _ => 5 | WP _ => 6
                                        | WNtf _ => 7 | WLk2 _ => 8 | WLd2 _ => 9 | WUnl _ => 10 end
      | FNotify _ => 600
      | AIs _ => 700
      end
  end.
(* the deadline of the P thread t is in has been reached *)
Definition sleep_due (w : world) (t : nat) : bool :=
  match stack (get w t) with
  | AWait l WPlain :: _ => tle_z (w_dl l) (clock w)
  | AWait l (WP _) :: _ => tle_z (w_ldl l) (clock w)
  | _ => false
  end.
Definition last_res (w : world) (t : nat) : option (op * res) := hd_error (hist (get w t)).
Definition ncalls_done (w : world) (t : nat) : nat := length (hist (get w t)).
Definition idle (w : world) (t : nat) : bool :=
  match stack (get w t), prog (get w t) with [], [] => true | _, _ => false end.
Definition sem_of (w : world) (t : nat) : nat := sem (get w t).
Definition dead (w : world) : Z := dead_touch w.
Definition rec_owner (w : world) (r : nat) : nat := owner (recs w r).
Definition lock_is_free (w : world) (n : nat) : bool := lock_free w n.
Definition note_flag (w : world) (n : nat) : Z := flag (nt w n).
Definition note_queue (w : world) (n : nat) : list nat := waiters (nt w n).
Definition why_code (y : why) : Z := match y with YOk => 0 | YTimeout => 1 | YEarly => 2 | YLocked => 3 | YExpiry => 4 end.
(* the latest return: (result, why, deadline_is_nearer) *)
Definition last_ret (w : world) : option (Z * Z * bool) :=
  match rets w with e :: _ => Some (e_res e, why_code (e_why e), e_near e) | [] => None end.
Definition nrets (w : world) : nat := length (rets w).
