(* helpers used only by the lock-step replayer (replay/muall_replay.ml) and the exploration driver (replay/muall_explore.ml) *)
From NsyncBase Require Import CSem.
From NsyncGen Require Import Consts Sites.
From NsyncModel Require Import MuWaitModel MuAllModel.
From Coq Require Import List ZArith Bool.
Import ListNotations.
Local Open Scope Z_scope.

Definition apush_op (aw : aworld) (t : nat) (o : aop) : aworld :=
  let s := aget aw t in set_at aw t (mk_at (a_pc s) (a_ops s ++ [o]) (a_rets s)).
Definition ainit_n (n : nat) (classes : list nat) (clock0 : Z) : aworld :=
  ainit (repeat [] n) (fun a => nth a classes a) clock0.

(* wrapper pc of a thread, for the driver *)
Definition apc_code (aw : aworld) (t : nat) : Z :=
  match a_pc (aget aw t) with
  | AIdle => 0 | AwStore _ => 1 | AwLoadMu _ => 2 | AwEnq _ => 3 | AwUnlock _ => 4 | AwLoop _ => 5 | AwSem _ => 6
  | AwLoad6 _ => 7 | AwConfirm _ => 8 | AwLoad13 _ => 9 | AwReacq _ => 10 | AkLoad _ => 11 | AkSelect _ => 12
  | AvLoad1 _ => 13 | AvCas1 _ _ => 14 | AvLoad3 _ => 15 | AvCas2 _ _ => 16 | AvLoad5 _ => 17 | AvStore _ => 18 | AvV _ _ => 19
  | AnEnq => 20 | AnLoop => 21 | AnSem => 22 | AnDeq => 23 | AnSpin => 24
  | ACrash _ => 99
  end.
(* what the mutex thread is about to do: 1 timed P of mu_wait, 2 V of unlock_slow, 3 P of lock_slow, 5 crashed, 0 idle, 4 other *)
Definition mpc_code (aw : aworld) (t : nat) : Z :=
  match t_pc (get (mu aw) t) with
  | Idle => 0 | MwSemP => 1 | UsWakeV _ _ _ => 2 | LsSemP _ _ => 3 | Crash y => if y =? 99 then 4 else 5 | _ => 4
  end.
Definition crash_why (aw : aworld) (t : nat) : Z := match t_pc (get (mu aw) t) with Crash y => y | _ => 0 end.
(* nothing in progress and nothing handed over *)
Definition a_idle (aw : aworld) (t : nat) : bool :=
  match a_pc (aget aw t), a_ops (aget aw t) with AIdle, [] => mu_idle (mu aw) t | _, _ => false end.
Definition held_of (aw : aworld) (t : nat) : option mode := held (get (mu aw) t).
Definition unstable_queue (aw : aworld) : bool :=
  existsb (fun s => match t_pc s with RmLoad (KTry _) | RmCas (KTry _) _ => true | _ => false end) (thr (mu aw)).
Definition ret_code (aw : aworld) (t : nat) : Z := match last_ret (get (mu aw) t) with Some r => r | None => (-1) end.
Definition in_call (aw : aworld) (t : nat) : bool := match mw (get (mu aw) t) with Some _ => true | None => false end.
Definition clear_ret (aw : aworld) (t : nat) : aworld :=
  let w := mu aw in let s := get w t in
  set_mu aw (set_t w t (mk_t (t_pc s) (t_ops s) (held s) (conv s) (spin s) (mw s) None)).
Definition timeout_enabled (aw : aworld) (t : nat) : bool :=
  match mw_dl (get_mw (mu aw) t) with Some d => Z.leb d (clock (mu aw)) | None => false end.
Definition bad_evals (aw : aworld) : nat :=
  length (filter (fun e => er_otherw e || match er_held e with None => true | _ => false end) (evlog (mu aw))).
Definition nevals (aw : aworld) : nat := length (evlog (mu aw)).
Definition v_target (aw : aworld) (t : nat) : option nat :=
  match a_pc (aget aw t) with
  | AvV _ p => Some p
  | AIdle | AwUnlock _ | AwReacq _ => match t_pc (get (mu aw) t) with UsWakeV _ p _ => Some p | _ => None end
  | _ => None
  end.
Definition is_desig_entry (aw : aworld) (t : nat) : bool :=
  match a_pc (aget aw t), t_pc (get (mu aw) t) with
  | AwReacq _, LsLoad _ l => (clr l =? MU_DESIG_WAKER) && (wcount l =? 0)
  | _, _ => false
  end.
Definition last_ret_ok (aw : aworld) (t : nat) : bool :=
  match a_rets (aget aw t) with
  | (m, Some m') :: _ => mode_eqb m m'
  | (_, None) :: _ => false
  | [] => true
  end.
(* the protected state as an input of the replay (scenarios that do not announce their writes) *)
Definition force_pst (aw : aworld) (f a : nat) (b : bool) : aworld := set_mu aw (set_pst (mu aw) f a b).
Definition xferred_of (aw : aworld) (t : nat) : bool := xferred aw t.

(* ---- the interplay this model exists for ---- *)
(* the private lists of a thread inside the scan of nsync_mu_unlock_slow_ *)
Definition scan_of (p : pc) : option uscan :=
  match p with
  | RelLoad (KScan _ u) _ | RelCas (KScan _ u) _ | SpinLoad (KScan _ u) _ | SpinCas (KScan _ u) _
  | RmLoad (KScan _ u) | RmCas (KScan _ u) _ | UsEval _ u => Some u
  | _ => None
  end.
(* some thread is inside the scan, has swapped mu->waiters out and does NOT own the spinlock (it released it to evaluate
   a condition): 0 no; 1 yes with empty private lists; 2 yes with waiters in its private lists *)
Definition scanner_window (aw : aworld) : Z :=
  fold_left (fun acc s =>
               match scan_of (t_pc s) with
               | Some u => if spin s then acc
                           else Z.max acc (match u_done u ++ u_new u with [] => 1 | _ => 2 end)
               | None => acc
               end) (thr (mu aw)) 0.
(* the private lists of all scanners *)
Definition scanner_lists (aw : aworld) : list nat :=
  flat_map (fun s => match scan_of (t_pc s) with Some u => u_done u ++ u_new u | None => [] end) (thr (mu aw)).
