(* helpers used only by the lock-step replayer (replay/cv_replay.ml) *)
From NsyncBase Require Import CSem.
From NsyncGen Require Import Consts Sites.
From NsyncModel Require Import CvModel.
From Coq Require Import List ZArith Bool.
Import ListNotations.
Local Open Scope Z_scope.

Definition push_op (w : world) (t : nat) (o : op) : world :=
  let s := get w t in set_t w t (mk_t (t_pc s) (t_ops s ++ [o]) (held s) (rets s)).
Definition init_n (n : nat) (clock0 : Z) : world := init (repeat [] n) clock0 None.

(* a coarse classification of the pc of a thread, for the driver *)
Definition pc_class (w : world) (t : nat) : Z :=
  match t_pc (get w t) with
  | Idle => 0
  | MLock _ | WMuAcq _ | NMuAcq _ => 1         (* inside an abstract acquisition *)
  | MUnlock | WMuRel _ | NMuRel _ => 2         (* about to release *)
  | WSem _ => 3
  | NSem _ => 4
  | VV _ _ => 5
  | Crash _ => 9
  | _ => 6
  end.
Definition vv_target (w : world) (t : nat) : option nat :=
  match t_pc (get w t) with VV _ o => Some o | _ => None end.
Definition wait_is_cancellable (w : world) (t : nat) : bool :=
  match t_pc (get w t) with WSem l => w_can l | _ => false end.
Definition last_ret (w : world) (t : nat) : option ret := match rets (get w t) with r :: _ => Some r | [] => None end.
Definition spin_free (w : world) : bool := negb (has (cvw w) CV_SPINLOCK).
Definition mu_spin_free (w : world) : bool := negb (has (muw w) MU_SPINLOCK).
Definition rec_owner (w : world) (r : nat) : nat := owner (recs w r).
Definition rec_native (w : world) (r : nat) : bool := is_mucv (recs w r).
Definition lock_field (v : Z) : Z := mu_lockf v.
Definition owed_of (w : world) (t : nat) : Z := owed w t.
Definition wlog_len (w : world) : nat := length (wlog w).
(* wake_waiters after the CAS that took the mutex spinlock: what is left on to_wake_list, and how many of those are native
   waiter structs not associated with the mutex (waiters of nsync_cv_wait_with_deadline_generic: woken, not transferred: F16) *)
Definition wake_list (w : world) (t : nat) : list nat :=
  match t_pc (get w t) with VLoad3 k | VCas2 k _ | VLoad5 k | VStore k => k_wake k | _ => [] end.
Definition generic_left (w : world) (t : nat) : nat :=
  length (filter (fun r => is_mucv (recs w r) && negb (cv_mu (recs w r))) (wake_list w t)).
