(* helpers used only by replay/counter_replay.ml *)
From NsyncModel Require Import CounterModel.
From Coq Require Import List ZArith.
Import ListNotations.
Local Open Scope Z_scope.

(* thread t is about to make one more call *)
Definition push_op (w : world) (t : nat) (o : op) : world :=
  let s := get w t in set_thr w t (mk_t (pc s) (prog s ++ [o])).
Definition init_n (v0 clock0 : Z) (n : nat) : world := init v0 clock0 (repeat [] n).
(* coarse pc class for the replayer: 0 idle, 1 at the V of add (payload: the record's thread), 2 at P (payload: 1 + deadline, 0 = none),
   3 crashed, 4 anything else *)
Definition pc_class (w : world) (t : nat) : Z * Z :=
  match pc (get w t) with
  | Idle => (0, 0)
  | AddV _ _ u => (1, Z.of_nat u)
  | WP None => (2, 0)
  | WP (Some d) => (2, 1 + d)
  | Crash => (3, 0)
  | _ => (4, 0)
  end.
Definition calls_left (w : world) (t : nat) : Z := Z.of_nat (length (prog (get w t))).
(* number of returned calls of thread t and the result of the newest *)
Definition returned (w : world) (t : nat) : Z * Z :=
  let l := filter (fun r => Nat.eqb (c_tid r) t) (log w) in
  (Z.of_nat (length l), match l with r :: _ => c_res r | [] => (-1) end).
Definition sem_of (w : world) (t : nat) : Z := sem w t.
Definition lock_free (w : world) : bool := match mu w with None => true | Some _ => false end.
Definition nwaiters (w : world) : Z := Z.of_nat (length (waiters w)).
