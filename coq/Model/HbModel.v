(* Happens-before instrumentation of MuModel executions (C03).
   The operational release/acquire semantics a vector-clock race detector implements
   (C++20 release sequences), driven ONLY by the memory order each atomic site
   requests in the C source (Gen/Sites.v): no ordering is credited to the scheduler,
   to the futex or to the interleaving itself.

     release store      rel_x := V_t                    relaxed store   rel_x := bottom
     successful RMW     V_t := V_t join rel_x  (if acquire);   rel_x := rel_x join V_t (if release)
                        (a relaxed RMW leaves rel_x alone: it continues the release sequence)
     acquire load       V_t := V_t join rel_x           relaxed load / failed CAS: nothing
   (MuModel emits no store to the mutex word: mu.c has none -- C03_mutex_word_writes; the two release stores of
   mu_wait.c are instrumented in Model/HbMuWait.v)
   A site gets the order of Gen/Sites.v only if the inventory agrees that it is an access of the KIND of the event the
   model emits (CAS / load) to the mutex word; otherwise it is treated as relaxed.

   Views are functions thread -> epoch; a thread's own epoch advances at each of its steps. *)
From NsyncBase Require Import CSem.
From NsyncGen Require Import Consts Sites.
From NsyncModel Require Import MuModel.
From Coq Require Import List ZArith Bool String.
Import ListNotations.
Local Open Scope Z_scope.

Definition view := nat -> Z.
Definition vbot : view := fun _ => 0.
Definition vjoin (a b : view) : view := fun t => Z.max (a t) (b t).
Definition vle (a b : view) : Prop := forall t, a t <= b t.
Definition vtick (v : view) (t : nat) : view := fun x => if Nat.eqb x t then v x + 1 else v x.

(* site id used by MuModel's events -> (function, ordinal) in Gen/Sites.v *)
Definition fn_of_site (s : Z) : string :=
  match s / 100 with
  | 1 => "nsync_mu_lock" | 2 => "nsync_mu_rlock" | 3 => "nsync_mu_trylock" | 4 => "nsync_mu_rtrylock"
  | 5 => "nsync_mu_lock_slow_" | 6 => "mu_release_spinlock" | 7 => "nsync_mu_unlock" | 8 => "nsync_mu_runlock"
  | 9 => "nsync_mu_unlock_slow_" | _ => ""
  end%string.
Definition ord_of_site (s : Z) : nat := Z.to_nat (s mod 100).

(* order requested by site number n of function fn in [sites], PROVIDED it is an access of kind k to [target];
   a site that is missing, of another kind, or on another object gets no ordering credit *)
Definition akind_eqb (a b : akind) : bool :=
  match a, b with Kcas, Kcas | Kload, Kload | Kstore, Kstore => true | _, _ => false end.
Definition order_at (sites : list site) (fn : string) (n : nat) (k : akind) (target : string) : aorder :=
  match find (fun x => String.eqb (s_fn x) fn && Nat.eqb (s_ord x) n) sites with
  | Some x => if akind_eqb (s_kind x) k && String.eqb (s_target x) target then s_order x else Orlx
  | None => Orlx          (* an unknown site gets no ordering credit *)
  end.
(* MuModel's events EvCas / EvLoad are accesses to the mutex word, "word.mu" in mu.c *)
Definition order_of (k : akind) (s : Z) : aorder := order_at sites_mu_c (fn_of_site s) (ord_of_site s) k "word.mu".
Definition has_acq (o : aorder) : bool := match o with Oacq | Oacqrel => true | _ => false end.
Definition has_rel (o : aorder) : bool := match o with Orel | Oacqrel => true | _ => false end.

(* ---------- vocabulary for statements about the whole inventory ---------- *)
Definition all_sites : list site :=
  sites_common_c ++ sites_counter_c ++ sites_cv_c ++ sites_debug_c ++ sites_mu_c ++ sites_mu_wait_c ++ sites_note_c ++
  sites_nsync_semaphore_futex_c ++ sites_once_c ++ sites_per_thread_waiter_c ++ sites_sem_wait_c ++ sites_wait_c.
(* accesses to the word of an nsync_mu: `mu->word' (mu.c, mu_wait.c, debug.c), `pmu->word' and `cv_mu->word' (cv.c), and
   the generic spin loop nsync_spin_test_and_set_ (w, ...) of common.c, which mu.c / mu_wait.c / debug.c apply to &mu->word
   (and cv.c / debug.c to the condition variable's word) *)
Definition on_mu_word (x : site) : bool :=
  existsb (String.eqb (s_target x)) ["word.mu"; "word.pmu"; "word.cv_mu"]%string ||
  (String.eqb (s_fn x) "nsync_spin_test_and_set_" && String.eqb (s_target x) "w").
(* accesses to the word of an nsync_cv *)
Definition on_cv_word (x : site) : bool := existsb (String.eqb (s_target x)) ["word.pcv"; "word.cv"]%string.
Definition is_kind (k : akind) (x : site) : bool := akind_eqb (s_kind x) k.
Definition site_id (x : site) : string * nat := (s_fn x, s_ord x).
Definition id_eqb (a b : string * nat) : bool := String.eqb (fst a) (fst b) && Nat.eqb (snd a) (snd b).
Definition id_in (l : list (string * nat)) (x : site) : bool := existsb (id_eqb (site_id x)) l.

(* every write to the word of an nsync_mu, in every file of the inventory *)
Definition mu_word_writes : list site := filter (fun x => on_mu_word x && negb (is_kind Kload x)) all_sites.
(* writes that give up lock bits and / or the queue spinlock (in the order of [all_sites]) *)
Definition mu_word_releasing : list (string * nat) :=
  [("wake_waiters", 4%nat); ("emit_mu_state", 3%nat); ("mu_release_spinlock", 2%nat);
   ("nsync_mu_unlock_slow_", 2%nat); ("nsync_mu_unlock_slow_", 3%nat); ("nsync_mu_unlock_slow_", 5%nat);
   ("nsync_mu_unlock", 1%nat); ("nsync_mu_unlock", 3%nat); ("nsync_mu_runlock", 1%nat); ("nsync_mu_runlock", 3%nat);
   ("mu_try_acquire_after_timeout_or_cancel", 3%nat); ("mu_try_acquire_after_timeout_or_cancel", 8%nat);
   ("mu_try_acquire_after_timeout_or_cancel", 9%nat); ("nsync_mu_wait_with_deadline", 5%nat);
   ("nsync_mu_unlock_without_wakeup", 1%nat); ("nsync_mu_unlock_without_wakeup", 3%nat)]%string.
(* writes that take lock bits and / or the queue spinlock *)
Definition mu_word_acquiring : list (string * nat) :=
  [("nsync_spin_test_and_set_", 2%nat); ("wake_waiters", 2%nat);
   ("nsync_mu_lock_slow_", 2%nat); ("nsync_mu_lock_slow_", 3%nat); ("nsync_mu_trylock", 1%nat); ("nsync_mu_trylock", 3%nat);
   ("nsync_mu_lock", 1%nat); ("nsync_mu_lock", 3%nat); ("nsync_mu_rtrylock", 1%nat); ("nsync_mu_rtrylock", 3%nat);
   ("nsync_mu_rlock", 1%nat); ("nsync_mu_rlock", 3%nat); ("nsync_mu_unlock_slow_", 3%nat);
   ("mu_try_acquire_after_timeout_or_cancel", 2%nat); ("mu_try_acquire_after_timeout_or_cancel", 3%nat)]%string.
Definition word_target (x : site) : bool := String.prefix "word." (s_target x).

Record hb := mk_hb { views : nat -> view; rel_word : view }.
Definition hb0 : hb := mk_hb (fun _ => vbot) vbot.
Definition set_view (h : hb) (t : nat) (v : view) : hb :=
  mk_hb (fun x => if Nat.eqb x t then v else views h x) (rel_word h).

(* effect of one MuModel event of thread t on the happens-before state; only accesses to the mutex word matter here *)
Definition hb_step (h : hb) (t : nat) (e : ev) : hb :=
  let h := set_view h t (vtick (views h t) t) in
  match e with
  | EvCas s _ _ true =>
      let o := order_of Kcas s in
      let v := if has_acq o then vjoin (views h t) (rel_word h) else views h t in
      let r := if has_rel o then vjoin (rel_word h) v else rel_word h in
      mk_hb (fun x => if Nat.eqb x t then v else views h x) r
  | EvLoad s _ =>
      if has_acq (order_of Kload s) then set_view h t (vjoin (views h t) (rel_word h)) else h
  | _ => h
  end.

(* run the model and the instrumentation together; record, per step, (thread, held before, held after, view after) *)
Record obs := mk_obs { o_t : nat; o_before : option mode; o_after : option mode; o_view : view }.

Fixpoint run_hb (w : world) (h : hb) (sched : list nat) : list obs :=
  match sched with
  | [] => []
  | t :: rest =>
      let '(w', e) := step w t in
      let h' := hb_step h t e in
      mk_obs t (held (MuModel.get w t)) (held (MuModel.get w' t)) (views h' t) :: run_hb w' h' rest
  end.

Definition is_release (o : obs) : Prop := o_before o <> None /\ o_after o = None.
Definition is_acquire (o : obs) : Prop := o_before o = None /\ o_after o <> None.
