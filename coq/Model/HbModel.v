(* Happens-before instrumentation of MuModel executions (C03).
   The operational release/acquire semantics a vector-clock race detector implements
   (C++20 release sequences), driven ONLY by the memory order each atomic site
   requests in the C source (Gen/Sites.v): no ordering is credited to the scheduler,
   to the futex or to the interleaving itself.

     release store      rel_x := V_t                    relaxed store   rel_x := bottom
     successful RMW     V_t := V_t join rel_x  (if acquire);   rel_x := rel_x join V_t (if release)
                        (a relaxed RMW leaves rel_x alone: it continues the release sequence)
     acquire load       V_t := V_t join rel_x           relaxed load / failed CAS: nothing

   Views are functions thread -> epoch; a thread's own epoch advances at each of its steps. *)
From NsyncBase Require Import CSem.
From NsyncGen Require Import Consts Sites.
From NsyncModel Require Import MuModel.
From Coq Require Import List ZArith Bool String.
Import ListNotations.
Local Open Scope Z_scope.

Definition view := nat -> Z.
Definition vbot : view := fun _ => 0.
Definition vjoin (a b : view) : view := fun t => Z.max (a t) (b t).
Definition vle (a b : view) : Prop := forall t, a t <= b t.
Definition vtick (v : view) (t : nat) : view := fun x => if Nat.eqb x t then v x + 1 else v x.

(* site id used by MuModel's events -> (function, ordinal) in Gen/Sites.v *)
Definition fn_of_site (s : Z) : string :=
  match s / 100 with
  | 1 => "nsync_mu_lock" | 2 => "nsync_mu_rlock" | 3 => "nsync_mu_trylock" | 4 => "nsync_mu_rtrylock"
  | 5 => "nsync_mu_lock_slow_" | 6 => "mu_release_spinlock" | 7 => "nsync_mu_unlock" | 8 => "nsync_mu_runlock"
  | 9 => "nsync_mu_unlock_slow_" | _ => ""
  end%string.
Definition ord_of_site (s : Z) : nat := Z.to_nat (s mod 100).

Definition order_of (s : Z) : aorder :=
  match find (fun x => String.eqb (s_fn x) (fn_of_site s) && Nat.eqb (s_ord x) (ord_of_site s)) sites_mu_c with
  | Some x => s_order x
  | None => Orlx          (* an unknown site gets no ordering credit *)
  end.
Definition has_acq (o : aorder) : bool := match o with Oacq | Oacqrel => true | _ => false end.
Definition has_rel (o : aorder) : bool := match o with Orel | Oacqrel => true | _ => false end.

Record hb := mk_hb { views : nat -> view; rel_word : view }.
Definition hb0 : hb := mk_hb (fun _ => vbot) vbot.
Definition set_view (h : hb) (t : nat) (v : view) : hb :=
  mk_hb (fun x => if Nat.eqb x t then v else views h x) (rel_word h).

(* effect of one MuModel event of thread t on the happens-before state; only accesses to the mutex word matter here *)
Definition hb_step (h : hb) (t : nat) (e : ev) : hb :=
  let h := set_view h t (vtick (views h t) t) in
  match e with
  | EvCas s _ _ true =>
      let o := order_of s in
      let v := if has_acq o then vjoin (views h t) (rel_word h) else views h t in
      let r := if has_rel o then vjoin (rel_word h) v else rel_word h in
      mk_hb (fun x => if Nat.eqb x t then v else views h x) r
  | EvLoad s _ =>
      if has_acq (order_of s) then set_view h t (vjoin (views h t) (rel_word h)) else h
  | _ => h
  end.

(* run the model and the instrumentation together; record, per step, (thread, held before, held after, view after) *)
Record obs := mk_obs { o_t : nat; o_before : option mode; o_after : option mode; o_view : view }.

Fixpoint run_hb (w : world) (h : hb) (sched : list nat) : list obs :=
  match sched with
  | [] => []
  | t :: rest =>
      let '(w', e) := step w t in
      let h' := hb_step h t e in
      mk_obs t (held (MuModel.get w t)) (held (MuModel.get w' t)) (views h' t) :: run_hb w' h' rest
  end.

Definition is_release (o : obs) : Prop := o_before o <> None /\ o_after o = None.
Definition is_acquire (o : obs) : Prop := o_before o = None /\ o_after o <> None.
