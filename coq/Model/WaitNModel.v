(* WaitNModel: executable model of internal/wait.c (nsync_wait_n) for any number of threads, any number of
   objects of mixed kinds, both bookkeeping paths (nw_set on the stack for count <= nw_set_len, malloc/free above).

   The three waitable implementations are ABSTRACT objects specified by the contract that their
   ready_time / enqueue / dequeue functions implement (the note_, counter_ and cv_ functions of note.c, counter.c, cv.c):
   - every critical section under an object's own lock (note_mu, counter_mu, the cv spinlock) is ONE step,
     linearized at the write that publishes it to lock-free readers (the store of n->notified, the CAS on
     c->value, the release store of pcv->word);
   - the one window that is NOT closed by a lock is kept open: nsync_cv_signal/broadcast are several steps --
     (a) under the cv spinlock the chosen records move to the waker's private to_wake_list, (b) later, per
     record: `p_sem = p_nw->sem; remove from to_wake_list; ATM_STORE_REL (&p_nw->waiting, 0)` and then
     (c) `nsync_mu_semaphore_v (p_sem)` -- so a caller's cv_dequeue can run between (a), (b) and (c);
   - cv_dequeue is the current (repaired, /repo 70eb6e5) code: it unlinks only a record that is still ON the
     cv's queue, otherwise it returns 0 after spinning until the waker has cleared `waiting`.
   Only nsync_wait_n records are ever queued on the modelled cvs (they carry no NSYNC_WAITER_FLAG_MUCV), so
   nsync_cv_signal takes exactly the first record and wake_waiters goes straight to its final loop.

   The caller's semaphore (w->sem of its per-thread waiter) is an abstract count; nsync_mu_semaphore_p_with_deadline
   may return ETIMEDOUT only when clock >= its deadline (C12's theorem used as a specification) and may do so at any
   such step (the `timeout` choice of a step); the clock is advanced only by the environment (`Tick`).
   The mutex handed to nsync_wait_n is abstract (holder option); C01/C02 are the licence.

   Every nsync_wait_n call's records nw[0..count-1] have a ghost identity (thread, call number, index) and a ghost
   lifetime; every step reports the set of records it touches (for list operations: the acting record and, as an
   over-approximation of the dll neighbours that nsync_dll_* writes, all records on the list operated on).

   The values written to `waiting`, `notified`, `waited`, `value` and the guards come from Gen/Sites.v.
   No proofs in this file.

   ABSTRACTIONS OF THIS MODEL (each is part of the trusted base of C11 / C13(b); the three objects have their own
   site-by-site models -- NoteModel, CounterModel, CvModel -- whose theorems are about the objects themselves):
   (A1) counter_ready_time (counter.c:111-112) is ONE step, linearized at the acquire load of c->value: the preceding
        `ATM_STORE (&c->waited, 1)` is folded into it.  Not modelled: the window between the store and the load.  Sound for the
        C11 theorems because `waited` is read only by nsync_counter_add's ASSERT (A2) and never reset; the theorems use only
        "waited is set once the step has been taken".
   (A2) nsync_counter_add (counter.c:58-80) is ONE step, linearized at the CAS on c->value: the ASSERT's later load of c->waited
        (counter.c:66) is evaluated in the state of the CAS.  Absent from the model: the interleaving
        [CAS 0 -> delta] ; [another thread's counter_ready_time stores waited] ; [ASSERT loads waited = 1 -> abort],
        in which C panics and the model does not (the model panics iff waited was set BEFORE the CAS).  Incrementing a counter
        from zero while somebody may wait on it is a misuse of the API either way; the lock-step replay would report the
        difference as a trace that ends inside nsync_counter_add.
   (A3) nsync_note_notified_deadline_ (note.c:161-175) is ONE step: the acquire load of n->notified, the note_mu critical
        section reading NOTIFIED_TIME, the clock read and notify (n) are folded at the step's linearization point (the store of
        n->notified if it notifies, the last load otherwise).  Sound because n->notified is monotone (0 -> 1 once), the expiry
        time is immutable in this model (no parent/child notes here: NoteModel has them) and the clock only advances, so
        the value computed from the earlier reads (NOTIFIED_TIME under note_mu, then nsync_time_now) is still a correct
        answer at the linearization point.  Absent: the interleavings in which another thread acts between those reads.
   (A4) every critical section under note_mu / counter_mu / the cv spinlock is one step (the locks' mutual exclusion is C01);
        the sleeps inside those nsync_mu_lock calls use the SAME per-thread semaphore as nsync_wait_n only in the FIRST ready_time
        loop: once nsync_wait_n has taken the thread's waiter (nsync_waiter_new_: IN_USE), a contended note_mu / counter_mu lock
        inside an enqueue / ready_time / dequeue callback takes a SECOND waiter struct (free list or malloc), whose late post lands
        on a semaphore some thread may pick up later (fifth review).  Either way the late posts are the environment step OpStale:
        every sleeper re-checks its `waiting` flag after each P.
   (A5) the caller's semaphore is a counter: P's futex protocol is SemModel's (C12).  nsync_waiter_new_/free_ and malloc are
        not modelled beyond the PFree step (malloc never fails here; wait.c does not check its result -- DESIGN, C11 "Limits").
   (A6) p_nw->sem: every record's `sem` field is written once (wait.c:52) with the address of its owner's semaphore, so the
        value wake_waiters reads from the record is `owner r`.  The READ is part of the PWake step (cv.c:142, before the
        release store of `waiting`, footprint r :: rest); its value is carried in the pc (PWakeV (owner r)); the PWakeV step
        (cv.c:147) uses only the pc and touches no record. *)
From NsyncBase Require Import CSem.
From NsyncGen Require Import Consts Sites.
From Coq Require Import List ZArith Bool Arith.
Import ListNotations.
Local Open Scope Z_scope.

(* wait.c:45 `struct nsync_waiter_s nw_set[4];` wait.c:47 `count > (int) (sizeof (nw_set) / sizeof (nw_set[0]))`.
   gen/ does not export array lengths; the constant is restated here and checked against the implementation by the
   replay (a `free` event of the caller occurs in a trace exactly when the model takes its PFree step). *)
Definition nw_set_len : nat := 4.

(* ---------- time: None = nsync_time_no_deadline, Some ns otherwise ---------- *)
Definition time := option Z.
Definition time_pos (t : time) : bool := match t with None => true | Some z => 0 <? z end.      (* nsync_time_cmp (t, nsync_time_zero) > 0 *)
Definition time_lt (a b : time) : bool :=                                                       (* nsync_time_cmp (a, b) < 0 *)
  match a, b with Some x, Some y => x <? y | Some _, None => true | None, _ => false end.
Definition time_reached (t : time) (clk : Z) : bool := match t with Some x => x <=? clk | None => false end.  (* t <= now *)

(* ---------- records ---------- *)
Definition rid := (nat * nat * nat)%type.       (* (thread, number of the thread's nsync_wait_n call, index into nw[]) *)
Definition owner (r : rid) : nat := fst (fst r).
Definition rcall (r : rid) : nat := snd (fst r).
Definition ridx (r : rid) : nat := snd r.
Definition rid_eqb (a b : rid) : bool :=
  Nat.eqb (owner a) (owner b) && Nat.eqb (rcall a) (rcall b) && Nat.eqb (ridx a) (ridx b).
Definition mem (r : rid) (l : list rid) : bool := existsb (rid_eqb r) l.
Definition remove_r (r : rid) (l : list rid) : list rid := filter (fun x => negb (rid_eqb x r)) l.

(* ---------- objects ---------- *)
Inductive oref := ONote (n : nat) | OCounter (n : nat) | OCv (n : nat).
Record note_st := mk_note { n_notified : Z; n_expiry : time; n_waiters : list rid }.   (* expiry_time_valid is always 1 *)
Record ctr_st := mk_ctr { c_value : Z; c_waited : Z; c_waiters : list rid }.

(* ---------- programs ---------- *)
Inductive op :=
| OpWaitN (mu : option nat) (dl : time) (os : list oref)    (* nsync_wait_n (mu, lock, unlock, dl, length os, os) *)
| OpNotify (n : nat)                                        (* nsync_note_notify *)
| OpPoll (n : nat)                                          (* nsync_note_is_notified (may notify an expired note) *)
| OpAdd (n : nat) (delta : Z)                               (* nsync_counter_add *)
| OpSignal (n : nat) | OpBroadcast (n : nat)                (* nsync_cv_signal / nsync_cv_broadcast *)
| OpLock (m : nat) | OpUnlock (m : nat)                     (* the client's own use of the mutex it passes *)
| OpStale (u : nat).
             (* environment (any thread, typically a pseudo-thread that does nothing else): a post on thread u's semaphore that no
                waker of THIS model makes -- the per-thread waiter struct whose semaphore nsync_wait_n uses is the one the thread's
                nsync_mu_lock sleeps use (e.g. on note_mu inside a ready_time callback); when such a sleeper sees its `waiting` flag
                cleared before it calls P, the unlocker's V arrives later, possibly in the middle of the nsync_wait_n call: a stale
                post, i.e. a spurious wake-up for that call (nsync_wait_n re-checks readiness after every P) *)

Inductive pc :=
| PIdle
| PFirst (j : nat)                 (* wait.c:33-38: about to call ready_time (waitable[j], NULL) *)
| PInit (i : nat)                  (* wait.c:51-55: nw[i] init, next site ATM_STORE (&nw[i].waiting, 0) *)
| PEnq (i : nat)                   (* wait.c:56: about to call enqueue (waitable[i], &nw[i]) *)
| PUnlock                          (* wait.c:62: the call of unlock (mu) *)
| PReady (j : nat) (mn : time)     (* wait.c:69: ready_time (waitable[j], &nw[j]); mn = min_ntime so far *)
| PSleep (mn : time)               (* wait.c:76: nsync_mu_semaphore_p_with_deadline (&w->sem, min_ntime) *)
| PDeqPre (j : nat)                (* note_dequeue's leading nsync_note_notified_deadline_ (n) *)
| PDeq (j : nat)                   (* wait.c:85: the dequeue critical section of waitable[j] *)
| PDeqSpin (j : nat)               (* cv_dequeue's `while (ATM_LOAD_ACQ (&nw->waiting) != 0)` after was_queued = 0 *)
| PFree                            (* wait.c:92: free (nw) *)
| PLock                            (* wait.c:96: the call of lock (mu) *)
| PRet                             (* wait.c:100 *)
| PWake                            (* wake_waiters' final loop (cv.c:138-146): p_sem = p_nw->sem; next; remove; then the site
                                      ATM_STORE_REL (&p_nw->waiting, 0) on the head of to_wake_list *)
| PWakeV (s : nat)                 (* cv.c:147 nsync_mu_semaphore_v (p_sem): s is the VALUE of p_sem (whose semaphore), which the PWake
                                      step read from the record and handed over in this pc; the record is not accessed again *)
| PPanic.                          (* an ASSERT of counter.c failed *)

Inductive pres := POk | PTimeout | PBlocked.
Inductive ev :=
| EvNone | EvCall
| EvReady (first : bool) (j : nat) (nt : time)
| EvInit (i : nat) (v : Z)
| EvEnq (i : nat) (r : bool)
| EvUnlock
| EvP (res : pres)
| EvDeqPre (j : nat)
| EvDeq (j : nat) (r : bool) (onlist : bool)     (* onlist: the record was on the object's list when the step began *)
| EvDeqSpin (j : nat) (v : Z)
| EvFree | EvLock (ok : bool) | EvRet (r : nat)
| EvNotify (n : nat) | EvPoll (n : nat) | EvAdd (n : nat) (v : Z) | EvTake (n : nat) (k : nat)
| EvWakeStore (r : rid) (v : Z) | EvV (s : nat)
| EvMuLock (m : nat) (ok : bool) | EvMuUnlock (m : nat)
| EvTick | EvPanic.

(* locals of the running nsync_wait_n call, and ghosts about it *)
Record frame := mk_f {
  f_mu : option nat; f_dl : time; f_objs : list oref;
  f_ready : nat;            (* `ready` once it is decided (count until then) *)
  f_i : nat;                (* `i` after the enqueue loop *)
  f_unlocked : bool;
  f_idx_ready : bool;       (* ghost: the object selected by `ready = j` was ready in the state in which that was decided *)
  f_dl_seen : bool;         (* ghost: at a step of this call that tested it, clock >= abs_deadline *)
  f_held : bool;            (* ghost: mu != NULL and the caller held mu when it called nsync_wait_n (the precondition of the API) *)
  f_log : list ev }.        (* ghost: the events of this call's steps, newest first *)
Record tstate := mk_t {
  pc_ : pc; prog : list op; fr : frame;
  done : nat;               (* ghost: number of nsync_wait_n calls of this thread that have returned *)
  results : list nat }.     (* ghost: their results, newest first *)

Record world := mk_w {
  clock : Z;
  notes : nat -> note_st; ctrs : nat -> ctr_st; cvs : nat -> list rid;
  waiting : rid -> Z;             (* nw->waiting of every record *)
  sem : nat -> nat;               (* the semaphore of thread t's waiter struct *)
  muh : nat -> option nat;        (* holder of mutex m *)
  taker : rid -> option nat;      (* ghost: the signaller/broadcaster that moved the record to its to_wake_list *)
  woken : rid -> bool;            (* ghost: `waiting` was cleared by a waker (notify / add reaching 0 / wake_waiters) *)
  privs : nat -> list rid;        (* thread u's to_wake_list while it is inside nsync_cv_signal / broadcast *)
  thr : nat -> tstate }.

Definition fupd {A} (f : nat -> A) (k : nat) (v : A) : nat -> A := fun x => if Nat.eqb x k then v else f x.
Definition rupd {A} (f : rid -> A) (k : rid) (v : A) : rid -> A := fun x => if rid_eqb x k then v else f x.

Definition set_clock (w : world) (c : Z) := mk_w c (notes w) (ctrs w) (cvs w) (waiting w) (sem w) (muh w) (taker w) (woken w) (privs w) (thr w).
Definition set_note (w : world) (n : nat) (v : note_st) := mk_w (clock w) (fupd (notes w) n v) (ctrs w) (cvs w) (waiting w) (sem w) (muh w) (taker w) (woken w) (privs w) (thr w).
Definition set_ctr (w : world) (n : nat) (v : ctr_st) := mk_w (clock w) (notes w) (fupd (ctrs w) n v) (cvs w) (waiting w) (sem w) (muh w) (taker w) (woken w) (privs w) (thr w).
Definition set_cv (w : world) (n : nat) (v : list rid) := mk_w (clock w) (notes w) (ctrs w) (fupd (cvs w) n v) (waiting w) (sem w) (muh w) (taker w) (woken w) (privs w) (thr w).
Definition set_waiting (w : world) (r : rid) (v : Z) := mk_w (clock w) (notes w) (ctrs w) (cvs w) (rupd (waiting w) r v) (sem w) (muh w) (taker w) (woken w) (privs w) (thr w).
Definition set_sem (w : world) (t : nat) (v : nat) := mk_w (clock w) (notes w) (ctrs w) (cvs w) (waiting w) (fupd (sem w) t v) (muh w) (taker w) (woken w) (privs w) (thr w).
Definition set_muh (w : world) (m : nat) (v : option nat) := mk_w (clock w) (notes w) (ctrs w) (cvs w) (waiting w) (sem w) (fupd (muh w) m v) (taker w) (woken w) (privs w) (thr w).
Definition set_thr (w : world) (t : nat) (s : tstate) := mk_w (clock w) (notes w) (ctrs w) (cvs w) (waiting w) (sem w) (muh w) (taker w) (woken w) (privs w) (fupd (thr w) t s).
Definition set_priv (w : world) (u : nat) (l : list rid) := mk_w (clock w) (notes w) (ctrs w) (cvs w) (waiting w) (sem w) (muh w) (taker w) (woken w) (fupd (privs w) u l) (thr w).
(* wait.c:51-55: nw[i] is initialised; its ghosts start afresh *)
Definition init_rec (w : world) (r : rid) (v : Z) :=
  mk_w (clock w) (notes w) (ctrs w) (cvs w) (rupd (waiting w) r v) (sem w) (muh w) (rupd (taker w) r None) (rupd (woken w) r false) (privs w) (thr w).
(* a signaller/broadcaster u takes the records l *)
Definition set_taken (w : world) (l : list rid) (u : nat) :=
  mk_w (clock w) (notes w) (ctrs w) (cvs w) (waiting w) (sem w) (muh w) (fun r => if mem r l then Some u else taker w r) (woken w) (privs w) (thr w).
(* a waker clears `waiting` of one record (wake_waiters; the V is a later step) *)
Definition wake_store (w : world) (r : rid) (v : Z) :=
  mk_w (clock w) (notes w) (ctrs w) (cvs w) (rupd (waiting w) r v) (sem w) (muh w) (taker w) (rupd (woken w) r true) (privs w) (thr w).
(* note_notify_child / nsync_counter_add at zero, under the object's lock: every record of l gets waiting := v and its
   owner's semaphore a V *)
Definition wake_all (w : world) (l : list rid) (v : Z) :=
  mk_w (clock w) (notes w) (ctrs w) (cvs w)
       (fun r => if mem r l then v else waiting w r)
       (fun t => (sem w t + length (filter (fun r => Nat.eqb (owner r) t) l))%nat)
       (muh w) (taker w)
       (fun r => if mem r l then true else woken w r) (privs w) (thr w).

Definition with_pc (s : tstate) (p : pc) := mk_t p (prog s) (fr s) (done s) (results s).
Definition with_fr (s : tstate) (f : frame) := mk_t (pc_ s) (prog s) f (done s) (results s).
Definition with_prog (s : tstate) (p : list op) := mk_t (pc_ s) p (fr s) (done s) (results s).
Definition lg (e : ev) (s : tstate) : tstate :=
  let f := fr s in
  with_fr s (mk_f (f_mu f) (f_dl f) (f_objs f) (f_ready f) (f_i f) (f_unlocked f) (f_idx_ready f) (f_dl_seen f) (f_held f) (e :: f_log f)).
Definition set_ready (s : tstate) (j : nat) (objective : bool) : tstate :=
  let f := fr s in
  with_fr s (mk_f (f_mu f) (f_dl f) (f_objs f) j (f_i f) (f_unlocked f) objective (f_dl_seen f) (f_held f) (f_log f)).
Definition set_i (s : tstate) (i : nat) : tstate :=
  let f := fr s in
  with_fr s (mk_f (f_mu f) (f_dl f) (f_objs f) (f_ready f) i (f_unlocked f) (f_idx_ready f) (f_dl_seen f) (f_held f) (f_log f)).
Definition set_unlocked (s : tstate) : tstate :=
  let f := fr s in
  with_fr s (mk_f (f_mu f) (f_dl f) (f_objs f) (f_ready f) (f_i f) true (f_idx_ready f) (f_dl_seen f) (f_held f) (f_log f)).
Definition see_dl (s : tstate) (clk : Z) : tstate :=
  let f := fr s in
  with_fr s (mk_f (f_mu f) (f_dl f) (f_objs f) (f_ready f) (f_i f) (f_unlocked f) (f_idx_ready f)
                  (f_dl_seen f || time_reached (f_dl f) clk) (f_held f) (f_log f)).

Definition count (s : tstate) : nat := length (f_objs (fr s)).
Definition objat (s : tstate) (j : nat) : oref := nth j (f_objs (fr s)) (ONote 0).
Definition rec_of (t : nat) (s : tstate) (j : nat) : rid := (t, done s, j).

(* ---------- the objects' contracts ---------- *)
(* common.h NOTIFIED_TIME (n) *)
Definition nt_time (n : note_st) : time := if znz (n_notified n) then Some 0 else n_expiry n.
(* note.c notify (n) -> note_notify_child, one critical section of note_mu (no parent, no children) *)
Definition note_do_notify (w : world) (n : nat) : world :=
  let nt := notes w n in
  if time_pos (nt_time nt)
  then wake_all (set_note w n (mk_note note_notify_child_store1_new (n_expiry nt) [])) (n_waiters nt) note_notify_child_store2_new
  else w.
(* nsync_note_notified_deadline_ *)
Definition note_deadline (w : world) (n : nat) : world * time :=
  let nt := notes w n in
  if znz (n_notified nt) then (w, Some 0)
  else let t := nt_time nt in
       if time_pos t && time_reached t (clock w) then (note_do_notify w n, Some 0) else (w, t).

(* the object is ready, as a predicate of the state (for the ghost f_idx_ready and the statements) *)
Definition obj_ready_now (w : world) (o : oref) (r : rid) : bool :=
  match o with
  | ONote n => negb (time_pos (nt_time (notes w n)))
  | OCounter n => c_value (ctrs w n) =? 0
  | OCv _ => match taker w r with Some _ => true | None => false end
  end.
Definition obj_list (w : world) (o : oref) : list rid :=
  match o with ONote n => n_waiters (notes w n) | OCounter n => c_waiters (ctrs w n) | OCv n => cvs w n end.

(* ready_time (o, first ? NULL : &nw) *)
Definition obj_ready_time (w : world) (first : bool) (o : oref) (r : rid) : world * time :=
  match o with
  | ONote n => note_deadline w n
  | OCounter n =>
      let c := ctrs w n in
      (set_ctr w n (mk_ctr (c_value c) counter_ready_time_store1_new (c_waiters c)),
       if c_value c =? 0 then Some 0 else None)
  | OCv _ => (w, if first then None else if znz (waiting w r) then None else Some 0)
  end.
(* enqueue (o, &nw) *)
Definition obj_enqueue (w : world) (o : oref) (r : rid) : world * bool :=
  match o with
  | ONote n =>
      let nt := notes w n in
      if time_pos (nt_time nt)
      then (set_waiting (set_note w n (mk_note (n_notified nt) (n_expiry nt) (n_waiters nt ++ [r]))) r note_enqueue_store1_new, true)
      else (set_waiting w r note_enqueue_store2_new, false)
  | OCounter n =>
      let c := ctrs w n in
      if counter_enqueue_store1_guard (c_value c)
      then (set_waiting (set_ctr w n (mk_ctr (c_value c) (c_waited c) (c_waiters c ++ [r]))) r counter_enqueue_store1_new, true)
      else (set_waiting w r counter_enqueue_store2_new, false)
  | OCv n => (set_waiting (set_cv w n (cvs w n ++ [r])) r cv_enqueue_store1_new, true)
  end.
(* the critical section of dequeue (o, &nw) *)
Definition obj_dequeue (w : world) (o : oref) (r : rid) : world * bool :=
  match o with
  | ONote n =>
      let nt := notes w n in
      if time_pos (nt_time nt)
      then (set_waiting (set_note w n (mk_note (n_notified nt) (n_expiry nt) (remove_r r (n_waiters nt)))) r note_dequeue_store1_new, true)
      else (w, false)
  | OCounter n =>
      let c := ctrs w n in
      (if znz (waiting w r)
       then set_waiting (set_ctr w n (mk_ctr (c_value c) (c_waited c) (remove_r r (c_waiters c)))) r counter_dequeue_store1_new
       else w,
       negb (c_value c =? 0))
  | OCv n =>
      if znz (waiting w r) && mem r (cvs w n)
      then (set_waiting (set_cv w n (remove_r r (cvs w n))) r cv_dequeue_store1_new, true)
      else (w, false)
  end.

(* ---------- control skeleton of nsync_wait_n ---------- *)
Definition is_note (o : oref) : bool := match o with ONote _ => true | _ => false end.
Definition is_cv (o : oref) : bool := match o with OCv _ => true | _ => false end.
Definition goto_deq (s : tstate) (j : nat) : tstate := with_pc s (if is_note (objat s j) then PDeqPre j else PDeq j).
Definition after_free (s : tstate) : tstate := with_pc s (if f_unlocked (fr s) then PLock else PRet).
Definition after_deqs (s : tstate) : tstate := if (nw_set_len <? count s)%nat then with_pc s PFree else after_free s.
Definition deq_start (s : tstate) : tstate := if (f_i (fr s) =? 0)%nat then after_deqs s else goto_deq s 0.
Definition sleep_start (s : tstate) : tstate :=
  if (count s =? 0)%nat then with_pc s (PSleep (f_dl (fr s))) else with_pc s (PReady 0 (f_dl (fr s))).
(* the enqueue loop ended with i attempts *)
Definition after_enq (s : tstate) (i : nat) : tstate :=
  let s := set_i s i in
  if (i =? count s)%nat
  then match f_mu (fr s) with Some _ => with_pc s PUnlock | None => sleep_start s end
  else deq_start s.
(* the first loop found nothing ready: `ready == count` *)
Definition after_first (s : tstate) (clk : Z) : tstate :=
  if time_pos (f_dl (fr s))
  then (if (count s =? 0)%nat then after_enq s 0 else with_pc s (PInit 0))
  else with_pc (see_dl s clk) PRet.
(* dequeue j has returned r; w1 is the state in which it returned *)
Definition after_deq (w1 : world) (t : nat) (s : tstate) (j : nat) (r : bool) : tstate :=
  let s1 := if negb r && (f_ready (fr s) =? count s)%nat
            then set_ready s j (obj_ready_now w1 (objat s j) (rec_of t s j)) else s in
  if (S j =? f_i (fr s1))%nat then after_deqs s1 else goto_deq s1 (S j).

Definition new_frame (mu : option nat) (dl : time) (os : list oref) (held : bool) : frame :=
  mk_f mu dl os (length os) 0 false false false held [EvCall].

(* nsync_counter_add (c, delta), delta <> 0: one critical section of counter_mu.  None = an ASSERT fails. *)
Definition ctr_add (w : world) (n : nat) (delta : Z) : option (world * Z) :=
  let c := ctrs w n in
  let old := c_value c in
  let new := nsync_counter_add_cas1_new old delta in
  if (if delta >? 0
      then (negb (new =? wrap_u 32 delta) || negb (znz (c_waited c))) && (old <? new)
      else new <? old)
  then Some (if nsync_counter_add_store1_guard delta new
             then wake_all (set_ctr w n (mk_ctr new (c_waited c) [])) (c_waiters c) nsync_counter_add_store1_new
             else set_ctr w n (mk_ctr new (c_waited c) (c_waiters c)), new)
  else None.

(* the thread-local continuation of each kind of step, given what the object function returned *)
Definition ctl_call (s : tstate) (mu : option nat) (dl : time) (os : list oref) (rest : list op) (clk : Z) (held : bool) : tstate :=
  let s1 := mk_t PIdle rest (new_frame mu dl os held) (done s) (results s) in
  if (length os =? 0)%nat then after_first s1 clk else with_pc s1 (PFirst 0).
Definition ctl_first (s : tstate) (j : nat) (nt : time) (objective : bool) (clk : Z) : tstate :=
  let s1 := lg (EvReady true j nt) s in
  if time_pos nt
  then (if (S j =? count s)%nat then after_first s1 clk else with_pc s1 (PFirst (S j)))
  else with_pc (set_ready s1 j objective) PRet.
Definition ctl_init (s : tstate) (i : nat) (v : Z) : tstate := with_pc (lg (EvInit i v) s) (PEnq i).
Definition ctl_enq (s : tstate) (i : nat) (ok : bool) : tstate :=
  let s1 := lg (EvEnq i ok) s in
  if ok && negb (S i =? count s)%nat then with_pc s1 (PInit (S i)) else after_enq s1 (S i).
Definition ctl_unlock (s : tstate) : tstate := sleep_start (set_unlocked (lg EvUnlock s)).
Definition ctl_ready (s : tstate) (j : nat) (mn nt : time) : tstate :=
  let mn' := if time_lt nt mn then nt else mn in
  let s1 := lg (EvReady false j nt) s in
  if (S j =? count s)%nat
  then (if time_pos mn' then with_pc s1 (PSleep mn') else deq_start s1)
  else with_pc s1 (PReady (S j) mn').
Definition ctl_p_timeout (s : tstate) (clk : Z) : tstate := deq_start (see_dl (lg (EvP PTimeout) s) clk).
Definition ctl_p_ok (s : tstate) : tstate := sleep_start (lg (EvP POk) s).
Definition ctl_deqpre (s : tstate) (j : nat) : tstate := with_pc (lg (EvDeqPre j) s) (PDeq j).
Definition ctl_deq (w1 : world) (t : nat) (s : tstate) (j : nat) (ok onl : bool) : tstate :=
  let s1 := lg (EvDeq j ok onl) s in
  if is_cv (objat s j) && negb ok then with_pc s1 (PDeqSpin j) else after_deq w1 t s1 j ok.
Definition ctl_spin (w : world) (t : nat) (s : tstate) (j : nat) (v : Z) : tstate := after_deq w t (lg (EvDeqSpin j v) s) j false.
Definition ctl_free (s : tstate) : tstate := after_free (lg EvFree s).
Definition ctl_lock (s : tstate) : tstate := with_pc (lg (EvLock true) s) PRet.
Definition ctl_ret (s : tstate) : tstate :=
  let r := f_ready (fr s) in mk_t PIdle (prog s) (fr (lg (EvRet r) s)) (S (done s)) (r :: results s).

(* ghost: the caller holds the mutex it passes *)
Definition holds (w : world) (mu : option nat) (t : nat) : bool :=
  match mu with Some m => match muh w m with Some h => Nat.eqb h t | None => false end | None => false end.

(* One step of thread t.  `timeout` is used only at PSleep: the environment lets the timed P time out
   (honoured only if clock >= min_ntime).  Result: new world, event, records touched. *)
Definition step (w : world) (t : nat) (timeout : bool) : world * ev * list rid :=
  let s := thr w t in
  match pc_ s with
  | PIdle =>
      match prog s with
      | [] => (w, EvNone, [])
      | OpWaitN mu dl os :: rest =>
          (set_thr w t (ctl_call s mu dl os rest (clock w) (holds w mu t)), EvCall, [])
      | OpNotify n :: rest =>
          let '(w1, nt) := note_deadline w n in
          let w2 := if time_pos nt then note_do_notify w1 n else w1 in
          (set_thr w2 t (with_prog s rest), EvNotify n, n_waiters (notes w n))
      | OpPoll n :: rest =>
          let '(w1, nt) := note_deadline w n in
          (set_thr w1 t (with_prog s rest), EvPoll n, n_waiters (notes w n))
      | OpAdd n delta :: rest =>
          if nsync_counter_add_cas1_guard delta
          then match ctr_add w n delta with
               | Some (w1, v) => (set_thr w1 t (with_prog s rest), EvAdd n v, c_waiters (ctrs w n))
               | None => (set_thr w t (with_pc (with_prog s rest) PPanic), EvPanic, [])
               end
          else (set_thr w t (with_prog s rest), EvAdd n (c_value (ctrs w n)), [])
      | OpSignal n :: rest =>
          match cvs w n with
          | [] => (set_thr w t (with_prog s rest), EvTake n 0, [])
          | r :: q =>
              (set_thr (set_priv (set_taken (set_cv w n q) [r] t) t [r]) t (with_pc (with_prog s rest) PWake),
               EvTake n 1, r :: q)
          end
      | OpBroadcast n :: rest =>
          match cvs w n with
          | [] => (set_thr w t (with_prog s rest), EvTake n 0, [])
          | l => (set_thr (set_priv (set_taken (set_cv w n []) l t) t l) t (with_pc (with_prog s rest) PWake),
                  EvTake n (length l), l)
          end
      | OpLock m :: rest =>
          match muh w m with
          | None => (set_thr (set_muh w m (Some t)) t (with_prog s rest), EvMuLock m true, [])
          | Some _ => (w, EvMuLock m false, [])
          end
      | OpUnlock m :: rest =>
          (set_thr (match muh w m with Some h => if Nat.eqb h t then set_muh w m None else w | None => w end) t (with_prog s rest),
           EvMuUnlock m, [])
      | OpStale u :: rest =>
          (set_thr (set_sem w u (S (sem w u))) t (with_prog s rest), EvNone, [])
      end
  | PFirst j =>
      let o := objat s j in
      let r := rec_of t s j in
      let '(w1, nt) := obj_ready_time w true o r in
      (set_thr w1 t (ctl_first s j nt (obj_ready_now w1 o r) (clock w)), EvReady true j nt, obj_list w o)
  | PInit i =>
      let r := rec_of t s i in
      (set_thr (init_rec w r nsync_wait_n_store1_new) t (ctl_init s i nsync_wait_n_store1_new),
       EvInit i nsync_wait_n_store1_new, [r])
  | PEnq i =>
      let o := objat s i in
      let r := rec_of t s i in
      let '(w1, ok) := obj_enqueue w o r in
      (set_thr w1 t (ctl_enq s i ok), EvEnq i ok, r :: obj_list w o)
  | PUnlock =>
      let w1 := match f_mu (fr s) with
                | Some m => match muh w m with Some h => if Nat.eqb h t then set_muh w m None else w | None => w end
                | None => w end in
      (set_thr w1 t (ctl_unlock s), EvUnlock, [])
  | PReady j mn =>
      let o := objat s j in
      let r := rec_of t s j in
      let '(w1, nt) := obj_ready_time w false o r in
      (set_thr w1 t (ctl_ready s j mn nt), EvReady false j nt, r :: obj_list w o)
  | PSleep mn =>
      if timeout && time_reached mn (clock w)
      then (set_thr w t (ctl_p_timeout s (clock w)), EvP PTimeout, [])
      else match sem w t with
           | S k => (set_thr (set_sem w t k) t (ctl_p_ok s), EvP POk, [])
           | O => (w, EvP PBlocked, [])
           end
  | PDeqPre j =>
      match objat s j with
      | ONote n =>
          let '(w1, _) := note_deadline w n in
          (set_thr w1 t (ctl_deqpre s j), EvDeqPre j, n_waiters (notes w n))
      | _ => (set_thr w t (ctl_deqpre s j), EvDeqPre j, [])
      end
  | PDeq j =>
      let o := objat s j in
      let r := rec_of t s j in
      let onl := mem r (obj_list w o) in
      let '(w1, ok) := obj_dequeue w o r in
      (set_thr w1 t (ctl_deq w1 t s j ok onl), EvDeq j ok onl, r :: obj_list w o)
  | PDeqSpin j =>
      let r := rec_of t s j in
      let v := waiting w r in
      if znz v
      then (w, EvDeqSpin j v, [r])
      else (set_thr w t (ctl_spin w t s j v), EvDeqSpin j v, [r])
  | PFree => (set_thr w t (ctl_free s), EvFree, [])
  | PLock =>
      match f_mu (fr s) with
      | Some m =>
          match muh w m with
          | None => (set_thr (set_muh w m (Some t)) t (ctl_lock s), EvLock true, [])
          | Some _ => (w, EvLock false, [])
          end
      | None => (set_thr w t (ctl_lock s), EvLock true, [])
      end
  | PRet => (set_thr w t (ctl_ret s), EvRet (f_ready (fr s)), [])
  | PWake =>
      match privs w t with
      | r :: rest =>
          (set_thr (set_priv (wake_store w r wake_waiters_store1_new) t rest) t (with_pc s (PWakeV (owner r))),
           EvWakeStore r wake_waiters_store1_new, r :: rest)
      | [] => (set_thr w t (with_pc s PIdle), EvNone, [])
      end
  | PWakeV u =>
      (set_thr (set_sem w u (S (sem w u))) t (with_pc s (match privs w t with [] => PIdle | _ => PWake end)), EvV u, [])
  | PPanic => (w, EvNone, [])
  end.

(* ---------- schedules ---------- *)
Inductive act := Run (t : nat) (timeout : bool) | Tick (d : Z).     (* the clock never goes back: it advances by max 0 d *)
Definition do_act (w : world) (a : act) : world * ev * list rid :=
  match a with
  | Run t tm => step w t tm
  | Tick d => (set_clock w (clock w + Z.max 0 d), EvTick, [])
  end.
Definition next (w : world) (a : act) : world := fst (fst (do_act w a)).
Definition run (w : world) (sched : list act) : world := fold_left next sched w.

Definition idle_t (p : list op) : tstate := mk_t PIdle p (new_frame None None [] false) 0 [].
Definition init (nts : nat -> note_st) (cts : nat -> ctr_st) (progs : nat -> list op) (clock0 : Z) : world :=
  mk_w clock0 nts cts (fun _ => []) (fun _ => 0) (fun _ => 0%nat) (fun _ => None) (fun _ => None) (fun _ => false) (fun _ => [])
       (fun t => idle_t (progs t)).
(* the initial objects have no waiters; counters hold uint32 values *)
Definition init_ok (nts : nat -> note_st) (cts : nat -> ctr_st) (clock0 : Z) : Prop :=
  0 <= clock0 /\ (forall n, n_waiters (nts n) = []) /\ (forall n, c_waiters (cts n) = [] /\ 0 <= c_value (cts n) < 2 ^ 32).

(* ---------- vocabulary of the statements ---------- *)
Definition in_call (s : tstate) : Prop := match pc_ s with PIdle | PWake | PWakeV _ | PPanic => False | _ => True end.
(* the heap array has been freed: count > nw_set_len and the call is past its PFree step *)
Definition heap_freed (s : tstate) : Prop :=
  (nw_set_len < count s)%nat /\ (pc_ s = PLock \/ pc_ s = PRet).
(* record r is dead: its call has returned, or its storage has been freed *)
Definition rec_dead (w : world) (r : rid) : Prop :=
  let s := thr w (owner r) in
  (rcall r < done s)%nat \/ (rcall r = done s /\ heap_freed s).
Definition v_pending (w : world) (t : nat) : Prop := exists u, pc_ (thr w u) = PWakeV t.
Definition on_some_list (w : world) (r : rid) : Prop :=
  (exists n, In r (n_waiters (notes w n))) \/ (exists n, In r (c_waiters (ctrs w n))) \/ (exists n, In r (cvs w n)) \/
  (exists u, In r (privs w u)).

(* the mutex callbacks, read off the log of a call (newest first) *)
Definition enq_res (l : list ev) : list (nat * bool) := flat_map (fun e => match e with EvEnq i r => [(i, r)] | _ => [] end) l.
Fixpoint before_unlock (l : list ev) : option (list ev) :=      (* the part of the log older than the unlock callback *)
  match l with [] => None | EvUnlock :: pre => Some pre | _ :: l' => before_unlock l' end.
Fixpoint after_unlock (l : list ev) : list ev :=                (* the part newer than the unlock callback (all of it if there is none) *)
  match l with [] => [] | EvUnlock :: _ => [] | e :: l' => e :: after_unlock l' end.
Definition has_lock (l : list ev) : bool := existsb (fun e => match e with EvLock true => true | _ => false end) l.
(* [good i r]: what is demanded of the enqueue results that precede the unlock callback *)
Definition mutex_ok (good : nat -> bool -> Prop) (cnt : nat) (l : list ev) : Prop :=
  match before_unlock l with
  | Some pre => length (enq_res pre) = cnt /\                   (* unlock ran after all count enqueue calls ... *)
                enq_res (after_unlock l) = [] /\                (* ... and none follows it *)
                (forall i r, In (i, r) (enq_res pre) -> good i r) /\
                has_lock (after_unlock l) = true                (* the lock callback ran after it *)
  | None => has_lock l = false                                  (* no unlock: no lock *)
  end.

(* ---------- state form of the mutex clause ---------- *)
Definition has_p (l : list ev) : bool := existsb (fun e => match e with EvP _ => true | _ => false end) l.
Definition enq_idx (l : list ev) : list nat := map fst (enq_res l).      (* indices of the enqueue calls, newest first *)
(* the unlock callback is older than every P of the call and newer than the enqueue calls of ALL indices 0..cnt-1 (in order);
   without an unlock callback there is no P at all *)
Definition mutex_order (cnt : nat) (l : list ev) : Prop :=
  match before_unlock l with
  | Some pre => enq_idx pre = rev (seq 0 cnt) /\ has_p pre = false
  | None => has_p l = false
  end.

(* ---------- the sleep deadline ---------- *)
Definition time_le (a b : time) : bool := negb (time_lt b a).
Definition tmin (nt mn : time) : time := if time_lt nt mn then nt else mn.
(* the ready-time reads of the current round of wait.c:67-74: the newest entries of the log, up to the first other event *)
Fixpoint round (l : list ev) : list (nat * time) :=
  match l with EvReady false j nt :: l' => (j, nt) :: round l' | _ => [] end.
Definition rmin (dl : time) (l : list ev) : time := fold_right (fun p m => tmin (snd p) m) dl (round l).

(* ---------- readiness of an object as a predicate of the WORLD (not of what ready_time / dequeue computed) ---------- *)
Definition obj_ready_world (w : world) (o : oref) (r : rid) : Prop :=
  match o with
  | ONote n => znz (n_notified (notes w n)) = true \/ time_reached (n_expiry (notes w n)) (clock w) = true
  | OCounter n => c_value (ctrs w n) = 0
  | OCv _ => exists u, taker w r = Some u
  end.

(* ---------- what a call that returns `count` has examined ---------- *)
Definition has_first (l : list ev) (k : nat) : Prop := exists nt, In (EvReady true k nt) l /\ time_pos nt = true.
Definition has_deq (l : list ev) (j : nat) : Prop := exists r onl, In (EvDeq j r onl) l.
Definition only_first (l : list ev) : Prop := forall e, In e l -> e = EvCall \/ exists j nt, e = EvReady true j nt.
