(* helpers used only by the lock-step replayer (replay/cvdbg_replay.ml) *)
From NsyncBase Require Import CSem.
From NsyncModel Require Import CvModel CvDbgModel.
From Coq Require Import List ZArith.
Import ListNotations.

Definition push_cdop (w : cdworld) (d : nat) (o : cdop) : cdworld :=
  let s := cdget w d in cdset w d (mk_cd (c_pc s) (c_ops s ++ [o]) (c_owner s) (c_read s) (c_unsafe s)).
Definition cdbg_is_idle (w : cdworld) (d : nat) : bool :=
  match c_pc (cdget w d), c_ops (cdget w d) with CIdle, [] => true | _, _ => false end.
Definition cdbg_list (n : nat) : list cdstate := repeat (mk_cd CIdle [] false [] 0) n.
Definition cdpc_code (w : cdworld) (d : nat) : Z :=
  match c_pc (cdget (cdbegin w d) d) with
  | CIdle => 0 | CLoad _ => 1 | CSpinLoad _ true => 2 | CSpinLoad _ false => 3 | CSpinCas _ _ => 4
  | CWalkW _ _ _ => 5 | CWalkR _ _ _ => 6 | CRelStore _ => 7 | CWalkU _ => 10
  end%Z.
Definition cdbg_owner (w : cdworld) (d : nat) : bool := c_owner (cdget w d).
