(* helpers used only by the lock-step replayer (replay/waitn_replay.ml) *)
From NsyncBase Require Import CSem.
From NsyncModel Require Import WaitNModel.
From Coq Require Import List ZArith.
Import ListNotations.
Local Open Scope Z_scope.

Definition world0 : world := init (fun _ => mk_note 0 None []) (fun _ => mk_ctr 0 0 []) (fun _ => []) 0.
Definition init_note (w : world) (n : nat) (notified : Z) (expiry : time) : world := set_note w n (mk_note notified expiry []).
Definition init_ctr (w : world) (n : nat) (v : Z) : world := set_ctr w n (mk_ctr v 0 []).
Definition push_op (w : world) (t : nat) (o : op) : world := set_thr w t (with_prog (thr w t) (prog (thr w t) ++ [o])).
(* advance the model's clock to the implementation's (never backwards) *)
Definition clock_to (w : world) (c : Z) : world := next w (Tick (c - clock w)).
Definition pc_of (w : world) (t : nat) : pc := pc_ (thr w t).
Definition prog_len (w : world) (t : nat) : nat := length (prog (thr w t)).
Definition last_result (w : world) (t : nat) : option nat := match results (thr w t) with r :: _ => Some r | [] => None end.
Definition sem_of (w : world) (t : nat) : nat := sem w t.
(* the model's own verdicts on the replayed execution (computed from the state, compared by the replayer at each return) *)
Definition any_on_list (w : world) (t : nat) (c : nat) (nobj : nat) : bool :=
  existsb (fun j => let r := (t, c, j) in
                    existsb (fun n => mem r (n_waiters (notes w n)) || mem r (c_waiters (ctrs w n)) || mem r (cvs w n)) (seq 0 nobj)
                    || existsb (fun u => mem r (privs w u)) (seq 0 16)) (seq 0 nobj).
Definition done_of (w : world) (t : nat) : nat := done (thr w t).
Definition idx_ready_of (w : world) (t : nat) : bool := f_idx_ready (fr (thr w t)).
Definition dl_seen_of (w : world) (t : nat) : bool := f_dl_seen (fr (thr w t)).
