(* helpers used only by the lock-step replayer (replay/waitn_replay.ml) *)
From NsyncBase Require Import CSem.
From NsyncModel Require Import WaitNModel.
From Coq Require Import List ZArith.
Import ListNotations.
Local Open Scope Z_scope.

Definition world0 : world := init (fun _ => mk_note 0 None []) (fun _ => mk_ctr 0 0 []) (fun _ => []) 0.
Definition init_note (w : world) (n : nat) (notified : Z) (expiry : time) : world := set_note w n (mk_note notified expiry []).
Definition init_ctr (w : world) (n : nat) (v : Z) : world := set_ctr w n (mk_ctr v 0 []).
Definition push_op (w : world) (t : nat) (o : op) : world := set_thr w t (with_prog (thr w t) (prog (thr w t) ++ [o])).
(* advance the model's clock to the implementation's (never backwards) *)
Definition clock_to (w : world) (c : Z) : world := next w (Tick (c - clock w)).
Definition pc_of (w : world) (t : nat) : pc := pc_ (thr w t).
Definition prog_len (w : world) (t : nat) : nat := length (prog (thr w t)).
Definition last_result (w : world) (t : nat) : option nat := match results (thr w t) with r :: _ => Some r | [] => None end.
Definition sem_of (w : world) (t : nat) : nat := sem w t.
(* the model's own verdicts on the replayed execution (computed from the state, compared by the replayer at each return) *)
Definition any_on_list (w : world) (t : nat) (c : nat) (nobj : nat) : bool :=
  existsb (fun j => let r := (t, c, j) in
                    existsb (fun n => mem r (n_waiters (notes w n)) || mem r (c_waiters (ctrs w n)) || mem r (cvs w n)) (seq 0 nobj)
                    || existsb (fun u => mem r (privs w u)) (seq 0 16)) (seq 0 nobj).
Definition done_of (w : world) (t : nat) : nat := done (thr w t).
Definition idx_ready_of (w : world) (t : nat) : bool := f_idx_ready (fr (thr w t)).
Definition dl_seen_of (w : world) (t : nat) : bool := f_dl_seen (fr (thr w t)).
(* ---------- footprint comparison (C13): boolean forms of the statement vocabulary of WaitNModel (in_call, heap_freed, rec_dead),
   evaluated by the replayer at the trace position of every atomic access of the implementation to an nsync_waiter_s record ---------- *)
Definition count_of (w : world) (t : nat) : nat := count (thr w t).
Definition in_call_b (w : world) (t : nat) : bool :=
  match pc_ (thr w t) with PIdle | PWake | PWakeV _ | PPanic => false | _ => true end.
Definition heap_freed_b (w : world) (t : nat) : bool :=
  (nw_set_len <? count (thr w t))%nat && match pc_ (thr w t) with PLock | PRet => true | _ => false end.
Definition rec_dead_b (w : world) (r : rid) : bool :=
  let s := thr w (owner r) in
  (rcall r <? done s)%nat || ((rcall r =? done s)%nat && heap_freed_b w (owner r)).

(* the mutex clause of C11: the ghosts of the running call and whether the caller is the model's holder of the mutex it passed *)
Definition has_mu (w : world) (t : nat) : bool := match f_mu (fr (thr w t)) with Some _ => true | None => false end.
Definition held_of (w : world) (t : nat) : bool := f_held (fr (thr w t)).
Definition unlocked_of (w : world) (t : nat) : bool := f_unlocked (fr (thr w t)).
Definition holder_is (w : world) (t : nat) : bool := holds w (f_mu (fr (thr w t))) t.

Lemma in_call_b_spec : forall w t, in_call_b w t = true <-> in_call (thr w t).
Proof.
  intros w t. unfold in_call_b, in_call. destruct (pc_ (thr w t)); split; intro H; try discriminate H; try contradiction; auto.
Qed.
Lemma heap_freed_b_spec : forall w t, heap_freed_b w t = true <-> heap_freed (thr w t).
Proof.
  intros w t. unfold heap_freed_b, heap_freed. rewrite Bool.andb_true_iff, Nat.ltb_lt.
  split; intros [H1 H2]; split; auto.
  - destruct (pc_ (thr w t)); try discriminate H2; auto.
  - destruct H2 as [H2 | H2]; rewrite H2; reflexivity.
Qed.
Lemma rec_dead_b_spec : forall w r, rec_dead_b w r = true <-> rec_dead w r.
Proof.
  intros w r. unfold rec_dead_b, rec_dead. cbv zeta.
  rewrite Bool.orb_true_iff, Bool.andb_true_iff, Nat.ltb_lt, Nat.eqb_eq, heap_freed_b_spec. reflexivity.
Qed.
