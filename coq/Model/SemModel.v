(* SemModel: executable model of platform/linux/src/nsync_semaphore_futex.c
   (nsync_mu_semaphore_p, _p_with_deadline, _v) over a MODELLED kernel futex:
   FUTEX_WAIT compares and blocks atomically, FUTEX_WAKE(1) wakes at most one
   sleeper, absolute CLOCK_REALTIME deadline, EINVAL for an invalid timespec.
   The kernel may also return early: EINTR at any time, and (timed waits)
   ETIMEDOUT before the deadline -- these are the `choice` of a step.
   One owner (the only thread that ever P's a given semaphore), any number of posters.
   The values written come from Gen/Sites.v.  No proofs here. *)
From NsyncBase Require Import CSem.
From NsyncGen Require Import Consts Sites.
From Coq Require Import List ZArith Bool.
Import ListNotations.
Local Open Scope Z_scope.

Record tm := mk_tm { t_sec : Z; t_nsec : Z }.
Definition tm_ns (t : tm) : Z := t_sec t * 1000000000 + t_nsec t.
Definition is_no_deadline (t : tm) : bool :=
  (t_sec t =? time_no_deadline_sec) && (t_nsec t =? time_no_deadline_nsec).
(* Linux timespec64_valid *)
Definition ts_valid (t : tm) : bool := (0 <=? t_sec t) && (0 <=? t_nsec t) && (t_nsec t <? 1000000000).
(* the timespec nsync_mu_semaphore_p_with_deadline hands to the kernel (absolute-timeout branch):
   the deadline itself, except that an instant before the epoch is replaced by the epoch
   (the kernel rejects tv_sec < 0 with EINVAL) *)
Definition ts_of (d : tm) : option tm :=
  if is_no_deadline d then None else Some (if t_sec d <? 0 then mk_tm 0 0 else d).

Inductive opc :=               (* owner *)
| OIdle
| PLoad | PFutex | PSleep | PCas (i : Z)
| TLoad (d : tm) | TFutex (d : tm) | TSleep (d : tm) | TClock (d : tm) | TCas (d : tm) (i : Z)
| OCrash.
Inductive ppc := VIdle | VLoad | VCas (old : Z) | VWake.   (* a poster *)

Inductive ores := RNone | ROk | RTimedOut.   (* result of the owner's last completed call *)

Record world := mk_w {
  word : Z;            (* the futex word = semaphore count *)
  clock : Z;           (* CLOCK_REALTIME, ns *)
  owner : opc;
  oprog : list (option tm);   (* remaining calls of the owner: None = P, Some d = P_with_deadline d *)
  last : ores;
  posters : list (ppc * nat); (* pc, remaining V calls *)
  nP : Z; nV : Z;      (* ghost: successful P / V CASes *)
  ret0 : Z;            (* ghost: calls that returned 0 *)
  early : Z            (* ghost: ETIMEDOUT returns with clock < deadline (must stay 0) *)
}.

Inductive actor := Owner | Poster (k : nat) | Tick (dt : Z).
(* adversarial kernel behaviour for a futex-wait or a sleeping owner *)
Inductive choice := CNormal | CEintr | CEarlyTimeout.

Inductive ev :=
| EvLoad (site : Z) (v : Z) | EvCas (site : Z) (old new : Z) (ok : bool)
| EvFutexWait (res : Z)       (* 0 = slept/woken; else errno *)
| EvFutexTs (ts : option tm)  (* what is passed to the kernel *)
| EvWake (n : Z) | EvClock | EvRet (r : Z) | EvTick | EvNone | EvCrash.

Definition set_owner (w : world) (o : opc) : world :=
  mk_w (word w) (clock w) o (oprog w) (last w) (posters w) (nP w) (nV w) (ret0 w) (early w).
Definition set_word (w : world) (v : Z) : world :=
  mk_w v (clock w) (owner w) (oprog w) (last w) (posters w) (nP w) (nV w) (ret0 w) (early w).
Fixpoint lupd {A} (l : list A) (k : nat) (v : A) : list A :=
  match l, k with [], _ => [] | _ :: t, O => v :: t | x :: t, S k' => x :: lupd t k' v end.
Definition set_poster (w : world) (k : nat) (p : ppc * nat) : world :=
  mk_w (word w) (clock w) (owner w) (oprog w) (last w) (lupd (posters w) k p) (nP w) (nV w) (ret0 w) (early w).
Definition ret_ok (w : world) : world :=
  mk_w (word w) (clock w) OIdle (oprog w) ROk (posters w) (nP w) (nV w) (ret0 w + 1) (early w).
Definition ret_timeout (w : world) (d : tm) : world :=
  mk_w (word w) (clock w) OIdle (oprog w) RTimedOut (posters w) (nP w) (nV w) (ret0 w)
       (if clock w <? tm_ns d then early w + 1 else early w).
Definition incP (w : world) : world :=
  mk_w (word w) (clock w) (owner w) (oprog w) (last w) (posters w) (nP w + 1) (nV w) (ret0 w) (early w).
Definition incV (w : world) : world :=
  mk_w (word w) (clock w) (owner w) (oprog w) (last w) (posters w) (nP w) (nV w + 1) (ret0 w) (early w).

Definition owner_asleep (w : world) : bool := match owner w with PSleep | TSleep _ => true | _ => false end.

(* site ids: 100 nsync_mu_semaphore_p, 200 _p_with_deadline, 300 _v; + ordinal in Gen/Sites.v *)
Definition begin_owner (w : world) : world :=
  match owner w, oprog w with
  | OIdle, None :: rest => mk_w (word w) (clock w) PLoad rest (last w) (posters w) (nP w) (nV w) (ret0 w) (early w)
  | OIdle, Some d :: rest => mk_w (word w) (clock w) (TLoad d) rest (last w) (posters w) (nP w) (nV w) (ret0 w) (early w)
  | _, _ => w
  end.

Definition step_owner (w0 : world) (c : choice) : world * ev :=
  let w := begin_owner w0 in
  match owner w with
  | OIdle => (w, EvNone)
  | OCrash => (w, EvCrash)
  | PLoad => let i := word w in
             if nsync_mu_semaphore_p_cas1_guard i then (set_owner w (PCas i), EvLoad 101 i) else (set_owner w PFutex, EvLoad 101 i)
  | PFutex =>
      if negb (word w =? 0) then (set_owner w PLoad, EvFutexWait EAGAIN)
      else match c with
           | CEintr => (set_owner w PLoad, EvFutexWait EINTR)
           | _ => (set_owner w PSleep, EvFutexWait 0)
           end
  | PSleep =>   (* only a spurious return is the owner's own move; a wake is the poster's *)
      match c with CEintr => (set_owner w PLoad, EvFutexWait EINTR) | _ => (w, EvNone) end
  | PCas i =>
      let new := nsync_mu_semaphore_p_cas1_new i in
      if word w =? i then (ret_ok (incP (set_word w new)), EvCas 102 i new true)
      else (set_owner w PLoad, EvCas 102 i new false)
  | TLoad d => let i := word w in
               if nsync_mu_semaphore_p_with_deadline_cas1_guard 0 i then (set_owner w (TCas d i), EvLoad 201 i) else (set_owner w (TFutex d), EvLoad 201 i)
  | TFutex d =>
      match ts_of d with
      | Some ts =>
          if negb (ts_valid ts) then (set_owner w OCrash, EvFutexWait EINVAL)   (* ASSERT fails: null store *)
          else if negb (word w =? 0) then (set_owner w (TLoad d), EvFutexWait EAGAIN)
          else match c with
               | CEintr => (set_owner w (TLoad d), EvFutexWait EINTR)
               | CEarlyTimeout => (set_owner w (TClock d), EvFutexWait ETIMEDOUT)
               | CNormal => if tm_ns ts <=? clock w then (set_owner w (TClock d), EvFutexWait ETIMEDOUT)
                            else (set_owner w (TSleep d), EvFutexWait 0)
               end
      | None =>
          if negb (word w =? 0) then (set_owner w (TLoad d), EvFutexWait EAGAIN)
          else match c with
               | CEintr => (set_owner w (TLoad d), EvFutexWait EINTR)
               | _ => (set_owner w (TSleep d), EvFutexWait 0)
               end
      end
  | TSleep d =>
      match c with
      | CEintr => (set_owner w (TLoad d), EvFutexWait EINTR)
      | CEarlyTimeout => match ts_of d with Some _ => (set_owner w (TClock d), EvFutexWait ETIMEDOUT) | None => (w, EvNone) end
      | CNormal => match ts_of d with
                   | Some ts => if tm_ns ts <=? clock w then (set_owner w (TClock d), EvFutexWait ETIMEDOUT) else (w, EvNone)
                   | None => (w, EvNone)
                   end
      end
  | TClock d =>
      (* nsync_time_cmp (abs_deadline, nsync_time_now ()) <= 0 *)
      if tm_ns d <=? clock w then (ret_timeout w d, EvRet ETIMEDOUT) else (set_owner w (TLoad d), EvClock)
  | TCas d i =>
      let new := nsync_mu_semaphore_p_with_deadline_cas1_new i in
      if word w =? i then (ret_ok (incP (set_word w new)), EvCas 202 i new true)
      else (set_owner w (TLoad d), EvCas 202 i new false)
  end.

Definition wake_owner (w : world) : world :=
  match owner w with
  | PSleep => set_owner w PLoad
  | TSleep d => set_owner w (TLoad d)
  | _ => w
  end.

Definition step_poster (w : world) (k : nat) : world * ev :=
  match nth_error (posters w) k with
  | None => (w, EvNone)
  | Some (VIdle, O) => (w, EvNone)
  | Some (VIdle, S n) => (set_poster w k (VCas (word w), n), EvLoad 301 (word w))   (* begin + load *)
  | Some (VLoad, n) => (set_poster w k (VCas (word w), n), EvLoad 301 (word w))
  | Some (VCas old, n) =>
      let new := nsync_mu_semaphore_v_cas1_new old in
      if word w =? old then (incV (set_poster (set_word w new) k (VWake, n)), EvCas 302 old new true)
      else (set_poster w k (VLoad, n), EvCas 302 old new false)
  | Some (VWake, n) =>
      (set_poster (wake_owner w) k (VIdle, n), EvWake (if owner_asleep w then 1 else 0))
  end.

Definition step (w : world) (a : actor) (c : choice) : world * ev :=
  match a with
  | Owner => step_owner w c
  | Poster k => step_poster w k
  | Tick dt => if 0 <=? dt then (mk_w (word w) (clock w + dt) (owner w) (oprog w) (last w) (posters w) (nP w) (nV w) (ret0 w) (early w), EvTick)
               else (w, EvNone)
  end.

Definition init (prog : list (option tm)) (posts : list nat) (clock0 : Z) : world :=
  mk_w 0 clock0 OIdle prog RNone (map (fun n => (VIdle, n)) posts) 0 0 0 0.

Definition run (w : world) (sched : list (actor * choice)) : world :=
  fold_left (fun w ac => fst (step w (fst ac) (snd ac))) sched w.

(* ---------- statements (used by Props/Properties_C12.v) ---------- *)
Definition pending_wake (w : world) : Prop := exists k n, nth_error (posters w) k = Some (VWake, n).
Definition normalized (d : tm) : Prop := 0 <= t_nsec d < 1000000000.
Definition prog_ok (prog : list (option tm)) : Prop :=
  forall d, In (Some d) prog -> normalized d.      (* any seconds value, also before the epoch *)
Definition total_posts (posts : list nat) : Z := Z.of_nat (fold_right Nat.add O posts).
