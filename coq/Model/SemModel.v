(* SemModel: executable model of platform/linux/src/nsync_semaphore_futex.c
   (nsync_mu_semaphore_p, _p_with_deadline, _v) over a MODELLED kernel futex:
   FUTEX_WAIT compares and blocks atomically, FUTEX_WAKE(1) wakes at most one
   sleeper, absolute CLOCK_REALTIME deadline, EINVAL for an invalid timespec.
   The kernel may also return early: EINTR at any time, and (timed waits)
   ETIMEDOUT before the deadline -- these are the `choice` of a step.
   One owner (the only thread that ever P's a given semaphore), any number of posters.
   The values written come from Gen/Sites.v; the two comparisons of nsync_time values the C code makes
   (abs_deadline against nsync_time_no_deadline, abs_deadline against nsync_time_now ()) are the TRANSLATED
   nsync_time_cmp of Gen/Time.v (lexicographic on (sec, nsec), as in C, also for non-normalized input).
   The clock is READ in one step (a scheduling point of the harness: `clock` events) which logs the value
   read in the owner's pc; the decision `nsync_time_cmp (abs_deadline, now) <= 0` is a LATER step that uses
   the logged value only (the clock may have moved on, posts may have arrived in between).
   No proofs here. *)
From NsyncBase Require Import CSem.
From NsyncGen Require Import Consts Sites Time.
From Coq Require Import List ZArith Bool.
Import ListNotations.
Local Open Scope Z_scope.

Record tm := mk_tm { t_sec : Z; t_nsec : Z }.
Definition tm_ns (t : tm) : Z := t_sec t * 1000000000 + t_nsec t.
Definition to_ts (t : tm) : timespec := mk_timespec (t_sec t) (t_nsec t).
(* nsync_time_cmp (abs_deadline, nsync_time_no_deadline) != 0 is false *)
Definition is_no_deadline (t : tm) : bool :=
  nsync_time_cmp (to_ts t) (mk_timespec time_no_deadline_sec time_no_deadline_nsec) =? 0.
(* what clock_gettime stores when the clock stands at c ns (harness/rt/vrt.c: vrt_clock_gettime) *)
Definition tm_of_ns (c : Z) : tm := mk_tm (c / 1000000000) (c mod 1000000000).
(* nsync_time_cmp (abs_deadline, now) <= 0, `now` being the value nsync_time_now () returned earlier *)
Definition timed_out (d rd : tm) : bool := nsync_time_cmp (to_ts d) (to_ts rd) <=? 0.
(* Linux timespec64_valid *)
Definition ts_valid (t : tm) : bool := (0 <=? t_sec t) && (0 <=? t_nsec t) && (t_nsec t <? 1000000000).
(* the timespec nsync_mu_semaphore_p_with_deadline hands to the kernel (absolute-timeout branch):
   the deadline itself, except that an instant before the epoch is replaced by the epoch
   (the kernel rejects tv_sec < 0 with EINVAL) *)
Definition ts_of (d : tm) : option tm :=
  if is_no_deadline d then None else Some (if t_sec d <? 0 then mk_tm 0 0 else d).

Inductive opc :=               (* owner *)
| OIdle
| PLoad | PFutex | PSleep | PCas (i : Z)
| TLoad (d : tm) | TFutex (d : tm) | TSleep (d : tm) | TCas (d : tm) (i : Z)
| TClock (d : tm)              (* futex returned ETIMEDOUT: about to call nsync_time_now () *)
| TDecide (d rd : tm)          (* nsync_time_now () returned rd: about to evaluate nsync_time_cmp (abs_deadline, rd) <= 0 *)
| OCrash.
Inductive ppc := VIdle | VLoad | VCas (old : Z) | VWake.   (* a poster *)

Inductive ores := RNone | ROk | RTimedOut.   (* result of the owner's last completed call *)
(* log entry of a completed call; a timeout carries the clock value the call had read when it decided *)
Inductive res := ResOk | ResTimedOut (rd : tm).
Record centry := mk_ce { ce_arg : option tm;   (* None = P, Some d = P_with_deadline d *)
                         ce_begin : Z;         (* the clock when the call made its first step *)
                         ce_res : res }.

Record world := mk_w {
  word : Z;            (* the futex word = semaphore count *)
  clock : Z;           (* CLOCK_REALTIME, ns *)
  owner : opc;
  oprog : list (option tm);   (* remaining calls of the owner: None = P, Some d = P_with_deadline d *)
  last : ores;
  posters : list (ppc * nat); (* pc, remaining V calls *)
  nP : Z; nV : Z;      (* ghost: successful P / V CASes *)
  cbeg : Z;            (* ghost: the clock at the first step of the owner's current call *)
  rets : list centry   (* ghost: the completed calls, newest first *)
}.

Inductive actor := Owner | Poster (k : nat) | Tick (dt : Z).
(* adversarial kernel behaviour for a futex-wait or a sleeping owner *)
Inductive choice := CNormal | CEintr | CEarlyTimeout.

Inductive ev :=
| EvLoad (site : Z) (v : Z) | EvCas (site : Z) (old new : Z) (ok : bool)
| EvFutexWait (res : Z)       (* 0 = slept/woken; else errno *)
| EvFutexTs (ts : option tm)  (* what is passed to the kernel *)
| EvWake (n : Z)
| EvClock (rd : tm)           (* nsync_time_now () returned rd *)
| EvDecide (expired : bool)   (* thread-local: the comparison of the deadline with the value read *)
| EvRet (r : Z) | EvTick | EvNone | EvCrash.

Definition set_owner (w : world) (o : opc) : world :=
  mk_w (word w) (clock w) o (oprog w) (last w) (posters w) (nP w) (nV w) (cbeg w) (rets w).
Definition set_word (w : world) (v : Z) : world :=
  mk_w v (clock w) (owner w) (oprog w) (last w) (posters w) (nP w) (nV w) (cbeg w) (rets w).
Fixpoint lupd {A} (l : list A) (k : nat) (v : A) : list A :=
  match l, k with [], _ => [] | _ :: t, O => v :: t | x :: t, S k' => x :: lupd t k' v end.
Definition set_poster (w : world) (k : nat) (p : ppc * nat) : world :=
  mk_w (word w) (clock w) (owner w) (oprog w) (last w) (lupd (posters w) k p) (nP w) (nV w) (cbeg w) (rets w).
(* the call with argument a returns 0 *)
Definition ret_ok (w : world) (a : option tm) : world :=
  mk_w (word w) (clock w) OIdle (oprog w) ROk (posters w) (nP w) (nV w) (cbeg w) (mk_ce a (cbeg w) ResOk :: rets w).
(* the call with deadline d returns ETIMEDOUT, having read rd from the clock *)
Definition ret_timeout (w : world) (d rd : tm) : world :=
  mk_w (word w) (clock w) OIdle (oprog w) RTimedOut (posters w) (nP w) (nV w) (cbeg w)
       (mk_ce (Some d) (cbeg w) (ResTimedOut rd) :: rets w).
Definition incP (w : world) : world :=
  mk_w (word w) (clock w) (owner w) (oprog w) (last w) (posters w) (nP w + 1) (nV w) (cbeg w) (rets w).
Definition incV (w : world) : world :=
  mk_w (word w) (clock w) (owner w) (oprog w) (last w) (posters w) (nP w) (nV w + 1) (cbeg w) (rets w).

Definition owner_asleep (w : world) : bool := match owner w with PSleep | TSleep _ => true | _ => false end.

(* site ids: 100 nsync_mu_semaphore_p, 200 _p_with_deadline, 300 _v; + ordinal in Gen/Sites.v *)
Definition begin_owner (w : world) : world :=
  match owner w, oprog w with
  | OIdle, None :: rest => mk_w (word w) (clock w) PLoad rest (last w) (posters w) (nP w) (nV w) (clock w) (rets w)
  | OIdle, Some d :: rest => mk_w (word w) (clock w) (TLoad d) rest (last w) (posters w) (nP w) (nV w) (clock w) (rets w)
  | _, _ => w
  end.

Definition step_owner (w0 : world) (c : choice) : world * ev :=
  let w := begin_owner w0 in
  match owner w with
  | OIdle => (w, EvNone)
  | OCrash => (w, EvCrash)
  | PLoad => let i := word w in
             if nsync_mu_semaphore_p_cas1_guard i then (set_owner w (PCas i), EvLoad 101 i) else (set_owner w PFutex, EvLoad 101 i)
  | PFutex =>
      if negb (word w =? 0) then (set_owner w PLoad, EvFutexWait EAGAIN)
      else match c with
           | CEintr => (set_owner w PLoad, EvFutexWait EINTR)
           | _ => (set_owner w PSleep, EvFutexWait 0)
           end
  | PSleep =>   (* only a spurious return is the owner's own move; a wake is the poster's *)
      match c with CEintr => (set_owner w PLoad, EvFutexWait EINTR) | _ => (w, EvNone) end
  | PCas i =>
      let new := nsync_mu_semaphore_p_cas1_new i in
      if word w =? i then (ret_ok (incP (set_word w new)) None, EvCas 102 i new true)
      else (set_owner w PLoad, EvCas 102 i new false)
  | TLoad d => let i := word w in
               if nsync_mu_semaphore_p_with_deadline_cas1_guard 0 i then (set_owner w (TCas d i), EvLoad 201 i) else (set_owner w (TFutex d), EvLoad 201 i)
  | TFutex d =>
      match ts_of d with
      | Some ts =>
          if negb (ts_valid ts) then (set_owner w OCrash, EvFutexWait EINVAL)   (* ASSERT fails: null store *)
          else if negb (word w =? 0) then (set_owner w (TLoad d), EvFutexWait EAGAIN)
          else match c with
               | CEintr => (set_owner w (TLoad d), EvFutexWait EINTR)
               | CEarlyTimeout => (set_owner w (TClock d), EvFutexWait ETIMEDOUT)
               | CNormal => if tm_ns ts <=? clock w then (set_owner w (TClock d), EvFutexWait ETIMEDOUT)
                            else (set_owner w (TSleep d), EvFutexWait 0)
               end
      | None =>
          if negb (word w =? 0) then (set_owner w (TLoad d), EvFutexWait EAGAIN)
          else match c with
               | CEintr => (set_owner w (TLoad d), EvFutexWait EINTR)
               | _ => (set_owner w (TSleep d), EvFutexWait 0)
               end
      end
  | TSleep d =>
      match c with
      | CEintr => (set_owner w (TLoad d), EvFutexWait EINTR)
      | CEarlyTimeout => match ts_of d with Some _ => (set_owner w (TClock d), EvFutexWait ETIMEDOUT) | None => (w, EvNone) end
      | CNormal => match ts_of d with
                   | Some ts => if tm_ns ts <=? clock w then (set_owner w (TClock d), EvFutexWait ETIMEDOUT) else (w, EvNone)
                   | None => (w, EvNone)
                   end
      end
  | TClock d =>
      (* now = nsync_time_now (): the value is read here and kept in the pc *)
      let rd := tm_of_ns (clock w) in (set_owner w (TDecide d rd), EvClock rd)
  | TDecide d rd =>
      (* if (... && nsync_time_cmp (abs_deadline, now) <= 0) result = ETIMEDOUT;  then the loop condition:
         result != 0 leaves the loop; otherwise i == 0 here, so the loop is repeated from the load *)
      if timed_out d rd then (ret_timeout w d rd, EvDecide true) else (set_owner w (TLoad d), EvDecide false)
  | TCas d i =>
      let new := nsync_mu_semaphore_p_with_deadline_cas1_new i in
      if word w =? i then (ret_ok (incP (set_word w new)) (Some d), EvCas 202 i new true)
      else (set_owner w (TLoad d), EvCas 202 i new false)
  end.

Definition wake_owner (w : world) : world :=
  match owner w with
  | PSleep => set_owner w PLoad
  | TSleep d => set_owner w (TLoad d)
  | _ => w
  end.

Definition step_poster (w : world) (k : nat) : world * ev :=
  match nth_error (posters w) k with
  | None => (w, EvNone)
  | Some (VIdle, O) => (w, EvNone)
  | Some (VIdle, S n) => (set_poster w k (VCas (word w), n), EvLoad 301 (word w))   (* begin + load *)
  | Some (VLoad, n) => (set_poster w k (VCas (word w), n), EvLoad 301 (word w))
  | Some (VCas old, n) =>
      let new := nsync_mu_semaphore_v_cas1_new old in
      if word w =? old then (incV (set_poster (set_word w new) k (VWake, n)), EvCas 302 old new true)
      else (set_poster w k (VLoad, n), EvCas 302 old new false)
  | Some (VWake, n) =>
      (set_poster (wake_owner w) k (VIdle, n), EvWake (if owner_asleep w then 1 else 0))
  end.

Definition step (w : world) (a : actor) (c : choice) : world * ev :=
  match a with
  | Owner => step_owner w c
  | Poster k => step_poster w k
  | Tick dt => if 0 <=? dt then (mk_w (word w) (clock w + dt) (owner w) (oprog w) (last w) (posters w) (nP w) (nV w) (cbeg w) (rets w), EvTick)
               else (w, EvNone)     (* the clock never goes back *)
  end.

Definition init (prog : list (option tm)) (posts : list nat) (clock0 : Z) : world :=
  mk_w 0 clock0 OIdle prog RNone (map (fun n => (VIdle, n)) posts) 0 0 clock0 [].

Definition run (w : world) (sched : list (actor * choice)) : world :=
  fold_left (fun w ac => fst (step w (fst ac) (snd ac))) sched w.

(* ---------- statements (used by Props/Properties_C12.v, _C15.v) ---------- *)
Definition pending_wake (w : world) : Prop := exists k n, nth_error (posters w) k = Some (VWake, n).
Definition normalized (d : tm) : Prop := 0 <= t_nsec d < 1000000000.
Definition prog_ok (prog : list (option tm)) : Prop :=
  forall d, In (Some d) prog -> normalized d.      (* any seconds value, also before the epoch *)
Definition total_posts (posts : list nat) : Z := Z.of_nat (fold_right Nat.add O posts).
(* the number of completed calls that returned 0 (read off the log, not a counter) *)
Fixpoint n_ok (l : list centry) : Z :=
  match l with [] => 0 | e :: t => (match ce_res e with ResOk => 1 | ResTimedOut _ => 0 end) + n_ok t end.
Definition ret0 (w : world) : Z := n_ok (rets w).
(* the V calls that have not (yet) incremented the word: read off the posters' program counters *)
Definition pend1 (p : ppc * nat) : Z :=
  match fst p with
  | VIdle | VWake => Z.of_nat (snd p)             (* not started / CAS done: only the remaining calls *)
  | VLoad | VCas _ => Z.of_nat (snd p) + 1        (* the current call has not succeeded yet *)
  end.
Fixpoint pend (l : list (ppc * nat)) : Z :=
  match l with [] => 0 | p :: t => pend1 p + pend t end.
Definition posts_pending (w : world) : Z := pend (posters w).
