(* Statements about MuModel used by the property files (definitions only). *)
From NsyncBase Require Import CSem.
From NsyncGen Require Import Consts Sites.
From NsyncModel Require Import MuModel.
From Coq Require Import List ZArith Bool.
Import ListNotations.
Local Open Scope Z_scope.

Definition holds (w : world) (t : nat) (m : mode) : Prop := held (get w t) = Some m.
Definition nthreads (w : world) : nat := length (thr w).

(* C01: at most one writer and no reader beside it *)
Definition excl (w : world) : Prop :=
  forall t1 t2, (t1 < nthreads w)%nat -> (t2 < nthreads w)%nat ->
    holds w t1 W -> (holds w t2 W \/ holds w t2 R) -> t1 = t2.

Definition count_held (w : world) (m : mode) : Z :=
  Z.of_nat (length (filter (fun s => match held s, m with Some W, W | Some R, R => true | _, _ => false end) (thr w))).

(* the lock field of the word tells the truth about the ghost holders *)
Definition word_agrees (w : world) : Prop :=
  0 <= word w < 2 ^ 32 /\
  (if Z.testbit (word w) 0 then 1 else 0) = count_held w W /\
  word w / 256 = count_held w R /\
  (Z.testbit (word w) 0 = true -> word w / 256 = 0).

Definition reachable (progs : list (list op)) (w : world) : Prop := exists sched, w = run (init progs) sched.

Definition is_try_pc (p : pc) : bool := match p with TryFast _ | TryLoad _ | TryCas2 _ _ => true | _ => false end.
Definition try_rank (p : pc) : nat := match p with TryFast _ => 3 | TryLoad _ => 2 | TryCas2 _ _ => 1 | _ => 0 end.

(* an acquiring step: the thread did not hold before and holds afterwards *)
Definition acquires (w : world) (t : nat) : Prop :=
  held (get w t) = None /\ held (get (fst (step w t)) t) <> None.
(* the thread has not slept in its current call and is not yet a designated waker *)
Definition fresh (w : world) (t : nat) : Prop :=
  match t_pc (get (begin_op w t) t) with
  | LkFast _ | LkLoad _ | LkCas2 _ _ | TryFast _ | TryLoad _ | TryCas2 _ _ => True
  | LsLoad _ l | LsCasAcq _ l _ | LsCasEnq _ l _ => clr l = 0 /\ zta l = lt_zero_to_acquire (lt_of (match t_pc (get (begin_op w t) t) with LsLoad m _ | LsCasAcq m _ _ | LsCasEnq m _ _ => m | _ => W end))
  | _ => False
  end.

(* a thread that is (or is about to be) on the mutex queue or on a releaser's wake list:
   inside nsync_mu_lock_slow_, between its enqueue and its next attempt *)
Definition in_lock_slow_queued (p : pc) : bool :=
  match p with LsRelLoad _ _ | LsRelCas _ _ _ | LsWaitLoad _ _ | LsSemP _ _ => true | _ => false end.
Definition is_wake_pc (p : pc) : bool := match p with UsWakeStore _ _ | UsWakeV _ _ _ => true | _ => false end.
