(* Statements about MuWaitModel used by the property files (definitions only, no proofs). *)
From NsyncBase Require Import CSem.
From NsyncGen Require Import Consts Sites.
From NsyncModel Require Import MuWaitModel.
From Coq Require Import List ZArith Bool.
Import ListNotations.
Local Open Scope Z_scope.

Definition holds (w : world) (t : nat) (m : mode) : Prop := held (get w t) = Some m.
Definition nthreads (w : world) : nat := length (thr w).
Definition reachable (progs : list (list op)) (cl : nat -> nat) (c0 : Z) (w : world) : Prop :=
  exists sched, w = run (init progs cl c0) sched.

(* ---------- C01w ---------- *)
(* [held] is the ghost "lock bits of the word this thread owns": a client holder between the return of an acquiring
   call and its release, an unlocker up to its releasing CAS, an unlocker that converted itself to a writer to
   evaluate conditions ([conv] = true), a timed-out waiter between the acquiring CAS and the release store of
   mu_try_acquire_after_timeout_or_cancel. *)
Definition excl (w : world) : Prop :=
  forall t1 t2, (t1 < nthreads w)%nat -> (t2 < nthreads w)%nat ->
    holds w t1 W -> (holds w t2 W \/ holds w t2 R) -> t1 = t2.

Definition count_held (w : world) (m : mode) : Z :=
  Z.of_nat (length (filter (fun s => match held s, m with Some W, W | Some R, R => true | _, _ => false end) (thr w))).
Definition count_spin (w : world) : Z := Z.of_nat (length (filter spin (thr w))).

(* the lock field and the spinlock bit of the word tell the truth about the ghost owners *)
Definition word_agrees (w : world) : Prop :=
  0 <= word w < 2 ^ 32 /\
  (if Z.testbit (word w) 0 then 1 else 0) = count_held w W /\
  word w / 256 = count_held w R /\
  (Z.testbit (word w) 0 = true -> word w / 256 = 0) /\
  (if Z.testbit (word w) 1 then 1 else 0) = count_spin w.

(* the pcs of mu_try_acquire_after_timeout_or_cancel between its successful CAS and its release store, with the
   word read before that CAS *)
Definition frozen_old (p : pc) : option Z :=
  match p with
  | MtLoadW old | MtLoadRc old | MtStoreW old | MtStore2 old | MtStore3 old => Some old
  | RmLoad (KTry old) | RmCas (KTry old) _ => Some old
  | _ => None
  end.
(* frozen word: in that window the thread owns WLOCK + SPINLOCK and the word still is what its CAS wrote *)
Definition frozen (w : world) : Prop :=
  forall t old, frozen_old (t_pc (get w t)) = Some old ->
    holds w t W /\ spin (get w t) = true /\ word w = mu_try_acquire_after_timeout_or_cancel_cas1_new old.
(* ... so that no step of another thread changes the word *)
Definition frozen_stable (w : world) : Prop :=
  forall t old, frozen_old (t_pc (get w t)) = Some old ->
    forall t' c, t' <> t -> word (fst (step w (Thr t' c))) = word w.

(* ---------- C06 (b): evaluation under the lock ---------- *)
Definition eval_ok (e : evrec) : Prop := er_held e <> None /\ er_otherw e = false.
Definition evals_ok (w : world) : Prop := Forall eval_ok (evlog w).
(* the step-level reading: whenever a step evaluates a condition, the evaluator owns lock bits and nobody else is a writer *)
Definition is_eval (e : ev) : bool := match e with EvEval _ _ _ _ => true | _ => false end.
Definition eval_under_lock (w : world) (t : nat) (c : choice) : Prop :=
  is_eval (snd (step w (Thr t c))) = true ->
  let s := get (begin_op w t) t in
  held s <> None /\ forall t', t' <> t -> ~ holds w t' W.

(* ---------- C05 (mu_wait half) ---------- *)
Definition cond_true (w : world) (c : cond) : bool := match c with None => true | Some (f, a) => pst w f a end.
(* the step of thread t returns from nsync_mu_wait_with_deadline with result r *)
Definition mw_returns (w : world) (t : nat) (c : choice) (x : mwl) (r : Z) : Prop :=
  mw (get (begin_op w t) t) = Some x /\
  mw (get (fst (step w (Thr t c))) t) = None /\
  last_ret (get (fst (step w (Thr t c))) t) = Some r.
Definition C05_post (w : world) (t : nat) (c : choice) (x : mwl) (r : Z) : Prop :=
  let w' := fst (step w (Thr t c)) in
  held (get w' t) = mw_ent x /\ mw_ent x <> None /\                    (* same mode as at entry *)
  (r = 0 <-> cond_true w' (mw_cond x) = true) /\                       (* 0 iff the condition is true now *)
  (r = 0 \/ r = ETIMEDOUT \/ r = ECANCELED) /\
  (r = ETIMEDOUT -> exists d ck, mw_dl x = Some d /\ mw_tmo x = Some ck /\ d <= ck <= clock w') /\
  (r = ECANCELED -> mw_canc x = true /\ note w' = true).

(* ---------- C06 (a): same_condition rings ---------- *)
(* two waiters' conditions are "the same": same function, arguments in the same condition_arg_eq class
   (an equivalence; WAIT_CONDITION_EQ implies it) *)
Definition sc_equiv (wc : nat -> cond) (cl : nat -> nat) (a b : nat) : Prop :=
  match wc a, wc b with
  | Some (fa, va), Some (fb, vb) => fa = fb /\ cl va = cl vb
  | _, _ => False
  end.
(* x :: l is linked in order through the next / prev pointers *)
Fixpoint chain (sp sn : nat -> nat) (x : nat) (l : list nat) : Prop :=
  match l with [] => True | y :: r => sn x = y /\ sp y = x /\ chain sp sn y r end.
(* b is one same_condition ring: a circular doubly linked list in queue order whose members have the same condition *)
Definition block_ok (wc : nat -> cond) (cl : nat -> nat) (r : rings) (b : list nat) : Prop :=
  match b with
  | [] => False
  | x :: l => chain (fst r) (snd r) x l /\ snd r (last l x) = x /\ fst r x = last l x /\
              forall y, In y l -> sc_equiv wc cl x y
  end.
(* the rings partition the queue into contiguous runs *)
Definition RingInv (wc : nat -> cond) (cl : nat -> nat) (r : rings) (q : list nat) : Prop :=
  NoDup q /\ exists blocks, concat blocks = q /\ Forall (block_ok wc cl r) blocks.
Definition single (r : rings) (x : nat) : Prop := fst r x = x /\ snd r x = x.
(* r' differs from r only on the listed waiters *)
Definition frame (r r' : rings) (l : list nat) : Prop :=
  forall x, ~ In x l -> fst r' x = fst r x /\ snd r' x = snd r x.
(* condition_arg_eq identifies only arguments on which every condition function has the same truth *)
Definition eq_truth_preserving (cl : nat -> nat) (ps : nat -> nat -> bool) : Prop :=
  forall f a b, cl a = cl b -> ps f a = ps f b.
Definition wtrue (wc : nat -> cond) (ps : nat -> nat -> bool) (x : nat) : bool :=
  match wc x with None => true | Some (f, a) => ps f a end.
