(* MuAllModel: Model/MuWaitModel.v (mu.c + mu_wait.c with the FULL nsync_mu_unlock_slow_: condition scan that releases
   and re-takes the queue spinlock around every evaluation, multi-round new_waiters loop, same_condition rings,
   nsync_mu_wait_with_deadline with deadline / cancellation) COMBINED with the part of cv.c that touches the mutex:
   nsync_cv_wait_with_deadline_generic (waiting := 1, enqueue on the cv, release of the mutex, park, re-acquisition either
   afresh or -- after a transfer to the mutex queue -- through nsync_mu_lock_slow_ (cv_mu, w, MU_DESIG_WAKER, l_type)),
   nsync_cv_signal / nsync_cv_broadcast, wake_waiters (transfer of cv waiters onto mu->waiters under the MUTEX spinlock, or
   store waiting = 0 + V), and a non-mutex record on the cv (an nsync_wait_n caller: cv_enqueue / cv_ready_time / cv_dequeue).

   It is a WRAPPER in the style of Model/MuXferModel.v: the world contains a MuWaitModel.world; EVERY step of mu.c /
   mu_wait.c is MuWaitModel.step on that component (the wrapper never re-implements a mutex site); wake_waiters' sites on
   the mutex word are stepped one atomic site at a time with the values of Gen/Sites.v (wake_waiters_cas1_new and the
   3-argument wake_waiters_cas2_new: the F15 repair), and the waiter's re-entry into nsync_mu_lock_slow_ is MuWaitModel's
   own pc [LsLoad m (ls_init_desig m)] (the entry nsync_mu_wait_with_deadline uses too).

   WHAT THE TRANSFER DOES WHEN A SCANNER HAS SWAPPED THE QUEUE OUT.  In the code the scan of nsync_mu_unlock_slow_ moves
   mu->waiters into its private new_waiters (mu->waiters = NULL), and when testing conditions it releases the spinlock.
   wake_waiters, which can then take the spinlock, appends to mu->waiters (nsync_dll_make_last_in_list_ (pmu->waiters, p))
   -- i.e. to the EMPTY list plus earlier arrivals -- and tests nsync_dll_is_empty_ (pmu->waiters) on that list for the F15
   clear of MU_WAITING; the scanner's next round picks the arrivals up ("new_waiters = mu->waiters; mu->waiters = NULL").
   MuWaitModel represents exactly this: [queue w] IS mu->waiters (set to [] by the step of the successful site-903 CAS and
   by round_end), the private lists are the locals u_done / u_new / u_rest of the scanner's pc, and round_end picks up
   [queue w].  So the transfer appends to [queue (mu aw)] and computes clear_on_release from [queue (mu aw)], nothing else.
   The transferred waiter is an unconditional one: cond.f = NULL (stored by the cv wait: [set_winfo _ t lm None false]),
   same_condition a singleton (never touched: wake_waiters does not call nsync_maybe_merge_conditions_, and
   WAIT_CONDITION_EQ is false for f = NULL), l_type as computed by the wait from the mutex word.

   SCOPE DECISIONS (as MuXferModel)
   * one mutex, one cv; one waiter struct and one semaphore per thread (MuWaitModel's [waiting], [sem], [wtype], [wcond],
     [rcount]); a thread's record on the cv is identified with the thread.  [nonmu p]: the record lacks
     NSYNC_WAITER_FLAG_MUCV (queued by cv_enqueue for nsync_wait_n: woken, never transferred, never a "reader").
   * The cv spinlock is modelled as ATOMIC SECTIONS, one step per critical section of cv.c, linearised at the store that
     releases the cv spinlock: [AwEnq], [AwConfirm], [AkSelect], [AnEnq], [AnDeq].  The cv word is not in the model:
     CV_NON_EMPTY clear implies an empty queue, so the early exit of signal / broadcast is the choice [CTimeout] at
     [AkLoad], allowed only when the model's cv queue is empty.  remove_count IS kept up to date (MuWaitModel's [rcount]:
     the sections increment it with the values of Gen/Sites.v exactly where cv.c does), because mu_wait.c reads it.
   * The MUTEX word, queue, waiting flags and semaphores are stepped site by site.  wake_waiters' transfer loop (plain
     accesses to pmu->waiters and w->cv_mu under the mutex spinlock, including the emptiness test of the F15 repair) is
     merged into the step of the successful acquiring CAS (site wake_waiters.2).
   * nsync_sem_wait_with_cancel_ inside the cv wait is one step: [CNormal] = P on the thread's semaphore (blocked when the
     count is 0), [CTimeout] / [CCancel] = it returns non-zero (cv.c after the F3 repair tolerates that at ANY time; the
     model therefore does not consult the clock here).  The note's notifier posting the semaphore is MuWaitModel's [NoteV].
   * Client contract = [ACrash]: AWait m by a thread that does not hold the mutex in mode m.
   * Ghost: MuWaitModel's [held] / [spin] / [evlog]; the thread running wake_waiters owns the queue spinlock ([spin] = true)
     from its acquiring CAS to its releasing CAS; [a_rets] logs the returns of AWait (declared mode, what is held).
     MuWaitModel has no pc for "executes no mu.c code but owns the queue spinlock" (its Idle threads own nothing but lock
     bits), so for that window the wrapper PARKS the thread's MuWaitModel pc at [parked] (= Crash 99, a pc MuWaitModel itself
     never produces and never leaves; the wrapper never hands a parked thread to MuWaitModel.step -- what the thread does is
     decided by its wrapper pc AvLoad3 / AvCas2 / AvLoad5 alone) and puts it back to Idle in the step of the releasing CAS.
     This is an encoding of the ghost only; it lets Proof/MuWaitProof.v's invariant (which allows any ownership at a Crash
     pc) hold of the mutex component verbatim.
   Site ids continue MuWaitModel's 100*function + ordinal: 15 wake_waiters, 16 nsync_cv_wait_with_deadline_generic,
   17 nsync_cv_signal, 18 nsync_cv_broadcast, 19 cv_enqueue, 20 cv_dequeue, 21 cv_ready_time.
   No proofs in this file. *)
From NsyncBase Require Import CSem.
From NsyncGen Require Import Consts Sites.
From NsyncModel Require Import MuWaitModel.
From Coq Require Import List ZArith Bool.
Import ListNotations.
Local Open Scope Z_scope.

Inductive aop := AOp (o : op) | AWait (m : mode) | ASignal | ABroadcast | AWaitN.

(* locals of nsync_cv_wait_with_deadline_generic *)
Record awl := mk_awl {
  w_m : mode;          (* ghost: the mode the client declared (= held on entry) *)
  w_lm : mode;         (* w->l_type / is_reader_mu, computed from the mutex word *)
  w_so : bool;         (* sem_outcome != 0 *)
  w_out : bool         (* ghost: outcome != 0 *)
}.
(* locals of wake_waiters *)
Record kl := mk_kl {
  k_wake : list nat;   (* to_wake_list, head first *)
  k_allr : bool;       (* all_readers *)
  k_set : Z;           (* set_on_release *)
  k_clr : Z            (* clear_on_release (meaningful after the acquiring CAS) *)
}.

Inductive apc :=
| AIdle                                   (* no cv.c call in progress (a mu.c / mu_wait.c call may be) *)
| ACrash (why : Z)
(* nsync_cv_wait_with_deadline_generic *)
| AwStore (m : mode)                      (* ATM_STORE (&w->nw.waiting, 1); w->cond.f = NULL; w->cv_mu = cv_mu *)
| AwLoadMu (m : mode)                     (* ATM_LOAD (&cv_mu->word): l_type *)
| AwEnq (l : awl)                         (* section: enqueue on the cv *)
| AwUnlock (l : awl)                      (* nsync_mu_unlock / nsync_mu_runlock: MuWaitModel steps *)
| AwLoop (l : awl)                        (* while (ATM_LOAD_ACQ (&w->nw.waiting) != 0) *)
| AwSem (l : awl)                         (* nsync_sem_wait_with_cancel_ *)
| AwLoad6 (l : awl)                       (* sem_outcome != 0 && ATM_LOAD (&w->nw.waiting) != 0 *)
| AwConfirm (l : awl)                     (* section: still on the cv queue? remove, remove_count++, waiting = 0 *)
| AwLoad13 (l : awl)                      (* if (ATM_LOAD (&w->nw.waiting) != 0) spin delay *)
| AwReacq (l : awl)                       (* nsync_mu_lock_slow_ (.., MU_DESIG_WAKER, ..) or nsync_mu_lock / rlock: MuWaitModel steps *)
(* nsync_cv_signal / nsync_cv_broadcast *)
| AkLoad (bc : bool)                      (* ATM_LOAD_ACQ (&pcv->word) & CV_NON_EMPTY *)
| AkSelect (bc : bool)                    (* section: unlink the waiters to wake *)
(* wake_waiters *)
| AvLoad1 (k : kl) | AvCas1 (k : kl) (old : Z) | AvLoad3 (k : kl) | AvCas2 (k : kl) (old : Z) | AvLoad5 (k : kl)
| AvStore (k : kl) | AvV (k : kl) (p : nat)
(* nsync_wait_n (NULL, ..., 1, {the cv}): cv_enqueue, cv_ready_time, the timed P, cv_dequeue *)
| AnEnq | AnLoop | AnSem | AnDeq | AnSpin.

Record atstate := mk_at { a_pc : apc; a_ops : list aop; a_rets : list (mode * option mode) (* ghost, newest first *) }.

Record aworld := mk_aw {
  mu : world;                 (* the mutex with its conditional critical sections: Model/MuWaitModel.v *)
  cvq : list nat;             (* pcv->waiters: thread ids, head first *)
  xferred : nat -> bool;      (* w->cv_mu == NULL: the thread's waiter was handed to the mutex queue *)
  nonmu : nat -> bool;        (* the thread's record on the cv has no NSYNC_WAITER_FLAG_MUCV *)
  athr : list atstate }.

(* observable events *)
Inductive aev :=
| AMu (e : ev)                 (* a MuWaitModel event: a step of mu.c / mu_wait.c, or a step of cv.c on the mutex word / waiting / semaphore *)
| ASec (site : Z) (n : Z)      (* an atomic section of the cv spinlock / the load of the cv word; n: what it did *)
| ATimeout                     (* nsync_sem_wait_with_cancel_ / the timed P of nsync_wait_n returned non-zero *)
| ARefused.                    (* the choice is not available in this state (no step taken) *)

(* ---------- state access ---------- *)
Definition dflt_at := mk_at AIdle [] [].
Definition aget (aw : aworld) (t : nat) : atstate := nth t (athr aw) dflt_at.
Definition set_mu (aw : aworld) (m : world) : aworld := mk_aw m (cvq aw) (xferred aw) (nonmu aw) (athr aw).
Definition set_cvq (aw : aworld) (q : list nat) : aworld := mk_aw (mu aw) q (xferred aw) (nonmu aw) (athr aw).
Definition set_xferred (aw : aworld) (f : nat -> bool) : aworld := mk_aw (mu aw) (cvq aw) f (nonmu aw) (athr aw).
Definition set_nonmu (aw : aworld) (f : nat -> bool) : aworld := mk_aw (mu aw) (cvq aw) (xferred aw) f (athr aw).
Definition set_at (aw : aworld) (t : nat) (s : atstate) : aworld :=
  mk_aw (mu aw) (cvq aw) (xferred aw) (nonmu aw) (lupd (athr aw) t s).
Definition set_apc (aw : aworld) (t : nat) (p : apc) : aworld :=
  let s := aget aw t in set_at aw t (mk_at p (a_ops s) (a_rets s)).
Definition add_aret (aw : aworld) (t : nat) (r : mode * option mode) : aworld :=
  let s := aget aw t in set_at aw t (mk_at (a_pc s) (a_ops s) (r :: a_rets s)).

Definition wl_set_so (l : awl) (b : bool) : awl := mk_awl (w_m l) (w_lm l) b (w_out l).
Definition wl_set_out (l : awl) (b : bool) : awl := mk_awl (w_m l) (w_lm l) (w_so l) b.

Fixpoint mem_id (r : nat) (l : list nat) : bool :=
  match l with [] => false | x :: t => if Nat.eqb x r then true else mem_id r t end.
Fixpoint remove_id (r : nat) (l : list nat) : list nat :=
  match l with [] => [] | x :: t => if Nat.eqb x r then remove_id r t else x :: remove_id r t end.
Fixpoint set_all (f : nat -> bool) (l : list nat) (v : bool) : nat -> bool :=
  match l with [] => f | p :: l' => set_all (fupd f p v) l' v end.

(* the thread has no mutex operation in progress *)
Definition mu_idle (w : world) (t : nat) : bool :=
  match t_pc (get w t), t_ops (get w t) with Idle, [] => true | _, _ => false end.
Definition mu_pc_idle (w : world) (t : nat) : bool :=
  match t_pc (get w t) with Idle => true | _ => false end.
(* hand one operation to the MuWaitModel thread *)
Definition push_op (w : world) (t : nat) (o : op) : world :=
  let s := get w t in set_t w t (mk_t (t_pc s) [o] (held s) (conv s) (spin s) (mw s) (last_ret s)).

(* remove_count++ of every record of l that is a waiter struct (NSYNC_WAITER_FLAG_MUCV) *)
Fixpoint bump_all (nm : nat -> bool) (inc : Z -> Z) (w : world) (l : list nat) : world :=
  match l with
  | [] => w
  | p :: r => bump_all nm inc (if nm p then w else set_rcount w p (inc (rcount w p))) r
  end.

(* ---------- selection under the cv spinlock (cv.c: nsync_cv_signal / nsync_cv_broadcast) ---------- *)
(* (flags & NSYNC_WAITER_FLAG_MUCV) != 0 && DLL_WAITER (p)->l_type == nsync_reader_type_ *)
Definition is_rdr (ty : nat -> mode) (nm : nat -> bool) (p : nat) : bool := negb (nm p) && mode_eqb (ty p) R.
(* first waiter a reader: all readers and the first non-reader: (woken, kept, woke_writer) *)
Fixpoint sig_scan (ty : nat -> mode) (nm : nat -> bool) (q : list nat) (wokew : bool) : list nat * list nat * bool :=
  match q with
  | [] => ([], [], wokew)
  | p :: rest =>
      if is_rdr ty nm p then let '(wk, kp, ww) := sig_scan ty nm rest wokew in (p :: wk, kp, ww)
      else if negb wokew then let '(wk, kp, ww) := sig_scan ty nm rest true in (p :: wk, kp, ww)
      else let '(wk, kp, ww) := sig_scan ty nm rest wokew in (wk, p :: kp, ww)
  end.
(* (to_wake_list, remaining queue, all_readers) *)
Definition sel_signal (ty : nat -> mode) (nm : nat -> bool) (q : list nat) : list nat * list nat * bool :=
  match q with
  | [] => ([], [], false)
  | first :: rest =>
      if is_rdr ty nm first then let '(wk, kp, ww) := sig_scan ty nm rest false in (first :: wk, kp, negb ww)
      else ([first], rest, false)
  end.
Definition sel_broadcast (ty : nat -> mode) (nm : nat -> bool) (q : list nat) : list nat * list nat * bool :=
  (q, [], forallb (is_rdr ty nm) q).

(* ---------- wake_waiters: transfer vs wake, under the mutex spinlock ---------- *)
(* the loop over the waiters after the first: (moved to mu->waiters, still to wake, transferred_a_writer, woke_areader) *)
Fixpoint xfer_rest (ty : nat -> mode) (nm : nat -> bool) (fca fw : bool) (q : list nat) (taw war : bool)
  : list nat * list nat * bool * bool :=
  match q with
  | [] => ([], [], taw, war)
  | p :: rest =>
      if nm p then let '(m, s, a, b) := xfer_rest ty nm fca fw rest taw war in (m, p :: s, a, b)      (* p_w == NULL: wake non-native waiter *)
      else
        let piw := mode_eqb (ty p) W in
        if fca || fw || piw then let '(m, s, a, b) := xfer_rest ty nm fca fw rest (taw || piw) war in (p :: m, s, a, b)
        else let '(m, s, a, b) := xfer_rest ty nm fca fw rest taw (war || negb piw) in (m, p :: s, a, b)
  end.
(* (moved, stay, set_on_release) *)
Definition xfer (ty : nat -> mode) (nm : nat -> bool) (fca : bool) (wake : list nat) : list nat * list nat * Z :=
  match wake with
  | [] => ([], [], 0)
  | first :: rest =>
      let fw := mode_eqb (ty first) W in
      let '(m, s, a, b) := xfer_rest ty nm fca fw rest (if fca then fw else false) (if fca then false else negb fw) in
      (if fca then first :: m else m, if fca then s else first :: s,
       if a && negb b then MU_WRITER_WAITING else 0)
  end.
(* first_cant_acquire = (old_mu_word & first_w->l_type->zero_to_acquire) != 0 *)
Definition first_cant_acquire (ty : nat -> mode) (old : Z) (wake : list nat) : bool :=
  match wake with first :: _ => has old (lt_zero_to_acquire (lt_of (ty first))) | [] => false end.
(* the condition in front of the acquiring CAS of wake_waiters *)
Definition xfer_wanted (ty : nat -> mode) (old : Z) (k : kl) : bool :=
  has old MU_ANY_LOCK && negb (has old MU_SPINLOCK) &&
  (first_cant_acquire ty old (k_wake k) || (match k_wake k with _ :: _ :: _ => true | _ => false end && negb (k_allr k))).

(* the MuWaitModel pc of a thread inside wake_waiters' critical section of the MUTEX spinlock (see the header) *)
Definition parked : pc := Crash 99.

Definition wake_loop (k : kl) : apc := match k_wake k with [] => AIdle | _ => AvStore k end.
(* pmu = first_w->cv_mu iff the first record is a waiter struct; pmu == NULL: straight to the wake loop *)
Definition wake_entry (nm : nat -> bool) (k : kl) : apc :=
  match k_wake k with
  | [] => AIdle
  | first :: _ => if nm first then wake_loop k else AvLoad1 k
  end.

(* ---------- the step function ---------- *)
Definition abegin (aw : aworld) (t : nat) : aworld :=
  let xs := aget aw t in
  match a_pc xs, a_ops xs with
  | AIdle, o :: rest =>
      if mu_idle (mu aw) t then
        let aw1 := set_at aw t (mk_at AIdle rest (a_rets xs)) in
        match o with
        | AOp o' => set_mu aw1 (push_op (mu aw1) t o')
        | AWait m =>
            set_apc aw1 t (match held (get (mu aw) t) with
                           | Some m' => if mode_eqb m m' then AwStore m else ACrash 5
                           | None => ACrash 5 end)
        | ASignal => set_apc aw1 t (AkLoad false)
        | ABroadcast => set_apc aw1 t (AkLoad true)
        | AWaitN => set_apc aw1 t AnEnq
        end
      else aw
  | _, _ => aw
  end.

(* a step of mu.c / mu_wait.c by thread t *)
Definition mu_step (aw : aworld) (t : nat) (c : choice) : aworld * ev :=
  let '(m', e) := step (mu aw) (Thr t c) in (set_mu aw m', e).

Definition astep_thr (aw0 : aworld) (t : nat) (c : choice) : aworld * aev :=
  let aw := abegin aw0 t in
  let w := mu aw in
  match a_pc (aget aw t) with
  | AIdle => let '(aw1, e) := mu_step aw t c in (aw1, AMu e)
  | ACrash _ => (aw, AMu EvCrash)
  (* --- nsync_cv_wait_with_deadline_generic --- *)
  | AwStore m =>
      let v := nsync_cv_wait_with_deadline_generic_store1_new in
      let aw1 := set_nonmu (set_xferred (set_mu aw (set_waiting w t (negb (v =? 0)))) (fupd (xferred aw) t false))
                           (fupd (nonmu aw) t false) in
      (set_apc aw1 t (AwLoadMu m), AMu (EvStoreW 1601 t v))
  | AwLoadMu m =>
      let old := word w in
      let is_writer := has old MU_WHELD_IF_NON_ZERO in
      let is_reader := has old MU_RHELD_IF_NON_ZERO in
      if is_writer then
        if is_reader then (set_apc aw t (ACrash 6), AMu (EvLoad 1602 old))
        else (set_apc (set_mu aw (set_winfo w t W None false)) t (AwEnq (mk_awl m W false false)), AMu (EvLoad 1602 old))
      else if is_reader then (set_apc (set_mu aw (set_winfo w t R None false)) t (AwEnq (mk_awl m R false false)), AMu (EvLoad 1602 old))
      else (set_apc aw t (ACrash 7), AMu (EvLoad 1602 old))
  | AwEnq l =>
      (* under the cv spinlock: pcv->waiters += w; then, spinlock released: nsync_mu_runlock (cv_mu) / unlock (pmu) *)
      let aw1 := set_cvq (set_mu aw (set_pc w t (UlFast (w_lm l)))) (cvq aw ++ [t]) in
      (set_apc aw1 t (AwUnlock l), ASec 1604 1)
  | AwUnlock l =>
      let '(aw1, e) := mu_step aw t CNormal in
      if mu_pc_idle (mu aw1) t then (set_apc aw1 t (AwLoop l), AMu e) else (aw1, AMu e)
  | AwLoop l =>
      if waiting w t then (set_apc aw t (if w_so l then AwLoad6 l else AwSem l), AMu (EvLoadW 1605 1))
      else
        (* if (cv_mu != NULL && w->cv_mu == NULL) nsync_mu_lock_slow_ (cv_mu, w, MU_DESIG_WAKER, w->l_type)
           else nsync_mu_rlock (cv_mu) / lock (pmu) *)
        let m := w_lm l in
        let p := if xferred aw t then LsLoad m (ls_init_desig m) else LkFast m in
        (set_apc (set_mu aw (set_pc (set_winfo w t m None false) t p)) t (AwReacq l), AMu (EvLoadW 1605 0))
  | AwSem l =>
      match c with
      | CNormal =>
          if 0 <? sem w t then (set_apc (set_mu aw (set_sem w t (sem w t - 1))) t (AwLoad13 l), AMu EvP)
          else (aw, AMu EvBlocked)
      | _ => (set_apc aw t (AwLoad6 (wl_set_so l true)), ATimeout)
      end
  | AwLoad6 l =>
      if waiting w t then (set_apc aw t (AwConfirm l), AMu (EvLoadW 1606 1))
      else (set_apc aw t (AwLoad13 l), AMu (EvLoadW 1606 0))
  | AwConfirm l =>
      (* under the cv spinlock: if (waiting != 0 && remove_count unchanged) { remove; remove_count++; ATM_STORE_REL (&w->nw.waiting, 0) } *)
      if mem_id t (cvq aw) then
        let v := nsync_cv_wait_with_deadline_generic_store3_new in
        let w1 := set_rcount w t (nsync_cv_wait_with_deadline_generic_cas1_new (rcount w t)) in
        let aw1 := set_cvq (set_mu aw (set_waiting w1 t (negb (v =? 0)))) (remove_id t (cvq aw)) in
        (* outcome = sem_outcome *)
        (set_apc aw1 t (AwLoad13 (wl_set_out l (w_so l))), ASec 1612 1)
      else (set_apc aw t (AwLoad13 l), ASec 1612 0)
  | AwLoad13 l => (set_apc aw t (AwLoop l), AMu (EvLoadW 1613 (b2z (waiting w t))))
  | AwReacq l =>
      let '(aw1, e) := mu_step aw t CNormal in
      if mu_pc_idle (mu aw1) t
      then (set_apc (add_aret aw1 t (w_m l, held (get (mu aw1) t))) t AIdle, AMu e)
      else (aw1, AMu e)
  (* --- nsync_cv_signal / nsync_cv_broadcast --- *)
  | AkLoad bc =>
      let site := if bc then 1801 else 1701 in
      match c with
      | CNormal => (set_apc aw t (AkSelect bc), ASec site 1)
      | _ => match cvq aw with
             | [] => (set_apc aw t AIdle, ASec site 0)      (* CV_NON_EMPTY clear: the queue is empty *)
             | _ => (aw, ARefused)
             end
      end
  | AkSelect bc =>
      let '(wk, kp, allr) := if bc then sel_broadcast (wtype w) (nonmu aw) (cvq aw) else sel_signal (wtype w) (nonmu aw) (cvq aw) in
      let site := if bc then 1804 else 1706 in
      let inc := if bc then nsync_cv_broadcast_cas1_new else nsync_cv_signal_cas1_new in
      let aw1 := set_cvq (set_mu aw (bump_all (nonmu aw) inc w wk)) kp in
      (set_apc aw1 t (wake_entry (nonmu aw) (mk_kl wk allr 0 0)), ASec site (Z.of_nat (length wk)))
  (* --- wake_waiters --- *)
  | AvLoad1 k =>
      let old := word w in
      if xfer_wanted (wtype w) old k then (set_apc aw t (AvCas1 k old), AMu (EvLoad 1501 old))
      else (set_apc aw t (wake_loop k), AMu (EvLoad 1501 old))
  | AvCas1 k old =>
      let new := wake_waiters_cas1_new old in
      let '(w1, ok) := cas w (wake_waiters_cas1_old old) new in
      if ok then
        let '(moved, stay, set_on) := xfer (wtype w) (nonmu aw) (first_cant_acquire (wtype w) old (k_wake k)) (k_wake k) in
        (* pmu->waiters = make_last (pmu->waiters, p); p_w->cv_mu = NULL; waiting stays 1 *)
        let q' := queue w1 ++ moved in
        (* clear_on_release = MU_SPINLOCK; if (nsync_dll_is_empty_ (pmu->waiters)) clear_on_release |= MU_WAITING *)
        let clr := match q' with [] => bor MU_SPINLOCK MU_WAITING | _ => MU_SPINLOCK end in
        let aw1 := set_xferred (set_mu aw (set_pc (set_spin (set_queue w1 q') t true) t parked)) (set_all (xferred aw) moved true) in
        (set_apc aw1 t (AvLoad3 (mk_kl stay (k_allr k) set_on clr)), AMu (EvCas 1502 old new true))
      else (set_apc aw t (wake_loop k), AMu (EvCas 1502 old new false))
  | AvLoad3 k => (set_apc aw t (AvCas2 k (word w)), AMu (EvLoad 1503 (word w)))
  | AvCas2 k old =>
      let new := wake_waiters_cas2_new old (k_set k) (k_clr k) in
      let '(w1, ok) := cas w (wake_waiters_cas2_old old) new in
      if ok then (set_apc (set_mu aw (set_pc (set_spin w1 t false) t Idle)) t (wake_loop k), AMu (EvCas 1504 old new true))
      else (set_apc aw t (AvLoad5 k), AMu (EvCas 1504 old new false))
  | AvLoad5 k => (set_apc aw t (AvCas2 k (word w)), AMu (EvLoad 1505 (word w)))
  | AvStore k =>
      match k_wake k with
      | [] => (set_apc aw t AIdle, AMu EvNone)
      | p :: rest =>
          let v := wake_waiters_store1_new in
          (set_apc (set_mu aw (set_waiting w p (negb (v =? 0)))) t (AvV (mk_kl rest (k_allr k) (k_set k) (k_clr k)) p),
           AMu (EvStoreW 1506 p v))
      end
  | AvV k p => (set_apc (set_mu aw (set_sem w p (sem w p + 1))) t (wake_loop k), AMu (EvV p))
  (* --- nsync_wait_n on the cv (no mutex) --- *)
  | AnEnq =>
      let v := cv_enqueue_store1_new in
      let aw1 := set_nonmu (set_cvq (set_mu aw (set_waiting w t (negb (v =? 0)))) (cvq aw ++ [t])) (fupd (nonmu aw) t true) in
      (set_apc aw1 t AnLoop, ASec 1902 1)
  | AnLoop =>
      if waiting w t then (set_apc aw t AnSem, AMu (EvLoadW 2101 1)) else (set_apc aw t AnDeq, AMu (EvLoadW 2101 0))
  | AnSem =>
      match c with
      | CNormal =>
          if 0 <? sem w t then (set_apc (set_mu aw (set_sem w t (sem w t - 1))) t AnLoop, AMu EvP)
          else (aw, AMu EvBlocked)
      | _ => (set_apc aw t AnDeq, ATimeout)
      end
  | AnDeq =>
      if waiting w t && mem_id t (cvq aw) then
        let v := cv_dequeue_store1_new in
        (set_apc (set_cvq (set_mu aw (set_waiting w t (negb (v =? 0)))) (remove_id t (cvq aw))) t AIdle, ASec 2003 1)
      else (set_apc aw t AnSpin, ASec 2003 0)
  | AnSpin =>
      if waiting w t then (aw, AMu (EvLoadW 2004 1)) else (set_apc aw t AIdle, AMu (EvLoadW 2004 0))
  end.

(* Thr: a thread; Tick / Notify / NoteV: MuWaitModel's environment (clock, cancel note, the note's post of a semaphore) *)
Definition astep (aw : aworld) (a : actor) : aworld * aev :=
  match a with
  | Thr t c => astep_thr aw t c
  | _ => let '(m', e) := step (mu aw) a in (set_mu aw m', AMu e)
  end.

Definition ainit (progs : list (list aop)) (cl : nat -> nat) (clock0 : Z) : aworld :=
  mk_aw (init (map (fun _ => []) progs) cl clock0) [] (fun _ => false) (fun _ => false)
        (map (fun p => mk_at AIdle p []) progs).

Definition arun (aw : aworld) (sched : list actor) : aworld := fold_left (fun w a => fst (astep w a)) sched aw.
