(* helpers used only by the lock-step replayer (replay/mu_replay.ml) *)
From NsyncBase Require Import CSem.
From NsyncModel Require Import MuModel.
From Coq Require Import List ZArith.
Import ListNotations.

Definition push_op (w : world) (t : nat) (o : op) : world :=
  let s := get w t in set_t w t (mk_t (t_pc s) (t_ops s ++ [o]) (held s) (sleeps s) (last_try s)).
Definition is_idle (w : world) (t : nat) : bool :=
  match t_pc (get w t) with Idle => true | _ => false end.
Definition init_n (n : nat) : world := init (repeat [] n).
