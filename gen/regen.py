#!/usr/bin/env python3
"""Regenerate coq/Gen/*.v from /repo's current working tree.

  regen.py [--repo /repo] [--out /verif/coq/Gen] [--only time,dll,emit,consts,sites]

Writes one status line per generated module to <out>/STATUS.json:
  {module: {"ok": bool, "errors": [...]}}
A module whose translation failed is still written (with the functions that
did translate), so that dependent proofs fail to build -- the check driver then
treats the property as "proof obligation broken" and searches for a failing input.
"""
import os, sys, json, subprocess, argparse, tempfile, shutil

HERE = os.path.dirname(os.path.abspath(__file__))
sys.path.insert(0, HERE)
import c2coq


def run_c2coq(repo, out, name, **kw):
    errs = []
    try:
        m = c2coq.Module(repo, kw["src"], kw.get("lang", "c"), kw["funcs"],
                         loop_fuel=kw.get("fuel"), externs=kw.get("externs"), imports=kw.get("imports"),
                         struct_alias=kw.get("struct_alias"))
        text, errs = m.emit(name)
    except c2coq.Unsupported as e:
        text, errs = "(* GENERATED: translation failed *)\n", [str(e)]
    except Exception as e:   # malformed AST etc.: a translator failure, reported as such
        text, errs = "(* GENERATED: translator crashed *)\n", ["translator crashed: %r" % (e,)]
    with open(os.path.join(out, name + ".v"), "w") as f:
        f.write(text)
        for e in errs:
            f.write("(* TRANSLATION ERROR: %s *)\n" % e.replace("*)", "* )"))
    return {"ok": not errs, "errors": errs}


TIME_FUNCS = ["nsync_time_s_ns", "nsync_time_add", "nsync_time_sub", "nsync_time_cmp"]

PROBE_C = r'''
#include "nsync_cpp.h"
#include "platform.h"
#include "compiler.h"
#include "cputype.h"
#include "nsync.h"
#include "dll.h"
#include "sem.h"
#include "wait_internal.h"
#include "common.h"
#include "atomic.h"
#include <stdio.h>
#include <errno.h>
NSYNC_CPP_USING_
#define P(x) printf ("%s %lld\n", #x, (long long) (x))
int main (void) {
	P (MU_WLOCK); P (MU_SPINLOCK); P (MU_WAITING); P (MU_DESIG_WAKER); P (MU_CONDITION);
	P (MU_WRITER_WAITING); P (MU_LONG_WAIT); P (MU_ALL_FALSE); P (MU_RLOCK); P (MU_RLOCK_FIELD);
	P (MU_ANY_LOCK);
	P (MU_WZERO_TO_ACQUIRE); P (MU_WADD_TO_ACQUIRE); P (MU_WHELD_IF_NON_ZERO); P (MU_WSET_WHEN_WAITING);
	P (MU_WCLEAR_ON_ACQUIRE); P (MU_WCLEAR_ON_UNCONTENDED_RELEASE);
	P (MU_RZERO_TO_ACQUIRE); P (MU_RADD_TO_ACQUIRE); P (MU_RHELD_IF_NON_ZERO); P (MU_RSET_WHEN_WAITING);
	P (MU_RCLEAR_ON_ACQUIRE); P (MU_RCLEAR_ON_UNCONTENDED_RELEASE);
	P (CV_SPINLOCK); P (CV_NON_EMPTY);
	P (LONG_WAIT_THRESHOLD);
	P (NSYNC_WAITER_FLAG_MUCV);
	P (WAITER_RESERVED); P (WAITER_IN_USE);
	P (ETIMEDOUT); P (ECANCELED); P (EINTR); P (EAGAIN); P (EINVAL);
	printf ("writer_type_zero_to_acquire %lld\n", (long long) nsync_writer_type_->zero_to_acquire);
	printf ("writer_type_add_to_acquire %lld\n", (long long) nsync_writer_type_->add_to_acquire);
	printf ("writer_type_held_if_non_zero %lld\n", (long long) nsync_writer_type_->held_if_non_zero);
	printf ("writer_type_set_when_waiting %lld\n", (long long) nsync_writer_type_->set_when_waiting);
	printf ("writer_type_clear_on_acquire %lld\n", (long long) nsync_writer_type_->clear_on_acquire);
	printf ("writer_type_clear_on_uncontended_release %lld\n", (long long) nsync_writer_type_->clear_on_uncontended_release);
	printf ("reader_type_zero_to_acquire %lld\n", (long long) nsync_reader_type_->zero_to_acquire);
	printf ("reader_type_add_to_acquire %lld\n", (long long) nsync_reader_type_->add_to_acquire);
	printf ("reader_type_held_if_non_zero %lld\n", (long long) nsync_reader_type_->held_if_non_zero);
	printf ("reader_type_set_when_waiting %lld\n", (long long) nsync_reader_type_->set_when_waiting);
	printf ("reader_type_clear_on_acquire %lld\n", (long long) nsync_reader_type_->clear_on_acquire);
	printf ("reader_type_clear_on_uncontended_release %lld\n", (long long) nsync_reader_type_->clear_on_uncontended_release);
	printf ("time_zero_sec %lld\n", (long long) NSYNC_TIME_SEC (nsync_time_zero));
	printf ("time_zero_nsec %lld\n", (long long) NSYNC_TIME_NSEC (nsync_time_zero));
	printf ("time_no_deadline_sec %lld\n", (long long) NSYNC_TIME_SEC (nsync_time_no_deadline));
	printf ("time_no_deadline_nsec %lld\n", (long long) NSYNC_TIME_NSEC (nsync_time_no_deadline));
	printf ("sizeof_time_t %lld\n", (long long) sizeof (time_t));
	printf ("sizeof_unsigned %lld\n", (long long) sizeof (unsigned));
	return 0;
}
'''


def probe(repo, out, work, lang):
    """Compile and run the constant probe against the working tree's own sources."""
    errs = []
    vals = {}
    d = os.path.join(work, "probe_" + lang)
    os.makedirs(d, exist_ok=True)
    src = os.path.join(d, "probe." + ("c" if lang == "c" else "cc"))
    with open(src, "w") as f:
        f.write(PROBE_C)
    if lang == "c":
        cmd = ["gcc", "-O0", "-w"] + ["-I%s/%s" % (repo, i) for i in c2coq.C_INC] + \
              [src, os.path.join(repo, "internal/mu.c"), os.path.join(repo, "platform/posix/src/time_rep.c")]
        # mu.c needs the rest of the library to link: build everything the CMake C target builds
        cmd = ["gcc", "-O0", "-w", "-pthread"] + ["-I%s/%s" % (repo, i) for i in c2coq.C_INC] + [src] + \
              [os.path.join(repo, s) for s in C_LIB_SRC]
    else:
        cmd = ["g++", "-x", "c++", "-std=c++11", "-O0", "-w", "-pthread"] + c2coq.CXX_DEFS + \
              ["-I%s/%s" % (repo, i) for i in c2coq.CXX_INC] + [src] + \
              [os.path.join(repo, s) for s in CPP_LIB_SRC]
    exe = os.path.join(d, "probe")
    r = subprocess.run(cmd + ["-o", exe], capture_output=True, text=True)
    if r.returncode != 0:
        return {}, ["probe (%s) does not compile: %s" % (lang, r.stderr[-600:])]
    r = subprocess.run([exe], capture_output=True, text=True, timeout=20)
    if r.returncode != 0:
        return {}, ["probe (%s) exited %d" % (lang, r.returncode)]
    for line in r.stdout.splitlines():
        k, v = line.split()
        vals[k] = int(v)
    return vals, errs


C_LIB_SRC = ["internal/common.c", "internal/counter.c", "internal/cv.c", "internal/debug.c", "internal/dll.c",
             "internal/mu.c", "internal/mu_wait.c", "internal/note.c", "internal/once.c", "internal/sem_wait.c",
             "internal/time_internal.c", "internal/wait.c", "platform/posix/src/nsync_panic.c",
             "platform/posix/src/per_thread_waiter.c", "platform/posix/src/time_rep.c", "platform/posix/src/yield.c",
             "platform/linux/src/nsync_semaphore_futex.c"]
CPP_LIB_SRC = ["internal/common.c", "internal/counter.c", "internal/cv.c", "internal/debug.c", "internal/dll.c",
               "internal/mu.c", "internal/mu_wait.c", "internal/note.c", "internal/once.c", "internal/sem_wait.c",
               "internal/time_internal.c", "internal/wait.c", "platform/posix/src/per_thread_waiter.c",
               "platform/c++11/src/yield.cc", "platform/c++11/src/time_rep_timespec.cc",
               "platform/c++11/src/nsync_panic.cc", "platform/linux/src/nsync_semaphore_futex.c"]


def gen_consts(repo, out, work):
    status = {}
    for lang, name in (("c", "Consts"), ("c++", "ConstsCpp")):
        vals, errs = probe(repo, out, work, lang)
        with open(os.path.join(out, name + ".v"), "w") as f:
            f.write("(* GENERATED by gen/regen.py: constants printed by a probe compiled against /repo (%s build) *)\n" % lang)
            f.write("From Coq Require Import ZArith.\nLocal Open Scope Z_scope.\n\n")
            for k, v in vals.items():
                f.write("Definition %s : Z := %d.\n" % (k, v))
            for e in errs:
                f.write("(* TRANSLATION ERROR: %s *)\n" % e.replace("*)", "* )"))
        status[name] = {"ok": not errs, "errors": errs}
    return status


def main():
    ap = argparse.ArgumentParser()
    ap.add_argument("--repo", default="/repo")
    ap.add_argument("--out", default=os.path.join(os.path.dirname(HERE), "coq", "Gen"))
    ap.add_argument("--work", default=os.path.join(os.path.dirname(HERE), "_work"))
    ap.add_argument("--only", default="")
    a = ap.parse_args()
    os.makedirs(a.out, exist_ok=True)
    os.makedirs(a.work, exist_ok=True)
    only = set(a.only.split(",")) if a.only else None
    status = {}
    stfile = os.path.join(a.out, "STATUS.json")
    if only and os.path.exists(stfile):
        status = json.load(open(stfile))

    def want(x):
        return only is None or x in only

    if want("time"):
        status["Time"] = run_c2coq(a.repo, a.out, "Time", src="platform/posix/src/time_rep.c", funcs=TIME_FUNCS)
        status["TimeCpp"] = run_c2coq(a.repo, a.out, "TimeCpp", src="platform/c++11/src/time_rep_timespec.cc",
                                      lang="c++", funcs=TIME_FUNCS)
        status["TimeInt"] = run_c2coq(a.repo, a.out, "TimeInt", src="internal/time_internal.c",
                                      funcs=["nsync_time_ms", "nsync_time_us"],
                                      externs=["nsync_time_s_ns"], imports=["Time"])
        status["TimeIntCpp"] = run_c2coq(a.repo, a.out, "TimeIntCpp", src="internal/time_internal.c", lang="c++",
                                         funcs=["nsync_time_ms", "nsync_time_us"],
                                         externs=["nsync_time_s_ns"], imports=["TimeCpp"])
    if want("consts"):
        status.update(gen_consts(a.repo, a.out, a.work))
    if want("dll"):
        status["Dll"] = run_c2coq(a.repo, a.out, "Dll", src="internal/dll.c",
                                  funcs=["nsync_dll_init_", "nsync_dll_is_empty_", "nsync_dll_remove_",
                                         "nsync_dll_splice_after_", "nsync_dll_make_first_in_list_",
                                         "nsync_dll_make_last_in_list_", "nsync_dll_first_", "nsync_dll_last_",
                                         "nsync_dll_next_", "nsync_dll_prev_"],
                                  struct_alias={"nsync_dll_element_": "nsync_dll_element_s_"})
    if want("emit"):
        status["Emit"] = run_c2coq(a.repo, a.out, "Emit", src="internal/debug.c",
                                   funcs=["emit_init", "emit_c"], fuel={"emit_c": 8})
    if want("sites"):
        import sites as sites_mod
        try:
            allsites, errs = sites_mod.extract_all(a.repo, os.path.dirname(HERE))
            dropped = sites_mod.emit(allsites, errs, os.path.join(a.out, "Sites.v"))
            status["Sites"] = {"ok": not errs, "errors": errs, "n_sites": sum(len(v) for v in allsites.values()),
                               "dropped_guard_conjuncts": dropped}
        except Exception as e:
            open(os.path.join(a.out, "Sites.v"), "w").write("(* GENERATED: site extraction failed: %r *)\n" % (e,))
            status["Sites"] = {"ok": False, "errors": ["site extraction crashed: %r" % (e,)]}
    if want("sites"):
        import flow as flow_mod
        try:
            flows, ferrs = flow_mod.extract(sites_mod.MODS)
            flow_mod.emit(flows, ferrs, os.path.join(a.out, "Flow.v"))
            status["Flow"] = {"ok": not ferrs, "errors": ferrs, "n_edges": sum(len(v) for v in flows.values())}
        except Exception as e:
            open(os.path.join(a.out, "Flow.v"), "w").write("(* GENERATED: flow extraction failed: %r *)\n" % (e,))
            status["Flow"] = {"ok": False, "errors": ["flow extraction crashed: %r" % (e,)]}
    if want("sites"):
        import body as body_mod
        try:
            bodies = body_mod.extract(sites_mod.MODS)
            body_mod.emit(bodies, os.path.join(a.out, "Body.v"))
            # which functions differ from the pinned digests (for the replay file of a broken pin)
            changed = {}
            try:
                pinned = json.load(open(os.path.join(os.path.dirname(HERE), "coq", "Model", "BodyExpected.json")))
                for fb in set(pinned) | set(bodies):
                    a0, b0 = dict(map(tuple, pinned.get(fb, []))), dict(bodies.get(fb, []))
                    d = sorted(k for k in set(a0) | set(b0) if a0.get(k) != b0.get(k))
                    if d:
                        changed[fb] = d
            except Exception:
                pass
            status["Body"] = {"ok": True, "errors": [], "n_functions": sum(len(v) for v in bodies.values()), "changed_functions": changed}
        except Exception as e:
            open(os.path.join(a.out, "Body.v"), "w").write("(* GENERATED: body digest extraction failed: %r *)\n" % (e,))
            status["Body"] = {"ok": False, "errors": ["body digest extraction crashed: %r" % (e,)]}
    if want("sites") or want("orders"):
        # the memory order each ATM_* macro requests in /repo's real atomic headers and in the harness header (C03_macro_orders_agree)
        p = subprocess.run([sys.executable, os.path.join(HERE, "orders.py"), a.repo, os.path.join(a.out, "Orders.v")],
                           capture_output=True, text=True)
        status["Orders"] = {"ok": p.returncode == 0,
                            "errors": [] if p.returncode == 0 else [(p.stdout + p.stderr)[-2000:]],
                            "tables": p.stdout.splitlines()}
    # template instantiation: proofs that are stated once and checked against both builds
    tdir = os.path.join(os.path.dirname(HERE), "coq", "templates")
    if os.path.isdir(tdir):
        for fn in sorted(os.listdir(tdir)):
            if not fn.endswith(".v.in"):
                continue
            text = open(os.path.join(tdir, fn)).read()
            base = fn[:-5]
            for suffix, subst in (("C", {"@TIME@": "Time", "@TIMEINT@": "TimeInt", "@CONSTS@": "Consts", "@SFX@": "C"}),
                                  ("Cpp", {"@TIME@": "TimeCpp", "@TIMEINT@": "TimeIntCpp", "@CONSTS@": "ConstsCpp", "@SFX@": "Cpp"})):
                t = text
                for k, v in subst.items():
                    t = t.replace(k, v)
                with open(os.path.join(a.out, base + suffix + ".v"), "w") as f:
                    f.write("(* GENERATED by instantiating coq/templates/%s *)\n" % fn + t)
    json.dump(status, open(stfile, "w"), indent=1)
    bad = [k for k, v in status.items() if not v["ok"]]
    for k in bad:
        print("regen: %s: %s" % (k, "; ".join(status[k]["errors"])), file=sys.stderr)
    return 0


if __name__ == "__main__":
    sys.exit(main())
