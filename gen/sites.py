#!/usr/bin/env python3
"""sites.py: inventory of the atomic call sites of the nsync sources, extracted from clang's AST of each file
compiled against harness/platform/atomic.h (where every ATM_* macro is a call vrt_cas/vrt_load/vrt_store with
the memory order as a constant argument).

For each function: the ordered list of sites (kind, order, target, line) and, for every CAS/store whose value
expression lies in the translatable subset, a Gallina function computing the new value from the C locals it
mentions; likewise the enclosing branch conditions that can be translated (conjuncts that mention memory other
than lock_type fields are dropped and counted).
"""
import os, sys, json, re
HERE = os.path.dirname(os.path.abspath(__file__))
sys.path.insert(0, HERE)
import c2coq
from c2coq import Unsupported

ORDER = {0: "rlx", 1: "acq", 2: "rel", 3: "acqrel"}
FILES = ["internal/mu.c", "internal/mu_wait.c", "internal/cv.c", "internal/once.c", "internal/note.c",
         "internal/counter.c", "internal/wait.c", "internal/sem_wait.c", "internal/common.c", "internal/debug.c",
         "platform/linux/src/nsync_semaphore_futex.c", "platform/posix/src/per_thread_waiter.c"]


class ExprTr(c2coq.FuncTr):
    """Expression translator with free variables: every local/param is a Coq variable of its own name."""

    def __init__(self, mod, fname):
        self.mod = mod
        self.name = fname
        self.tmp = 0
        self.locals = {}
        self.free = []
        self.uses_heap, self.writes_heap = set(), set()
        self.vartypes = {}

    def lvalue(self, n, out):
        n = self.skip(n)
        k = n["kind"]
        if k == "DeclRefExpr":
            rd = n["referencedDecl"]
            if rd.get("id") in getattr(self, "inline", {}):
                return ("var", self.rvalue(self.inline[rd["id"]], out))
            if rd.get("kind") in ("VarDecl", "ParmVarDecl"):
                nm = self.mod.coqname(rd["name"])
                t = c2coq.TypeInfo(rd["type"], self.mod.typedefs)
                if t.pointee and re.sub(r"^struct ", "", t.pointee) in ("lock_type_s", "lock_type"):
                    kind = "lock_type"
                elif t.int or t.is_ptr:
                    kind = "Z"
                else:
                    raise Unsupported("free variable %s of type %s" % (nm, t.raw))
                if rd.get("storageClass") == "static" or self.is_global(rd):
                    if nm in ("nsync_writer_type_", "nsync_reader_type_"):
                        pass
                    else:
                        raise Unsupported("global %s" % nm)
                if (nm, kind) not in self.free:
                    self.free.append((nm, kind))
                return ("var", nm)
        if k == "MemberExpr" and n.get("isArrow"):
            base = self.skip(n["inner"][0])
            while base["kind"] == "ImplicitCastExpr":
                base = self.skip(base["inner"][0])
            bt = self.ti(base)
            if base["kind"] == "DeclRefExpr" and bt.pointee and re.sub(r"^struct ", "", bt.pointee) in ("lock_type_s", "lock_type"):
                v = self.lvalue(base, out)
                return ("var", "(lt_%s %s)" % (n["name"], v[1]))
            raise Unsupported("memory access ->%s" % n["name"])
        if k in ("MemberExpr", "UnaryOperator", "ArraySubscriptExpr"):
            raise Unsupported("memory access")
        raise Unsupported("lvalue %s" % k)

    def is_global(self, rd):
        return rd["name"] in self.mod.globals_

    def call(self, n, out):
        raise Unsupported("call inside expression")

    def write_lv(self, lv, v, out):
        raise Unsupported("assignment inside expression")


class Mod:
    def __init__(self, repo, src, verif):
        self.repo, self.src = repo, src
        self.typedefs, self.records = {}, {}
        self.struct_defs, self.structs_order, self.struct_alias = {}, [], {}
        self.rom_arrays = {}
        self.globals_ = set()
        extra = ["-I%s/harness/platform" % verif, "-I%s/harness/rt" % verif]
        self.decls = c2coq.clang_ast(repo, src, "c", extra=extra)
        c2coq.Module.index(self, self.decls)
        for d in self.decls:
            if d.get("kind") == "VarDecl":
                self.globals_.add(d["name"])

    coqname = c2coq.Module.coqname

    def need_struct(self, name):
        raise Unsupported("struct %s" % name)


def const_int(n):
    while n["kind"] in ("ParenExpr", "ImplicitCastExpr", "ConstantExpr"):
        n = n["inner"][0]
    if n["kind"] == "IntegerLiteral":
        return int(n["value"])
    if n["kind"] == "DeclRefExpr" and n.get("referencedDecl", {}).get("kind") == "EnumConstantDecl":
        return {"VRT_RLX": 0, "VRT_ACQ": 1, "VRT_REL": 2, "VRT_ACQREL": 3}.get(n["referencedDecl"]["name"])
    return None


def src_text(lines, rng):
    try:
        b, e = rng["begin"], rng["end"]
        bo = b.get("offset") if "offset" in b else b.get("expansionLoc", {}).get("offset")
        return None
    except Exception:
        return None


def target_class(n):
    """Classify the pointer argument: last member name(s) in the expression."""
    names = []

    def walk(x):
        if x.get("kind") == "MemberExpr":
            names.append(x["name"])
        if x.get("kind") == "DeclRefExpr":
            names.append(x["referencedDecl"]["name"])
        for c in x.get("inner", []):
            walk(c)
    walk(n)
    return ".".join(names[:3]) if names else "?"


CTOR_FUNCS = ("nsync_note_new", "nsync_counter_new")


def extract_function(mod, fd):
    sites = []
    fname = fd["name"]
    effects = []      # (what, guards) for every call / store through a pointer in the constructors

    def line_of(n):
        loc = n.get("range", {}).get("begin", {})
        for key in ("expansionLoc", "spellingLoc"):
            if key in loc and "line" in loc[key]:
                return loc[key]["line"]
        return loc.get("line")

    cur_line = [fd.get("loc", {}).get("line", 0)]

    # locals initialised once by a pure expression and never reassigned are inlined into site expressions
    inits, dirty = {}, set()

    def has_site(n):
        if n.get("kind") == "CallExpr":
            return True      # initialisers containing any call are not inlined
        if n.get("kind") == "DeclRefExpr" and n.get("referencedDecl", {}).get("name") in ("vrt_cas", "vrt_load", "vrt_store"):
            return True
        return any(has_site(c) for c in n.get("inner", []) if isinstance(c, dict))

    def base_var(n):
        while n.get("kind") in ("ParenExpr", "ImplicitCastExpr"):
            n = n["inner"][0]
        if n.get("kind") == "DeclRefExpr":
            return n["referencedDecl"].get("id")
        return None

    def scan_decls(n):
        if not isinstance(n, dict):
            return
        k = n.get("kind")
        if k == "VarDecl" and n.get("init") and n.get("inner") and n.get("storageClass") != "static":
            if not has_site(n["inner"][-1]):
                inits[n["id"]] = n["inner"][-1]
        if k in ("BinaryOperator", "CompoundAssignOperator") and (n.get("opcode") == "=" or k == "CompoundAssignOperator"):
            v = base_var(n["inner"][0])
            if v:
                dirty.add(v)
        if k == "UnaryOperator" and n.get("opcode") in ("++", "--", "&"):
            v = base_var(n["inner"][0])
            if v:
                dirty.add(v)
        for c in n.get("inner", []):
            scan_decls(c)
    scan_decls(fd)
    inline = {i: e for i, e in inits.items() if i not in dirty}

    def visit(n, guards):
        if not isinstance(n, dict):
            return
        # track line numbers (clang omits 'line' when unchanged)
        loc = n.get("range", {}).get("begin", {})
        el = loc.get("expansionLoc", loc)
        if "line" in el:
            cur_line[0] = el["line"]
        k = n.get("kind")
        if k == "CallExpr":
            callee = n["inner"][0]
            while callee.get("kind") in ("ImplicitCastExpr", "ParenExpr"):
                callee = callee["inner"][0]
            cn = callee.get("referencedDecl", {}).get("name")
            if cn in ("vrt_cas", "vrt_load", "vrt_store"):
                args = n["inner"][1:]
                line = const_int(args[-1])
                if cn == "vrt_cas":
                    order = const_int(args[3]); newv = args[2]; oldv = args[1]
                elif cn == "vrt_load":
                    order = const_int(args[1]); newv = None; oldv = None
                else:
                    order = const_int(args[2]); newv = args[1]; oldv = None
                s = {"fn": fname, "kind": cn[4:], "order": ORDER.get(order, "?"), "line": line,
                     "target": target_class(args[0]), "guards": list(guards)}
                for nm, node in (("new", newv), ("old", oldv)):
                    if node is not None:
                        tr = ExprTr(mod, fname)
                        tr.inline = inline
                        out = []
                        try:
                            e = tr.rvalue(node, out)
                            if out:
                                raise Unsupported("side effect")
                            s[nm] = {"expr": e, "free": tr.free}
                        except Unsupported as ex:
                            s[nm] = {"error": str(ex)}
                sites.append(s)
                # the arguments themselves may contain further sites (not in nsync, but be safe)
                for a in args:
                    visit(a, guards)
                return
        if fname in CTOR_FUNCS:
            if k == "CallExpr":
                callee = n["inner"][0]
                while callee.get("kind") in ("ImplicitCastExpr", "ParenExpr"):
                    callee = callee["inner"][0]
                cn2 = callee.get("referencedDecl", {}).get("name", "?")
                if cn2 not in ("vrt_malloc", "malloc"):
                    effects.append(("call " + cn2, list(guards)))
            if k == "BinaryOperator" and n.get("opcode") == "=":
                lhs = n["inner"][0]
                while lhs.get("kind") in ("ParenExpr", "ImplicitCastExpr"):
                    lhs = lhs["inner"][0]
                if lhs.get("kind") == "MemberExpr" and lhs.get("isArrow"):
                    effects.append(("store ->" + lhs.get("name", "?"), list(guards)))
        if k == "IfStmt":
            inner = n["inner"]
            c = inner[0]
            visit(c, guards)
            g = cond_of(c)
            visit(inner[1], guards + [("+", g)])
            if len(inner) > 2:
                visit(inner[2], guards + [("-", g)])
            return
        if k in ("WhileStmt",):
            c, body = n["inner"][0], n["inner"][1]
            visit(c, guards)
            visit(body, guards + [("+", cond_of(c))])
            return
        if k == "BinaryOperator" and n.get("opcode") in ("&&", "||"):
            a, b = n["inner"]
            visit(a, guards)
            visit(b, guards + [("+" if n["opcode"] == "&&" else "-", cond_of(a))])
            return
        if k == "ConditionalOperator":
            c, a, b = n["inner"]
            visit(c, guards)
            visit(a, guards + [("+", cond_of(c))])
            visit(b, guards + [("-", cond_of(c))])
            return
        for ch in n.get("inner", []):
            visit(ch, guards)

    def cond_of(c):
        tr = ExprTr(mod, fname)
        tr.inline = inline
        out = []
        try:
            if contains_site(c):
                raise Unsupported("condition contains an atomic operation")
            e = tr.cond(c, out)
            if out:
                raise Unsupported("side effect")
            return {"expr": e, "free": tr.free}
        except Unsupported as ex:
            return {"error": str(ex)}

    def contains_site(n):
        if n.get("kind") == "DeclRefExpr" and n.get("referencedDecl", {}).get("name") in ("vrt_cas", "vrt_load", "vrt_store"):
            return True
        return any(contains_site(c) for c in n.get("inner", []) if isinstance(c, dict))

    body = [c for c in fd.get("inner", []) if c.get("kind") == "CompoundStmt"]
    if body:
        visit(body[0], [])
    if fname in CTOR_FUNCS:
        CTOR_EFFECTS[fname] = effects
    return sites


CTOR_EFFECTS = {}
MODS = {}       # source path -> parsed module (reused by gen/flow.py)


def extract_all(repo, verif):
    allsites = {}
    errors = []
    for src in FILES:
        try:
            mod = Mod(repo, src, verif)
        except Unsupported as e:
            errors.append("%s: %s" % (src, e))
            continue
        MODS[src] = mod
        for d in mod.decls:
            if d.get("kind") == "FunctionDecl" and any(c.get("kind") == "CompoundStmt" for c in d.get("inner", [])):
                floc = d.get("loc", {})
                if "includedFrom" in floc or floc.get("file", src).endswith(".h"):
                    pass
                ss = extract_function(mod, d)
                if ss:
                    allsites.setdefault(os.path.basename(src), []).extend(ss)
    return allsites, errors


def coq_ident(s):
    return re.sub(r"[^A-Za-z0-9_]", "_", s)


def emit(allsites, errors, out):
    """Gen/Sites.v: the inventory as data + one definition per translatable value/guard."""
    L = ["(* GENERATED by gen/sites.py from /repo -- do not edit *)",
         "From NsyncBase Require Import CSem.", "From Coq Require Import String.",
         "Local Open Scope Z_scope.", "Local Open Scope bool_scope.", "",
         "Record lock_type := mk_lock_type { lt_zero_to_acquire : Z; lt_add_to_acquire : Z; lt_held_if_non_zero : Z;",
         "  lt_set_when_waiting : Z; lt_clear_on_acquire : Z; lt_clear_on_uncontended_release : Z }.", "",
         "Inductive akind := Kcas | Kload | Kstore.", "Inductive aorder := Orlx | Oacq | Orel | Oacqrel.",
         "Record site := mk_site { s_fn : string; s_ord : nat; s_kind : akind; s_order : aorder; s_target : string; s_line : Z }.", ""]
    dropped = 0
    inv = []
    for fbase in sorted(allsites):
        byfn = {}
        for s in allsites[fbase]:
            byfn.setdefault(s["fn"], []).append(s)
        for fn, ss in byfn.items():
            for i, s in enumerate(ss, 1):
                base = "%s_%s%d" % (coq_ident(fn).rstrip("_"), s["kind"], sum(1 for t in ss[:i] if t["kind"] == s["kind"]))
                s["name"] = base
                inv.append((fbase, fn, i, s))
                for part in ("new", "old"):
                    if part in s and "expr" in s[part]:
                        fv = s[part]["free"]
                        params = " ".join("(%s : %s)" % (n, "lock_type" if k == "lock_type" else "Z") for n, k in fv)
                        L.append("Definition %s_%s %s : Z := %s." % (base, part, params, s[part]["expr"]))
                    elif part in s:
                        L.append("(* %s_%s not translated: %s *)" % (base, part, s[part]["error"].replace("*)", "* )")))
                gs = []
                fvs = []
                for pol, g in s["guards"]:
                    if "expr" in g:
                        gs.append(g["expr"] if pol == "+" else "(negb %s)" % g["expr"])
                        for v in g["free"]:
                            if v not in fvs:
                                fvs.append(v)
                    else:
                        dropped += 1
                if gs:
                    params = " ".join("(%s : %s)" % (n, "lock_type" if k == "lock_type" else "Z") for n, k in fvs)
                    L.append("Definition %s_guard %s : bool := %s." % (base, params, " && ".join(gs)))
    L.append("")
    for fbase in sorted(allsites):
        L.append("Definition sites_%s : list site := [" % coq_ident(fbase))
        rows = []
        for (fb, fn, i, s) in inv:
            if fb == fbase:
                rows.append('  mk_site "%s" %d K%s O%s "%s" %d' % (fn, i, s["kind"], s["order"], s["target"], s["line"] or 0))
        L.append(";\n".join(rows) + "].")
        L.append("")
    # C19: every call / store of the constructors after the allocation, with the translatable part of its guard
    L.append("(* constructors: effects after the allocation and the conditions that dominate them (variable = the fresh pointer) *)")
    for fn, effs in sorted(CTOR_EFFECTS.items()):
        rows = []
        for what, gs in effs:
            # keep the conjuncts that mention only the fresh pointer; a conjunct over other variables is dropped, which can only
            # weaken the guard (the effect is then considered reachable more often)
            ptr = "n" if fn == "nsync_note_new" else "c"
            conj = []
            for pol, g in gs:
                if "expr" in g and all(v[0] == ptr for v in g["free"]):
                    conj.append(g["expr"] if pol == "+" else "(negb %s)" % g["expr"])
            body = " && ".join(conj) if conj else "true"
            lam = "(fun (%s : Z) => %s)" % (ptr, body)
            rows.append('  ("%s"%%string, %s)' % (what, lam))
        L.append("Definition effects_%s : list (string * (Z -> bool)) := [" % coq_ident(fn))
        L.append(";\n".join(rows) + "].")
        L.append("")
    for e in errors:
        L.append("(* TRANSLATION ERROR: %s *)" % e)
    with open(out, "w") as f:
        f.write("\n".join(L) + "\n")
    # a JSON copy for the replayer (line -> site)
    js = [{"file": fb, "fn": fn, "ord": i, "name": s["name"], "kind": s["kind"], "order": s["order"],
           "target": s["target"], "line": s["line"]} for (fb, fn, i, s) in inv]
    json.dump(js, open(out[:-2] + ".json", "w"), indent=0)
    return dropped


if __name__ == "__main__":
    repo = sys.argv[1] if len(sys.argv) > 1 else "/repo"
    out = sys.argv[2] if len(sys.argv) > 2 else "/tmp/Sites.v"
    sites, errs = extract_all(repo, os.path.dirname(HERE))
    d = emit(sites, errs, out)
    print("sites:", sum(len(v) for v in sites.values()), "dropped guard conjuncts:", d, "errors:", errs)
