#!/usr/bin/env python3
"""Memory order of every ATM_* macro, per atomic.h flavour  ->  coq/Gen/Orders.v

The inventory coq/Gen/Sites.v is extracted from a build of the nsync sources against the harness' OWN
harness/platform/atomic.h (every ATM_* macro is a vrt_cas / vrt_load / vrt_store call carrying an order constant).
This script checks nothing itself: it extracts, from the text of each REAL platform header of /repo that states its
orders in the C11 / C++11 / GCC __atomic vocabulary, and from the harness header, the memory order each of the eight
macros passes (for a compare-and-swap: the SUCCESS order; the failure order is reported in a comment), and emits

    Definition atm_orders_<platform> : list (string * aorder)          (one per real header)
    Definition atm_orders_harness    : list (string * aorder)

so that Props/Properties_C03c.v can prove, by reflexivity, that each real table equals the harness table.
Anything that cannot be resolved (a macro missing, an order outside relaxed/acquire/release/acq_rel, a helper function
whose body names no order) is emitted as a Coq comment "ERROR ..." and the definition of that platform is NOT emitted,
so the Coq statement about it fails to compile.

Headers that define none of the macros themselves (platform/gcc/atomic.h only #includes gcc_old or gcc_new) and headers
that implement the operations with full barriers instead of C11 orders (gcc_old: __sync_*; clang, msvc, ...: not read)
are listed in a comment only.

usage: orders.py <repo> <out.v>      (harness header and vrt.h are found relative to this file)
"""
import os
import re
import sys

HERE = os.path.dirname(os.path.abspath(__file__))
VERIF = os.path.dirname(HERE)

MACROS = ["ATM_CAS", "ATM_CAS_ACQ", "ATM_CAS_REL", "ATM_CAS_RELACQ", "ATM_LOAD", "ATM_LOAD_ACQ", "ATM_STORE",
          "ATM_STORE_REL"]
# (relative path, Coq suffix, required)
PLATFORMS = [("platform/c11/atomic.h", "c11", True),
             ("platform/gcc_new/atomic.h", "gcc_new", True),
             ("platform/c++11/atomic.h", "cxx11", False),
             ("platform/gcc/atomic.h", "gcc", False)]

ORDER_TOKEN = re.compile(r"(?:std\s*::\s*)?memory_order_(\w+)|__ATOMIC_(\w+)")
C11_NAME = {"relaxed": "rlx", "acquire": "acq", "release": "rel", "acq_rel": "acqrel", "consume": "consume",
            "seq_cst": "seqcst"}
COQ = {"rlx": "Orlx", "acq": "Oacq", "rel": "Orel", "acqrel": "Oacqrel"}


def strip_comments(text):
    text = re.sub(r"/\*.*?\*/", " ", text, flags=re.S)
    text = re.sub(r"//[^\n]*", " ", text)
    return text


def join_continuations(text):
    return text.replace("\\\n", " ")


def macro_defs(text):
    """name -> (params or None, body) for every #define"""
    out = {}
    for m in re.finditer(r"^[ \t]*#[ \t]*define[ \t]+(\w+)(\(([^)]*)\))?[ \t]*(.*)$", text, flags=re.M):
        name, _, params, body = m.group(1), m.group(2), m.group(3), m.group(4)
        out[name] = ([p.strip() for p in params.split(",")] if params is not None else None, body.strip())
    return out


def function_bodies(text):
    """name -> body text of every function definition 'name (...) { ... }' at nesting depth 0 (one level of braces)"""
    out = {}
    for m in re.finditer(r"\b(\w+)\s*\(([^;{}()]*(?:\([^()]*\))?[^;{}()]*)\)\s*\{", text):
        i, depth = m.end(), 1
        while i < len(text) and depth:
            depth += {"{": 1, "}": -1}.get(text[i], 0)
            i += 1
        out.setdefault(m.group(1), text[m.end():i - 1])
    return out


def tokens_orders(s):
    res = []
    for m in ORDER_TOKEN.finditer(s):
        t = (m.group(1) or m.group(2)).lower()
        res.append(C11_NAME.get(t, "?" + t))
    return res


def split_args(s):
    args, depth, cur = [], 0, ""
    for ch in s:
        if ch == "," and depth == 0:
            args.append(cur.strip())
            cur = ""
        else:
            depth += {"(": 1, ")": -1}.get(ch, 0)
            cur += ch
    args.append(cur.strip())
    return args


def expand_once(body, defs):
    """expand the first function-like helper macro call in body (handles ## pasting); None when nothing to expand"""
    for m in re.finditer(r"\b(\w+)\s*\(", body):
        name = m.group(1)
        if name in defs and defs[name][0] is not None and name not in MACROS:
            i, depth = m.end(), 1
            while i < len(body) and depth:
                depth += {"(": 1, ")": -1}.get(body[i], 0)
                i += 1
            args = split_args(body[m.end():i - 1])
            params, mb = defs[name]
            if len(args) != len(params):
                return None
            sub = mb
            for p, a in zip(params, args):
                sub = re.sub(r"\s*##\s*" + re.escape(p) + r"\s*##\s*", a, sub)
                sub = re.sub(r"\s*##\s*" + re.escape(p) + r"\b", a, sub)
                sub = re.sub(r"\b" + re.escape(p) + r"\s*##\s*", a, sub)
                sub = re.sub(r"\b" + re.escape(p) + r"\b", a, sub)
            return body[:m.start()] + sub + body[i:]
    return None


def real_platform(path):
    """-> (table or None, failure-order table, errors, note)"""
    raw = open(path).read()
    text = join_continuations(strip_comments(raw))
    defs = macro_defs(text)
    funs = function_bodies(text)
    if not any(m in defs for m in MACROS):
        incs = re.findall(r'#\s*include\s+"([^"]*atomic\.h)"', text)
        return None, {}, [], "defines no ATM_* macro itself; includes " + (", ".join(incs) or "nothing relevant")
    table, fail, errs = {}, {}, []
    for mac in MACROS:
        if mac not in defs:
            errs.append("%s: not defined" % mac)
            continue
        body = defs[mac][1]
        for _ in range(8):
            nb = expand_once(body, defs)
            if nb is None:
                break
            body = nb
        orders = tokens_orders(body)
        if not orders:
            # a call of an inline helper function: take the orders its body names
            called = [f for f in re.findall(r"\b(\w+)\s*\(", body) if f in funs]
            if len(called) != 1:
                errs.append("%s: cannot resolve %r to one helper function" % (mac, body))
                continue
            orders = tokens_orders(funs[called[0]])
            body = body + "  /* " + called[0] + " */"
        want = 2 if "CAS" in mac else 1
        if len(orders) != want:
            errs.append("%s: expected %d memory order argument(s), found %r" % (mac, want, orders))
            continue
        if orders[0] not in COQ:
            errs.append("%s: order %r has no counterpart in the model (relaxed/acquire/release/acq_rel only)" % (mac, orders[0]))
            continue
        table[mac] = orders[0]
        if want == 2:
            fail[mac] = orders[1]
    return (table if not errs else None), fail, errs, ""


def harness_table():
    errs = []
    vrt_h = strip_comments(open(os.path.join(VERIF, "harness", "rt", "vrt.h")).read())
    consts = {}
    for m in re.finditer(r"\b(VRT_(?:RLX|ACQ|REL|ACQREL))\s*=\s*(\d+)", vrt_h):
        consts[m.group(1)] = int(m.group(2))
    sys.path.insert(0, HERE)
    try:
        import sites as sites_mod          # the very mapping int -> order name the site extractor uses
        order_names = dict(sites_mod.ORDER)
    except Exception as e:                 # pragma: no cover
        errs.append("cannot import gen/sites.py ORDER: %r" % (e,))
        order_names = {}
    text = join_continuations(strip_comments(open(os.path.join(VERIF, "harness", "platform", "atomic.h")).read()))
    defs = macro_defs(text)
    table = {}
    for mac in MACROS:
        if mac not in defs:
            errs.append("%s: not defined by the harness header" % mac)
            continue
        body = defs[mac][1]
        toks = re.findall(r"\bVRT_(?:RLX|ACQREL|ACQ|REL)\b", body)
        kind = "cas" if "CAS" in mac else ("load" if "LOAD" in mac else "store")
        if not re.search(r"\bvrt_%s\s*\(" % kind, body):
            errs.append("%s: harness body %r does not call vrt_%s" % (mac, body, kind))
            continue
        if len(toks) != 1 or toks[0] not in consts or consts[toks[0]] not in order_names:
            errs.append("%s: cannot resolve the order constant in %r" % (mac, body))
            continue
        table[mac] = order_names[consts[toks[0]]]
        if table[mac] not in COQ:
            errs.append("%s: order %r unknown" % (mac, table[mac]))
    return (table if not errs else None), errs


def coq_table(name, table):
    rows = ['  ("%s"%%string, %s)' % (m, COQ[table[m]]) for m in MACROS]
    return "Definition %s : list (string * aorder) := [\n%s].\n" % (name, ";\n".join(rows))


def main():
    if len(sys.argv) != 3:
        sys.stderr.write(__doc__)
        return 2
    repo, out = sys.argv[1], sys.argv[2]
    lines = ["(* GENERATED by gen/orders.py from %s/platform/*/atomic.h and harness/platform/atomic.h -- do not edit *)" % repo,
             "From NsyncGen Require Import Sites.", "From Coq Require Import String List.", "Import ListNotations.", ""]
    ok = True
    report = []
    names = []
    for rel, suffix, required in PLATFORMS:
        path = os.path.join(repo, rel)
        if not os.path.exists(path):
            msg = "%s: file not found" % rel
            lines.append("(* %s%s *)" % ("ERROR " if required else "", msg))
            ok = ok and not required
            continue
        table, fail, errs, note = real_platform(path)
        if table is None and not errs:
            lines.append("(* %s: %s *)" % (rel, note))
            report.append((rel, None, note))
            continue
        if errs:
            ok = False
            for e in errs:
                lines.append("(* ERROR %s: %s *)" % (rel, e.replace("*)", "* )")))
            report.append((rel, None, "; ".join(errs)))
            continue
        lines.append("(* %s   (compare-and-swap failure orders: %s) *)" %
                     (rel, ", ".join("%s %s" % (m, fail[m]) for m in MACROS if m in fail)))
        lines.append(coq_table("atm_orders_" + suffix, table))
        names.append("atm_orders_" + suffix)
        report.append((rel, table, ""))
    htable, herrs = harness_table()
    if htable is None:
        ok = False
        for e in herrs:
            lines.append("(* ERROR harness/platform/atomic.h: %s *)" % e.replace("*)", "* )"))
    else:
        lines.append("(* harness/platform/atomic.h: VRT_* constants of harness/rt/vrt.h through the ORDER table of gen/sites.py *)")
        lines.append(coq_table("atm_orders_harness", htable))
        report.append(("harness/platform/atomic.h", htable, ""))
    lines.append("(* the real platform tables emitted above *)")
    lines.append("Definition atm_orders_real : list (string * list (string * aorder)) := [%s]." %
                 "; ".join('("%s"%%string, %s)' % (n[len("atm_orders_"):], n) for n in names))
    open(out, "w").write("\n".join(lines) + "\n")
    for rel, table, note in report:
        if table is None:
            print("%-32s %s" % (rel, note))
        else:
            print("%-32s %s" % (rel, " ".join("%s=%s" % (m[4:], table[m]) for m in MACROS)))
    return 0 if ok else 1


if __name__ == "__main__":
    sys.exit(main())
