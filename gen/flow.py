#!/usr/bin/env python3
"""flow.py: the control skeleton of every nsync function BETWEEN its atomic sites, extracted from clang's AST.

For each function the nodes are ENTRY, EXIT, its atomic sites `s<i>` (i = the site's ordinal in Gen/Sites.v) and its calls
`c:<callee>` to functions that contain atomic sites themselves (directly or through their callees) or go through a function
pointer (`c:*<name>`).  An edge (a, b) says: some path of the function's control-flow graph executes b next after a, with no
other node in between.  Short-circuit operators, ?:, if/while/do/for, break/continue/return are followed; conditions that are
integer literals are folded (`do { } while (0)`, `for (;;)`), nothing else is.

The relation is emitted as Gen/Flow.v (`flow_<file> : list (string * string * string)`), pinned in Model/FlowExpected.v and
compared by Proof/FlowPinned_<file>.v: a change of the code's control structure between atomic operations that keeps the site
inventory intact (a dropped re-check, a loop turned into an `if`, an early return) breaks the pin of that file, i.e. the licence
of the hand-written model skeletons that were validated against the OLD structure.  The relation itself is validated on every run
against the executed traces (lib/flowcheck.py: every observed successor pair must be in it).
"""
import os, sys, json, re

SITE_FUNCS = ("vrt_cas", "vrt_load", "vrt_store")


def skip_casts(n):
    while isinstance(n, dict) and n.get("kind") in ("ImplicitCastExpr", "ParenExpr", "CStyleCastExpr", "ConstantExpr"):
        n = n["inner"][0]
    return n


def callee_name(call):
    c = skip_casts(call["inner"][0])
    if c.get("kind") == "UnaryOperator" and c.get("opcode") == "*":
        c = skip_casts(c["inner"][0])
    if c.get("kind") == "DeclRefExpr" and c.get("referencedDecl", {}).get("kind") == "FunctionDecl":
        return c["referencedDecl"]["name"]
    # through a pointer: the last member / variable name
    names = []

    def walk(x):
        if isinstance(x, dict):
            if x.get("kind") == "MemberExpr":
                names.append(x["name"])
            elif x.get("kind") == "DeclRefExpr":
                names.append(x["referencedDecl"]["name"])
            for ch in x.get("inner", []):
                walk(ch)
    walk(c)
    return "*" + (names[0] if names else "?")


def const_truth(n):
    n = skip_casts(n)
    if isinstance(n, dict) and n.get("kind") == "IntegerLiteral":
        return int(n["value"]) != 0
    return None


def number_sites(fd):
    """DFS preorder over `inner`, the order gen/sites.py uses: id(node) -> ordinal."""
    ids = {}

    def walk(n):
        if not isinstance(n, dict):
            return
        if n.get("kind") == "CallExpr":
            c = skip_casts(n["inner"][0])
            if c.get("kind") == "DeclRefExpr" and c.get("referencedDecl", {}).get("name") in SITE_FUNCS:
                ids[id(n)] = len(ids) + 1
        for ch in n.get("inner", []):
            walk(ch)
    walk(fd)
    return ids


def direct_info(fd):
    """(has atomic sites, set of named callees, has pointer calls)"""
    has, callees = [False], set()

    def walk(n):
        if not isinstance(n, dict):
            return
        if n.get("kind") == "CallExpr":
            cn = callee_name(n)
            if cn in SITE_FUNCS:
                has[0] = True
            else:
                callees.add(cn)
        for ch in n.get("inner", []):
            walk(ch)
    walk(fd)
    return has[0], callees


class Ctx:
    def __init__(self):
        self.breaks, self.conts = set(), set()


def flow_function(fd, interesting):
    ids = number_sites(fd)
    edges = set()

    def add(front, node):
        for f in front:
            edges.add((f, node))
        return {node}

    def expr(n, front):
        if not isinstance(n, dict) or not n:
            return front
        k = n.get("kind")
        if k == "CallExpr":
            cn = callee_name(n)
            c0 = skip_casts(n["inner"][0])
            if not (c0.get("kind") == "DeclRefExpr"):
                front = expr(n["inner"][0], front)
            for a in n["inner"][1:]:
                front = expr(a, front)
            if id(n) in ids:
                return add(front, "s%d" % ids[id(n)])
            if cn.startswith("*") or cn in interesting:
                return add(front, "c:" + cn)
            return front
        if k == "BinaryOperator" and n.get("opcode") in ("&&", "||"):
            a, b = n["inner"]
            fa = expr(a, front)
            tv = const_truth(a)
            if tv is not None and ((n["opcode"] == "&&") != tv):
                return fa            # b is never evaluated
            fb = expr(b, fa)
            return fb if (tv is not None) else (fa | fb)
        if k == "ConditionalOperator":
            c, a, b = n["inner"]
            fc = expr(c, front)
            tv = const_truth(c)
            if tv is True:
                return expr(a, fc)
            if tv is False:
                return expr(b, fc)
            return expr(a, fc) | expr(b, fc)
        if k == "StmtExpr":
            return stmt(n["inner"][0], front, Ctx())
        if k in ("CompoundStmt", "IfStmt", "WhileStmt", "DoStmt", "ForStmt", "ReturnStmt", "DeclStmt"):
            return stmt(n, front, Ctx())
        for ch in n.get("inner", []):
            front = expr(ch, front)
        return front

    def loop(front, cond, body, inc, ctx_outer, body_first):
        entry = set(front)
        while True:
            ctx = Ctx()
            tv = const_truth(cond) if cond else True
            if body_first:
                b_out = stmt(body, entry, ctx)
                c_in = b_out | ctx.conts
                c_out = expr(cond, c_in) if cond else c_in
                back = c_out if tv is not False else set()
                exit_ = (c_out if tv is not True else set()) | ctx.breaks
                new_entry = set(front) | back
            else:
                c_out = expr(cond, entry) if cond else entry
                b_out = stmt(body, c_out if tv is not False else set(), ctx)
                i_in = b_out | ctx.conts
                i_out = expr(inc, i_in) if inc else i_in
                exit_ = (c_out if tv is not True else set()) | ctx.breaks
                new_entry = set(front) | i_out
            if new_entry == entry:
                return exit_
            entry = new_entry

    def stmt(n, front, ctx):
        if not isinstance(n, dict) or not n:
            return front
        k = n.get("kind")
        if k == "CompoundStmt":
            for ch in n.get("inner", []):
                front = stmt(ch, front, ctx)
            return front
        if k == "IfStmt":
            inner = n["inner"]
            fc = expr(inner[0], front)
            tv = const_truth(inner[0])
            ft = stmt(inner[1], fc, ctx) if tv is not False else set()
            fe = (stmt(inner[2], fc, ctx) if len(inner) > 2 else fc) if tv is not True else set()
            return ft | fe
        if k == "WhileStmt":
            return loop(front, n["inner"][0], n["inner"][1], None, ctx, False)
        if k == "DoStmt":
            return loop(front, n["inner"][1], n["inner"][0], None, ctx, True)
        if k == "ForStmt":
            init, _cv, cond, inc, body = (n["inner"] + [{}] * 5)[:5]
            front = stmt(init, front, ctx) if init else front
            return loop(front, cond or None, body, inc or None, ctx, False)
        if k == "ReturnStmt":
            for ch in n.get("inner", []):
                front = expr(ch, front)
            add(front, "EXIT")
            return set()
        if k == "BreakStmt":
            ctx.breaks |= front
            return set()
        if k == "ContinueStmt":
            ctx.conts |= front
            return set()
        if k == "DeclStmt":
            for d in n.get("inner", []):
                if d.get("kind") == "VarDecl" and d.get("init"):
                    front = expr(d["inner"][-1], front)
            return front
        if k in ("NullStmt",):
            return front
        if k in ("SwitchStmt", "GotoStmt", "LabelStmt"):
            raise ValueError("unsupported statement %s" % k)
        return expr(n, front)

    body = [c for c in fd.get("inner", []) if c.get("kind") == "CompoundStmt"]
    if not body:
        return None
    out = stmt(body[0], {"ENTRY"}, Ctx())
    add(out, "EXIT")
    return sorted(edges, key=lambda e: (key(e[0]), key(e[1])))


def key(lbl):
    if lbl == "ENTRY":
        return (0, 0, "")
    if lbl == "EXIT":
        return (3, 0, "")
    if lbl.startswith("s"):
        return (1, int(lbl[1:]), "")
    return (2, 0, lbl)


def extract(mods):
    """mods: {source path: sites.Mod}.  Returns ({file base: [(fn, a, b)]}, errors)."""
    fns = {}
    for src, mod in mods.items():
        for d in mod.decls:
            if d.get("kind") == "FunctionDecl" and any(c.get("kind") == "CompoundStmt" for c in d.get("inner", [])):
                fns.setdefault(d["name"], (src, d))
    info = {name: direct_info(fd) for name, (src, fd) in fns.items()}
    interesting = {n for n, (has, _) in info.items() if has}
    changed = True
    while changed:
        changed = False
        for n, (has, callees) in info.items():
            if n not in interesting and any(c in interesting or c.startswith("*") for c in callees):
                interesting.add(n)
                changed = True
    flows, errors = {}, []
    for name, (src, fd) in sorted(fns.items()):
        if name not in interesting:
            continue
        try:
            ed = flow_function(fd, interesting)
        except ValueError as e:
            errors.append("%s: %s" % (name, e))
            continue
        if ed:
            flows.setdefault(os.path.basename(src), []).extend((name, a, b) for a, b in ed)
    return flows, errors


def coq_ident(s):
    return re.sub(r"[^A-Za-z0-9_]", "_", s)


def emit(flows, errors, out, prefix="flow_", header="(* GENERATED by gen/flow.py from /repo -- do not edit *)"):
    L = [header, "From Coq Require Import String List.", "Import ListNotations.", "Local Open Scope string_scope.", ""]
    for fb in sorted(flows):
        L.append("Definition %s%s : list (string * string * string) := [" % (prefix, coq_ident(fb)))
        L.append(";\n".join('  ("%s", "%s", "%s")' % e for e in flows[fb]) + "].")
        L.append("")
    for e in errors:
        L.append("(* TRANSLATION ERROR: %s *)" % e)
    open(out, "w").write("\n".join(L) + "\n")
    json.dump({fb: flows[fb] for fb in flows}, open(out[:-2] + ".json", "w"))


if __name__ == "__main__":
    HERE = os.path.dirname(os.path.abspath(__file__))
    sys.path.insert(0, HERE)
    import sites
    repo = sys.argv[1] if len(sys.argv) > 1 else "/repo"
    out = sys.argv[2] if len(sys.argv) > 2 else "/tmp/Flow.v"
    mods = {src: sites.Mod(repo, src, os.path.dirname(HERE)) for src in sites.FILES}
    flows, errs = extract(mods)
    emit(flows, errs, out)
    print("edges:", sum(len(v) for v in flows.values()), "functions:", len({(fb, e[0]) for fb in flows for e in flows[fb]}), "errors:", errs)
