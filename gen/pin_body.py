#!/usr/bin/env python3
"""pin_body.py: (re)write coq/Model/BodyExpected.v (+ .json, kept for naming the changed functions) and coq/Proof/BodyPinned_<file>.v
from the CURRENT coq/Gen/Body.json.  Run by hand, once, after the models have been (re)validated against legitimately changed code
(lock-step replay of every scenario family) -- never by a check."""
import os, sys, json
HERE = os.path.dirname(os.path.abspath(__file__))
sys.path.insert(0, HERE)
import body
COQ = os.path.join(os.path.dirname(HERE), "coq")
bodies = json.load(open(os.path.join(COQ, "Gen", "Body.json")))
bodies = {fb: [tuple(e) for e in es] for fb, es in bodies.items()}
body.emit(bodies, os.path.join(COQ, "Model", "BodyExpected.v"), prefix="expected_body_",
          header="(* PINNED copy of Gen/Body.v (written by gen/pin_body.py): the digests of the function bodies against which the\n"
                 "   hand-written model skeletons were validated. *)")
for fb in bodies:
    ident = body.coq_ident(fb)
    with open(os.path.join(COQ, "Proof", "BodyPinned_%s.v" % ident), "w") as f:
        f.write("(* The code of every function of %s, regenerated from /repo on this run (digest of its AST), is the code the models were validated against. *)\n" % fb)
        f.write("From Coq Require Import String List.\nFrom NsyncGen Require Import Body.\nFrom NsyncModel Require Import BodyExpected.\n\n")
        f.write("Lemma body_current_%s : body_%s = expected_body_%s.\nProof. vm_compute. reflexivity. Qed.\n" % (ident, ident, ident))
print("pinned", sum(len(v) for v in bodies.values()), "functions of", len(bodies), "files")
