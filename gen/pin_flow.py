#!/usr/bin/env python3
"""pin_flow.py: (re)write coq/Model/FlowExpected.v and coq/Proof/FlowPinned_<file>.v from the CURRENT coq/Gen/Flow.json.
Run by hand, once, after the models have been (re)validated against a legitimately changed control structure -- never by a check."""
import os, sys, json
HERE = os.path.dirname(os.path.abspath(__file__))
sys.path.insert(0, HERE)
import flow
COQ = os.path.join(os.path.dirname(HERE), "coq")
flows = json.load(open(os.path.join(COQ, "Gen", "Flow.json")))
flows = {fb: [tuple(e) for e in es] for fb, es in flows.items()}
flow.emit(flows, [], os.path.join(COQ, "Model", "FlowExpected.v"), prefix="expected_flow_",
          header="(* PINNED copy of Gen/Flow.v (written by gen/pin_flow.py): the control structure between atomic sites against which the\n"
                 "   hand-written model skeletons were validated. *)")
os.remove(os.path.join(COQ, "Model", "FlowExpected.json"))
for fb in flows:
    ident = flow.coq_ident(fb)
    with open(os.path.join(COQ, "Proof", "FlowPinned_%s.v" % ident), "w") as f:
        f.write("(* The control structure of %s between its atomic sites, regenerated from /repo on this run, is the pinned one. *)\n" % fb)
        f.write("From Coq Require Import String List.\nFrom NsyncGen Require Import Flow.\nFrom NsyncModel Require Import FlowExpected.\n\n")
        f.write("Lemma flow_current_%s : flow_%s = expected_flow_%s.\nProof. vm_compute. reflexivity. Qed.\n" % (ident, ident, ident))
print("pinned", sum(len(v) for v in flows.values()), "edges of", len(flows), "files")
