#!/usr/bin/env python3
"""c2coq: translate a small, explicitly delimited subset of C/C++ function
bodies (as clang's JSON AST presents them) into shallow Gallina definitions.

Integers are Z with an explicit wrap to the width/signedness clang reports for
every arithmetic node (CSem.wrap_s / wrap_u).  Structs become records, struct
objects reached through pointers live in per-struct heaps `Z -> record`, char
arrays in `mem : Z -> Z` (writable) or `rom : Z -> Z` (pointer-to-const).
Anything outside the subset raises Unsupported: the caller turns that into a
failed proof obligation, never into a silently wrong model.
"""
import json, subprocess, sys, os, re

class Unsupported(Exception):
    pass

C_INC = ["platform/linux", "platform/gcc", "platform/posix", "platform/x86_64", "public", "internal"]
CXX_INC = ["platform/c++11.futex", "platform/c++11", "platform/gcc", "platform/posix",
           "platform/x86_64", "public", "internal"]
CXX_DEFS = ["-DNSYNC_USE_CPP11_TIMEPOINT", "-DNSYNC_ATOMIC_CPP11"]


def clang_ast(repo, src, lang, filters=None, extra=None):
    """Return list of top-level decl nodes."""
    if lang == "c":
        cmd = ["clang", "-x", "c", "-fsyntax-only", "-w"] + (extra or []) + ["-I%s/%s" % (repo, i) for i in C_INC]
    else:
        cmd = ["clang++", "-x", "c++", "-std=c++11", "-fsyntax-only", "-w"] + CXX_DEFS + \
              ["-I%s/%s" % (repo, i) for i in CXX_INC]
    cmd += ["-Xclang", "-ast-dump=json"]
    docs = []
    if filters:
        for f in filters:
            out = subprocess.run(cmd + ["-Xclang", "-ast-dump-filter=" + f, os.path.join(repo, src)],
                                 capture_output=True, text=True)
            if out.returncode != 0:
                raise Unsupported("clang failed on %s: %s" % (src, out.stderr[:400]))
            dec = json.JSONDecoder()
            s = out.stdout
            i = 0
            while i < len(s):
                while i < len(s) and s[i].isspace():
                    i += 1
                if i >= len(s):
                    break
                o, i = dec.raw_decode(s, i)
                docs.append(o)
    else:
        out = subprocess.run(cmd + [os.path.join(repo, src)], capture_output=True, text=True)
        if out.returncode != 0:
            raise Unsupported("clang failed on %s: %s" % (src, out.stderr[:400]))
        docs = json.loads(out.stdout)["inner"]
    return docs


INT_TYPES = {
    "int": ("s", 32), "unsigned int": ("u", 32), "long": ("s", 64), "unsigned long": ("u", 64),
    "long long": ("s", 64), "unsigned long long": ("u", 64), "char": ("s", 8),
    "signed char": ("s", 8), "unsigned char": ("u", 8), "short": ("s", 16),
    "unsigned short": ("u", 16), "bool": ("u", 1), "_Bool": ("u", 1),
}


def strip_quals(t):
    t = re.sub(r"\b(const|volatile|restrict)\b", "", t)
    return re.sub(r"\s+", " ", t).strip()


class TypeInfo:
    def __init__(self, tnode, typedefs):
        q = tnode.get("desugaredQualType", tnode.get("qualType"))
        self.raw = q
        q0 = strip_quals(q)
        # resolve typedef chains by name if clang left one
        seen = 0
        while q0 in typedefs and seen < 10:
            q0 = strip_quals(typedefs[q0]); seen += 1
        self.q = q0
        self.is_ptr = q0.endswith("*")
        self.is_array = q0.endswith("]")
        self.int = INT_TYPES.get(q0)
        self.struct = None
        m = re.match(r"^(struct )?([A-Za-z_][A-Za-z0-9_]*)$", q0)
        if not self.int and not self.is_ptr and not self.is_array and m:
            self.struct = m.group(2)
        self.pointee_const = False
        self.pointee = None
        if self.is_ptr:
            base = q[:q.rstrip().rfind("*")].strip()
            self.pointee_const = bool(re.search(r"\bconst\b", base))
            p0 = strip_quals(base)
            seen = 0
            while p0 in typedefs and seen < 10:
                p0 = strip_quals(typedefs[p0]); seen += 1
            self.pointee = p0


class FuncTr:
    """Translate one FunctionDecl."""

    def __init__(self, mod, fdecl):
        self.mod = mod
        self.f = fdecl
        self.name = fdecl["name"]
        self.tmp = 0
        self.locals = {}     # id -> coq name

    # ---------- helpers
    def ti(self, n):
        return TypeInfo(n["type"], self.mod.typedefs)

    def fresh(self, base="t"):
        self.tmp += 1
        return "%s_%d" % (base, self.tmp)

    def wrap(self, n, e):
        t = self.ti(n)
        if t.int:
            sg, w = t.int
            if w == 1:
                return e
            return "(wrap_%s %d %s)" % (sg, w, e)
        if t.is_ptr:
            return e
        raise Unsupported("arithmetic at type %s in %s" % (t.raw, self.name))

    def skip(self, n):
        """Strip wrappers that carry no semantics."""
        while n["kind"] in ("ParenExpr", "ConstantExpr", "ExprWithCleanups", "MaterializeTemporaryExpr",
                            "CXXFunctionalCastExpr", "CXXBindTemporaryExpr") or \
                (n["kind"] in ("ImplicitCastExpr", "CStyleCastExpr", "CXXStaticCastExpr") and
                 n.get("castKind") in ("NoOp", "LValueToRValue", "FunctionToPointerDecay",
                                       "ConstructorConversion")):
            if n["kind"] in ("ImplicitCastExpr",) and n.get("castKind") == "LValueToRValue":
                break
            n = n["inner"][0]
        return n

    # ---------- lvalues.  An lvalue is ('var', name) | ('field', lv, fname, structname)
    #             | ('heapfield', struct, addrExpr, fname) | ('mem', space, addrExpr)
    def lvalue(self, n, out):
        n = self.skip(n)
        k = n["kind"]
        if k == "DeclRefExpr":
            rid = n["referencedDecl"]["id"]
            if rid in self.locals:
                return ("var", self.locals[rid])
            raise Unsupported("lvalue refers to non-local %s" % n["referencedDecl"].get("name"))
        if k == "MemberExpr":
            base = n["inner"][0]
            fname = n["name"]
            if n.get("isArrow"):
                bt = self.ti(base)
                st = re.sub(r"^struct ", "", bt.pointee or "")
                st = self.mod.struct_alias.get(st, st)
                self.mod.need_struct(st)
                a = self.rvalue(base, out)
                self.uses_heap.add(st)
                return ("heapfield", st, a, fname)
            else:
                blv = self.lvalue(base, out)
                bt = self.ti(base)
                self.mod.need_struct(bt.struct)
                return ("field", blv, fname, bt.struct)
        if k == "UnaryOperator" and n["opcode"] == "*":
            p = n["inner"][0]
            pt = self.ti(p)
            a = self.rvalue(p, out)
            return self.mem_lv(pt, a)
        if k == "ArraySubscriptExpr":
            b, i = n["inner"]
            bt = self.ti(self.skip_decay(b))
            a = self.rvalue(b, out)
            iv = self.rvalue(i, out)
            pt = self.ti(b)
            return self.mem_lv(pt, "(%s + %s)" % (a, iv))
        raise Unsupported("lvalue kind %s in %s" % (k, self.name))

    def skip_decay(self, n):
        while n["kind"] in ("ImplicitCastExpr", "ParenExpr") and n.get("castKind") in (None, "ArrayToPointerDecay", "NoOp"):
            n = n["inner"][0]
        return n

    def mem_lv(self, pt, a):
        if pt.pointee in ("char", "unsigned char", "signed char"):
            space = "rom" if pt.pointee_const else "mem"
            if space == "mem":
                self.uses_heap.add("mem")
            return ("mem", space, a)
        st = re.sub(r"^struct ", "", pt.pointee or "")
        raise Unsupported("deref of pointer to %s in %s" % (pt.pointee, self.name))

    def read_lv(self, lv):
        if lv[0] == "var":
            return lv[1]
        if lv[0] == "field":
            return "(%s_%s %s)" % (lv[3], lv[2], self.read_lv(lv[1]))
        if lv[0] == "heapfield":
            return "(%s_%s (h_%s %s))" % (lv[1], lv[3], lv[1], lv[2])
        if lv[0] == "mem":
            return "(%s %s)" % (lv[1], lv[2])
        raise Unsupported("read_lv")

    def write_lv(self, lv, v, out):
        if lv[0] == "var":
            out.append(("let", lv[1], v))
        elif lv[0] == "field":
            newv = "(set_%s_%s %s %s)" % (lv[3], lv[2], self.read_lv(lv[1]), v)
            self.write_lv(lv[1], newv, out)
        elif lv[0] == "heapfield":
            st = lv[1]
            out.append(("let", "h_" + st,
                        "(upd h_%s %s (set_%s_%s (h_%s %s) %s))" % (st, lv[2], st, lv[3], st, lv[2], v)))
            self.writes_heap.add(st)
        elif lv[0] == "mem":
            if lv[1] != "mem":
                raise Unsupported("store through pointer to const")
            out.append(("let", "mem", "(upd mem %s %s)" % (lv[2], v)))
            self.writes_heap.add("mem")
        else:
            raise Unsupported("write_lv")

    # ---------- rvalues (Z-valued)
    def rvalue(self, n, out):
        n = self.skip(n)
        k = n["kind"]
        if k == "IntegerLiteral":
            return "(%s)" % n["value"]
        if k == "CharacterLiteral":
            return "(%s)" % n["value"]
        if k == "CXXBoolLiteralExpr":
            return "(%d)" % (1 if n["value"] else 0)
        if k in ("GNUNullExpr", "CXXNullPtrLiteralExpr"):
            return "0"
        if k in ("ImplicitCastExpr", "CStyleCastExpr", "CXXStaticCastExpr"):
            ck = n.get("castKind")
            sub = n["inner"][0]
            if ck == "LValueToRValue":
                st = self.ti(n)
                lv = self.lvalue(sub, out)
                return self.read_lv(lv)
            if ck == "IntegralCast":
                e = self.rvalue(sub, out)
                src = self.ti(sub)
                dst = self.ti(n)
                if src.int and dst.int and self.fits(src.int, dst.int):
                    return e
                return self.wrap(n, e)
            if ck == "IntegralToBoolean":
                return "(b2z (znz %s))" % self.rvalue(sub, out)
            if ck in ("NullToPointer",):
                return "0"
            if ck in ("BitCast", "NoOp", "PointerToIntegral", "IntegralToPointer"):
                return self.rvalue(sub, out)
            if ck == "ArrayToPointerDecay":
                s2 = self.skip(sub)
                if s2["kind"] == "DeclRefExpr":
                    rid = s2["referencedDecl"]["id"]
                    if rid in self.mod.rom_arrays:
                        return "(%d)" % self.mod.rom_arrays[rid][0]
                raise Unsupported("array decay of %s" % s2["kind"])
            if ck == "ToVoid":
                self.rvalue(sub, out)
                return "0"
            raise Unsupported("cast %s in %s" % (ck, self.name))
        if k == "DeclRefExpr" or k == "MemberExpr" or k == "ArraySubscriptExpr":
            # an lvalue used where clang did not insert LValueToRValue (C++ struct copies)
            lv = self.lvalue(n, out)
            return self.read_lv(lv)
        if k == "CXXConstructExpr":
            if len(n.get("inner", [])) == 1:
                return self.rvalue(n["inner"][0], out)
            t = self.ti(n)
            if len(n.get("inner", [])) == 0 and t.struct:
                self.mod.need_struct(t.struct)
                return "zero_%s" % t.struct
            raise Unsupported("constructor with %d args" % len(n.get("inner", [])))
        if k == "UnaryExprOrTypeTraitExpr":
            if n.get("name") == "sizeof":
                if "argType" in n:
                    t = TypeInfo(n["argType"], self.mod.typedefs)
                else:
                    t = self.ti(self.skip(n["inner"][0]))
                m = re.match(r".*\[(\d+)\]$", t.q)
                if m and re.match(r"^(char|unsigned char|signed char)\b", t.q):
                    return "(%s)" % m.group(1)
                if t.int:
                    return "(%d)" % (t.int[1] // 8)
            raise Unsupported("sizeof")
        if k == "BinaryOperator":
            op = n["opcode"]
            a, b = n["inner"]
            if op == "=":
                lv = self.lvalue(a, out)
                v = self.rvalue(b, out)
                tv = self.fresh("v")
                out.append(("let", tv, v))
                self.write_lv(lv, tv, out)
                return tv
            if op == ",":
                self.rvalue(a, out)
                return self.rvalue(b, out)
            if op in ("<", ">", "<=", ">=", "==", "!=", "&&", "||"):
                return "(b2z %s)" % self.cond(n, out)
            ea = self.rvalue(a, out)
            eb = self.rvalue(b, out)
            return self.arith(n, op, ea, eb, a, b)
        if k == "CompoundAssignOperator":
            op = n["opcode"][:-1]
            a, b = n["inner"]
            lv = self.lvalue(a, out)
            eb = self.rvalue(b, out)
            ea = self.read_lv(lv)
            ct = TypeInfo(n["computeResultType"], self.mod.typedefs)
            lt = self.ti(a)
            if not (ct.int and lt.int and ct.int == lt.int):
                raise Unsupported("compound assignment with conversion (%s vs %s)" % (ct.raw, lt.raw))
            v = self.arith(n, op, ea, eb, a, b)
            tv = self.fresh("v")
            out.append(("let", tv, v))
            self.write_lv(lv, tv, out)
            return tv
        if k == "UnaryOperator":
            op = n["opcode"]
            sub = n["inner"][0]
            if op in ("++", "--"):
                lv = self.lvalue(sub, out)
                old = self.fresh("o")
                out.append(("let", old, self.read_lv(lv)))
                t = self.ti(sub)
                delta = "1"
                newv = "(%s %s %s)" % (old, "+" if op == "++" else "-", delta)
                newv = self.wrap(sub, newv)
                nv = self.fresh("v")
                out.append(("let", nv, newv))
                self.write_lv(lv, nv, out)
                return old if n.get("isPostfix") else nv
            if op == "!":
                return "(b2z %s)" % self.cond(n, out)
            if op == "-":
                return self.wrap(n, "(- %s)" % self.rvalue(sub, out))
            if op == "+":
                return self.rvalue(sub, out)
            if op == "&":
                s2 = self.skip(sub)
                if s2["kind"] == "ArraySubscriptExpr":
                    b0, i0 = s2["inner"]
                    return "(%s + %s)" % (self.rvalue(b0, out), self.rvalue(i0, out))
                raise Unsupported("address-of %s" % s2["kind"])
            if op == "*":
                lv = self.lvalue(n, out)
                return self.read_lv(lv)
            if op == "~":
                t = self.ti(n)
                if t.int and t.int[0] == "u":
                    return "(%d - %s)" % (2 ** t.int[1] - 1, self.rvalue(sub, out))
                if t.int:
                    return "(-1 - %s)" % self.rvalue(sub, out)
            raise Unsupported("unary %s" % op)
        if k == "ConditionalOperator":
            c, a, b = n["inner"]
            cc = self.cond(c, out)
            oa, ob = [], []
            ea = self.rvalue(a, oa)
            eb = self.rvalue(b, ob)
            if oa or ob:
                raise Unsupported("side effect in ?: arm")
            return "(if %s then %s else %s)" % (cc, ea, eb)
        if k == "CallExpr":
            return self.call(n, out)
        raise Unsupported("expression kind %s in %s" % (k, self.name))

    def fits(self, src, dst):
        (ss, sw), (ds, dw) = src, dst
        if sw == 1:
            return True
        if ss == ds:
            return sw <= dw
        if ss == "u" and ds == "s":
            return sw < dw
        return False

    def arith(self, n, op, ea, eb, a, b):
        ta, tb = self.ti(a), self.ti(b)
        if op in ("+", "-") and (ta.is_ptr or tb.is_ptr):
            if ta.is_ptr and tb.is_ptr:
                raise Unsupported("pointer difference")
            pt = ta if ta.is_ptr else tb
            if pt.pointee not in ("char", "unsigned char", "signed char"):
                raise Unsupported("pointer arithmetic on %s" % pt.pointee)
            return "(%s %s %s)" % (ea, op, eb)
        if op in ("+", "-", "*"):
            return self.wrap(n, "(%s %s %s)" % (ea, op, eb))
        if op == "/":
            return self.wrap(n, "(Z.quot %s %s)" % (ea, eb))
        if op == "%":
            return self.wrap(n, "(Z.rem %s %s)" % (ea, eb))
        t = self.ti(n)
        if op in ("&", "|", "^") and t.int:
            f = {"&": "Z.land", "|": "Z.lor", "^": "Z.lxor"}[op]
            return self.wrap(n, "(%s %s %s)" % (f, ea, eb))
        if op == "<<" and t.int:
            return self.wrap(n, "(Z.shiftl %s %s)" % (ea, eb))
        if op == ">>" and t.int:
            return self.wrap(n, "(Z.shiftr %s %s)" % (ea, eb))
        raise Unsupported("binary %s" % op)

    # ---------- conditions (bool-valued)
    def cond(self, n, out):
        n = self.skip(n)
        k = n["kind"]
        if k in ("ImplicitCastExpr", "CStyleCastExpr") and n.get("castKind") in (
                "IntegralToBoolean", "PointerToBoolean"):
            return "(znz %s)" % self.rvalue(n["inner"][0], out)
        if k in ("ImplicitCastExpr",) and n.get("castKind") == "IntegralCast":
            # C++: bool -> int of a comparison
            sub = self.skip(n["inner"][0])
            if sub["kind"] in ("BinaryOperator", "UnaryOperator"):
                st = self.ti(sub)
                if st.int and st.int[1] == 1:
                    return self.cond(sub, out)
        if k == "BinaryOperator":
            op = n["opcode"]
            a, b = n["inner"]
            if op in ("&&", "||"):
                ca = self.cond(a, out)
                ob = []
                cb = self.cond(b, ob)
                if ob:
                    raise Unsupported("side effect on the right of %s" % op)
                return "(%s %s %s)" % (ca, "&&" if op == "&&" else "||", cb)
            if op in ("<", ">", "<=", ">=", "==", "!="):
                ea = self.rvalue(a, out)
                eb = self.rvalue(b, out)
                cop = {"<": "<?", ">": ">?", "<=": "<=?", ">=": ">=?", "==": "=?"}.get(op)
                if op == "!=":
                    return "(negb (%s =? %s))" % (ea, eb)
                return "(%s %s %s)" % (ea, cop, eb)
        if k == "UnaryOperator" and n["opcode"] == "!":
            return "(negb %s)" % self.cond(n["inner"][0], out)
        return "(znz %s)" % self.rvalue(n, out)

    # ---------- calls
    def call(self, n, out):
        callee = self.skip(n["inner"][0])
        while callee["kind"] == "ImplicitCastExpr":
            callee = self.skip(callee["inner"][0])
        if callee["kind"] != "DeclRefExpr":
            raise Unsupported("indirect call")
        cname = callee["referencedDecl"]["name"]
        args = n["inner"][1:]
        if cname == "memset":
            # memset (&x, 0, sizeof (x)) on a local struct: zero every field
            a0 = self.skip(args[0])
            while a0["kind"] in ("ImplicitCastExpr", "CStyleCastExpr"):
                a0 = self.skip(a0["inner"][0])
            z = self.skip(args[1])
            if a0["kind"] == "UnaryOperator" and a0["opcode"] == "&" and z.get("value") == "0":
                tgt = self.skip(a0["inner"][0])
                t = self.ti(tgt)
                if t.struct:
                    self.mod.need_struct(t.struct)
                    lv = self.lvalue(tgt, out)
                    self.write_lv(lv, "zero_%s" % t.struct, out)
                    return "0"
            raise Unsupported("memset form")
        if cname in self.mod.externs:
            av = [self.rvalue(a, out) for a in args]
            return "(%s %s)" % (cname, " ".join(av))
        if cname not in self.mod.funcs:
            raise Unsupported("call to untranslated function %s in %s" % (cname, self.name))
        callee_tr = self.mod.translated.get(cname)
        if callee_tr is None:
            raise Unsupported("call to %s before its definition" % cname)
        av = [self.rvalue(a, out) for a in args]
        heaps = callee_tr.heaps
        for h in heaps:
            self.uses_heap.add(h)
        call = "(%s %s)" % (cname, " ".join([self.hv(h) for h in heaps] + av)) if (heaps or av) else cname
        wh = callee_tr.wheaps
        rt = callee_tr.ret_kind
        if not wh:
            return call
        for h in wh:
            self.writes_heap.add(h)
        r = self.fresh("r")
        pat = self.tuple_pat([r] + [self.hv(h) for h in wh]) if rt != "void" else \
            self.tuple_pat([self.hv(h) for h in wh])
        out.append(("letpat", pat, call))
        return r if rt != "void" else "0"

    def hv(self, h):
        return "mem" if h == "mem" else "h_" + h

    def tuple_pat(self, names):
        if len(names) == 1:
            return names[0]
        return "'(" + ", ".join(names) + ")"

    # ---------- statements.  Returns coq text for "execute stmts then k"
    def assigned_vars(self, stmts):
        """Over-approximate set of coq variables assigned in stmts (by dry-run translation)."""
        saved = (self.tmp, set(self.uses_heap), set(self.writes_heap), dict(self.locals))
        out = []
        try:
            self.block(stmts, out, allow_return=False)
        finally:
            pass
        names = []
        for item in out:
            self.collect_assigned(item, names)
        self.tmp, self.uses_heap, self.writes_heap, self.locals = saved[0], saved[1], saved[2], saved[3]
        return names

    def collect_assigned(self, item, names):
        if item[0] == "let":
            if item[1] not in names:
                names.append(item[1])
        elif item[0] == "letpat":
            for v in re.findall(r"[A-Za-z_][A-Za-z_0-9']*", item[1]):
                if v not in names:
                    names.append(v)
        elif item[0] in ("join", "while"):
            for v in item[1]:
                if v not in names:
                    names.append(v)
        elif item[0] == "ifret":
            raise Unsupported("return inside a joined branch")

    def has_return(self, n):
        if n is None:
            return False
        if n.get("kind") == "ReturnStmt":
            return True
        return any(self.has_return(c) for c in n.get("inner", []) if isinstance(c, dict))

    def block(self, stmts, out, allow_return=True):
        """Translate statement list into out items.  Returns True if control certainly left (return)."""
        for idx, s in enumerate(stmts):
            k = s["kind"]
            if k == "CompoundStmt":
                if self.block(s.get("inner", []), out, allow_return):
                    return True
            elif k == "NullStmt":
                pass
            elif k == "DeclStmt":
                for d in s["inner"]:
                    if d["kind"] != "VarDecl":
                        raise Unsupported("decl %s" % d["kind"])
                    if d.get("storageClass") == "static":
                        self.mod.add_rom_array(d)
                        continue
                    nm = self.mod.coqname(d["name"])
                    self.locals[d["id"]] = nm
                    t = TypeInfo(d["type"], self.mod.typedefs)
                    if "inner" in d and d.get("init"):
                        v = self.rvalue(d["inner"][-1], out)
                        out.append(("let", nm, v))
                    else:
                        if t.struct:
                            self.mod.need_struct(t.struct)
                            out.append(("let", nm, "zero_%s" % t.struct))
                        else:
                            out.append(("let", nm, "0"))   # indeterminate; never read before assignment in the subset
            elif k == "ReturnStmt":
                if not allow_return:
                    raise Unsupported("return inside joined branch")
                if s.get("inner"):
                    v = self.rvalue(s["inner"][0], out)
                else:
                    v = None
                out.append(("ret", v))
                return True
            elif k == "IfStmt":
                inner = s["inner"]
                c = inner[0]
                th = inner[1]
                el = inner[2] if len(inner) > 2 else None
                cc = self.cond(c, out)
                if self.has_return(th) or self.has_return(el):
                    # duplicate the continuation into both arms
                    rest = stmts[idx + 1:]
                    o1, o2 = [], []
                    saved = dict(self.locals)
                    r1 = self.block([th] + rest, o1, allow_return)
                    self.locals = dict(saved)
                    r2 = self.block(([el] if el else []) + rest, o2, allow_return)
                    out.append(("ifret", cc, o1, o2))
                    return r1 and r2 or self._must(r1, r2)
                else:
                    vs = []
                    for v in self.assigned_vars([th]) + (self.assigned_vars([el]) if el else []):
                        if v not in vs:
                            vs.append(v)
                    # only variables visible before the if matter afterwards
                    visible = set(self.locals.values()) | {"mem"} | {"h_" + h for h in self.mod.structs_order} | set(self.mod_heap_names())
                    vs = [v for v in vs if v in visible]
                    o1, o2 = [], []
                    saved = dict(self.locals)
                    self.block([th], o1, False)
                    self.locals = dict(saved)
                    if el:
                        self.block([el], o2, False)
                        self.locals = dict(saved)
                    out.append(("join", vs, cc, o1, o2))
            elif k == "WhileStmt":
                c, body = s["inner"][0], s["inner"][1]
                vs = self.assigned_vars([body])
                oc = []
                cc = self.cond(c, oc)
                if oc:
                    raise Unsupported("side effect in loop condition")
                visible = set(self.locals.values()) | {"mem"} | set(self.mod_heap_names())
                vs = [v for v in vs if v in visible]
                ob = []
                saved = dict(self.locals)
                self.block([body], ob, False)
                self.locals = dict(saved)
                out.append(("while", vs, cc, ob, self.mod.loop_fuel.get(self.name, 16)))
            else:
                # expression statement
                self.rvalue(s, out)
        return False

    def _must(self, r1, r2):
        if not (r1 and r2):
            raise Unsupported("control may fall off after if-with-return in %s" % self.name)
        return True

    def mod_heap_names(self):
        return ["h_" + s for s in self.mod.struct_defs]

    # ---------- rendering
    def render(self, items, tail, ind):
        """items then tail (a string: final expression)."""
        sp = "  " * ind
        s = ""
        for i, it in enumerate(items):
            if it[0] == "let":
                s += "%slet %s := %s in\n" % (sp, it[1], it[2])
            elif it[0] == "letpat":
                s += "%slet %s := %s in\n" % (sp, it[1], it[2])
            elif it[0] == "ret":
                return s + sp + self.ret_expr(it[1]) + "\n"
            elif it[0] == "join":
                _, vs, cc, o1, o2 = it
                if not vs:
                    continue
                tup = "(" + ", ".join(vs) + ")" if len(vs) > 1 else vs[0]
                pat = "'(" + ", ".join(vs) + ")" if len(vs) > 1 else vs[0]
                s += "%slet %s :=\n%s  if %s then\n%s%s  else\n%s in\n" % (
                    sp, pat, sp, cc, self.render(o1, tup, ind + 2), sp, self.render(o2, tup, ind + 2).rstrip("\n"))
            elif it[0] == "ifret":
                _, cc, o1, o2 = it
                s += "%sif %s then\n%s%selse\n%s" % (sp, cc, self.render(o1, tail, ind + 1), sp,
                                                     self.render(o2, tail, ind + 1))
                return s
            elif it[0] == "while":
                _, vs, cc, ob, fuel = it
                tup = "(" + ", ".join(vs) + ")" if len(vs) > 1 else vs[0]
                pat = "'(" + ", ".join(vs) + ")" if len(vs) > 1 else vs[0]
                lname = "loop_%d" % self.fresh_loop()
                argl = " ".join(vs)
                body = self.render(ob, "%s fuel' %s" % (lname, argl), ind + 4)
                s += ("%slet %s :=\n%s  (fix %s (fuel : nat) %s {struct fuel} :=\n"
                      "%s     match fuel with\n%s     | O => %s\n%s     | S fuel' =>\n"
                      "%s       if %s then\n%s%s       else %s\n%s     end) %d%%nat %s in\n") % (
                    sp, pat, sp, lname, " ".join("(%s : %s)" % (v, self.vtype(v)) for v in vs),
                    sp, sp, tup, sp, sp, cc, body, sp, tup, sp, fuel, argl)
        if tail is None:
            raise Unsupported("control reaches end of non-void function %s" % self.name)
        return s + sp + tail + "\n"

    def fresh_loop(self):
        self.mod.loopn += 1
        return self.mod.loopn

    def vtype(self, v):
        if v == "mem":
            return "Z -> Z"
        if v.startswith("h_") and v[2:] in self.mod.struct_defs:
            return "Z -> %s" % v[2:]
        return self.vartypes.get(v, "Z")

    def ret_expr(self, v):
        parts = []
        if self.ret_kind != "void":
            parts.append(v)
        parts += [self.hv(h) for h in self.wheaps]
        if not parts:
            return "tt"
        if len(parts) == 1:
            return parts[0]
        return "(" + ", ".join(parts) + ")"

    def translate(self):
        f = self.f
        body = [c for c in f["inner"] if c["kind"] == "CompoundStmt"]
        if not body:
            raise Unsupported("no body for %s" % self.name)
        params = [c for c in f["inner"] if c["kind"] == "ParmVarDecl"]
        self.vartypes = {}
        pl = []
        for p in params:
            nm = self.mod.coqname(p["name"])
            self.locals[p["id"]] = nm
            t = TypeInfo(p["type"], self.mod.typedefs)
            if t.struct:
                self.mod.need_struct(t.struct)
                self.vartypes[nm] = t.struct
                pl.append("(%s : %s)" % (nm, t.struct))
            else:
                pl.append("(%s : Z)" % nm)
        rq = f["type"]["qualType"]
        rts = rq[:rq.index("(")].strip()
        rt = TypeInfo({"qualType": rts}, self.mod.typedefs)
        self.ret_kind = "void" if rt.q == "void" else ("struct:" + rt.struct if rt.struct else "Z")
        # two passes: first discover heaps used/written, then render
        for _ in range(2):
            self.uses_heap_prev = getattr(self, "uses_heap", set())
            self.uses_heap, self.writes_heap = set(), set()
            self.tmp = 0
            saved = dict(self.locals)
            self.heaps = sorted(getattr(self, "heaps", []))
            self.wheaps = sorted(getattr(self, "wheaps", []))
            out = []
            left = self.block(body[0].get("inner", []), out)
            self.locals = saved
            self.heaps = sorted(self.uses_heap | self.writes_heap)
            self.wheaps = sorted(self.writes_heap)
        tail = None
        if self.ret_kind == "void":
            tail = self.ret_expr(None)
        # collect struct-typed locals for loop variable types
        text = self.render(out, tail, 1)
        hp = ["(%s : %s)" % (self.hv(h), self.vtype(self.hv(h))) for h in self.heaps]
        return "Definition %s %s :=\n%s." % (self.name, " ".join(hp + pl), text.rstrip("\n"))


class Module:
    def __init__(self, repo, src, lang, funcs, loop_fuel=None, struct_alias=None, externs=None, imports=None):
        self.repo, self.src, self.lang, self.funcs = repo, src, lang, funcs
        self.externs = externs or []     # pure functions defined in an imported generated module
        self.imports = imports or []
        self.loop_fuel = loop_fuel or {}
        self.struct_alias = struct_alias or {}
        self.loopn = 0
        self.typedefs = {}
        self.records = {}       # struct name -> [(field, TypeInfo)]
        self.struct_defs = {}   # emitted structs
        self.structs_order = []
        self.rom_arrays = {}    # decl id -> (base, bytes, name)
        self.rom_next = 4096
        self.translated = {}
        if lang == "c":
            self.decls = clang_ast(repo, src, lang)
        else:
            self.decls = clang_ast(repo, src, lang, filters=list(funcs) + ["timespec"])
        self.index(self.decls)

    def coqname(self, n):
        if n in ("fix", "in", "end", "let", "match", "with", "fun", "forall", "mem", "rom", "at", "as", "if", "then", "else", "return", "using"):
            return n + "_"
        return n

    def index(self, decls):
        for d in decls:
            k = d.get("kind")
            if k == "TypedefDecl":
                self.typedefs[d["name"]] = d["type"].get("desugaredQualType", d["type"]["qualType"])
            elif k in ("RecordDecl", "CXXRecordDecl") and d.get("completeDefinition"):
                fs = [(c["name"], c["type"]) for c in d.get("inner", []) if c.get("kind") == "FieldDecl" and c.get("name")]
                if d.get("name"):
                    self.records[d["name"]] = fs
            elif k in ("LinkageSpecDecl", "NamespaceDecl"):
                self.index(d.get("inner", []))

    def need_struct(self, name):
        if name is None:
            raise Unsupported("anonymous struct")
        name = self.struct_alias.get(name, name)
        if name in self.struct_defs:
            return
        if name not in self.records:
            raise Unsupported("unknown struct %s" % name)
        fields = []
        for fn, ft in self.records[name]:
            t = TypeInfo(ft, self.typedefs)
            if not (t.int or t.is_ptr):
                raise Unsupported("field %s.%s of type %s" % (name, fn, t.raw))
            fields.append(fn)
        self.struct_defs[name] = fields
        self.structs_order.append(name)

    def add_rom_array(self, d):
        if d["id"] in self.rom_arrays:
            return
        init = d["inner"][-1] if d.get("inner") else None
        while init and init["kind"] in ("ImplicitCastExpr", "ParenExpr"):
            init = init["inner"][0]
        if not init or init["kind"] != "StringLiteral":
            raise Unsupported("static local without string initialiser")
        lit = json.loads(init["value"]) if init["value"].startswith('"') else init["value"]
        bs = [ord(c) for c in lit] + [0]
        self.rom_arrays[d["id"]] = (self.rom_next, bs, d["name"])
        self.rom_next += 4096

    def find_func(self, name):
        def walk(ds):
            for d in ds:
                if d.get("kind") == "FunctionDecl" and d.get("name") == name and \
                        any(c.get("kind") == "CompoundStmt" for c in d.get("inner", [])):
                    return d
                if d.get("kind") in ("LinkageSpecDecl", "NamespaceDecl"):
                    r = walk(d.get("inner", []))
                    if r:
                        return r
            return None
        return walk(self.decls)

    def emit(self, modname):
        defs = []
        errors = []
        for fn in self.funcs:
            fd = self.find_func(fn)
            if fd is None:
                errors.append("function %s not found in %s" % (fn, self.src))
                continue
            tr = FuncTr(self, fd)
            try:
                text = tr.translate()
                self.translated[fn] = tr
                defs.append(text)
            except Unsupported as e:
                errors.append("%s: %s" % (fn, e))
        hdr = "(* GENERATED by gen/c2coq.py from %s (%s) -- do not edit *)\n" % (self.src, self.lang)
        hdr += "From NsyncBase Require Import CSem.\n"
        for im in self.imports:
            hdr += "From NsyncGen Require Import %s.\n" % im
        hdr += "Local Open Scope Z_scope.\nLocal Open Scope bool_scope.\n\n"
        for st in self.structs_order:
            fs = self.struct_defs[st]
            hdr += "Record %s := mk_%s { %s }.\n" % (st, st, "; ".join("%s_%s : Z" % (st, f) for f in fs))
            hdr += "Definition zero_%s := mk_%s %s.\n" % (st, st, " ".join("0" for _ in fs))
            for f in fs:
                hdr += "Definition set_%s_%s (r : %s) (v : Z) := mk_%s %s.\n" % (
                    st, f, st, st, " ".join("v" if g == f else "(%s_%s r)" % (st, g) for g in fs))
            hdr += "\n"
        if self.rom_arrays:
            hdr += "Definition rom (a : Z) : Z :=\n"
            for rid, (base, bs, nm) in self.rom_arrays.items():
                hdr += "  if (%d <=? a) && (a <? %d) then nth (Z.to_nat (a - %d)) [%s] 0 else  (* %s *)\n" % (
                    base, base + len(bs), base, "; ".join(str(b) for b in bs), nm)
            hdr += "  0.\n\n"
        return hdr + "\n\n".join(defs) + "\n", errors


def main():
    import argparse
    ap = argparse.ArgumentParser()
    ap.add_argument("--repo", default="/repo")
    ap.add_argument("--src", required=True)
    ap.add_argument("--lang", default="c")
    ap.add_argument("--funcs", required=True)
    ap.add_argument("--out", required=True)
    ap.add_argument("--fuel", default="")
    ap.add_argument("--extern", default="")   # Module:f1+f2
    a = ap.parse_args()
    imports, externs = [], []
    if a.extern:
        mname, fl = a.extern.split(":")
        imports.append(mname)
        externs = fl.split("+")
    fuel = {}
    for kv in a.fuel.split(","):
        if kv:
            k, v = kv.split("=")
            fuel[k] = int(v)
    m = Module(a.repo, a.src, a.lang, a.funcs.split(","), loop_fuel=fuel, externs=externs, imports=imports)
    text, errors = m.emit(os.path.basename(a.out)[:-2])
    with open(a.out, "w") as f:
        f.write(text)
        for e in errors:
            f.write("(* TRANSLATION ERROR: %s *)\n" % e)
    for e in errors:
        print("c2coq: ERROR " + e, file=sys.stderr)
    sys.exit(1 if errors else 0)


if __name__ == "__main__":
    main()
