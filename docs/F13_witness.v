(* F13 witness -- NOT part of the build (kept outside coq/).
   The OLD model of internal/mu.c + internal/mu_wait.c (Model/MuWaitModel.v as it was BEFORE /repo commit 5890963,
   "fix: nsync_mu_wait in reader mode could release the last lock without waking anyone"), verbatim in Module OldModel,
   and the refutation of Properties_C06.C06_no_stuck_full on it: a reachable QUIESCENT world in which nobody holds the
   mutex and a queued nsync_mu_wait caller's condition is TRUE (lost wake-up), plus the general hand-off form (a thread
   asleep in nsync_mu_lock while the mutex is free and nobody is left to wake it).

   The defect: nsync_mu_wait_with_deadline computed had_waiters = ((old_word & (MU_DESIG_WAKER|MU_WAITING)) == MU_WAITING)
   from the word it read when it took the spinlock and used it later, in the loop that releases the lock.  A caller A that
   holds a READER lock does not exclude other readers: the designated waker D (a woken reader) can re-acquire in reader
   mode -- clearing MU_DESIG_WAKER -- and runlock through the fast path (two readers: not the last) in between; A then
   releases lock and spinlock directly (had_waiters = 0).  The mutex is free, MU_WAITING set, no designated waker, and
   nobody scans the queue.  The real library reproduced it (harness scenario rdwait_stuck, seeds 1 (scripted) and 1927).

   Compile (from /verif/coq, after the chain Base/CSem, Gen/Consts, Gen/Sites):
     coqc -Q Base NsyncBase -Q Gen NsyncGen ../docs/F13_witness.v
   Only the generated site definitions of coq/Gen are used (the same before and after the repair: the repaired lines are
   control flow of nsync_mu_wait_with_deadline, hand-modelled in SpinCas KWait / MwRelLoad below). *)
From NsyncBase Require Import CSem.
From NsyncGen Require Import Consts Sites.
From Coq Require Import List ZArith Bool.
Import ListNotations.
Local Open Scope Z_scope.

Module OldModel.
Inductive mode := W | R.
Definition mode_eqb (a b : mode) := match a, b with W, W | R, R => true | _, _ => false end.

Definition lt_of (m : mode) : lock_type :=
  match m with
  | W => mk_lock_type writer_type_zero_to_acquire writer_type_add_to_acquire writer_type_held_if_non_zero
           writer_type_set_when_waiting writer_type_clear_on_acquire writer_type_clear_on_uncontended_release
  | R => mk_lock_type reader_type_zero_to_acquire reader_type_add_to_acquire reader_type_held_if_non_zero
           reader_type_set_when_waiting reader_type_clear_on_acquire reader_type_clear_on_uncontended_release
  end.

Definition band (a b : Z) := Z.land a b.
Definition bor (a b : Z) := Z.lor a b.
Definition bnot32 (a : Z) := 4294967295 - a.
Definition has (w m : Z) : bool := negb (band w m =? 0).

Definition cond := option (nat * nat).     (* condition function id, condition_arg id *)

(* locals of nsync_mu_lock_slow_ *)
Record lsl := mk_lsl { zta : Z; clr : Z; longw : Z; wcount : Z }.
(* locals of nsync_mu_unlock_slow_ after the scan *)
Record usl := mk_usl { wake : list nat; set_on : Z; clear_on : Z; late : Z }.
(* locals of nsync_mu_unlock_slow_ during the scan *)
Record uscan := mk_us {
  u_test : bool;            (* testing_conditions *)
  u_late : Z;               (* late_release_mu *)
  u_done : list nat;        (* waiters *)
  u_new : list nat;         (* new_waiters *)
  u_rest : list nat;        (* the suffix of new_waiters starting at p ([] = NULL) *)
  u_wake : list nat;        (* wake *)
  u_wty : option mode;      (* wake_type *)
  u_set : Z }.              (* set_on_release *)
(* locals of nsync_mu_wait_with_deadline *)
Record mwl := mk_mw {
  mw_mode : mode; mw_cond : cond; mw_eq : bool; mw_dl : option Z; mw_canc : bool;
  mw_first : bool; mw_rc : Z; mw_hadw : bool; mw_semout : Z; mw_have : bool; mw_outcome : Z;
  mw_tmo : option Z;        (* ghost: the clock at the step at which the timed P expired *)
  mw_ent : option mode }.   (* ghost: what the thread held when it called *)

Inductive kont :=
| KLs (m : mode) (l : lsl)       (* mu_release_spinlock called from nsync_mu_lock_slow_ *)
| KScan (m : mode) (u : uscan)   (* release / spin_test_and_set / remove inside the scan of nsync_mu_unlock_slow_ *)
| KWait                          (* nsync_spin_test_and_set_ called from nsync_mu_wait_with_deadline *)
| KTry (old : Z).                (* nsync_remove_from_mu_queue_ called from mu_try_acquire_after_timeout_or_cancel *)

Inductive pc :=
| Idle
| LkFast (m : mode) | LkLoad (m : mode) | LkCas2 (m : mode) (old : Z)
| TryFast (m : mode) | TryLoad (m : mode) | TryCas2 (m : mode) (old : Z)
| LsLoad (m : mode) (l : lsl)
| LsCasAcq (m : mode) (l : lsl) (old : Z)
| LsCasEnq (m : mode) (l : lsl) (old : Z)
| LsStoreWaiting (m : mode) (l : lsl)
| LsWaitLoad (m : mode) (l : lsl)
| LsSemP (m : mode) (l : lsl)
| RelLoad (k : kont) (first : bool) | RelCas (k : kont) (old : Z)       (* mu_release_spinlock *)
| SpinLoad (k : kont) (first : bool) | SpinCas (k : kont) (old : Z)     (* nsync_spin_test_and_set_ *)
| RmLoad (k : kont) | RmCas (k : kont) (oldv : Z)                       (* nsync_remove_from_mu_queue_ *)
| UlFast (m : mode) | UlLoad (m : mode) | UlCas2 (m : mode) (old : Z)
| UwFast | UwLoad | UwCas2 (old : Z)
| UsLoad (m : mode)
| UsCasRel (m : mode) (old : Z)
| UsCasSpin (m : mode) (old : Z)
| UsEval (m : mode) (u : uscan)
| UsRelLoad (m : mode) (u : usl) (first : bool)
| UsRelCas (m : mode) (u : usl) (old : Z)
| UsWakeStore (m : mode) (u : usl)
| UsWakeV (m : mode) (p : nat) (u : usl)
| SetC (f a : nat) (b : bool)
| MwLoad | MwEval | MwStoreWaiting | MwRcLoad | MwRelLoad | MwRelCas (old add : Z)
| MwLoadW1 | MwSemP | MwLoadW2 | MwLoadW3
| MtLoad (first : bool) | MtCas1 (old : Z) | MtCas2 (old : Z) | MtLoadW (old : Z) | MtLoadRc (old : Z)
| MtStoreW (old : Z) | MtStore2 (old : Z) | MtStore3 (old : Z)
| Crash (why : Z).

Inductive op :=
| OLock (m : mode) | OTry (m : mode) | OUnlock | OUnlockNW
| OSetCond (f a : nat) (b : bool)
| OMuWait (c : cond) (eq : bool) (dl : option Z) (canc : bool).

Record tstate := mk_t {
  t_pc : pc; t_ops : list op;
  held : option mode;        (* ghost: the lock bits of the word this thread owns *)
  conv : bool;               (* ghost: an unlocker that converted itself to a writer to evaluate conditions *)
  spin : bool;               (* ghost: owns the queue spinlock *)
  mw : option mwl;           (* inside nsync_mu_wait_with_deadline *)
  last_ret : option Z }.     (* ghost: result of the last nsync_mu_wait_with_deadline *)

(* ghost record of one condition evaluation *)
Record evrec := mk_er { er_t : nat; er_f : nat; er_a : nat; er_res : bool;
                        er_held : option mode; er_conv : bool; er_otherw : bool }.

Record world := mk_w {
  word : Z;
  queue : list nat;              (* mu->waiters, head first *)
  waiting : nat -> bool;         (* w->nw.waiting *)
  sem : nat -> Z;                (* abstract semaphore count *)
  wtype : nat -> mode;           (* w->l_type *)
  wcond : nat -> cond;           (* w->cond.f, w->cond.v *)
  weq : nat -> bool;             (* w->cond.eq != NULL *)
  rcount : nat -> Z;             (* w->remove_count *)
  scp : nat -> nat;              (* w->same_condition.prev *)
  scn : nat -> nat;              (* w->same_condition.next *)
  cls : nat -> nat;              (* condition_arg_eq: equivalence class of an argument id *)
  pst : nat -> nat -> bool;      (* protected state: truth of condition f on argument a *)
  clock : Z;
  note : bool;                   (* the cancel note (monotone) *)
  evlog : list evrec;            (* ghost *)
  thr : list tstate }.

Definition fupd {A} (f : nat -> A) (k : nat) (v : A) : nat -> A := fun x => if Nat.eqb x k then v else f x.
Fixpoint lupd {A} (l : list A) (k : nat) (v : A) : list A :=
  match l, k with
  | [], _ => []
  | _ :: t, O => v :: t
  | x :: t, S k' => x :: lupd t k' v
  end.
Definition dflt_t := mk_t Idle [] None false false None None.
Definition get (w : world) (t : nat) : tstate := nth t (thr w) dflt_t.

Definition set_thr (w : world) (l : list tstate) : world :=
  mk_w (word w) (queue w) (waiting w) (sem w) (wtype w) (wcond w) (weq w) (rcount w) (scp w) (scn w) (cls w) (pst w) (clock w) (note w) (evlog w) l.
Definition set_t (w : world) (t : nat) (s : tstate) : world := set_thr w (lupd (thr w) t s).
Definition set_word (w : world) (v : Z) : world :=
  mk_w v (queue w) (waiting w) (sem w) (wtype w) (wcond w) (weq w) (rcount w) (scp w) (scn w) (cls w) (pst w) (clock w) (note w) (evlog w) (thr w).
Definition set_queue (w : world) (q : list nat) : world :=
  mk_w (word w) q (waiting w) (sem w) (wtype w) (wcond w) (weq w) (rcount w) (scp w) (scn w) (cls w) (pst w) (clock w) (note w) (evlog w) (thr w).
Definition set_waiting (w : world) (t : nat) (b : bool) : world :=
  mk_w (word w) (queue w) (fupd (waiting w) t b) (sem w) (wtype w) (wcond w) (weq w) (rcount w) (scp w) (scn w) (cls w) (pst w) (clock w) (note w) (evlog w) (thr w).
Definition set_sem (w : world) (t : nat) (v : Z) : world :=
  mk_w (word w) (queue w) (waiting w) (fupd (sem w) t v) (wtype w) (wcond w) (weq w) (rcount w) (scp w) (scn w) (cls w) (pst w) (clock w) (note w) (evlog w) (thr w).
(* the plain fields a thread writes into its own waiter before queueing it *)
Definition set_winfo (w : world) (t : nat) (m : mode) (c : cond) (e : bool) : world :=
  mk_w (word w) (queue w) (waiting w) (sem w) (fupd (wtype w) t m) (fupd (wcond w) t c) (fupd (weq w) t e) (rcount w) (scp w) (scn w) (cls w) (pst w) (clock w) (note w) (evlog w) (thr w).
Definition set_rcount (w : world) (t : nat) (v : Z) : world :=
  mk_w (word w) (queue w) (waiting w) (sem w) (wtype w) (wcond w) (weq w) (fupd (rcount w) t v) (scp w) (scn w) (cls w) (pst w) (clock w) (note w) (evlog w) (thr w).
Definition set_rings (w : world) (pn : (nat -> nat) * (nat -> nat)) : world :=
  mk_w (word w) (queue w) (waiting w) (sem w) (wtype w) (wcond w) (weq w) (rcount w) (fst pn) (snd pn) (cls w) (pst w) (clock w) (note w) (evlog w) (thr w).
Definition set_pst (w : world) (f a : nat) (b : bool) : world :=
  mk_w (word w) (queue w) (waiting w) (sem w) (wtype w) (wcond w) (weq w) (rcount w) (scp w) (scn w) (cls w)
       (fun f' a' => if Nat.eqb f' f && Nat.eqb a' a then b else pst w f' a') (clock w) (note w) (evlog w) (thr w).
Definition set_clock (w : world) (c : Z) : world :=
  mk_w (word w) (queue w) (waiting w) (sem w) (wtype w) (wcond w) (weq w) (rcount w) (scp w) (scn w) (cls w) (pst w) c (note w) (evlog w) (thr w).
Definition set_note (w : world) (b : bool) : world :=
  mk_w (word w) (queue w) (waiting w) (sem w) (wtype w) (wcond w) (weq w) (rcount w) (scp w) (scn w) (cls w) (pst w) (clock w) b (evlog w) (thr w).
Definition add_ev (w : world) (e : evrec) : world :=
  mk_w (word w) (queue w) (waiting w) (sem w) (wtype w) (wcond w) (weq w) (rcount w) (scp w) (scn w) (cls w) (pst w) (clock w) (note w) (e :: evlog w) (thr w).

Definition set_pc (w : world) (t : nat) (p : pc) : world :=
  let s := get w t in set_t w t (mk_t p (t_ops s) (held s) (conv s) (spin s) (mw s) (last_ret s)).
(* ghost updates: lock bits owned, converted flag, spinlock owned *)
Definition set_own (w : world) (t : nat) (h : option mode) (c sp : bool) : world :=
  let s := get w t in set_t w t (mk_t (t_pc s) (t_ops s) h c sp (mw s) (last_ret s)).
Definition set_held (w : world) (t : nat) (h : option mode) : world :=
  let s := get w t in set_own w t h (conv s) (spin s).
Definition set_spin (w : world) (t : nat) (sp : bool) : world :=
  let s := get w t in set_own w t (held s) (conv s) sp.
Definition set_mw (w : world) (t : nat) (x : option mwl) : world :=
  let s := get w t in set_t w t (mk_t (t_pc s) (t_ops s) (held s) (conv s) (spin s) x (last_ret s)).
Definition dflt_mw := mk_mw W None false None false true 0 false 0 false 0 None None.
Definition get_mw (w : world) (t : nat) : mwl := match mw (get w t) with Some x => x | None => dflt_mw end.

(* observable event of a step, compared with the implementation's trace *)
Inductive ev :=
| EvCas (site : Z) (old new : Z) (ok : bool)
| EvLoad (site : Z) (v : Z)                        (* load of the mutex word *)
| EvStoreWord (site : Z) (new : Z)                 (* release store to the mutex word *)
| EvStoreW (site : Z) (p : nat) (v : Z)            (* store to p's waiting flag *)
| EvLoadW (site : Z) (v : Z)                       (* load of the own waiting flag *)
| EvLoadRc (site : Z) (p : nat) (v : Z)            (* load of p's remove_count *)
| EvCasRc (site : Z) (p : nat) (old new : Z) (ok : bool)
| EvP | EvV (p : nat)
| EvSemOut (r : Z)                                 (* nsync_sem_wait_with_cancel_ returned r <> 0 *)
| EvEval (p f a : nat) (res : bool)                (* condition f(a) of waiter p evaluated *)
| EvSet (f a : nat) (b : bool)
| EvTick | EvNotify | EvNoteV (p : nat)
| EvBlocked | EvNone | EvCrash.

Inductive choice := CNormal | CTimeout | CCancel.
Inductive actor := Thr (t : nat) (c : choice) | Tick (dt : Z) | Notify | NoteV (p : nat).

Definition fid_lock (m : mode) := match m with W => 100 | R => 200 end.
Definition fid_try (m : mode) := match m with W => 300 | R => 400 end.
Definition fid_unlock (m : mode) := match m with W => 700 | R => 800 end.

(* ----- values from Gen/Sites.v, selected by mode ----- *)
Definition fast_new (m : mode) := match m with W => nsync_mu_lock_cas1_new | R => nsync_mu_rlock_cas1_new end.
Definition fast_guard2 (m : mode) (old : Z) :=
  match m with W => nsync_mu_lock_cas2_guard old | R => nsync_mu_rlock_cas2_guard old end.
Definition fast_new2 (m : mode) (old : Z) :=
  match m with W => nsync_mu_lock_cas2_new old | R => nsync_mu_rlock_cas2_new old end.
Definition try_new (m : mode) := match m with W => nsync_mu_trylock_cas1_new | R => nsync_mu_rtrylock_cas1_new end.
Definition try_guard2 (m : mode) (old : Z) :=
  match m with W => nsync_mu_trylock_cas2_guard old | R => nsync_mu_rtrylock_cas2_guard old end.
Definition try_new2 (m : mode) (old : Z) :=
  match m with W => nsync_mu_trylock_cas2_new old | R => nsync_mu_rtrylock_cas2_new old end.
Definition ufast_old (m : mode) := match m with W => nsync_mu_unlock_cas1_old | R => nsync_mu_runlock_cas1_old end.
Definition ufast_new (m : mode) := match m with W => nsync_mu_unlock_cas1_new | R => nsync_mu_runlock_cas1_new end.
Definition unlock_try_cas2 (m : mode) (old : Z) : bool :=
  match m with W => nsync_mu_unlock_cas2_guard old | R => nsync_mu_runlock_cas2_guard old end.
Definition unlock_new2 (m : mode) (old : Z) : Z :=
  match m with W => nsync_mu_unlock_cas2_new old | R => nsync_mu_runlock_cas2_new old end.
Definition unlock_bad (m : mode) (old : Z) : bool :=
  match m with
  | W => has (band (band (old - MU_WLOCK) (bnot32 MU_ALL_FALSE)) (bor MU_RLOCK_FIELD MU_WLOCK)) 4294967295
  | R => band (Z.lxor old MU_WLOCK) (bor MU_WLOCK MU_RLOCK_FIELD) =? 0
  end.
Definition uw_bad (old : Z) : bool := has (band (wrap_u 32 (old - MU_WLOCK)) (bor MU_RLOCK_FIELD MU_WLOCK)) 4294967295.

Definition clr_mask : Z := bnot32 (bor MU_WRITER_WAITING MU_LONG_WAIT).
Definition ls_init (m : mode) : lsl := mk_lsl (lt_zero_to_acquire (lt_of m)) 0 0 0.
(* nsync_mu_lock_slow_ (mu, w, MU_DESIG_WAKER, l_type) *)
Definition ls_init_desig (m : mode) : lsl := mk_lsl (band (lt_zero_to_acquire (lt_of m)) clr_mask) MU_DESIG_WAKER 0 0.

(* ================= the waiter queue and the same_condition rings ================= *)
Definition rings := ((nat -> nat) * (nat -> nat))%type.      (* (prev, next) *)

(* WAIT_CONDITION_EQ (&a->cond, &b->cond) *)
Definition cond_eq (wc : nat -> cond) (we : nat -> bool) (cl : nat -> nat) (a b : nat) : bool :=
  match wc a, wc b with
  | Some (fa, va), Some (fb, vb) => Nat.eqb fa fb && (Nat.eqb va vb || (we a && Nat.eqb (cl va) (cl vb)))
  | _, _ => false
  end.

(* nsync_dll_splice_after_ (&p->same_condition, &n->same_condition), assignment by assignment *)
Definition splice_after (r : rings) (p n : nat) : rings :=
  let '(sp, sn) := r in
  let p2 := sn p in
  let nl := sp n in
  let sn1 := fupd sn p n in
  let sp1 := fupd sp n p in
  let sn2 := fupd sn1 nl p2 in
  let sp2 := fupd sp1 p2 nl in
  (sp2, sn2).

(* nsync_maybe_merge_conditions_ (p, n) *)
Definition maybe_merge (wc : nat -> cond) (we : nat -> bool) (cl : nat -> nat) (r : rings) (p n : option nat) : rings :=
  match p, n with
  | Some p', Some n' => if cond_eq wc we cl p' n' then splice_after r p' n' else r
  | _, _ => r
  end.

Fixpoint last_opt (l : list nat) : option nat :=
  match l with [] => None | [x] => Some x | _ :: r => last_opt r end.
Definition first_opt (l : list nat) : option nat := match l with [] => None | x :: _ => Some x end.

(* e->prev and e->next in the circular list (raw pointers) *)
Fixpoint prev_of (prev : nat) (q : list nat) (e : nat) : nat :=
  match q with [] => prev | x :: r => if Nat.eqb x e then prev else prev_of x r e end.
Definition circ_prev (q : list nat) (e : nat) : nat := prev_of (List.last q e) q e.
Fixpoint next_of (q : list nat) (e first : nat) : nat :=
  match q with
  | [] => first
  | x :: r => if Nat.eqb x e then (match r with [] => first | y :: _ => y end) else next_of r e first
  end.
Definition circ_next (q : list nat) (e : nat) : nat := next_of q e (List.hd e q).
Fixpoint remove1 (e : nat) (q : list nat) : list nat :=
  match q with [] => [] | x :: r => if Nat.eqb x e then r else x :: remove1 e r end.
(* the elements after x (nsync_dll_next_ repeatedly) *)
Fixpoint after (x : nat) (l : list nat) : list nat :=
  match l with [] => [] | y :: r => if Nat.eqb y x then r else after x r end.

(* nsync_remove_from_mu_queue_ without the remove_count increment: new list and repaired rings *)
Definition remove_from (wc : nat -> cond) (we : nat -> bool) (cl : nat -> nat) (r : rings) (q : list nat) (e : nat)
  : list nat * rings :=
  let prev := circ_prev q e in
  let next := circ_next q e in
  let q' := remove1 e q in
  match q' with
  | [] => (q', r)
  | _ =>
      let '(sp, sn) := r in
      if negb (Nat.eqb (sn e) e) then
        (* *e is linked to a same_condition neighbour---just remove it *)
        let sp1 := fupd sp (sn e) (sp e) in
        let sn1 := fupd sn (sp1 e) (sn e) in
        let sn2 := fupd sn1 e e in
        let sp2 := fupd sp1 e e in
        (q', (sp2, sn2))
      else if negb (Nat.eqb prev (List.last q' e)) then
        (q', maybe_merge wc we cl r (Some prev) (Some next))
      else (q', r)
  end.

(* skip_past_same_condition (new_waiters, p) where rest = the suffix of new_waiters starting at p *)
Definition skip_past (sp : nat -> nat) (newl rest : list nat) (p : nat) : list nat :=
  let lastc := sp p in
  if negb (Nat.eqb lastc p) && negb (Nat.eqb lastc (circ_prev newl p)) then after lastc newl
  else List.tl rest.

Definition rings_of (w : world) : rings := (scp w, scn w).
Definition w_merge (w : world) (p n : option nat) : world :=
  set_rings w (maybe_merge (wcond w) (weq w) (cls w) (rings_of w) p n).

(* ================= nsync_mu_unlock_slow_: the scan ================= *)
Definition set_rest (u : uscan) (rest : list nat) : uscan :=
  mk_us (u_test u) (u_late u) (u_done u) (u_new u) rest (u_wake u) (u_wty u) (u_set u).
Definition set_uset (u : uscan) (s : Z) : uscan :=
  mk_us (u_test u) (u_late u) (u_done u) (u_new u) (u_rest u) (u_wake u) (u_wty u) s.
Definition set_ww (s : Z) : Z := band (bor s MU_WRITER_WAITING) (bnot32 MU_ALL_FALSE).
Definition wakeable (w : world) (u : uscan) (p : nat) : bool :=
  match u_wty u with None => true | Some _ => mode_eqb (wtype w p) R end.

Inductive inres := InPc (p : pc) | InEnd (u : uscan).

(* the inner while (p != NULL && wake_type != nsync_writer_type_) up to the next evaluation / removal *)
Fixpoint inner (w : world) (m : mode) (u : uscan) (rest : list nat) : inres :=
  match rest with
  | [] => InEnd (set_rest u [])
  | p :: tl =>
      match u_wty u with
      | Some W => InEnd (set_rest u rest)
      | _ =>
          match wcond w p with
          | Some _ => if u_test u then InPc (UsEval m (set_rest u rest)) else InPc (Crash 5)   (* nsync_panic_ *)
          | None => if wakeable w u p then InPc (RmLoad (KScan m (set_rest u rest)))
                    else inner w m (set_uset u (set_ww (u_set u))) tl
          end
      end
  end.

(* "Should we continue to test conditions?" for the first element p of new_waiters *)
Definition adjust_test (w : world) (u : uscan) (p : nat) : bool :=
  u_test u &&
  match u_wty u with
  | Some W => false
  | Some R => true
  | None => negb (negb (mode_eqb (wtype w p) R) && match wcond w p with None => true | Some _ => false end)
  end.

(* after the outer loop: mu->waiters = waiters, compute clear_on_release *)
Definition finalize (w : world) (m : mode) (u : uscan) : world * pc :=
  let c0 := MU_SPINLOCK in
  let c1 := match u_wake u with [] => bor c0 MU_DESIG_WAKER | _ => c0 end in
  let c2 := if band (u_set u) MU_ALL_FALSE =? 0 then bor c1 MU_ALL_FALSE else c1 in
  let c3 := match u_done u with
            | [] => bor c2 (bor (bor (bor MU_WAITING MU_WRITER_WAITING) MU_CONDITION) MU_ALL_FALSE)
            | _ => c2 end in
  (set_queue w (u_done u), UsRelLoad m (mk_usl (u_wake u) (u_set u) c3 (u_late u)) true).

(* end of one iteration of the outer loop: merge, append, pick up the next new waiters *)
Definition round_end (w : world) (u : uscan) : world * uscan :=
  let w1 := w_merge w (last_opt (u_done u)) (first_opt (u_new u)) in
  (set_queue w1 [], mk_us (u_test u) (u_late u) (u_done u ++ u_new u) (queue w1) [] (u_wake u) (u_wty u) (u_set u)).

Definition end_inner_set (u : uscan) : uscan :=
  match u_rest u with [] => u | _ => set_uset u (band (u_set u) (bnot32 MU_ALL_FALSE)) end.

(* at the head of "while (!nsync_dll_is_empty_ (new_waiters))"; fuel bounds the rounds that contain no atomic
   site (testing_conditions off: the spinlock is held, so the second pick-up finds mu->waiters empty) *)
Fixpoint scan_from (fuel : nat) (w : world) (m : mode) (u : uscan) : world * pc :=
  match fuel with
  | O => (w, Crash 6)
  | S f =>
      match u_new u with
      | [] => finalize w m u
      | p :: _ =>
          let t' := adjust_test w u p in
          let u1 := mk_us t' (u_late u) (u_done u) (u_new u) (u_new u) (u_wake u) (u_wty u) (u_set u) in
          if t' then (w, RelLoad (KScan m u1) true)
          else match inner w m u1 (u_new u) with
               | InPc p => (w, p)
               | InEnd u2 => let '(w2, u3) := round_end w (end_inner_set u2) in scan_from f w2 m u3
               end
      end
  end.

(* continue after the inner loop stopped or ended *)
Definition after_inner (w : world) (m : mode) (r : inres) : world * pc :=
  match r with
  | InPc p => (w, p)
  | InEnd u =>
      let u' := end_inner_set u in
      if u_test u' then (w, SpinLoad (KScan m u') true)
      else let '(w2, u3) := round_end w u' in scan_from 3 w2 m u3
  end.

(* ================= the step function ================= *)
Definition cas (w : world) (expect new : Z) : world * bool :=
  if word w =? expect then (set_word w new, true) else (w, false).

Definition is_w (h : option mode) : bool := match h with Some W => true | _ => false end.
Fixpoint other_w (l : list tstate) (i t : nat) : bool :=
  match l with [] => false | s :: r => (negb (Nat.eqb i t) && is_w (held s)) || other_w r (S i) t end.
Definition log_eval (w : world) (t f a : nat) (res : bool) : world :=
  let s := get w t in add_ev w (mk_er t f a res (held s) (conv s) (other_w (thr w) 0 t)).

(* return from nsync_mu_unlock_slow_ / nsync_mu_lock_slow_ to the caller *)
Definition ret_unlock (w : world) (t : nat) : world :=
  match mw (get w t) with Some _ => set_pc w t MwLoadW1 | None => set_pc w t Idle end.
Definition acquire (w : world) (t : nat) (m : mode) : world :=
  let w1 := set_held w t (Some m) in
  match mw (get w1 t) with Some _ => set_pc w1 t MwEval | None => set_pc w1 t Idle end.
Definition released (w : world) (t : nat) : world := set_held w t None.

(* return from nsync_mu_wait_with_deadline *)
Definition mw_return (w : world) (t : nat) (r : Z) : world :=
  let s := get w t in set_t w t (mk_t Idle (t_ops s) (held s) (conv s) (spin s) None (Some r)).
Definition upd_mw (w : world) (t : nat) (f : mwl -> mwl) : world := set_mw w t (Some (f (get_mw w t))).

(* after an evaluation of the caller's own condition with result res (entry, or after re-acquisition) *)
Definition mw_after_eval (w : world) (t : nat) (res : bool) : world :=
  let x := get_mw w t in
  if nsync_mu_wait_with_deadline_store1_guard (mw_outcome x) (b2z res) then
    (* another iteration: "Prepare to wait" *)
    set_pc (set_winfo w t (mw_mode x) (mw_cond x) (mw_eq x)) t MwStoreWaiting
  else mw_return w t (if res then 0 else mw_outcome x).

Definition begin_op (w : world) (t : nat) : world :=
  let s := get w t in
  match t_pc s, t_ops s with
  | Idle, o :: rest =>
      let '(p, x) :=
        match o, held s with
        | OLock m, None => (LkFast m, None)
        | OTry m, None => (TryFast m, None)
        | OLock _, Some _ | OTry _, Some _ => (Crash 4, None)   (* client contract: no re-acquisition while holding *)
        | OUnlock, Some m => (UlFast m, None)
        | OUnlockNW, Some W => (UwFast, None)
        | OUnlock, None | OUnlockNW, _ => (Crash 1, None)
        | OSetCond f a b, Some W => (SetC f a b, None)
        | OSetCond _ _ _, _ => (Crash 8, None)                  (* protected state changed outside a write section *)
        | OMuWait c e d k, Some h => (MwLoad, Some (mk_mw W c e d k true 0 false 0 false 0 None (Some h)))
        | OMuWait _ _ _ _, None => (Crash 9, None)
        end in
      set_t w t (mk_t p rest (held s) (conv s) (spin s) x (last_ret s))
  | _, _ => w
  end.

Definition spin_set (w : world) (t : nat) (k : kont) : Z * Z :=   (* (set, clear) arguments of nsync_spin_test_and_set_ *)
  match k with
  | KWait => (bor (bor MU_SPINLOCK MU_WAITING) (match mw_cond (get_mw w t) with Some _ => MU_CONDITION | None => 0 end), MU_ALL_FALSE)
  | _ => (MU_SPINLOCK, 0)
  end.

Definition step_thr (w0 : world) (t : nat) (c : choice) : world * ev :=
  let w := begin_op w0 t in
  let s := get w t in
  match t_pc s with
  | Idle => (w, EvNone)
  | Crash _ => (w, EvCrash)
  (* --- nsync_mu_lock / nsync_mu_rlock --- *)
  | LkFast m =>
      let '(w1, ok) := cas w 0 (fast_new m) in
      if ok then (acquire w1 t m, EvCas (fid_lock m + 1) 0 (fast_new m) true)
      else (set_pc w1 t (LkLoad m), EvCas (fid_lock m + 1) 0 (fast_new m) false)
  | LkLoad m =>
      let old := word w in
      if fast_guard2 m old then (set_pc w t (LkCas2 m old), EvLoad (fid_lock m + 2) old)
      else (set_pc (set_winfo w t m None false) t (LsLoad m (ls_init m)), EvLoad (fid_lock m + 2) old)
  | LkCas2 m old =>
      let '(w1, ok) := cas w old (fast_new2 m old) in
      if ok then (acquire w1 t m, EvCas (fid_lock m + 3) old (fast_new2 m old) true)
      else (set_pc (set_winfo w1 t m None false) t (LsLoad m (ls_init m)), EvCas (fid_lock m + 3) old (fast_new2 m old) false)
  (* --- trylock / rtrylock --- *)
  | TryFast m =>
      let '(w1, ok) := cas w 0 (try_new m) in
      if ok then (acquire w1 t m, EvCas (fid_try m + 1) 0 (try_new m) true)
      else (set_pc w1 t (TryLoad m), EvCas (fid_try m + 1) 0 (try_new m) false)
  | TryLoad m =>
      let old := word w in
      if try_guard2 m old then (set_pc w t (TryCas2 m old), EvLoad (fid_try m + 2) old)
      else (set_pc w t Idle, EvLoad (fid_try m + 2) old)
  | TryCas2 m old =>
      let '(w1, ok) := cas w old (try_new2 m old) in
      if ok then (acquire w1 t m, EvCas (fid_try m + 3) old (try_new2 m old) true)
      else (set_pc w1 t Idle, EvCas (fid_try m + 3) old (try_new2 m old) false)
  (* --- nsync_mu_lock_slow_ --- *)
  | LsLoad m l =>
      let old := word w in
      if nsync_mu_lock_slow_cas1_guard old (zta l) then (set_pc w t (LsCasAcq m l old), EvLoad 501 old)
      else if nsync_mu_lock_slow_cas2_guard old (zta l) then (set_pc w t (LsCasEnq m l old), EvLoad 501 old)
      else (w, EvLoad 501 old)     (* spin delay, loop *)
  | LsCasAcq m l old =>
      let new := nsync_mu_lock_slow_cas1_new old (lt_of m) (clr l) (longw l) in
      let '(w1, ok) := cas w old new in
      if ok then (acquire w1 t m, EvCas 502 old new true)
      else (set_pc w1 t (LsLoad m l), EvCas 502 old new false)
  | LsCasEnq m l old =>
      let new := nsync_mu_lock_slow_cas2_new old (longw l) (lt_of m) (clr l) in
      let '(w1, ok) := cas w old new in
      if ok then (set_pc (set_spin w1 t true) t (LsStoreWaiting m l), EvCas 503 old new true)
      else (set_pc w1 t (LsLoad m l), EvCas 503 old new false)
  | LsStoreWaiting m l =>
      let w1 := set_waiting w t true in
      let q := if wcount l =? 0 then queue w1 ++ [t] else t :: queue w1 in
      (set_pc (set_queue w1 q) t (RelLoad (KLs m l) true), EvStoreW 504 t 1)
  | LsWaitLoad m l =>
      if waiting w t then (set_pc w t (LsSemP m l), EvLoadW 505 1)
      else
        let wc := wrap_u 32 (wcount l + 1) in
        let lw := if wc =? LONG_WAIT_THRESHOLD then MU_LONG_WAIT else longw l in
        let l' := mk_lsl (band (zta l) clr_mask) MU_DESIG_WAKER lw wc in
        (set_pc w t (LsLoad m l'), EvLoadW 505 0)
  | LsSemP m l =>
      if 0 <? sem w t then (set_pc (set_sem w t (sem w t - 1)) t (LsWaitLoad m l), EvP)
      else (w, EvBlocked)
  (* --- mu_release_spinlock --- *)
  | RelLoad k first => (set_pc w t (RelCas k (word w)), EvLoad (if first then 601 else 603) (word w))
  | RelCas k old =>
      let new := mu_release_spinlock_cas1_new old in
      let '(w1, ok) := cas w old new in
      if ok then
        let w2 := set_spin w1 t false in
        match k with
        | KLs m l => (set_pc w2 t (LsWaitLoad m l), EvCas 602 old new true)
        | KScan m u => let '(w3, p) := after_inner w2 m (inner w2 m u (u_rest u)) in (set_pc w3 t p, EvCas 602 old new true)
        | _ => (set_pc w2 t (Crash 7), EvCas 602 old new true)
        end
      else (set_pc w1 t (RelLoad k false), EvCas 602 old new false)
  (* --- nsync_spin_test_and_set_ (&mu->word, MU_SPINLOCK, set, clear) --- *)
  | SpinLoad k first =>
      let old := word w in
      let site := if first then 1401 else 1403 in
      if nsync_spin_test_and_set_cas1_guard old MU_SPINLOCK then (set_pc w t (SpinCas k old), EvLoad site old)
      else (set_pc w t (SpinLoad k false), EvLoad site old)
  | SpinCas k old =>
      let '(st, cl) := spin_set w t k in
      let new := nsync_spin_test_and_set_cas1_new old st cl in
      let '(w1, ok) := cas w old new in
      if ok then
        let w2 := set_spin w1 t true in
        match k with
        | KWait =>
            let x := get_mw w2 t in
            let hadw := band old (bor MU_DESIG_WAKER MU_WAITING) =? MU_WAITING in
            let w3 := if mw_first x
                      then set_queue (w_merge w2 (last_opt (queue w2)) (Some t)) (queue w2 ++ [t])
                      else set_queue (w_merge w2 (Some t) (first_opt (queue w2))) (t :: queue w2) in
            let w4 := upd_mw w3 t (fun x => mk_mw (mw_mode x) (mw_cond x) (mw_eq x) (mw_dl x) (mw_canc x) false (mw_rc x) hadw
                                                    (mw_semout x) (mw_have x) (mw_outcome x) (mw_tmo x) (mw_ent x)) in
            (set_pc w4 t MwRelLoad, EvCas 1402 old new true)
        | KScan m u =>
            let '(w3, u3) := round_end w2 u in
            let '(w4, p) := scan_from 3 w3 m u3 in
            (set_pc w4 t p, EvCas 1402 old new true)
        | _ => (set_pc w2 t (Crash 7), EvCas 1402 old new true)
        end
      else (set_pc w1 t (SpinLoad k false), EvCas 1402 old new false)
  (* --- nsync_remove_from_mu_queue_ --- *)
  | RmLoad k =>
      let e := match k with KScan _ u => List.hd t (u_rest u) | _ => t end in
      (set_pc w t (RmCas k (rcount w e)), EvLoadRc 1301 e (rcount w e))
  | RmCas k oldv =>
      let e := match k with KScan _ u => List.hd t (u_rest u) | _ => t end in
      let new := nsync_remove_from_mu_queue_cas1_new oldv in
      if rcount w e =? oldv then
        let w1 := set_rcount w e new in
        match k with
        | KScan m u =>
            let '(nl, rg) := remove_from (wcond w1) (weq w1) (cls w1) (rings_of w1) (u_new u) e in
            let w2 := set_rings w1 rg in
            let u' := mk_us (u_test u) (u_late u) (u_done u) nl (u_rest u) (u_wake u ++ [e]) (Some (wtype w2 e)) (u_set u) in
            let '(w3, p) := after_inner w2 m (inner w2 m u' (List.tl (u_rest u))) in
            (set_pc w3 t p, EvCasRc 1302 e oldv new true)
        | KTry old =>
            let '(nl, rg) := remove_from (wcond w1) (weq w1) (cls w1) (rings_of w1) (queue w1) e in
            (set_pc (set_queue (set_rings w1 rg) nl) t (MtStoreW old), EvCasRc 1302 e oldv new true)
        | _ => (set_pc w1 t (Crash 7), EvCasRc 1302 e oldv new true)
        end
      else (set_pc w t (RmLoad k), EvCasRc 1302 e oldv new false)
  (* --- nsync_mu_unlock / nsync_mu_runlock --- *)
  | UlFast m =>
      let '(w1, ok) := cas w (ufast_old m) (ufast_new m) in
      if ok then (released (set_pc w1 t Idle) t, EvCas (fid_unlock m + 1) (ufast_old m) (ufast_new m) true)
      else (set_pc w1 t (UlLoad m), EvCas (fid_unlock m + 1) (ufast_old m) (ufast_new m) false)
  | UlLoad m =>
      let old := word w in
      if unlock_try_cas2 m old then (set_pc w t (UlCas2 m old), EvLoad (fid_unlock m + 2) old)
      else if unlock_bad m old then (set_pc w t (Crash 2), EvLoad (fid_unlock m + 2) old)
      else (set_pc w t (UsLoad m), EvLoad (fid_unlock m + 2) old)
  | UlCas2 m old =>
      let new := unlock_new2 m old in
      let '(w1, ok) := cas w old new in
      if ok then (released (set_pc w1 t Idle) t, EvCas (fid_unlock m + 3) old new true)
      else (set_pc w1 t (UsLoad m), EvCas (fid_unlock m + 3) old new false)
  (* --- nsync_mu_unlock_without_wakeup --- *)
  | UwFast =>
      let o := nsync_mu_unlock_without_wakeup_cas1_old in
      let n := nsync_mu_unlock_without_wakeup_cas1_new in
      let '(w1, ok) := cas w o n in
      if ok then (released (set_pc w1 t Idle) t, EvCas 1201 o n true)
      else (set_pc w1 t UwLoad, EvCas 1201 o n false)
  | UwLoad =>
      let old := word w in
      if nsync_mu_unlock_without_wakeup_cas2_guard old then (set_pc w t (UwCas2 old), EvLoad 1202 old)
      else if uw_bad old then (set_pc w t (Crash 2), EvLoad 1202 old)
      else (set_pc w t (UsLoad W), EvLoad 1202 old)
  | UwCas2 old =>
      let new := nsync_mu_unlock_without_wakeup_cas2_new old in
      let '(w1, ok) := cas w old new in
      if ok then (released (set_pc w1 t Idle) t, EvCas 1203 old new true)
      else (set_pc w1 t (UsLoad W), EvCas 1203 old new false)
  (* --- nsync_mu_unlock_slow_ --- *)
  | UsLoad m =>
      let old := word w in
      if nsync_mu_unlock_slow_cas1_guard old then (set_pc w t (UsCasRel m old), EvLoad 901 old)
      else if nsync_mu_unlock_slow_cas2_guard old then (set_pc w t (UsCasSpin m old), EvLoad 901 old)
      else (w, EvLoad 901 old)
  | UsCasRel m old =>
      let new := nsync_mu_unlock_slow_cas1_new old (lt_of m) in
      let '(w1, ok) := cas w old new in
      if ok then (ret_unlock (released w1 t) t, EvCas 902 old new true)
      else (set_pc w1 t (UsLoad m), EvCas 902 old new false)
  | UsCasSpin m old =>
      let testing := has old MU_CONDITION in
      let early := if testing then wrap_u 32 (lt_add_to_acquire (lt_of m) - MU_WLOCK) else lt_add_to_acquire (lt_of m) in
      let new := nsync_mu_unlock_slow_cas2_new old early in
      let '(w1, ok) := cas w old new in
      if ok then
        let w2 := if testing then set_own w1 t (Some W) true true else set_own w1 t None false true in
        let u := mk_us testing (if testing then MU_WLOCK else 0) [] (queue w2) [] [] None MU_ALL_FALSE in
        let '(w3, p) := scan_from 3 (set_queue w2 []) m u in
        (set_pc w3 t p, EvCas 903 old new true)
      else (set_pc w1 t (UsLoad m), EvCas 903 old new false)
  | UsEval m u =>
      match u_rest u with
      | p :: tl =>
          match wcond w p with
          | Some (f, a) =>
              let res := pst w f a in
              let w1 := log_eval w t f a res in
              let r := if res then
                         (if wakeable w1 u p then InPc (RmLoad (KScan m u))
                          else inner w1 m (set_uset u (set_ww (u_set u))) tl)
                       else inner w1 m u (skip_past (scp w1) (u_new u) (u_rest u) p) in
              let '(w2, p') := after_inner w1 m r in
              (set_pc w2 t p', EvEval p f a res)
          | None => (set_pc w t (Crash 7), EvCrash)
          end
      | [] => (set_pc w t (Crash 7), EvCrash)
      end
  | UsRelLoad m u first => (set_pc w t (UsRelCas m u (word w)), EvLoad (if first then 904 else 906) (word w))
  | UsRelCas m u old =>
      let new := nsync_mu_unlock_slow_cas3_new old (late u) (set_on u) (clear_on u) in
      let '(w1, ok) := cas w old new in
      if ok then
        let w2 := set_own w1 t None false false in
        (match wake u with [] => ret_unlock w2 t | _ => set_pc w2 t (UsWakeStore m u) end, EvCas 905 old new true)
      else (set_pc w1 t (UsRelLoad m u false), EvCas 905 old new false)
  | UsWakeStore m u =>
      match wake u with
      | [] => (ret_unlock w t, EvNone)
      | p :: rest => (set_pc (set_waiting w p false) t (UsWakeV m p (mk_usl rest (set_on u) (clear_on u) (late u))),
                      EvStoreW 907 p 0)
      end
  | UsWakeV m p u =>
      let w1 := set_sem w p (sem w p + 1) in
      (match wake u with [] => ret_unlock w1 t | _ => set_pc w1 t (UsWakeStore m u) end, EvV p)
  (* --- a write to the protected state inside a write section --- *)
  | SetC f a b => (set_pc (set_pst w f a b) t Idle, EvSet f a b)
  (* --- nsync_mu_wait_with_deadline --- *)
  | MwLoad =>
      let old := word w in
      if band old MU_ANY_LOCK =? 0 then (set_pc w t (Crash 10), EvLoad 1001 old)        (* nsync_panic_ *)
      else
        let m := if negb (band old MU_RHELD_IF_NON_ZERO =? 0) then R else W in
        let w1 := upd_mw w t (fun x => mk_mw m (mw_cond x) (mw_eq x) (mw_dl x) (mw_canc x) (mw_first x) (mw_rc x) (mw_hadw x)
                                               (mw_semout x) (mw_have x) (mw_outcome x) (mw_tmo x) (mw_ent x)) in
        match mw_cond (get_mw w1 t) with
        | None => (mw_after_eval w1 t true, EvLoad 1001 old)        (* condition == NULL: true, no call *)
        | Some _ => (set_pc w1 t MwEval, EvLoad 1001 old)
        end
  | MwEval =>
      match mw_cond (get_mw w t) with
      | Some (f, a) =>
          let res := pst w f a in
          (mw_after_eval (log_eval w t f a res) t res, EvEval t f a res)
      | None => (mw_after_eval w t true, EvNone)
      end
  | MwStoreWaiting => (set_pc (set_waiting w t true) t MwRcLoad, EvStoreW 1002 t 1)
  | MwRcLoad =>
      let v := rcount w t in
      let w1 := upd_mw w t (fun x => mk_mw (mw_mode x) (mw_cond x) (mw_eq x) (mw_dl x) (mw_canc x) (mw_first x) v (mw_hadw x)
                                             0 false (mw_outcome x) (mw_tmo x) (mw_ent x)) in
      (set_pc w1 t (SpinLoad KWait true), EvLoadRc 1003 t v)
  | MwRelLoad =>
      let old := word w in
      let x := get_mw w t in
      let a := lt_add_to_acquire (lt_of (mw_mode x)) in
      let add := if (band (wrap_u 32 (old - a)) MU_ANY_LOCK =? 0) && mw_hadw x then 0 else a in
      (set_pc w t (MwRelCas old add), EvLoad 1004 old)
  | MwRelCas old add =>
      let new := nsync_mu_wait_with_deadline_cas1_new old add in
      let '(w1, ok) := cas w old new in
      if ok then
        let w2 := set_spin w1 t false in
        if add =? 0 then (set_pc w2 t (UsLoad (mw_mode (get_mw w2 t))), EvCas 1005 old new true)
        else (set_pc (released w2 t) t MwLoadW1, EvCas 1005 old new true)
      else (set_pc w1 t MwRelLoad, EvCas 1005 old new false)
  | MwLoadW1 =>
      if waiting w t then
        (set_pc w t (if mw_semout (get_mw w t) =? 0 then MwSemP else MwLoadW3), EvLoadW 1006 1)
      else if mw_have (get_mw w t) then (set_pc w t MwEval, EvLoadW 1006 0)
      else
        let m := mw_mode (get_mw w t) in
        (set_pc (set_winfo w t m None false) t (LsLoad m (ls_init_desig m)), EvLoadW 1006 0)
  | MwSemP =>      (* nsync_sem_wait_with_cancel_ (w, abs_deadline, cancel_note), abstractly *)
      let x := get_mw w t in
      match c with
      | CNormal =>
          if 0 <? sem w t then (set_pc (set_sem w t (sem w t - 1)) t MwLoadW3, EvP) else (w, EvBlocked)
      | CTimeout =>
          match mw_dl x with
          | Some d =>
              if d <=? clock w then
                let w1 := upd_mw w t (fun x => mk_mw (mw_mode x) (mw_cond x) (mw_eq x) (mw_dl x) (mw_canc x) (mw_first x) (mw_rc x) (mw_hadw x)
                                                       ETIMEDOUT (mw_have x) (mw_outcome x) (Some (clock w)) (mw_ent x)) in
                (set_pc w1 t MwLoadW2, EvSemOut ETIMEDOUT)
              else (w, EvBlocked)
          | None => (w, EvBlocked)
          end
      | CCancel =>
          if mw_canc x && note w then
            let w1 := upd_mw w t (fun x => mk_mw (mw_mode x) (mw_cond x) (mw_eq x) (mw_dl x) (mw_canc x) (mw_first x) (mw_rc x) (mw_hadw x)
                                                   ECANCELED (mw_have x) (mw_outcome x) (mw_tmo x) (mw_ent x)) in
            (set_pc w1 t MwLoadW2, EvSemOut ECANCELED)
          else (w, EvBlocked)
      end
  | MwLoadW2 =>
      if waiting w t then (set_pc w t (MtLoad true), EvLoadW 1007 1)
      else (set_pc w t MwLoadW3, EvLoadW 1007 0)
  | MwLoadW3 => (set_pc w t MwLoadW1, EvLoadW 1008 (b2z (waiting w t)))
  (* --- mu_try_acquire_after_timeout_or_cancel --- *)
  | MtLoad first =>
      let old := word w in
      let site := if first then 1101 else 1104 in
      if mu_try_acquire_after_timeout_or_cancel_cas1_guard old then (set_pc w t (MtCas1 old), EvLoad site old)
      else if mu_try_acquire_after_timeout_or_cancel_cas2_guard old then (set_pc w t (MtCas2 old), EvLoad site old)
      else (set_pc w t (MtLoad false), EvLoad site old)
  | MtCas1 old =>
      let new := mu_try_acquire_after_timeout_or_cancel_cas1_new old in
      let '(w1, ok) := cas w old new in
      if ok then (set_pc (set_own w1 t (Some W) false true) t (MtLoadW old), EvCas 1102 old new true)
      else if mu_try_acquire_after_timeout_or_cancel_cas2_guard old then (set_pc w1 t (MtCas2 old), EvCas 1102 old new false)
      else (set_pc w1 t (MtLoad false), EvCas 1102 old new false)
  | MtCas2 old =>
      let new := mu_try_acquire_after_timeout_or_cancel_cas2_new old in
      let '(w1, ok) := cas w old new in
      (set_pc w1 t (MtLoad false), EvCas 1103 old new ok)
  | MtLoadW old =>
      if waiting w t then (set_pc w t (MtLoadRc old), EvLoadW 1105 1)
      else (set_pc w t (MtStore3 old), EvLoadW 1105 0)
  | MtLoadRc old =>
      let v := rcount w t in
      if mw_rc (get_mw w t) =? v then (set_pc w t (RmLoad (KTry old)), EvLoadRc 1106 t v)
      else (set_pc w t (MtStore3 old), EvLoadRc 1106 t v)
  | MtStoreW old => (set_pc (set_waiting w t false) t (MtStore2 old), EvStoreW 1107 t 0)
  | MtStore2 old =>
      let m := mw_mode (get_mw w t) in
      let new := mu_try_acquire_after_timeout_or_cancel_store2_new old (lt_of m) in
      let w1 := set_own (set_word w new) t (Some m) false false in
      let w2 := upd_mw w1 t (fun x => mk_mw (mw_mode x) (mw_cond x) (mw_eq x) (mw_dl x) (mw_canc x) (mw_first x) (mw_rc x) (mw_hadw x)
                                              (mw_semout x) true (mw_semout x) (mw_tmo x) (mw_ent x)) in
      (set_pc w2 t MwLoadW3, EvStoreWord 1108 new)
  | MtStore3 old =>
      let new := mu_try_acquire_after_timeout_or_cancel_store3_new old in
      (set_pc (set_own (set_word w new) t None false false) t MwLoadW3, EvStoreWord 1109 new)
  end.

Definition step (w : world) (a : actor) : world * ev :=
  match a with
  | Thr t c => step_thr w t c
  | Tick dt => if 0 <=? dt then (set_clock w (clock w + dt), EvTick) else (w, EvNone)
  | Notify => (set_note w true, EvNotify)
  | NoteV p => if note w then (set_sem w p (sem w p + 1), EvNoteV p) else (w, EvNone)
  end.

Definition init (progs : list (list op)) (cl : nat -> nat) (clock0 : Z) : world :=
  mk_w 0 [] (fun _ => false) (fun _ => 0) (fun _ => W) (fun _ => None) (fun _ => false) (fun _ => 0)
       (fun x => x) (fun x => x) cl (fun _ _ => false) clock0 false []
       (map (fun p => mk_t Idle p None false false None None) progs).

Definition run (w : world) (sched : list actor) : world := fold_left (fun w a => fst (step w a)) sched w.

End OldModel.

Import OldModel.

(* the statement of Props/Properties_C06.v, over the old model *)
Definition cond_true (w : world) (c : cond) : bool := match c with None => true | Some (f, a) => pst w f a end.
Definition eq_truth_preserving (cl : nat -> nat) (ps : nat -> nat -> bool) : Prop :=
  forall f a b, cl a = cl b -> ps f a = ps f b.
Definition no_nw (progs : list (list op)) : Prop := forall ops, In ops progs -> ~ In OUnlockNW ops.
Definition lost_wakeup (w : world) : Prop :=
  (forall t c, fst (step w (Thr t c)) = w) /\ (forall t, held (get w t) = None) /\
  exists t x, mw (get w t) = Some x /\ In t (queue w) /\ cond_true w (mw_cond x) = true.
Definition C06_no_stuck_full : Prop := forall progs cl c0 sched,
  Z.of_nat (length progs) < 2 ^ 24 - 1 -> no_nw progs ->
  let w := run (init progs cl c0) sched in eq_truth_preserving (cls w) (pst w) -> ~ lost_wakeup w.

(* A = thread 0 (reader-mode waiter, condition never true), X = 1 (makes Y's condition true), D = 2 (reader: the designated
   waker), Y = 3 (writer-mode waiter) *)
Definition f13_progs : list (list op) :=
  [[OLock R; OMuWait (Some (0%nat, 0%nat)) false None false; OUnlock];
   [OLock W; OSetCond 1 0 true; OUnlock];
   [OLock R; OUnlock];
   [OLock W; OMuWait (Some (1%nat, 0%nat)) false None false; OUnlock]].
Definition T (t : nat) : actor := Thr t CNormal.
Definition f13_sched : list actor :=
  [T 3] ++ repeat (T 2) 8      (* Y locks; D queues and sleeps *)
  ++ repeat (T 3) 22           (* Y waits: queues behind D; its unlock_slow wakes D (MU_DESIG_WAKER set); Y sleeps *)
  ++ repeat (T 1) 7            (* X locks, makes Y's condition true, unlocks through the fast path (a designated waker exists) *)
  ++ repeat (T 0) 9            (* A rlocks (barges), enters nsync_mu_wait, takes the spinlock: had_waiters = 0; queues itself *)
  ++ repeat (T 2) 7            (* D re-acquires in reader mode (clears MU_DESIG_WAKER), runlocks: fast path, not the last reader *)
  ++ repeat (T 0) 3.           (* A releases spinlock and lock directly; sleeps *)
Definition f13_w : world := run (init f13_progs (fun x => x) 0) f13_sched.

Lemma quiescent_check (w : world) (n : nat) :
  length (thr w) = n ->
  (forall t, (t < n)%nat -> forall c, fst (step_thr w t c) = w) ->
  forall t c, fst (step w (Thr t c)) = w.
Proof.
  intros L H t c. cbn [step]. destruct (Nat.lt_ge_cases t n) as [Lt|Ge]; [apply H; exact Lt|].
  assert (G : get w t = dflt_t) by (unfold get; apply nth_overflow; rewrite L; exact Ge).
  assert (B : begin_op w t = w) by (unfold begin_op; rewrite G; reflexivity).
  unfold step_thr. rewrite B. cbv zeta. rewrite G. reflexivity.
Qed.

(* world equality by computation needs extensional function fields: compare the computed record field by field *)
Lemma world_eq (a b : world) :
  word a = word b -> queue a = queue b -> waiting a = waiting b -> sem a = sem b -> wtype a = wtype b -> wcond a = wcond b ->
  weq a = weq b -> rcount a = rcount b -> scp a = scp b -> scn a = scn b -> cls a = cls b -> pst a = pst b -> clock a = clock b ->
  note a = note b -> evlog a = evlog b -> thr a = thr b -> a = b.
Proof. destruct a, b; cbn; intros; subst; reflexivity. Qed.

Theorem F13_final_state :
  word f13_w = 20 /\ queue f13_w = [3%nat; 0%nat] /\
  map t_pc (thr f13_w) = [MwSemP; Idle; Idle; MwSemP] /\ map held (thr f13_w) = [None; None; None; None] /\
  map t_ops (thr f13_w) = [[OUnlock]; []; []; [OUnlock]] /\
  sem f13_w 0%nat = 0 /\ sem f13_w 3%nat = 0 /\ waiting f13_w 0%nat = true /\ waiting f13_w 3%nat = true /\
  pst f13_w 1%nat 0%nat = true /\ wcond f13_w 3%nat = Some (1%nat, 0%nat).
Proof. vm_compute. repeat split; reflexivity. Qed.

Theorem C06_no_stuck_full_refuted : ~ C06_no_stuck_full.
Proof.
  intros H. apply (H f13_progs (fun x => x) 0 f13_sched).
  - vm_compute; reflexivity.
  - intros ops [<-|[<-|[<-|[<-|[]]]]] HI; cbn in HI; repeat (destruct HI as [HI|HI]; [discriminate HI|]); exact HI.
  - intros f a b E; vm_compute in E; subst; reflexivity.
  - split; [|split].
    + (* quiescent: A and Y are asleep in the semaphore wait of nsync_mu_wait (count 0, no deadline, not cancellable),
         X and D have finished *)
      apply (quiescent_check _ 4%nat); [vm_compute; reflexivity|].
      intros t Lt c.
      destruct t as [|[|[|[|k]]]]; [| | | |exfalso; do 4 apply Nat.succ_lt_mono in Lt; inversion Lt];
        destruct c; vm_compute; reflexivity.
    + (* nobody holds the mutex *)
      assert (L : length (thr (run (init f13_progs (fun x : nat => x) 0) f13_sched)) = 4%nat) by (vm_compute; reflexivity).
      intros [|[|[|[|k]]]]; try (vm_compute; reflexivity).
      unfold get; rewrite nth_overflow by (rewrite L; apply le_n_S, le_n_S, le_n_S, le_n_S, Nat.le_0_l); reflexivity.
    + (* Y is queued and its condition is true *)
      exists 3%nat, (mk_mw W (Some (1%nat, 0%nat)) false None false false 0 true 0 false 0 None (Some W)).
      split; [vm_compute; reflexivity|]. split; [vm_compute; auto|]. vm_compute; reflexivity.
Qed.

Print Assumptions F13_final_state.
Print Assumptions C06_no_stuck_full_refuted.
