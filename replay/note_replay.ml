(* Lock-step replay of a note_mix trace against the extracted NoteModel.
   Matched, in order, per thread: every atomic site of note.c (site, note, value), every lock / unlock boundary of a note's
   note_mu (the successful CAS or store on <note block>+48 that flips the writer bit; a failed nsync_mu_trylock), the malloc
   of a note, free, the clock reads of nsync_note_notified_deadline_, the V of note_notify_child and the P / timeout of
   nsync_wait_n, plus the arguments and results announced by the scenario ("call"/"ret" notes).
   Main-thread (tid 0) malloc / clock events are not scheduling points of the runtime and are not in the trace: the model
   takes those steps silently.  Events of other files that are not one of the above are skipped. *)
open Rcommon
open NoteModel

(* layout of struct nsync_note_s_: note_mu is at +48; the offset of `notified` is learnt from the first note.c event
   (it moved from +84 to +88 when the `adoptions` field was added) *)
let off_mu = 48 and off_notified = ref (-1)
let site_code fn ord =
  match fn with
  | "note_notify_child" -> 10 + ord | "notify" -> 20 + ord | "nsync_note_notified_deadline_" -> 30 + ord
  | "nsync_note_new" -> 40 + ord | "nsync_note_free" -> 50 + ord | "note_enqueue" -> 60 + ord | "note_dequeue" -> 70 + ord
  | _ -> -1
let opt_time s = if s = "none" then None else Some (z_of_string s)
let show_time = function None -> "none" | Some z -> string_of_int (int_of_z z)

let () =
  load_sites Sys.argv.(2);
  let ic = open_in Sys.argv.(1) in
  let lines = ref [] in
  (try while true do lines := input_line ic :: !lines done with End_of_file -> ());
  let lines = Stdlib.List.rev !lines in
  let first_now = Stdlib.List.fold_left (fun acc l -> if acc >= 0 then acc else
      if String.length l > 2 && l.[0] = 'E' then (match parse_event l with Some e -> e.now | None -> acc) else acc) (-1) lines in
  let w = ref (NoteReplay.init_n (nat_of_int 12) (z_of_int (max first_now 0))) in
  let steps = ref 0 and skipped = ref 0 in
  let cur = ref "" in
  let fail msg = raise (Mismatch (Printf.sprintf "%s (at trace line: %s)" msg !cur)) in
  let id_of_region : (string, int) Hashtbl.t = Hashtbl.create 16 in
  let region_of_id : (int, string) Hashtbl.t = Hashtbl.create 16 in
  let sem_of_owner : (int, string) Hashtbl.t = Hashtbl.create 16 in
  let pushed = Array.make 12 0 in
  let bind id region =
    (match Hashtbl.find_opt region_of_id id with
     | Some r -> if r <> region then fail (Printf.sprintf "model note %d is %s, implementation touches %s" id r region)
     | None ->
       if Hashtbl.mem id_of_region region then fail (Printf.sprintf "block %s is already note %d, model says note %d" region (Hashtbl.find id_of_region region) id);
       Hashtbl.replace region_of_id id region; Hashtbl.replace id_of_region region id) in
  let sync now =
    let c = int_of_z (NoteModel.clock !w) in
    if now > c then w := NoteModel.tick !w (z_of_int (now - c)) in
  (* one model step of thread t; returns the event; checks that the notes the implementation touches are in the footprint *)
  let do_step t c (touched : int list) =
    let tn = nat_of_int t in
    let fp = Stdlib.List.map int_of_nat (NoteModel.touches !w tn) in
    let pc = int_of_z (NoteReplay.pc_code !w tn) in
    let (w', ev) = NoteModel.step !w tn c in
    if ev = EvBlocked then fail (Printf.sprintf "the model's step (pc %d) of thread %d is not enabled" pc t);
    Stdlib.List.iter (fun n -> if not (Stdlib.List.mem n fp) then fail (Printf.sprintf "note %d is not in the model's footprint of pc %d" n pc)) touched;
    cover (Printf.sprintf "p%d" pc);
    w := w'; incr steps; ev in
  let expects t = int_of_z (NoteReplay.expects !w (nat_of_int t)) in
  (* steps that leave no event in the trace *)
  let rec drain t =
    match expects t with
    | 2 when t = 0 -> (match do_step t false [] with EvMalloc (Some _) -> drain t | _ -> fail "model: silent malloc step gave another event")
    | 3 when t = 0 -> (match do_step t false [] with EvClock _ -> drain t | _ -> fail "model: silent clock step gave another event")
    | _ -> () in
  let resolve_try_fail t =
    if expects t = 8 then begin
      (match do_step t true [] with
       | EvTry (p, false) -> if NoteReplay.lock_is_free !w p then cover "try_failed_while_free"
       | _ -> fail "model: forced trylock failure gave another event")
    end in
  let note_of_region r = Hashtbl.find_opt id_of_region r in
  let check_res t (r : string) =
    drain t;
    if expects t = 7 then begin
      match do_step t false [] with EvExpiry (_, _) -> () | _ -> fail "model: expiry step gave another event" end;
    let tn = nat_of_int t in
    if int_of_nat (NoteReplay.ncalls_done !w tn) <> pushed.(t) then
      fail (Printf.sprintf "implementation returned from call %d of thread %d, model has completed %d (pc %d)" pushed.(t) t
              (int_of_nat (NoteReplay.ncalls_done !w tn)) (int_of_z (NoteReplay.pc_code !w tn)));
    match NoteReplay.last_res !w tn with
    | None -> fail "model has no completed call"
    | Some (o, res) ->
      let bad m = fail (Printf.sprintf "result differs: implementation %s, model %s" r m) in
      (match o, res with
       | (OIsNotified _ | OWait (_, _)), RBool b -> if (r = "1") <> b then bad (if b then "1" else "0")
       | ONew (_, _), RNote (Some _) -> if r <> "1" then bad "a note"
       | ONew (_, _), RNote None -> if r <> "0" then bad "NULL"
       | (ONotify _ | OFree _), RNone -> ()
       | OExpiry _, RTime x -> if show_time x <> r then bad (show_time x)
       | _, RSkip -> fail "model skipped the call (note not allocated)"
       | _, _ -> fail "model result has the wrong shape") in
  let handle_note (l : string) =
    match String.split_on_char ' ' l with
    | _ :: _ :: "call" :: t :: opn :: args ->
      let t = int_of_string t in
      let nn s = nat_of_int (int_of_string s) in
      let o = (match opn, args with
          | "isn", [i] -> OIsNotified (nn i)
          | "notify", [i] -> ONotify (nn i)
          | "wait", [i; d] -> OWait (nn i, opt_time d)
          | "new", [p; d] -> ONew ((if int_of_string p < 0 then None else Some (nn p)), opt_time d)
          | "expiry", [i] -> OExpiry (nn i)
          | "free", [i] -> OFree (nn i)
          | _ -> fail "unknown call note") in
      if not (NoteReplay.idle !w (nat_of_int t)) then fail "implementation starts a call while the model's thread is still inside one";
      w := NoteReplay.push_op !w (nat_of_int t) o; pushed.(t) <- pushed.(t) + 1;
      cover ("call_" ^ opn)
    | _ :: _ :: "ret" :: t :: r :: _ -> check_res (int_of_string t) r
    | _ -> () in
  let handle_event (e : event) =
    let t = e.tid in
    sync e.now;
    if t = 0 then drain t;
    let region = obj_region e.obj and off = obj_offset e.obj in
    let fn_ord = Hashtbl.find_opt sites (e.file, e.line) in
    let fn = match fn_ord with Some (f, _) -> f | None -> "" in
    if e.file = "note.c" then begin
      let (fn, ord) = match fn_ord with Some x -> x | None -> fail "trace site not in Gen/Sites" in
      let key = site_code fn ord in
      cover (Printf.sprintf "s%d" key);
      resolve_try_fail t;
      if expects t <> 1 then fail (Printf.sprintf "implementation is at note.c site %d, model expects kind %d" key (expects t));
      (* which note (for the `notified` word) *)
      let touched, check_note =
        if e.kind = "load" && !off_notified < 0 then off_notified := off;
        if off = !off_notified && String.length region > 3 && String.sub region 0 3 = "blk" then
          (fun n -> bind n region), true
        else (fun _ -> ()), false in
      let pre_fp = match note_of_region region with Some n when check_note -> [n] | _ -> [] in
      let ev = do_step t false pre_fp in
      (match e.kind, ev with
       | "load", EvLoad (s, n, v) ->
         if int_of_z s <> key then fail (Printf.sprintf "model at site %d, implementation at %d" (int_of_z s) key);
         if not check_note then fail "load of notified on an unexpected object";
         touched (int_of_nat n);
         if int_of_z v <> e.a then fail (Printf.sprintf "load value differs: model %d implementation %d" (int_of_z v) e.a);
         cover (Printf.sprintf "s%d=%d" key e.a)
       | "store", EvStoreN (s, n, v) ->
         if int_of_z s <> key then fail (Printf.sprintf "model at site %d, implementation at %d" (int_of_z s) key);
         if not check_note then fail "store to notified on an unexpected object";
         touched (int_of_nat n);
         if int_of_z v <> e.b then fail "stored value differs"
       | "store", EvStoreW (s, o, v) ->
         if int_of_z s <> key then fail (Printf.sprintf "model at site %d, implementation at %d" (int_of_z s) key);
         if int_of_z v <> e.b then fail "stored waiting value differs";
         if region <> Printf.sprintf "stk%d" (int_of_nat o) then fail (Printf.sprintf "waiter record is on %s, model says thread %d" region (int_of_nat o))
       | _, _ -> fail (Printf.sprintf "event kinds differ (model pc gave another event) site %d" key))
    end else begin
      let is_mu_word = off = off_mu && Hashtbl.mem id_of_region region in
      let flips = (e.kind = "cas" && e.ok || e.kind = "store") && (e.a land 1) <> (e.b land 1) in
      if is_mu_word && flips then begin
        let n = Hashtbl.find id_of_region region in
        if e.b land 1 = 1 then begin
          (* acquisition *)
          if expects t = 8 && fn = "nsync_mu_trylock" then begin
            cover "trylock_ok";
            match do_step t false [n] with
            | EvTry (m, true) -> if int_of_nat m <> n then fail "trylock on another note"
            | _ -> fail "model does not take the trylock"
          end else begin
            resolve_try_fail t;
            if expects t <> 1 then fail (Printf.sprintf "implementation acquires note %d, model expects kind %d" n (expects t));
            cover "lock";
            match do_step t false [n] with
            | EvLock m -> if int_of_nat m <> n then fail (Printf.sprintf "implementation locks note %d, model note %d" n (int_of_nat m))
            | _ -> fail (Printf.sprintf "implementation acquires note %d, the model's step is not a lock" n)
          end
        end else begin
          resolve_try_fail t;
          if expects t <> 1 then fail (Printf.sprintf "implementation releases note %d, model expects kind %d" n (expects t));
          cover "unlock";
          match do_step t false [n] with
          | EvUnlock m -> if int_of_nat m <> n then fail (Printf.sprintf "implementation unlocks note %d, model note %d" n (int_of_nat m))
          | _ -> fail (Printf.sprintf "implementation releases note %d, the model's step is not an unlock" n)
        end
      end else if e.kind = "malloc" && expects t = 2 then begin
        match do_step t (not e.ok) [] with
        | EvMalloc (Some n) -> if not e.ok then fail "malloc outcome differs"; bind (int_of_nat n) (Printf.sprintf "blk%d" e.b); cover "malloc"
        | EvMalloc None -> if e.ok then fail "malloc outcome differs"; cover "malloc_fail"
        | _ -> fail "model: malloc step gave another event"
      end else if e.kind = "free" && expects t = 6 then begin
        match do_step t false (match note_of_region region with Some n -> [n] | None -> []) with
        | EvFree n -> bind (int_of_nat n) region; cover "free"
        | _ -> fail "model: free step gave another event"
      end else if e.kind = "clock" then begin
        match expects t with
        | 3 -> (match do_step t false [] with
            | EvClock now -> if int_of_z now <> e.now then fail "clock value differs"; cover "clock"
            | _ -> fail "model: clock step gave another event")
        | 5 -> if NoteReplay.sleep_due !w (nat_of_int t) then begin
            match do_step t true [] with EvP false -> cover "p_timeout" | _ -> fail "model: timeout step gave another event" end
          else cover "p_early_wake"
        | k -> fail (Printf.sprintf "implementation reads the clock, model expects kind %d" k)
      end else if e.file = "nsync_semaphore_futex.c" && e.kind = "cas" && e.ok then begin
        if fn = "nsync_mu_semaphore_v" && expects t = 4 then begin
          match do_step t false [] with
          | EvV o ->
            let o = int_of_nat o in
            (match Hashtbl.find_opt sem_of_owner o with
             | Some r -> if r <> region then fail "V on another semaphore than the owner's"
             | None -> Hashtbl.replace sem_of_owner o region);
            cover "v"
          | _ -> fail "model: V step gave another event"
        end else if fn = "nsync_mu_semaphore_p_with_deadline" && expects t = 5 then begin
          match do_step t false [] with
          | EvP true ->
            (match Hashtbl.find_opt sem_of_owner t with
             | Some r -> if r <> region then fail "P on another semaphore than the one V'ed"
             | None -> Hashtbl.replace sem_of_owner t region);
            cover "p_ok"
          | _ -> fail "model: P step gave another event"
        end else incr skipped
      end else incr skipped
    end in
  (try
     Stdlib.List.iter (fun line ->
         cur := line;
         if String.length line > 2 && line.[0] = 'N' then handle_note line
         else if String.length line > 2 && line.[0] = 'E' then
           (match parse_event line with Some e -> handle_event e | None -> ())) lines;
     cur := "<end of trace>";
     for t = 0 to 11 do
       if not (NoteReplay.idle !w (nat_of_int t)) then fail (Printf.sprintf "thread %d of the model has not finished (pc %d)" t (int_of_z (NoteReplay.pc_code !w (nat_of_int t))))
     done;
     let ((mono, broken), crashed) = NoteReplay.flags !w in
     if mono then fail "model ghost: observation history not monotone";
     if broken then fail "model ghost: the scenario broke the client contract";
     if crashed then fail "model ghost: ASSERT in nsync_note_free"
   with Mismatch m -> Printf.printf "MISMATCH %s\n" m; exit 1);
  Rcommon.finish !steps !skipped
