(* Lock-step replay of a cv_mix trace (harness/rt/vrt.c format) against the extracted CvModel.
   Every atomic event of cv.c, and every event of nsync_spin_test_and_set_ on the cv word, must be the step the model
   takes for that thread: same site, same object, same values read / written, same CAS outcome.  The ABSTRACT mutex of
   the model is driven by the real mutex code: every successful write of mu.c to the mutex word becomes [MuEnv] (flag
   bits) plus, when the lock field changes, the abstract acquire / release step of that thread; dequeues / wake-ups of
   transferred waiters by nsync_mu_unlock_slow_ become [MuDeq] / [MuWakeSt]; every successful P / V on a thread's
   semaphore is mirrored (model P / V steps, [CIntP] inside an acquisition, [EnvV]).  The clock follows the trace.
   The coupling the model assumes of the unlocker (ghost [owed]: the V follows the store waiting = 0) is CHECKED on the
   trace: after a [MuWakeSt] of thread x for waiter u the next semaphore event x completes must be the V on u's semaphore,
   x must not clear another transferred waiter's flag before it, and at the end of the trace nothing is owed.
   The outcome of nsync_sem_wait_with_cancel_ is inferred (0: the P CAS; non-zero: the next cv.c site is line 253) and
   every returned code announced by the scenario (notes "ret" / "retn") is compared with the model's ghost log.
   Snapshots (S lines) compare the cv queue whenever the cv spinlock is free, and require the model's part of the
   mutex queue to be a subsequence of the real one.
   F15 (wake_waiters clears MU_WAITING at the release of the mutex spinlock when pmu->waiters is empty): the model takes
   "no plain locker is queued" from the environment at the step of the CAS that takes the spinlock (choice [CMuEmpty]); the
   replayer derives it by reading ahead to the thread's releasing CAS (site 104: was MU_WAITING cleared?) and from the
   snapshot that follows the acquiring CAS (the real mutex queue at the moment of the test), and FAILS if the implementation
   cleared the bit while the model's muq is non-empty or the real queue was not, or kept it while the real queue was empty
   ([f15_choice]; counters f15:cleared / f15:kept-transferred / f15:kept-transferred+plain / f15:kept-plain-locker).
   Waits through nsync_cv_wait_with_deadline_generic (cv_mix MODE 5 / 6: note "wait <t> <deadline> <cancellable> <generic>") are
   replayed as [OWait _ _ true].  F16 (wake_waiters transfers only waiters with cv_mu == pmu): after the CAS that takes the mutex
   spinlock nothing the model left on to_wake_list may be on the real mutex queue (snapshot after that event); counter
   f16:generic-woken-not-transferred = generic waiters the model left on to_wake_list inside a mutex spinlock section. *)
open Rcommon
open CvModel

let fid = function
  | "wake_waiters" -> 100 | "nsync_cv_wait_with_deadline_generic" -> 200 | "nsync_cv_signal" -> 300
  | "nsync_cv_broadcast" -> 400 | "cv_ready_time" -> 500 | "cv_enqueue" -> 600 | "cv_dequeue" -> 700
  | "nsync_spin_test_and_set_" -> 800 | _ -> -1

let any_lock = 0xFFFFFF01

let pc_name = function
  | Idle -> "Idle" | Crash _ -> "Crash" | MLock _ -> "MLock" | MUnlock -> "MUnlock"
  | SpLoad (f, k) -> (if f then "SpLoad1" else "SpLoad2") | SpCas _ -> "SpCas"
  | WStore1 _ -> "WStore1" | WLoadMu _ -> "WLoadMu" | WLoadRc _ -> "WLoadRc" | WStoreRel _ -> "WStoreRel" | WMuRel _ -> "WMuRel"
  | WLoop _ -> "WLoop" | WSem _ -> "WSem" | WLoad6 _ -> "WLoad6" | WLoad7 _ -> "WLoad7" | WLoad8 _ -> "WLoad8"
  | WRcLoad _ -> "WRcLoad" | WRcCas _ -> "WRcCas" | WStore0 _ -> "WStore0" | WStoreW _ -> "WStoreW" | WLoad13 _ -> "WLoad13"
  | WMuAcq _ -> "WMuAcq" | KLoadW b -> (if b then "BLoadW" else "SLoadW") | KRcLoad _ -> "KRcLoad" | KRcCas _ -> "KRcCas"
  | KStoreW _ -> "KStoreW" | VLoad1 _ -> "VLoad1" | VCas1 _ -> "VCas1" | VLoad3 _ -> "VLoad3" | VCas2 _ -> "VCas2" | VLoad5 _ -> "VLoad5"
  | VStore _ -> "VStore" | VV _ -> "VV" | NEnqStore _ -> "NEnqStore" | NEnqRel _ -> "NEnqRel" | NMuRel _ -> "NMuRel"
  | NReady _ -> "NReady" | NSem _ -> "NSem" | NDeqLoad _ -> "NDeqLoad" | NDeqStore _ -> "NDeqStore" | NDeqRel _ -> "NDeqRel"
  | NDeqSpin _ -> "NDeqSpin" | NMuAcq _ -> "NMuAcq"
let spk_name = function KWaitEnq _ -> "enq" | KWaitTo _ -> "to" | KSig -> "sig" | KBc -> "bc" | KEnq _ -> "nenq" | KDeq _ -> "ndeq"
let pc_name2 p = match p with SpCas (k, _) -> "SpCas." ^ spk_name k | _ -> pc_name p
let edges : (string, int) Hashtbl.t = Hashtbl.create 256

let () =
  load_sites Sys.argv.(2);
  let lines =
    let ic = open_in Sys.argv.(1) in
    let acc = ref [] in
    (try while true do acc := input_line ic :: !acc done with End_of_file -> ());
    close_in ic; Array.of_list (Stdlib.List.rev !acc) in
  let nl = Array.length lines and pos = ref 0 in
  let next_line () = if !pos >= nl then raise End_of_file else begin let l = lines.(!pos) in incr pos; l end in
  let w = ref (CvReplay.init_n (nat_of_int 16) (z_of_int 0)) in
  let steps = ref 0 and skipped = ref 0 and snaps = ref 0 and envs = ref 0 in
  let main_blk : (int, string) Hashtbl.t = Hashtbl.create 16 in
  let thread_of_blk : (string, int) Hashtbl.t = Hashtbl.create 16 in
  let wn_rec : (int, int) Hashtbl.t = Hashtbl.create 16 in
  let wait_info : (int, int * bool * bool) Hashtbl.t = Hashtbl.create 16 in   (* deadline, cancellable, generic *)
  let waitn_info : (int, int) Hashtbl.t = Hashtbl.create 16 in
  let futex_seen : (int, bool) Hashtbl.t = Hashtbl.create 16 in
  let pending_post : (int, int) Hashtbl.t = Hashtbl.create 16 in       (* unlocker thread -> waiter it owes a post *)
  let last_ev = ref "" in
  let fail msg = raise (Mismatch (Printf.sprintf "%s (at trace event: %s)" msg !last_ev)) in
  let nat t = nat_of_int t in
  let cls t = int_of_z (CvReplay.pc_class !w (nat t)) in
  let env a what =
    let (w', ev) = CvModel.step !w a CNormal in
    (match ev with EvEnv true -> () | _ -> fail ("the model refuses the environment step " ^ what));
    w := w'; incr envs; cover ("env:" ^ what) in
  let tick now =
    let c = int_of_z (CvModel.clock !w) in
    if now > c then begin let (w', _) = CvModel.step !w (Tick (z_of_int (now - c))) CNormal in w := w' end in
  let thr t c =
    let before = pc_name2 (CvModel.t_pc (CvModel.get (CvModel.begin_op !w (nat t)) (nat t))) in
    let (w', ev) = CvModel.step !w (Thr (nat t)) c in
    w := w'; incr steps;
    (match ev with EvBlocked -> () | _ ->
       let k = before ^ ">" ^ pc_name2 (CvModel.t_pc (CvModel.get !w (nat t))) in
       Hashtbl.replace edges k (1 + try Hashtbl.find edges k with Not_found -> 0));
    ev in
  let push t o = w := CvModel.begin_op (CvReplay.push_op !w (nat t) o) (nat t) in
  (* waiter structs are recycled through nsync's free list when a thread exits, and their remove_count is never reset: the model's
     record of thread t starts at 0, the implementation's at whatever the struct held when t got it (rc_base) *)
  let rc_real : (string, int) Hashtbl.t = Hashtbl.create 16 in          (* address -> last value seen *)
  let rc_addr : (string, string) Hashtbl.t = Hashtbl.create 16 in       (* region -> address of its remove_count *)
  let rc_base : (int, int) Hashtbl.t = Hashtbl.create 16 in
  let is_rc (e : event) = (try let tg = Hashtbl.find site_targets (e.file, e.line) in String.length tg >= 12 && String.sub tg 0 12 = "remove_count" with Not_found -> false) in
  let rc_note (e : event) =
    if is_rc e then begin
      Hashtbl.replace rc_addr (obj_region e.obj) e.obj;
      Hashtbl.replace rc_real e.obj (if (e.kind = "cas" && e.ok) || e.kind = "store" then e.b else e.a)
    end in
  let learn_blk t blk =
    if not (Hashtbl.mem main_blk t) then begin
      Hashtbl.replace main_blk t blk; Hashtbl.replace thread_of_blk blk t;
      Hashtbl.replace rc_base t (try Hashtbl.find rc_real (Hashtbl.find rc_addr blk) with Not_found -> 0)
    end in
  let dl_opt d = if d < 0 then None else Some (z_of_int d) in
  let mem_list r l = Stdlib.List.exists (fun x -> int_of_nat x = r) l in
  (* object of a trace event as the model names it *)
  let obj_id (e : event) =
    let r = obj_region e.obj in
    if r = "cv0" then -1 else if r = "mu0" then -2
    else if String.length r > 3 && String.sub r 0 3 = "stk" then
      (let tt = int_of_string (String.sub r 3 (String.length r - 3)) in try Hashtbl.find wn_rec tt with Not_found -> -99)
    else (try Hashtbl.find thread_of_blk r with Not_found -> -98) in
  let mode_name = function W -> "W" | R -> "R" in
  (* a snapshot line "S CVQ a b | MQ c d": the two queues as model record ids (head first) *)
  let parse_snapshot line =
    match String.split_on_char ' ' line with
    | _ :: "CVQ" :: rest ->
      let rec split acc = function [] -> (Stdlib.List.rev acc, []) | "|" :: "MQ" :: r -> (Stdlib.List.rev acc, r) | x :: r -> split (x :: acc) r in
      let (cq, mq) = split [] rest in
      let id_of s =
        let r = obj_region s in
        if String.length r > 3 && String.sub r 0 3 = "stk" then
          (try Hashtbl.find wn_rec (int_of_string (String.sub r 3 (String.length r - 3))) with Not_found -> -99)
        else (try Hashtbl.find thread_of_blk r with Not_found -> -98) in
      let ids l = Stdlib.List.map id_of (Stdlib.List.filter (fun s -> s <> "") l) in
      Some (ids cq, ids mq)
    | _ -> None in
  let show_ids l = String.concat ";" (Stdlib.List.map string_of_int l) in
  (* ---- F15: the choice of the step [VCas1] (successful CAS of wake_waiters on the mutex word, cv.c site 102) ----
     wake_waiters tests nsync_dll_is_empty_ (pmu->waiters) in the thread-local work that follows this CAS; the model takes
     "no plain locker is queued" from the environment (choice [CMuEmpty]).  Derived from the trace: the NEXT releasing CAS of
     this thread (site 104; its new value shows whether MU_WAITING was cleared) and the snapshot taken after this event (the
     real mutex queue at the moment of the test).  FAILS if the implementation cleared MU_WAITING while the model's muq is
     non-empty or the real queue was not empty, or kept it while the real queue was empty. *)
  let f15_choice (e : event) =
    let t = e.tid in
    let real_q = (if !pos < nl && String.length lines.(!pos) > 2 && lines.(!pos).[0] = 'S'
                  then (match parse_snapshot lines.(!pos) with Some (_, mq) -> Some mq | None -> None) else None) in
    let cleared =
      let r = ref None and j = ref !pos in
      while !r = None && !j < nl do
        let l = lines.(!j) in
        (if String.length l > 2 && l.[0] = 'E' then
           match parse_event l with
           | Some e4 when e4.tid = t && e4.file = "cv.c" && e4.kind = "cas"
                          && (try Hashtbl.find sites (e4.file, e4.line) = ("wake_waiters", 4) with Not_found -> false) ->
             if e4.a land 4 = 0 then fail "MU_WAITING is clear in the word wake_waiters read under the mutex spinlock";
             r := Some (e4.b land 4 = 0)
           | _ -> ());
        incr j
      done; !r in
    let (w_try, _) = CvModel.step !w (Thr (nat t)) CNormal in
    let model_q = Stdlib.List.map int_of_nat (CvModel.muq w_try) in
    match cleared with
    | Some true ->
      if model_q <> [] then
        fail (Printf.sprintf "the implementation cleared MU_WAITING at the release of the mutex spinlock, the model's mutex queue holds transferred waiters [%s]" (show_ids model_q));
      (match real_q with
       | Some (_ :: _ as rq) -> fail (Printf.sprintf "the implementation cleared MU_WAITING over a non-empty mutex queue [%s]" (show_ids rq))
       | _ -> ());
      cover "f15:cleared"; CMuEmpty
    | Some false ->
      (match real_q with Some [] -> fail "the implementation kept MU_WAITING at the release of the mutex spinlock while the mutex queue was empty" | _ -> ());
      if model_q <> [] then begin
        (* the transferred waiters keep the bit whatever the environment reports; report what the snapshot shows *)
        let plain = (match real_q with Some rq -> Stdlib.List.exists (fun x -> not (Stdlib.List.mem x model_q)) rq | None -> true) in
        cover (if plain then "f15:kept-transferred+plain" else "f15:kept-transferred");
        if plain then CNormal else CMuEmpty
      end else begin cover "f15:kept-plain-locker"; CNormal end
    | None ->
      (* the trace ends before the release *)
      cover "f15:no-release-in-trace";
      (match real_q with Some [] when model_q = [] -> CMuEmpty | _ -> CNormal) in
  let check_mu_word real =
    let m = int_of_z (CvModel.muw !w) in
    if m <> real then fail (Printf.sprintf "mutex word differs: model %d implementation %d" m real) in
  (* ---- a successful write of the mutex code to the mutex word ---- *)
  let mu_write (e : event) =
    let t = e.tid and old = e.a and nw = e.b in
    if int_of_z (CvModel.mu_flags (z_of_int nw)) <> int_of_z (CvModel.mu_flags (CvModel.muw !w)) then env (MuEnv (z_of_int nw)) "MuEnv";
    let lo = old land any_lock and ln = nw land any_lock in
    if lo <> ln then begin
      let (acq, m) =
        if ln = lo + 1 then (true, W) else if ln = lo - 1 then (false, W)
        else if ln = lo + 256 then (true, R) else if ln = lo - 256 then (false, R)
        else fail (Printf.sprintf "unsupported change of the lock field %d -> %d" old nw) in
      if cls t = 0 then push t (if acq then OLock m else OUnlock);
      let c = cls t in
      if acq && c <> 1 then fail "implementation acquires the mutex, model thread is not in an acquisition";
      if (not acq) && c <> 2 then fail "implementation releases the mutex, model thread is not about to release";
      (match thr t CNormal with
       | EvMu (a, m') ->
         if a <> acq || m' <> m then fail (Printf.sprintf "abstract mutex step differs: model %s %s, implementation %s %s"
                                             (if a then "acquire" else "release") (mode_name m') (if acq then "acquire" else "release") (mode_name m))
       | EvBlocked -> fail "model cannot acquire the mutex here (lock field busy)"
       | _ -> fail "model does not take an abstract mutex step here");
      cover (if acq then "mu:acquire" else "mu:release")
    end;
    check_mu_word nw in
  (* ---- semaphore ---- *)
  let sem_event (e : event) fn =
    let t = e.tid in
    (* a futex event on the thread's OWN semaphore: nsync_sem_wait_with_cancel_ got as far as its P *)
    if (try Hashtbl.find main_blk t = obj_region e.obj with Not_found -> false) then Hashtbl.replace futex_seen t true;
    if e.kind = "cas" && e.ok then begin
      let blk = obj_region e.obj in
      if fn = "nsync_mu_semaphore_p" || fn = "nsync_mu_semaphore_p_with_deadline" then begin
        if (try Hashtbl.find main_blk t = blk with Not_found -> false) then begin
          let c = cls t in
          if c = 1 then (match thr t CIntP with EvP _ -> cover "sem:P-in-acquire" | _ -> fail "P inside a mutex acquisition succeeded, the model's count is 0")
          else if c = 3 || c = 4 then
            (match thr t CNormal with
             | EvP z when int_of_z z = 0 -> cover "sem:P"
             | EvBlocked -> fail "P succeeded in the implementation but the model's count is 0"
             | _ -> fail "implementation completed P, model elsewhere")
          else if c = 0 then env (EnvP (nat t)) "EnvP"
          else fail "P on the thread's semaphore at a model pc that does not sleep"
        end else incr skipped
      end else if fn = "nsync_mu_semaphore_v" then begin
        match (try Some (Hashtbl.find thread_of_blk blk) with Not_found -> None) with
        | None -> incr skipped
        | Some u ->
          (match (try Some (Hashtbl.find pending_post t) with Not_found -> None) with
           | Some u' ->
             if u' <> u then fail (Printf.sprintf "unlocker %d cleared the waiting flag of thread %d but its next V is on thread %d" t u' u);
             (* (the model's [owed] is a count: an earlier V on u's semaphore by another thread may already have paid it) *)
             Hashtbl.remove pending_post t; cover "sem:V-owed"
           | None -> ());
          (match CvReplay.vv_target !w (nat t) with
           | Some o when int_of_nat o = u ->
             (match thr t CNormal with EvV _ -> cover "sem:V" | _ -> fail "implementation completed V, model elsewhere")
           | Some o -> fail (Printf.sprintf "V targets thread %d in the implementation, %d in the model" u (int_of_nat o))
           | None -> env (EnvV (nat u)) "EnvV")
      end else incr skipped
    end else incr skipped in
  (* ---- mu.c events on waiter records ---- *)
  let mu_other (e : event) fn =
    let blk = obj_region e.obj in
    if fn = "nsync_mu_lock_slow_" && e.kind = "store" && e.b = 1 && String.length blk > 3 && String.sub blk 0 3 = "blk" then begin
      learn_blk e.tid blk; incr skipped end
    else match (try Some (Hashtbl.find thread_of_blk blk) with Not_found -> None) with
      | None -> incr skipped
      | Some u ->
        if fn = "nsync_remove_from_mu_queue_" && e.kind = "cas" && e.ok then begin
          if mem_list u (CvModel.muq !w) then env (MuDeq (nat u)) "MuDeq" else env (EnvRc (nat u)) "EnvRc"
        end else if fn = "nsync_mu_unlock_slow_" && e.kind = "store" && e.b = 0 then begin
          if mem_list u (CvModel.mwake !w) then begin
            if Hashtbl.mem pending_post e.tid then fail "unlocker clears a second transferred waiter's flag before posting the first";
            env (MuWakeSt (nat u)) "MuWakeSt"; Hashtbl.replace pending_post e.tid u end
          else incr skipped
        end else incr skipped in
  (* ---- an event of cv.c / of nsync_spin_test_and_set_ on the cv word ---- *)
  let cv_event (e : event) fn ord =
    let t = e.tid in
    let key = fid fn + ord in
    if fid fn < 0 then fail ("function outside CvModel: " ^ fn);
    cover (string_of_int key);
    if Hashtbl.mem pending_post t then fail "a thread that owes a post (unlocker) is in cv.c before posting";
    (* entry of a call *)
    if cls t = 0 then begin
      match key with
      | 201 -> let (d, c, g) = (try Hashtbl.find wait_info t with Not_found -> fail "wait without an announcing note") in
        learn_blk t (obj_region e.obj);
        if (try Hashtbl.find main_blk t <> obj_region e.obj with Not_found -> false) then fail "the thread's waiter struct changed";
        cover (if g then "wait:generic" else "wait:native");
        push t (OWait (dl_opt d, c, g))
      | 301 -> push t OSignal
      | 401 -> push t OBroadcast
      | 801 -> let d = (try Hashtbl.find waitn_info t with Not_found -> fail "nsync_wait_n without an announcing note") in
        Hashtbl.replace wn_rec t (int_of_nat (CvModel.nrec !w));
        push t (OWaitN (dl_opt d))
      | _ -> fail (Printf.sprintf "cv.c site %d while the model thread is idle" key)
    end;
    (* a pending nsync_sem_wait_with_cancel_ / semaphore_p_with_deadline that returned non-zero *)
    (match cls t with
     | 3 ->
       if key <> 206 then fail (Printf.sprintf "model waits in nsync_sem_wait_with_cancel_, implementation at site %d" key);
       let seen = (try Hashtbl.find futex_seen t with Not_found -> false) in
       let try_c c = (match thr t c with EvP z when int_of_z z <> 0 -> true | EvBlocked -> decr steps; false | _ -> fail "sem_wait step expected") in
       if not (CvReplay.wait_is_cancellable !w (nat t)) then begin
         if not (try_c CTimeout) then fail "implementation: ETIMEDOUT; the model's clock has not reached the deadline"; cover "sem:timeout" end
       else if not seen then begin
         if not (try_c CCancel) then fail "implementation: ECANCELED without sleeping; the model's note is not notified"; cover "sem:cancel" end
       else if try_c CTimeout then cover "sem:timeout"
       else if try_c CCancel then cover "sem:cancel"
       else fail "sem_wait returned non-zero; the model allows neither ETIMEDOUT nor ECANCELED"
     | 4 ->
       if key <> 801 then fail (Printf.sprintf "model sleeps in nsync_wait_n, implementation at site %d" key);
       (match thr t CTimeout with EvP z when int_of_z z <> 0 -> cover "sem:timeout-waitn" | _ -> fail "nsync_wait_n timed out; the model's clock has not reached the deadline")
     | 1 | 2 -> fail (Printf.sprintf "cv.c site %d while the model thread is inside an abstract mutex operation" key)
     | 9 -> fail "model thread crashed"
     | _ -> ());
    let o = obj_id e in
    let chk_site s = if int_of_z s <> key then fail (Printf.sprintf "model is at site %d, implementation at %d" (int_of_z s) key) in
    let chk_obj mo = if int_of_z mo <> o then fail (Printf.sprintf "object differs: model %d, implementation %d (%s)" (int_of_z mo) o e.obj) in
    let off = if is_rc e then (try Hashtbl.find rc_base (Hashtbl.find thread_of_blk (obj_region e.obj)) with Not_found -> 0) else 0 in
    let int_of_z z = int_of_z z + off in
    let c = if key = 102 && e.kind = "cas" && e.ok then f15_choice e else CNormal in
    (match e.kind, thr t c with
     | "load", EvLoad (s, mo, v) ->
       chk_site s; chk_obj mo;
       if int_of_z v <> e.a then fail (Printf.sprintf "load value differs: model %d implementation %d" (int_of_z v) e.a)
     | "store", EvStore (s, mo, v) ->
       chk_site s; chk_obj mo;
       if int_of_z v <> e.b then fail (Printf.sprintf "stored value differs: model %d implementation %d" (int_of_z v) e.b)
     | "cas", EvCas (s, mo, ol, nw, k) ->
       chk_site s; chk_obj mo;
       if int_of_z ol <> e.a || int_of_z nw <> e.b then
         fail (Printf.sprintf "CAS values differ: model %d->%d, implementation %d->%d" (int_of_z ol) (int_of_z nw) e.a e.b);
       if k <> e.ok then fail (Printf.sprintf "CAS outcome differs: model %b implementation %b" k e.ok)
     | _, EvBlocked -> fail "model thread is blocked, the implementation thread moved"
     | _, EvCrash -> fail "model thread crashed"
     | _, _ -> fail ("event kinds differ (implementation " ^ e.kind ^ ")"));
    if cls t = 3 then Hashtbl.replace futex_seen t false;
    (* F16: after the CAS of wake_waiters that took the mutex spinlock, nothing the model left on to_wake_list (non-native records,
       waiters not associated with the mutex) may be on the real mutex queue (snapshot taken after this event) *)
    if key = 102 && e.kind = "cas" && e.ok then begin
      let stay = Stdlib.List.map int_of_nat (CvReplay.wake_list !w (nat t)) in
      let g = int_of_nat (CvReplay.generic_left !w (nat t)) in
      for _ = 1 to g do cover "f16:generic-woken-not-transferred" done;
      if !pos < nl && String.length lines.(!pos) > 2 && lines.(!pos).[0] = 'S' then
        (match parse_snapshot lines.(!pos) with
         | Some (_, mq) ->
           Stdlib.List.iter (fun x -> if Stdlib.List.mem x stay then
                                fail (Printf.sprintf "the implementation moved record %d to the mutex queue, the model leaves it on to_wake_list (woken directly)" x)) mq
         | None -> ())
    end;
    if o = -2 && e.kind = "cas" && e.ok then check_mu_word e.b in
  (try
     while true do
       let line = next_line () in
       if String.length line > 2 && line.[0] = 'E' then begin
         last_ev := line;
         match parse_event line with
         | None -> ()
         | Some e ->
           tick e.now;
           let site = (try Some (Hashtbl.find sites (e.file, e.line)) with Not_found -> None) in
           let region = obj_region e.obj in
           (match site with
            | Some (fn, ord) when e.file = "cv.c" -> cv_event e fn ord
            | Some (fn, ord) when fn = "nsync_spin_test_and_set_" && region = "cv0" -> cv_event e fn ord
            | Some (fn, ord) when e.file = "mu.c" || e.file = "mu_wait.c" || e.file = "debug.c" ->
              if region = "mu0" then begin
                (* entry of nsync_mu_lock / nsync_mu_rlock as a program operation *)
                if ord = 1 && cls e.tid = 0 then begin
                  if fn = "nsync_mu_lock" then push e.tid (OLock W) else if fn = "nsync_mu_rlock" then push e.tid (OLock R) end;
                if (e.kind = "cas" && e.ok) || e.kind = "store" then mu_write e else incr skipped
              end else mu_other e fn
            | Some (fn, _) when e.file = "common.c" && fn = "nsync_waiter_new_" && e.kind = "store"
                                && String.length region > 3 && String.sub region 0 3 = "blk" ->
              (* the first waiter struct a thread allocates becomes its reserved per-thread waiter *)
              learn_blk e.tid region; incr skipped
            | Some (fn, _) when e.file = "nsync_semaphore_futex.c" -> sem_event e fn
            | Some (fn, _) when e.file = "note.c" && fn = "note_notify_child" && e.kind = "store" && e.b = 1 -> env Notify "Notify"
            | None when e.file = "cv.c" -> fail "trace site not in Gen/Sites"
            | _ ->
              if region = "mu0" && ((e.kind = "cas" && e.ok) || e.kind = "store") then mu_write e else incr skipped);
           rc_note e
       end else if String.length line > 2 && line.[0] = 'N' then begin
         last_ev := line;
         match String.split_on_char ' ' line with
         | [_; _; "wait"; t; d; c] -> Hashtbl.replace wait_info (int_of_string t) (int_of_string d, c = "1", false)
         | [_; _; "wait"; t; d; c; g] -> Hashtbl.replace wait_info (int_of_string t) (int_of_string d, c = "1", g = "1")
         | [_; _; "waitn"; t; d] -> Hashtbl.replace waitn_info (int_of_string t) (int_of_string d)
         | [_; _; ("ret" | "retn") as k; t; r] ->
           let t = int_of_string t and r = int_of_string r in
           if cls t <> 0 then fail "the call returned in the implementation, the model thread is not idle";
           (match CvReplay.last_ret !w (nat t) with
            | Some x ->
              if x.r_wait <> (k = "ret") then fail "the model's last return is of the other kind";
              if int_of_z x.r_code <> r then fail (Printf.sprintf "returned code differs: model %d implementation %d" (int_of_z x.r_code) r);
              cover (Printf.sprintf "%s:%d" k r)
            | None -> fail "the model has logged no return")
         | _ -> ()
       end else if String.length line > 2 && line.[0] = 'S' && !steps > 0 then begin
         match parse_snapshot line with
         | Some (cq_ids, mq_ids) ->
           let show = show_ids in
           if CvReplay.spin_free !w then begin
             incr snaps;
             let real = cq_ids and model = Stdlib.List.map int_of_nat (CvModel.cvq !w) in
             if real <> model then fail (Printf.sprintf "cv queue differs: model [%s] implementation [%s]" (show model) (show real))
           end;
           if CvReplay.mu_spin_free !w then begin
             let real = mq_ids and model = Stdlib.List.map int_of_nat (CvModel.muq !w) in
             let rec subseq a b = (match a, b with [], _ -> true | _, [] -> false | x :: a', y :: b' -> if x = y then subseq a' b' else subseq a b') in
             if not (subseq model real) then
               fail (Printf.sprintf "transferred waiters [%s] are not a subsequence of the real mutex queue [%s]" (show model) (show real))
           end
         | None -> ()
       end
     done
   with
   | End_of_file -> ()
   | Mismatch m -> Printf.printf "MISMATCH %s\n" m; exit 1);
  if int_of_z (CvModel.dead_touch !w) <> 0 then begin Printf.printf "MISMATCH model counts an access to a dead nsync_wait_n record\n"; exit 1 end;
  if Hashtbl.length pending_post <> 0 then begin Printf.printf "MISMATCH an unlocker cleared a waiting flag and never posted\n"; exit 1 end;
  for u = 0 to 15 do
    if int_of_z (CvReplay.owed_of !w (nat u)) <> 0 then begin Printf.printf "MISMATCH the model still owes thread %d a post at the end of the trace\n" u; exit 1 end
  done;
  (* every nsync_cv_signal / broadcast call that released the cv spinlock (sites 306 / 404) is in the model's log of completed calls *)
  let nrel = (try Hashtbl.find covered "306" with Not_found -> 0) + (try Hashtbl.find covered "404" with Not_found -> 0) in
  if nrel <> int_of_nat (CvReplay.wlog_len !w) then begin
    Printf.printf "MISMATCH %d signal/broadcast calls got past the early exit, the model logged %d completed calls\n" nrel (int_of_nat (CvReplay.wlog_len !w)); exit 1 end;
  Hashtbl.replace covered "wakeops" (int_of_nat (CvReplay.wlog_len !w));
  let cov = Hashtbl.fold (fun k v acc -> Printf.sprintf "%s:%d" k v :: acc) covered [] in
  let edg = Hashtbl.fold (fun k v acc -> Printf.sprintf "%s:%d" k v :: acc) edges [] in
  Printf.printf "OK steps=%d skipped=%d snapshots=%d env=%d sites=%s edges=%s\n" !steps !skipped !snaps !envs
    (String.concat "," (Stdlib.List.sort compare cov)) (String.concat "," (Stdlib.List.sort compare edg))
