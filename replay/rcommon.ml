(* shared helpers for the lock-step replayers *)
let rec pos_of_int (i : int) : BinNums.positive =
  if i = 1 then BinNums.Coq_xH else if i land 1 = 1 then BinNums.Coq_xI (pos_of_int (i lsr 1)) else BinNums.Coq_xO (pos_of_int (i lsr 1))
let z_of_int (i : int) : BinNums.coq_Z = if i = 0 then BinNums.Z0 else if i > 0 then BinNums.Zpos (pos_of_int i) else BinNums.Zneg (pos_of_int (-i))
let rec int_of_pos = function BinNums.Coq_xH -> 1 | BinNums.Coq_xI p -> 2 * int_of_pos p + 1 | BinNums.Coq_xO p -> 2 * int_of_pos p
let int_of_z = function BinNums.Z0 -> 0 | BinNums.Zpos p -> int_of_pos p | BinNums.Zneg p -> - (int_of_pos p)
let rec nat_of_int i = if i <= 0 then Datatypes.O else Datatypes.S (nat_of_int (i - 1))
let rec int_of_nat = function Datatypes.O -> 0 | Datatypes.S n -> 1 + int_of_nat n
let z_of_string (s : string) : BinNums.coq_Z =
  let neg = String.length s > 0 && s.[0] = '-' in
  let acc = ref BinNums.Z0 in
  String.iteri (fun i c -> if not (i = 0 && neg) then
                   acc := BinInt.Z.add (BinInt.Z.mul !acc (z_of_int 10)) (z_of_int (Char.code c - 48))) s;
  if neg then BinInt.Z.opp !acc else !acc

let sites : (string * int, string * int) Hashtbl.t = Hashtbl.create 256
let site_targets : (string * int, string) Hashtbl.t = Hashtbl.create 256
let load_sites path =
  let ic = open_in path in
  let s = really_input_string ic (in_channel_length ic) in
  close_in ic;
  let re_obj = Str.regexp "{[^}]*}" in
  let field o name =
    let re = Str.regexp ("\"" ^ name ^ "\": *\\(\"[^\"]*\"\\|[0-9]+\\)") in
    ignore (Str.search_forward re o 0);
    let v = Str.matched_group 1 o in
    if String.length v > 0 && v.[0] = '"' then String.sub v 1 (String.length v - 2) else v in
  let pos = ref 0 in
  (try while true do
       let p = Str.search_forward re_obj s !pos in
       let o = Str.matched_string s in
       pos := p + String.length o;
       (try Hashtbl.replace sites (field o "file", int_of_string (field o "line")) (field o "fn", int_of_string (field o "ord")) with Not_found -> ());
       (try Hashtbl.replace site_targets (field o "file", int_of_string (field o "line")) (field o "target") with Not_found -> ())
     done with Not_found -> ())

exception Mismatch of string
type event = { tid : int; kind : string; file : string; line : int; obj : string; a : int; b : int; ok : bool; now : int; raw : string }
let parse_event (line : string) : event option =
  match String.split_on_char ' ' line with
  | [_; _step; tid; kind; _order; where; obj; a; b; ok; now] ->
    let file, ln = (match String.split_on_char ':' where with [f; l] -> f, (try int_of_string l with _ -> 0) | _ -> where, 0) in
    Some { tid = int_of_string tid; kind; file; line = ln; obj; a = int_of_string a; b = int_of_string b; ok = (ok = "1");
           now = (try int_of_string now with _ -> 0); raw = line }
  | _ -> None
let obj_region o = try String.sub o 0 (String.index o '+') with Not_found -> o
let obj_offset o = try int_of_string (String.sub o (String.index o '+' + 1) (String.length o - String.index o '+' - 1)) with _ -> 0
let covered : (string, int) Hashtbl.t = Hashtbl.create 64
let cover k = Hashtbl.replace covered k (1 + try Hashtbl.find covered k with Not_found -> 0)
let finish steps skipped =
  let cov = Hashtbl.fold (fun k v acc -> Printf.sprintf "%s:%d" k v :: acc) covered [] in
  Printf.printf "OK steps=%d skipped=%d snapshots=0 sites=%s\n" steps skipped (String.concat "," (Stdlib.List.sort compare cov))
