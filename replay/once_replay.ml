(* Lock-step replay of a once_mix trace against the extracted OnceModel.
   Consumed in lock-step: every atomic site of once.c (site, value read / written, CAS outcome), the notes
   `f-begin <tid> <idx>` / `f-end <tid> <idx>` the scenario's once-function writes on entry and exit (so the ORDER
   CAS < f-begin < f-end < store of 2 < every load that lets a call return is checked on every trace).
   The model's abstract steps on once_mu / once_cv (lock, unlock, broadcast, timed cv wait) have no event of once.c:
   an ACQUISITION is taken just before the thread's next once.c event (by then the implementation holds the lock; the
   model's lock must be free: mutual exclusion of the model is checked against the order of the real execution), a
   RELEASE right after the thread's previous once.c event (so the model holds a lock only while the implementation does).
   Per thread and per segment between two of its once.c events the replayer also checks that the implementation touched
   mu.c / cv.c if and only if the model made a lock / condition-variable step (a spinning call, and a call on a once
   that is already done, make none). *)
open Rcommon
open OnceModel
let () =
  load_sites Sys.argv.(2);
  let ic = open_in Sys.argv.(1) in
  let nthr = 12 in
  (* NSYNC_ONCE_SYNC_: (address / sizeof (nsync_once)) % 64; the scenario's objects are elements of one array, the index
     is the element number, so two indices share a slot iff they are congruent modulo 64 *)
  let env = { slot = (fun o -> nat_of_int (int_of_nat o mod 64)); fterm = (fun _ -> true); lockable = (fun _ -> true) } in
  let w = ref (OnceModel.init env (Stdlib.List.init nthr (fun _ -> []))) in
  let steps = ref 0 and skipped = ref 0 in
  let real_lock = Array.make nthr 0 and model_lock = Array.make nthr 0 in
  let last_raw = ref "" in
  let fail msg = raise (Mismatch (Printf.sprintf "%s (at trace line: %s)" msg !last_raw)) in
  let pc_of t = (OnceModel.get !w (nat_of_int t)).pc in
  let is_lock_ev = function EvLock _ | EvUnlock _ | EvBlocked _ | EvBroadcast _ | EvCvRelease _ | EvCvEnd _ -> true | _ -> false in
  let do_step t =
    let (w', ev) = OnceModel.step !w (nat_of_int t) in
    w := w'; incr steps;
    if is_lock_ev ev then model_lock.(t) <- model_lock.(t) + 1;
    ev in
  let abstract_step t what =
    match do_step t with
    | EvBlocked s -> fail (Printf.sprintf "%s: the implementation has passed nsync_mu_lock on once_mu, in the model slot %d is held by another thread" what (int_of_nat s))
    | EvLock _ -> cover "lock" | EvUnlock _ -> cover "unlock" | EvBroadcast _ -> cover "broadcast"
    | EvCvRelease _ -> cover "cv-release" | EvCvEnd _ -> cover "cv-end" | EvSpin -> cover "spin"
    | _ -> fail (what ^ ": unexpected model event at an abstract step") in
  (* releases, taken as early as possible *)
  let rec eager t =
    match pc_of t with
    | OWinUnlock _ | OCvEnter _ | OFinalUnlock _ -> abstract_step t "release"; eager t
    | _ -> () in
  (* everything abstract that stands between the thread and its next concrete step *)
  let rec catch_up t =
    match pc_of t with
    | OWinUnlock _ | OCvEnter _ | OFinalUnlock _ | OLock (_, _) | OWinLock _ | OCvReacq _ | OCvWait _ | OSpin _ | OBroadcast _ ->
      abstract_step t "catch-up"; catch_up t
    | _ -> () in
  let segment_check t =
    if (real_lock.(t) > 0) <> (model_lock.(t) > 0) then
      fail (Printf.sprintf "thread %d: the implementation made %d mu.c/cv.c accesses since its previous once.c site, the model %d lock/cv steps"
              t real_lock.(t) model_lock.(t));
    if model_lock.(t) > 0 then cover "segment-locked" else cover "segment-lockfree";
    real_lock.(t) <- 0; model_lock.(t) <- 0 in
  (try
     while true do
       let line = input_line ic in
       last_raw := line;
       if String.length line > 2 && line.[0] = 'N' then begin
         match String.split_on_char ' ' line with
         | _ :: _ :: "f-begin" :: t :: idx :: _ ->
           let t = int_of_string t and idx = int_of_string idx in
           catch_up t;
           (match do_step t with
            | EvFBegin o -> if int_of_nat o <> idx then fail "f-begin: the model runs the function of another object"
            | _ -> fail "the implementation enters the once-function, the model is elsewhere");
           cover "f-begin"
         | _ :: _ :: "f-end" :: t :: idx :: _ ->
           let t = int_of_string t and idx = int_of_string idx in
           (match pc_of t with OFRun (_, _) -> () | _ -> fail "the implementation leaves the once-function, the model is not inside it");
           (match do_step t with
            | EvFEnd o -> if int_of_nat o <> idx then fail "f-end: the model runs the function of another object"
            | _ -> fail "the implementation leaves the once-function, the model is elsewhere");
           cover "f-end"
         | _ -> ()
       end else if String.length line > 2 && line.[0] = 'E' then
         match parse_event line with
         | Some e when e.file = "once.c" ->
           let t = e.tid in
           let (fn, ord) = try Hashtbl.find sites (e.file, e.line) with Not_found -> fail "trace site not in Gen/Sites" in
           let o = obj_offset e.obj / 4 in
           let key = if fn = "nsync_run_once_impl" then 10 + ord else 1 in
           eager t;
           if key = 1 then begin
             (match pc_of t with OIdle -> () | _ -> fail "the implementation begins a call, the model's previous call is not complete");
             let spin = (try ignore (Str.search_forward (Str.regexp_string "_spin") fn 0); true with Not_found -> false) in
             w := OnceReplay.push_call !w (nat_of_int t) (nat_of_int o) spin
           end;
           catch_up t;
           segment_check t;
           cover (string_of_int key);
           (match pc_of t with
            | OFBegin (_, _) | OFRun (_, _) -> fail "the implementation is at a site of once.c, the model is at / inside the call of the once-function"
            | _ -> ());
           let ev = do_step t in
           (match e.kind, ev with
            | "load", EvLoad (s, v) ->
              if int_of_z s <> key then fail (Printf.sprintf "model at site %d, implementation at %d" (int_of_z s) key);
              if int_of_z v <> e.a then fail (Printf.sprintf "load value differs: model %d implementation %d" (int_of_z v) e.a)
            | "cas", EvCas (s, k) ->
              if int_of_z s <> key then fail "CAS site differs";
              if k <> e.ok then fail "CAS outcome differs";
              if e.a <> int_of_z Sites.nsync_run_once_impl_cas1_old || e.b <> int_of_z Sites.nsync_run_once_impl_cas1_new then fail "CAS values differ"
            | "store", EvStore (s, v) ->
              if int_of_z s <> key then fail "store site differs";
              if int_of_z v <> e.b then fail "stored value differs"
            | _, _ -> fail "event kinds differ");
           eager t
         | Some e when e.file = "mu.c" || e.file = "cv.c" ->
           if e.tid >= 0 && e.tid < nthr then real_lock.(e.tid) <- real_lock.(e.tid) + 1;
           incr skipped
         | Some e when e.kind = "end" ->
           let t = e.tid in
           eager t;
           (match pc_of t with OIdle -> () | _ -> fail "the thread ends, the model's call is not complete");
           segment_check t
         | Some _ -> incr skipped
         | None -> ()
     done
   with End_of_file -> () | Mismatch m -> Printf.printf "MISMATCH %s\n" m; exit 1);
  (* the model's own verdict on the replayed execution *)
  if int_of_z (OnceModel.early !w) <> 0 then begin Printf.printf "MISMATCH model counts an early return\n"; exit 1 end;
  for t = 0 to nthr - 1 do
    match (OnceModel.get !w (nat_of_int t)).pc with
    | OIdle -> ()
    | _ -> Printf.printf "MISMATCH the trace ends, thread %d of the model is inside a call\n" t; exit 1
  done;
  finish !steps !skipped
