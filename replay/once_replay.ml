(* Lock-step replay of a once_mix trace against the extracted OnceModel (sites of once.c only). *)
open Rcommon
open OnceModel
let () =
  load_sites Sys.argv.(2);
  let ic = open_in Sys.argv.(1) in
  let w = ref (OnceModel.init (Stdlib.List.init 12 (fun _ -> []))) in
  let steps = ref 0 and skipped = ref 0 in
  (try
     while true do
       let line = input_line ic in
       if String.length line > 2 && line.[0] = 'E' then
         match parse_event line with
         | Some e when e.file = "once.c" ->
           let fail msg = raise (Mismatch (Printf.sprintf "%s (at trace event: %s)" msg e.raw)) in
           let (fn, ord) = try Hashtbl.find sites (e.file, e.line) with Not_found -> fail "trace site not in Gen/Sites" in
           let o = obj_offset e.obj / 4 in
           let key = if fn = "nsync_run_once_impl" then 10 + ord else 1 in
           if key = 1 then begin
             let spin = (try ignore (Str.search_forward (Str.regexp_string "_spin") fn 0); true with Not_found -> false) in
             w := OnceReplay.push_call !w (nat_of_int e.tid) (nat_of_int o) spin
           end;
           cover (string_of_int key);
           let (w', ev) = OnceModel.step !w (nat_of_int e.tid) in
           w := w'; incr steps;
           (match e.kind, ev with
            | "load", EvLoad (s, v) ->
              if int_of_z s <> key then fail (Printf.sprintf "model at site %d, implementation at %d" (int_of_z s) key);
              if int_of_z v <> e.a then fail (Printf.sprintf "load value differs: model %d implementation %d" (int_of_z v) e.a)
            | "cas", EvCas (s, k) ->
              if int_of_z s <> key then fail "CAS site differs";
              if k <> e.ok then fail "CAS outcome differs";
              if e.a <> int_of_z Sites.nsync_run_once_impl_cas1_old || e.b <> int_of_z Sites.nsync_run_once_impl_cas1_new then fail "CAS values differ"
            | "store", EvStore (s, v) ->
              if int_of_z s <> key then fail "store site differs";
              if int_of_z v <> e.b then fail "stored value differs"
            | _, _ -> fail "event kinds differ")
         | Some _ -> incr skipped
         | None -> ()
     done
   with End_of_file -> () | Mismatch m -> Printf.printf "MISMATCH %s\n" m; exit 1);
  (* the model's own verdict on the replayed execution *)
  if int_of_z (OnceModel.early !w) <> 0 then begin Printf.printf "MISMATCH model counts an early return\n"; exit 1 end;
  finish !steps !skipped
