(* Exploration of the extracted MuWRefModel (Model/MuWRefModel.v: the reference-count client of C13 over MuWaitModel = mu.c +
   mu_wait.c) BEFORE the proof: random programs of 2-5 users -- extra rounds of lock/unlock, rlock/runlock, trylock with a
   guarded block, writes to the protected state, nsync_mu_wait_with_deadline in either mode with conditions / condition_arg_eq /
   deadlines / the cancel note, nsync_mu_unlock_without_wakeup -- each ended by the write-mode decrement round (entered by
   nsync_mu_lock, by `while (!trylock)`, or with an nsync_mu_wait_with_deadline that times out INSIDE that last critical section:
   the VRT_MUWAIT shape of harness/scen/refcount.c; left by nsync_mu_unlock or nsync_mu_unlock_without_wakeup), under random
   bursty schedules with clock ticks, notification of the cancel note, and timeout / cancel choices at the timed P.
   Three program families: 0 = general, 1 = the stale-bit shape (a waiter times out and removes itself leaving
   MU_WAITING | MU_CONDITION over an empty mu->waiters, then runs its decrement round while the others lock / decrement to zero /
   unlock / free), 2 = family 1 with an adversarial scheduler that, whenever some thread is inside nsync_mu_unlock_slow_ between
   its spinlock CAS and its last CAS, prefers the OTHER threads (so that they take the lock, decrement, release and free while the
   first one is still in its window).
   Checked after EVERY step:
     bad       the ghost of the wrapper: a step that accesses the mutex word / mu->waiters / the protected state, a decrement or a
               second free AFTER the free;
     qinv      the invariant the proof rests on: spinlock free, MU_WAITING set, MU_CONDITION clear  =>  mu->waiters non-empty;
     early     a thread at nsync_mu_unlock_slow_'s last load / CAS that released the lock EARLY (late_release_mu = 0) has a
               non-empty wake list;
     crash     no thread at an internal Crash pc (2 5 6 7 10); 1 4 8 9 are client-contract violations and are not generated.
   Usage: muwref_explore <first-seed> <runs> [v]
   Output: one line per violation (re-run with "<seed> 1 v" to see programs and schedule) and a summary with coverage counters. *)
open Rcommon
open MuWaitModel
open MuWRefModel

let nat = nat_of_int
let zi = int_of_z

let show_mode = function W -> "W" | R -> "R"
let show_op = function
  | OLock m -> "lock" ^ show_mode m | OTry m -> "try" ^ show_mode m | OUnlock -> "unlock" | OUnlockNW -> "unlock_nw"
  | OSetCond (f, a, b) -> Printf.sprintf "set(f%d,a%d,%b)" (int_of_nat f) (int_of_nat a) b
  | OMuWait (c, e, d, k) ->
    Printf.sprintf "mu_wait(%s%s%s%s)" (match c with Some (f, a) -> Printf.sprintf "f%d a%d" (int_of_nat f) (int_of_nat a) | None -> "NULL")
      (if e then " eq" else "") (match d with Some d -> Printf.sprintf " dl=%d" (zi d) | None -> "") (if k then " canc" else "")

let classes = [0; 0; 1; 2; 3]      (* arguments 0 and 1 are condition_arg_eq-equivalent *)

(* ---------- random programs ---------- *)
let gen_general rnd =
  let r n = Random.State.int rnd n in
  let mode () = if r 3 = 0 then R else W in
  let cond () = (r 2, r 3) in
  let set (f, a) b = if a <= 1 then [OSetCond (nat f, nat 0, b); OSetCond (nat f, nat 1, b)] else [OSetCond (nat f, nat a, b)] in
  let release m = if m = W && r 5 = 0 then OUnlockNW else OUnlock in
  let mwait () =
    let (f, a) = cond () in
    let dl = if r 3 <> 0 then Some (z_of_int (r 30)) else None in
    OMuWait ((if r 12 = 0 then None else Some (nat f, nat a)), a = 1 || r 3 = 0, dl, r 4 = 0) in
  let round () =
    match r 10 with
    | 0 | 1 -> let m = mode () in [OLock m] @ (if m = W && r 2 = 0 then set (cond ()) (r 4 <> 0) else []) @ [release m]
    | 2 -> let m = mode () in [OTry m; release m]
    | 3 -> [OTry W] @ set (cond ()) true @ [OUnlock]
    | 4 | 5 | 6 -> let m = mode () in [OLock m; mwait ()] @ (if r 3 = 0 then [mwait ()] else []) @ [release m]
    | 7 -> [OLock W] @ set (cond ()) true @ (if r 2 = 0 then set (cond ()) true else []) @ [OUnlock]
    | _ -> [] in
  let extras = Stdlib.List.concat (Stdlib.List.init (r 4) (fun _ -> round ())) in
  let last =
    match r 8 with
    | 0 -> [OTry W; OUnlock]
    | 1 | 2 -> [OLock W; mwait (); release W]                 (* times out / is cancelled / returns inside the last section *)
    | 3 -> [OLock W; OUnlockNW]
    | 4 -> [OLock W] @ set (cond ()) true @ [OUnlock]
    | _ -> [OLock W; OUnlock] in
  extras @ last

(* the stale-bit shape: >= 1 thread whose LAST critical section contains a timed nsync_mu_wait whose condition nobody makes true *)
let gen_stale rnd nthr =
  let r n = Random.State.int rnd n in
  let deadf = 1 in                (* condition function 1 is never set by anybody in this family: those waits time out *)
  let timed () = OMuWait (Some (nat deadf, nat (r 3)), r 3 = 0, Some (z_of_int (r 12)), r 5 = 0) in
  let waiter () =
    (match r 4 with
     | 0 -> [OLock W; timed (); OUnlock; OLock W; OUnlock]        (* times out, unlocks (scan of the empty queue), decrement round *)
     | 1 -> [OLock R; timed (); OUnlock; OLock W; OUnlock]
     | _ -> [OLock W; timed (); (if r 6 = 0 then OUnlockNW else OUnlock)])   (* decrements INSIDE the section that timed out *)
  in
  let plain () =
    (match r 8 with
     | 0 -> [OLock R; OUnlock; OLock W; OUnlock]
     | 1 -> [OTry W; OUnlock]
     | 2 -> [OLock W; OUnlock; OLock W; OUnlock]
     | 3 -> [OLock W; OSetCond (nat 0, nat 2, true); OUnlock; OLock W; OUnlock]
     | 4 -> [OLock W; OMuWait (Some (nat 0, nat 2), false, (if r 2 = 0 then Some (z_of_int (r 12)) else None), false); OUnlock]
     | 5 -> [OLock W; OUnlockNW]
     | _ -> [OLock W; OUnlock]) in
  let l = [waiter ()] @ Stdlib.List.init (nthr - 1) (fun _ -> if r 3 = 0 then waiter () else plain ()) in
  let a = Array.of_list l in
  for i = Array.length a - 1 downto 1 do let j = r (i + 1) in let x = a.(i) in a.(i) <- a.(j); a.(j) <- x done;
  Array.to_list a

(* ---------- checks ---------- *)
exception Violation of string

let stats : (string, int) Hashtbl.t = Hashtbl.create 32
let bump k = Hashtbl.replace stats k (1 + try Hashtbl.find stats k with Not_found -> 0)
let bumpn k n = Hashtbl.replace stats k (n + try Hashtbl.find stats k with Not_found -> 0)

let bit x m = x land (zi m) <> 0

let in_window p = match p with
  | UsRelLoad _ | UsRelCas _ | UsEval _ -> true
  | RelLoad (KScan _, _) | RelCas (KScan _, _) | SpinLoad (KScan _, _) | SpinCas (KScan _, _) | RmLoad (KScan _) | RmCas (KScan _, _) -> true
  | _ -> false
let in_tail p = match p with UsWakeStore _ | UsWakeV _ -> true | _ -> false

let check_state nthr (rw : rwworld) =
  let w = rw.ww in
  let x = zi w.word in
  if rw.bad then raise (Violation "bad: the mutex / refs / the protected state touched after the free (or a second free)");
  if not (bit x Consts.coq_MU_SPINLOCK) && bit x Consts.coq_MU_WAITING && not (bit x Consts.coq_MU_CONDITION) && w.queue = [] then
    raise (Violation (Printf.sprintf "qinv: word %d: spinlock free, MU_WAITING set, MU_CONDITION clear, mu->waiters empty" x));
  for t = 0 to nthr - 1 do
    (match (MuWaitModel.get w (nat t)).t_pc with
     | Crash y when (let k = zi y in k <> 1 && k <> 4 && k <> 8 && k <> 9) -> raise (Violation (Printf.sprintf "crash: thread %d at Crash %d" t (zi y)))
     | Crash y -> raise (Violation (Printf.sprintf "crash: generated program broke the client contract: thread %d at Crash %d" t (zi y)))
     | UsRelLoad (_, u, _) | UsRelCas (_, u, _) when zi u.late = 0 && u.wake = [] ->
       raise (Violation (Printf.sprintf "early: thread %d released early with an empty wake list" t))
     | _ -> ())
  done

(* ---------- one run ---------- *)
let signature nthr (rw : rwworld) =
  let w = rw.ww in
  (zi w.word, w.queue, w.note, zi w.clock, zi rw.refs, rw.freed, rw.ph,
   Stdlib.List.init nthr (fun t -> let s = MuWaitModel.get w (nat t) in (s.t_pc, s.t_ops, s.held, s.mw, zi (w.sem (nat t)), w.waiting (nat t), zi (w.rcount (nat t)))))

let run_one verbose seed =
  let rnd = Random.State.make [| seed; 0x6d777266 |] in
  let r n = Random.State.int rnd n in
  let family = (match r 6 with 0 | 1 -> 0 | 2 | 3 -> 1 | _ -> 2) in
  let nthr = 2 + r 4 in
  let progs = if family = 0 then Stdlib.List.init nthr (fun _ -> gen_general rnd) else gen_stale rnd nthr in
  if verbose then Stdlib.List.iteri (fun t p -> Printf.printf "  T%d: %s\n" t (String.concat "; " (Stdlib.List.map show_op p))) progs;
  let rw = ref (rwinit progs (fun a -> nat (try Stdlib.List.nth classes (int_of_nat a) with _ -> int_of_nat a)) (z_of_int 0)) in
  let log = ref [] in
  let freed_seen = ref false and stale_seen = ref false and stale_scan = ref false and timed_out = Array.make nthr false in
  let show_actor = function
    | Thr (t, c) -> Printf.sprintf "%d%s" (int_of_nat t) (match c with CNormal -> "" | CTimeout -> "t" | CCancel -> "c")
    | Tick d -> Printf.sprintf "tick%d" (zi d) | Notify -> "notify" | NoteV p -> Printf.sprintf "nv%d" (int_of_nat p) in
  let step a =
    let before = !rw in
    (* coverage: what kind of step is this? *)
    (match a with
     | Thr (t, _) ->
       let s0 = MuWaitModel.get before.ww t in
       let p = (MuWaitModel.get (MuWaitModel.begin_op before.ww t) t).t_pc in
       let x = zi before.ww.word in
       (match p with
        | UsCasSpin (_, old) when zi old = x ->
          bump "scan-entered";
          if before.ww.queue = [] then begin bump "scan-entered-over-empty-queue(stale bits)"; stale_scan := true;
            if not (bit x Consts.coq_MU_CONDITION) then raise (Violation "qinv: scan entered early over an empty queue") end;
          if bit x Consts.coq_MU_CONDITION then bump "scan-late-release" else bump "scan-early-release";
          if s0.mw = None && (match phase_of before t with Pre -> false | _ -> true) then bump "scan-by-thread-that-decremented"
        | _ -> ());
       if before.freed && not (touches_mu p) && p <> Idle then bump "tail-step-after-free"
     | _ -> ());
    rw := rwstep before a;
    if verbose then log := show_actor a :: !log;
    let now = !rw in
    (match a with
     | Thr (t, _) ->
       let ti = int_of_nat t in
       (match (MuWaitModel.get before.ww t).t_pc, (MuWaitModel.get now.ww t).t_pc with
        | MwSemP, MwLoadW2 -> timed_out.(ti) <- true; bump "timeouts/cancellations"
        | MtStoreW _, MtStore2 _ -> bump "timed-out-waiter-removed-itself"
        | _ -> ());
       if now.refs <> before.refs then begin
         bump "decrements";
         if timed_out.(ti) then bump "decrement-by-thread-that-timed-out";
         let x = zi now.ww.word in
         if now.ww.queue = [] && bit x Consts.coq_MU_WAITING then bump "decrement-under-stale-MU_WAITING"
       end;
       if now.freed && not before.freed then begin
         freed_seen := true; bump "frees";
         let others = Stdlib.List.filteri (fun i _ -> i <> ti) now.ww.thr in
         if Stdlib.List.exists (fun s -> in_tail s.t_pc) others then bump "free-while-another-thread-in-post-last-CAS-tail";
         if Stdlib.List.exists (fun s -> in_window s.t_pc) others then raise (Violation "window: freed while another thread is between its spinlock CAS and its last CAS")
       end
     | _ -> ());
    let x = zi now.ww.word in
    if now.ww.queue = [] && bit x Consts.coq_MU_WAITING && bit x Consts.coq_MU_CONDITION && not (bit x Consts.coq_MU_SPINLOCK)
       && not (Stdlib.List.exists (fun s -> in_window s.t_pc) now.ww.thr) then begin
      if not !stale_seen then bump "runs-with-stale-MU_WAITING|MU_CONDITION-over-empty-queue"; stale_seen := true end;
    check_state nthr now;
    signature nthr now <> signature nthr before in
  let choose t =
    match (MuWaitModel.get (!rw).ww (nat t)).t_pc with
    | MwSemP -> (match r 5 with 0 | 1 -> CTimeout | 2 -> CCancel | _ -> CNormal)
    | _ -> CNormal in
  let budget = 300 + r 500 in
  (try
     check_state nthr !rw;
     let cur = ref (r nthr) in
     for _ = 1 to budget do
       (match r 30 with
        | 0 | 1 -> ignore (step (Tick (z_of_int (r 10))))
        | 2 -> if r 3 = 0 then ignore (step Notify)
        | 3 -> if r 2 = 0 then ignore (step (NoteV (nat (r nthr))))
        | _ -> ());
       if r 3 = 0 then cur := r nthr;
       if family = 2 then begin
         (* adversary: somebody is in the window of nsync_mu_unlock_slow_ => run the others *)
         let inw = Stdlib.List.filter (fun t -> let p = (MuWaitModel.get (!rw).ww (nat t)).t_pc in in_window p || in_tail p) (Stdlib.List.init nthr (fun t -> t)) in
         if inw <> [] && r 8 <> 0 then begin
           let others = Stdlib.List.filter (fun t -> not (Stdlib.List.mem t inw)) (Stdlib.List.init nthr (fun t -> t)) in
           if others <> [] then cur := Stdlib.List.nth others (r (Stdlib.List.length others))
         end
       end;
       if not (step (Thr (nat !cur, choose !cur))) then cur := r nthr
     done;
     (* drain: deadlines pass, the note is notified, everybody runs to the end *)
     ignore (step (Tick (z_of_int 1000))); ignore (step Notify);
     let rounds = ref 0 and moved = ref true in
     let drain_choice t =
       (match (MuWaitModel.get (!rw).ww (nat t)).t_pc with
        | MwSemP -> let x = MuWaitModel.get_mw (!rw).ww (nat t) in
          if zi ((!rw).ww.sem (nat t)) > 0 then CNormal else if x.mw_dl <> None then CTimeout else if x.mw_canc then CCancel else CNormal
        | _ -> CNormal) in
     (* the adversary (family 2) keeps threads in the window / tail of nsync_mu_unlock_slow_ back as long as somebody else can move *)
     let held_back t = family = 2 && !rounds < 60 && (let p = (MuWaitModel.get (!rw).ww (nat t)).t_pc in in_window p || in_tail p) in
     while !moved && !rounds < 2000 do
       moved := false; incr rounds;
       for t = 0 to nthr - 1 do
         for _ = 1 to 5 do if not (held_back t) then if step (Thr (nat t, drain_choice t)) then moved := true done
       done;
       if not !moved then
         for t = 0 to nthr - 1 do
           if not !moved then if step (Thr (nat t, drain_choice t)) then moved := true
         done
     done;
     if !rounds >= 2000 then begin bump "end:drain-limit"; if verbose then Stdlib.List.iteri (fun t s -> Printf.printf "  drain-limit: T%d held=%s ops=%d sem=%d waiting=%b\n" t (match s.held with None -> "-" | Some W -> "W" | Some R -> "R") (Stdlib.List.length s.t_ops) (zi ((!rw).ww.sem (nat t))) ((!rw).ww.waiting (nat t))) (!rw).ww.thr end;
     let fin = !rw in
     if fin.freed then bump "runs-freed" else begin
       (* legitimate: somebody sleeps in nsync_mu_wait without deadline on a false condition and keeps its reference *)
       let sleepers = Stdlib.List.filter (fun s -> s.t_pc = MwSemP) fin.ww.thr in
       if sleepers <> [] then bump "end:not-freed(untimed-waiter-asleep)"
       else if Stdlib.List.exists (fun s -> match s.t_pc with LsSemP _ -> true | _ -> false) fin.ww.thr then bump "end:not-freed(lock-sleeper-behind-stuck-waiter)"
       else raise (Violation (Printf.sprintf "stuck: not freed at the end, refs %d, nobody asleep" (zi fin.refs)))
     end;
     if !stale_scan then bump "runs-with-scan-over-empty-queue";
     bump (Printf.sprintf "runs-family-%d" family);
     true
   with Violation m ->
     Printf.printf "VIOLATION seed=%d %s\n" seed m;
     if verbose then Printf.printf "  schedule: %s\n" (String.concat " " (Stdlib.List.rev !log));
     bump ("VIOLATION " ^ (try String.sub m 0 (String.index m ':') with Not_found -> m));
     false)

let () =
  let first = int_of_string Sys.argv.(1) and n = int_of_string Sys.argv.(2) in
  let verbose = Array.length Sys.argv > 3 in
  let bad = ref 0 in
  for s = first to first + n - 1 do if not (run_one verbose s) then incr bad done;
  let cov = Hashtbl.fold (fun k v acc -> Printf.sprintf "%s=%d" k v :: acc) stats [] in
  Printf.printf "SUMMARY runs=%d violations=%d %s\n" n !bad (String.concat " " (Stdlib.List.sort compare cov))
