(* Exploration of the extracted MuAllModel (Model/MuAllModel.v) BEFORE / BESIDE the proofs: random small programs
   (2-5 threads; lock/unlock, rlock/runlock, trylock, nsync_mu_wait with conditions that setters make true -- also with
   deadlines and the cancel note --, cv waits in writer / reader mode, signals / broadcasts under the write lock, under a read
   lock and under no lock, an nsync_wait_n record on the cv) under random schedules.  Checked in EVERY state:
     excl      the mutex word agrees with the ghost ownership: bit 0 = #threads owning the write lock (<= 1), bits 8.. =
               #threads owning a read lock, never both, bit 1 (spinlock) = #threads owning the queue spinlock;
     crash     no thread is at a Crash / ACrash pc (the generated programs respect the client contract, so this covers the
               scan's nsync_panic_ (Crash 5), the fuel of scan_from (6), impossible continuations (7), the panics of
               nsync_mu_unlock (2), nsync_mu_wait (10) and of the cv wait (ACrash 6 / 7));
     eval      every logged condition evaluation was made by a thread that owns the lock, with no OTHER thread owning the write lock;
     allfalse  MU_ALL_FALSE set and nobody owns the write lock => every waiter on mu->waiters has a condition and it is false now;
     rings     every waiter on mu->waiters without a condition (lock_slow sleepers, transferred cv waiters) is a singleton
               same_condition ring; no duplicates on mu->waiters + the scanners' private lists; a transferred waiter that is
               still parked (waiting = 1) is on exactly one of these lists;
     waitbit   (F15) spinlock free, no scan in progress, no removal by a timed-out waiter in progress: mu->waiters non-empty =>
               MU_WAITING set; MU_WAITING set and MU_CONDITION clear => mu->waiters non-empty (with MU_CONDITION set the stale
               bit left by mu_wait.c's timeout path is harmless and only counted);
     rets      every return of a cv wait holds the mutex in the declared mode;
   and at QUIESCENCE (a full round of 6 steps per thread leaves the world unchanged; no clock / note events left):
     stuck     every thread has finished, except: cv waiters / the wait_n caller still on the cv queue (nobody signalled
               them) and nsync_mu_wait callers whose condition is false and which have no deadline / cancellation pending.
               In particular nobody is asleep on the mutex queue (lock_slow sleeper, nsync_mu_wait caller with a TRUE
               condition, transferred cv waiter) while the mutex is free.
   Usage: muall_explore <first-seed> <runs> [verbose]
   Output: one line per violation (with the seed: re-run with "<seed> 1 v" to see program and schedule) and a summary with
   coverage counters, among them the number of wake_waiters acquiring CASes that succeeded while some thread was inside the
   scan of nsync_mu_unlock_slow_ with the spinlock RELEASED. *)
open Rcommon
open MuWaitModel
open MuAllModel

let nat = nat_of_int
let zi = int_of_z

(* ---------- random programs ---------- *)
let classes = [0; 0; 1; 2; 3]      (* arguments 0 and 1 are condition_arg_eq-equivalent *)
type cfg = { with_nw : bool }

let show_mode = function W -> "W" | R -> "R"
let show_op = function
  | OLock m -> "lock" ^ show_mode m | OTry m -> "try" ^ show_mode m | OUnlock -> "unlock" | OUnlockNW -> "unlock_nw"
  | OSetCond (f, a, b) -> Printf.sprintf "set(f%d,a%d,%b)" (int_of_nat f) (int_of_nat a) b
  | OMuWait (c, e, d, k) ->
    Printf.sprintf "mu_wait(%s%s%s%s)" (match c with Some (f, a) -> Printf.sprintf "f%d a%d" (int_of_nat f) (int_of_nat a) | None -> "NULL")
      (if e then " eq" else "") (match d with Some d -> Printf.sprintf " dl=%d" (zi d) | None -> "") (if k then " canc" else "")
let show_aop = function
  | AOp o -> show_op o | AWait m -> "cv_wait" ^ show_mode m | ASignal -> "signal" | ABroadcast -> "broadcast" | AWaitN -> "wait_n"

let gen_thread rnd =
  let r n = Random.State.int rnd n in
  let mode () = if r 3 = 0 then R else W in
  let cond () = let f = r 2 in let a = r 3 in (f, a) in
  (* writes keep eq-equivalent arguments (0 and 1) equal: condition_arg_eq means "the same condition" *)
  let set (f, a) b = if a <= 1 then [AOp (OSetCond (nat f, nat 0, b)); AOp (OSetCond (nat f, nat 1, b))] else [AOp (OSetCond (nat f, nat a, b))] in
  match r 12 with
  | 0 | 1 -> (* locker *)
    let m = mode () in
    let body = if m = W && r 3 = 0 then set (cond ()) (r 4 <> 0) else [] in
    [AOp (OLock m)] @ body @ [AOp OUnlock] @ (if r 3 = 0 then [AOp (OLock (mode ())); AOp OUnlock] else [])
  | 2 | 3 | 4 -> (* conditional waiter *)
    let m = mode () in
    let (f, a) = cond () in
    let dl = if r 4 = 0 then Some (z_of_int (r 40)) else None in
    let c = if r 10 = 0 then None else Some (nat f, nat a) in
    [AOp (OLock m); AOp (OMuWait (c, a = 1 || r 3 = 0, dl, r 5 = 0)); AOp OUnlock]
  | 5 | 6 -> (* setter *)
    [AOp (OLock W)] @ set (cond ()) true @ (if r 3 = 0 then set (cond ()) true else []) @ [AOp OUnlock]
  | 7 | 8 -> (* cv waiter *)
    let m = mode () in
    [AOp (OLock m); AWait m] @ (if r 3 = 0 then [AWait m] else []) @ [AOp OUnlock]
  | 9 | 10 -> (* signaller *)
    let s () = if r 2 = 0 then ASignal else ABroadcast in
    (match r 4 with
     | 0 -> [AOp (OLock W)] @ (if r 2 = 0 then set (cond ()) true else []) @ [s (); AOp OUnlock]
     | 1 -> [AOp (OLock R); s (); AOp OUnlock]
     | 2 -> [AOp (OLock W)] @ set (cond ()) true @ [AOp OUnlock; s ()]
     | _ -> [s ()] @ (if r 2 = 0 then [s ()] else []))
  | _ ->
    if r 2 = 0 then [AWaitN] else [AOp (OTry (mode ())) ]   (* a trylock that may fail: followed by nothing (balanced below) *)

(* programs built around the interplay: >= 1 conditional waiter, >= 1 cv waiter, a signaller (mostly holding no lock, so that its
   wake_waiters can meet a scanner that holds the write lock), lockers / setters whose unlocks run the scan *)
let gen_focused rnd nthr =
  let r n = Random.State.int rnd n in
  let mode () = if r 3 = 0 then R else W in
  let set (f, a) b = if a <= 1 then [AOp (OSetCond (nat f, nat 0, b)); AOp (OSetCond (nat f, nat 1, b))] else [AOp (OSetCond (nat f, nat a, b))] in
  let cond () = (r 2, r 3) in
  let mwaiter () =
    let m = mode () in let (f, a) = cond () in
    [AOp (OLock m); AOp (OMuWait (Some (nat f, nat a), a = 1 || r 3 = 0, (if r 5 = 0 then Some (z_of_int (r 40)) else None), r 6 = 0)); AOp OUnlock] in
  let cvw () = let m = mode () in [AOp (OLock m); AWait m] @ (if r 2 = 0 then [AWait m] else []) @ [AOp OUnlock] in
  let sg () =
    let s () = if r 2 = 0 then ASignal else ABroadcast in
    (match r 6 with
     | 0 -> [AOp (OLock W); s (); AOp OUnlock]
     | 1 -> [AOp (OLock R); s (); AOp OUnlock]
     | _ -> [s ()] @ (if r 2 = 0 then [s ()] else []) @ (if r 3 = 0 then [s ()] else [])) in
  let locker () =
    let one () = let m = mode () in [AOp (OLock m)] @ (if m = W && r 3 = 0 then set (cond ()) (r 5 <> 0) else []) @ [AOp OUnlock] in
    one () @ one () @ (if r 2 = 0 then one () else []) in
  let base = [mwaiter (); cvw (); sg ()] in
  let extra () = match r 7 with 0 -> mwaiter () | 1 -> cvw () | 2 -> sg () | 3 -> [AWaitN] | _ -> locker () in
  let l = base @ Stdlib.List.init (max 0 (nthr - 3)) (fun _ -> extra ()) in
  (* shuffle *)
  let a = Array.of_list l in
  for i = Array.length a - 1 downto 1 do let j = r (i + 1) in let x = a.(i) in a.(i) <- a.(j); a.(j) <- x done;
  Array.to_list a

(* a trylock's unlock must only happen if it succeeded: the driver pushes it dynamically *)

(* ---------- checks ---------- *)
exception Violation of string

let holders w m = Stdlib.List.length (Stdlib.List.filter (fun s -> s.held = Some m) w.thr)
let spinners w = Stdlib.List.length (Stdlib.List.filter (fun s -> s.spin) w.thr)
let in_scan aw = MuAllReplay.scanner_lists aw
let any_scan aw = Stdlib.List.exists (fun s -> MuAllReplay.scan_of s.t_pc <> None
                                             || (match s.t_pc with UsRelLoad _ | UsRelCas _ -> true | _ -> false)) aw.mu.thr
let rec nodup = function [] -> true | x :: r -> not (Stdlib.List.mem x r) && nodup r

let stats : (string, int) Hashtbl.t = Hashtbl.create 32
let bump k = Hashtbl.replace stats k (1 + try Hashtbl.find stats k with Not_found -> 0)

let check_state nthr (aw : aworld) =
  let w = aw.mu in
  let x = zi w.word in
  let nw = holders w W and nr = holders w R and ns = spinners w in
  if x land 1 <> nw || x lsr 8 <> nr || (nw > 0 && nr > 0) || nw > 1 || (x lsr 1) land 1 <> ns then
    raise (Violation (Printf.sprintf "excl: word %d, write owners %d, read owners %d, spinlock owners %d" x nw nr ns));
  for t = 0 to nthr - 1 do
    (match (MuWaitModel.get w (nat t)).t_pc, (MuAllModel.aget aw (nat t)).a_pc with
     | Crash y, (AvLoad3 _ | AvCas2 _ | AvLoad5 _) when zi y = 99 -> ()     (* parked: inside wake_waiters' section of the mutex spinlock *)
     | Crash y, _ -> raise (Violation (Printf.sprintf "crash: thread %d at Crash %d" t (zi y)))
     | _ -> ());
    (match (MuAllModel.aget aw (nat t)).a_pc with ACrash y -> raise (Violation (Printf.sprintf "crash: thread %d at ACrash %d" t (zi y))) | _ -> ());
    if not (MuAllReplay.last_ret_ok aw (nat t)) then raise (Violation (Printf.sprintf "rets: thread %d returned from a cv wait without the mutex in the declared mode" t))
  done;
  if MuAllReplay.bad_evals aw <> Datatypes.O then raise (Violation "eval: a condition was evaluated without the lock / beside a writer");
  let af = x land (zi Consts.coq_MU_ALL_FALSE) <> 0 in
  if af && nw = 0 then
    Stdlib.List.iter (fun p -> match w.wcond p with
        | None -> raise (Violation (Printf.sprintf "allfalse: MU_ALL_FALSE set, nobody owns the write lock, waiter %d on mu->waiters has no condition" (int_of_nat p)))
        | Some (f, a) -> if w.pst f a then raise (Violation (Printf.sprintf "allfalse: MU_ALL_FALSE set, nobody owns the write lock, waiter %d's condition is true" (int_of_nat p))))
      w.queue;
  let all = w.queue @ in_scan aw in
  if not (nodup all) then raise (Violation "rings: a waiter is twice on mu->waiters / the scanners' private lists");
  Stdlib.List.iter (fun p -> if w.wcond p = None && (w.scp p <> p || w.scn p <> p) then
                       raise (Violation (Printf.sprintf "rings: unconditional waiter %d is not a singleton same_condition ring" (int_of_nat p)))) all;
  for t = 0 to nthr - 1 do
    let a = (MuAllModel.aget aw (nat t)).a_pc in
    (match a with
     | AwLoop _ | AwSem _ | AwLoad6 _ | AwConfirm _ | AwLoad13 _ ->
       (* woken = popped by a scanner into its wake list: then it is on no list although waiting may still be 1 *)
       let on_wake = Stdlib.List.exists (fun s -> match s.t_pc with
           | UsRelLoad (_, u, _) | UsRelCas (_, u, _) | UsWakeStore (_, u) -> Stdlib.List.mem (nat t) u.wake
           | UsWakeV (_, p, u) -> p = nat t || Stdlib.List.mem (nat t) u.wake
           | RelLoad (KScan (_, u), _) | RelCas (KScan (_, u), _) | SpinLoad (KScan (_, u), _) | SpinCas (KScan (_, u), _)
           | RmLoad (KScan (_, u)) | RmCas (KScan (_, u), _) | UsEval (_, u) -> Stdlib.List.mem (nat t) u.u_wake
           | _ -> false) w.thr in
       if aw.xferred (nat t) && w.waiting (nat t) && not on_wake && not (Stdlib.List.mem (nat t) all) then
         raise (Violation (Printf.sprintf "rings: transferred cv waiter %d is parked but on no list of the mutex" t))
     | _ -> ())
  done;
  let quiet_queue = ns = 0 && not (any_scan aw) && not (MuAllReplay.unstable_queue aw)
                    && not (Stdlib.List.exists (fun s -> match s.t_pc with MtLoadW _ | MtLoadRc _ | MtStoreW _ | MtStore2 _ | MtStore3 _ -> true | _ -> false) w.thr) in
  if quiet_queue then begin
    let wb = x land (zi Consts.coq_MU_WAITING) <> 0 in
    if w.queue <> [] && not wb then raise (Violation "waitbit: mu->waiters non-empty, spinlock free, no scan, MU_WAITING clear");
    (* mu_wait.c's timeout path (mu_try_acquire_after_timeout_or_cancel) removes the caller from mu->waiters and stores a word
       that keeps MU_WAITING even if the queue is now empty; MU_CONDITION, set when that caller queued, is then still set too,
       so the next nsync_mu_unlock_slow_ keeps the write lock until its last CAS (testing_conditions): not F15's shape *)
    let cb = x land (zi Consts.coq_MU_CONDITION) <> 0 in
    if w.queue = [] && wb && cb then bump "state:stale-MU_WAITING-with-MU_CONDITION(mu_wait-timeout)";
    if w.queue = [] && wb && not cb then raise (Violation "waitbit: MU_WAITING set, MU_CONDITION clear, over an empty mu->waiters, spinlock free, no scan (F15's shape)")
  end

(* ---------- one run ---------- *)
let signature nthr (aw : aworld) =
  let w = aw.mu in
  (zi w.word, w.queue, aw.cvq, w.note,
   Stdlib.List.init nthr (fun t -> let s = MuWaitModel.get w (nat t) and a = MuAllModel.aget aw (nat t) in
                           (s.t_pc, s.t_ops, s.held, a.a_pc, a.a_ops, zi (w.sem (nat t)), w.waiting (nat t))))

let run_one verbose seed =
  let rnd = Random.State.make [| seed; 0x6d75616c |] in
  let r n = Random.State.int rnd n in
  let focused = r 4 <> 0 in
  let nthr = if focused then 3 + r 3 else 2 + r 4 in
  let progs = if focused then gen_focused rnd nthr else Stdlib.List.init nthr (fun _ -> gen_thread rnd) in
  if verbose then Stdlib.List.iteri (fun t p -> Printf.printf "  T%d: %s\n" t (String.concat "; " (Stdlib.List.map show_aop p))) progs;
  let aw = ref (MuAllModel.ainit progs (fun a -> nat (try Stdlib.List.nth classes (int_of_nat a) with _ -> int_of_nat a)) (z_of_int 0)) in
  let pending_unlock = Array.make nthr false in
  let log = ref [] in
  let step_actor a =
    let (aw', ev) = MuAllModel.astep !aw a in
    aw := aw'; ev in
  let window_hits = ref 0 in
  let step_thr t c =
    let pre = (MuAllModel.aget (MuAllModel.abegin !aw (nat t)) (nat t)).a_pc in
    let win = match pre with AvCas1 _ -> zi (MuAllReplay.scanner_window !aw) | _ -> 0 in
    let q0 = Stdlib.List.length (!aw).mu.queue in
    let ev = step_actor (Thr (nat t, c)) in
    if verbose then log := (t, c) :: !log;
    (match pre, ev with
     | AvCas1 _, AMu (EvCas (_, _, _, true)) ->
       bump "xfer";
       if win >= 1 then begin bump "xfer-in-scanner-window"; incr window_hits end;
       if win = 2 then bump "xfer-in-scanner-window-private-lists-nonempty";
       let q1 = Stdlib.List.length (!aw).mu.queue in
       if q1 = q0 then bump "xfer-moved-nobody";
       if q1 = 0 then bump "xfer-F15-clear";
       if q1 = 0 && win = 2 then bump "xfer-F15-clear-while-scanner-holds-waiters"
     | _ -> ());
    (match ev with
     | AMu (EvEval _) ->
       if (!aw).cvq <> [] then bump "eval-with-cv-queue-nonempty";
       if Stdlib.List.exists (fun p -> (!aw).xferred p && (!aw).mu.wcond p = None) ((!aw).mu.queue @ in_scan !aw) then bump "eval-with-transferred-waiter-queued"
     | AMu (EvCas (s, _, _, true)) when zi s = 1402 ->
       if Stdlib.List.exists (fun p -> (!aw).xferred p) (match (MuWaitModel.get (!aw).mu (nat t)).t_pc with
           | RelLoad (KScan (_, u), _) | UsEval (_, u) | RmLoad (KScan (_, u)) -> u.u_new | _ -> []) then bump "scan-round-picked-up-transferred"
     | _ -> ());
    (* a successful trylock is followed by its unlock *)
    (match ev with
     | AMu (EvCas (s, _, _, true)) when (zi s = 301 || zi s = 303 || zi s = 401 || zi s = 403) -> pending_unlock.(t) <- true
     | _ -> ());
    if pending_unlock.(t) && MuAllReplay.a_idle !aw (nat t) && MuAllReplay.held_of !aw (nat t) <> None then begin
      pending_unlock.(t) <- false; aw := MuAllReplay.apush_op !aw (nat t) (AOp OUnlock)
    end;
    check_state nthr !aw;
    ev in
  let choose t =
    (* which choice to offer thread t: mostly the normal one; at a timed wait sometimes the timeout / cancellation *)
    let a = (MuAllModel.aget !aw (nat t)).a_pc and p = (MuWaitModel.get (!aw).mu (nat t)).t_pc in
    match a, p with
    | AkLoad _, _ -> if (!aw).cvq = [] then CTimeout else CNormal
    | (AwSem _ | AnSem), _ -> if r 6 = 0 then CTimeout else CNormal
    | AIdle, MwSemP -> (match r 6 with 0 -> CTimeout | 1 -> CCancel | _ -> CNormal)
    | _ -> CNormal in
  let budget = 400 + r 400 in
  (try
     check_state nthr !aw;
     (* a bursty random scheduler: stay with a thread for a geometric number of steps *)
     let cur = ref (r nthr) in
     for _ = 1 to budget do
       (match r 40 with
        | 0 -> ignore (step_actor (Tick (z_of_int (r 15))))
        | 1 -> if r 3 = 0 then ignore (step_actor Notify)
        | 2 -> ignore (step_actor (NoteV (nat (r nthr))))
        | _ -> ());
       if r 3 = 0 then cur := r nthr;
       (* while a scanner has released the spinlock, prefer threads that are signalling / about to *)
       if zi (MuAllReplay.scanner_window !aw) >= 1 && r 2 = 0 then begin
         let cands = Stdlib.List.filter (fun t ->
             let a = MuAllModel.aget !aw (nat t) in
             (match a.a_pc with AkLoad _ | AkSelect _ | AvLoad1 _ | AvCas1 _ -> true
                               | AIdle -> (match a.a_ops with (ASignal | ABroadcast) :: _ -> MuAllModel.mu_idle (!aw).mu (nat t) | _ -> false)
                               | _ -> false)) (Stdlib.List.init nthr (fun t -> t)) in
         if cands <> [] then cur := Stdlib.List.nth cands (r (Stdlib.List.length cands))
       end;
       (match step_thr !cur (choose !cur) with
        | AMu EvBlocked | AMu EvNone -> cur := r nthr
        | _ -> ())
     done;
     (* drain: round-robin, 6 steps per thread, until a round changes nothing; then let time pass / the note fire and drain again *)
     let drain () =
       let stable = ref false and rounds = ref 0 in
       while not !stable && !rounds < 400 do
         let s0 = signature nthr !aw in
         for t = 0 to nthr - 1 do for _ = 1 to 6 do ignore (step_thr t (match choose t with CNormal -> CNormal | c -> if (!aw).cvq = [] && (match (MuAllModel.aget !aw (nat t)).a_pc with AkLoad _ -> true | _ -> false) then c else CNormal)) done done;
         incr rounds;
         if signature nthr !aw = s0 then stable := true
       done;
       if not !stable then raise (Violation "livelock: 400 drain rounds without reaching a fixed point") in
     drain ();
     (* deadlines pass, the note is notified: timed / cancellable waiters leave *)
     ignore (step_actor (Tick (z_of_int 1000))); ignore (step_actor Notify);
     for t = 0 to nthr - 1 do
       (match (MuAllModel.aget !aw (nat t)).a_pc, (MuWaitModel.get (!aw).mu (nat t)).t_pc with
        | AIdle, MwSemP ->
          let x = MuWaitModel.get_mw (!aw).mu (nat t) in
          (* BEFORE letting it time out: a sleeper whose condition is true while the mutex is free was not woken *)
          let w = (!aw).mu in
          let truth = (match x.mw_cond with Some (f, a) -> w.pst f a | None -> true) in
          if truth && zi w.word land (zi Consts.coq_MU_ANY_LOCK) = 0 && w.waiting (nat t) && zi (w.sem (nat t)) = 0 then
            raise (Violation (Printf.sprintf "stuck: thread %d asleep in nsync_mu_wait (deadline/cancel pending) with a TRUE condition on a free mutex at quiescence" t));
          if x.mw_dl <> None then ignore (step_thr t CTimeout) else if x.mw_canc then ignore (step_thr t CCancel)
        | _ -> ())
     done;
     drain ();
     (* quiescent: who is not finished? *)
     let w = (!aw).mu in
     for t = 0 to nthr - 1 do
       if not (MuAllReplay.a_idle !aw (nat t)) then begin
         let a = (MuAllModel.aget !aw (nat t)).a_pc and p = (MuWaitModel.get w (nat t)).t_pc in
         let legit =
           (match a, p with
            | (AwSem _ | AnSem), _ -> Stdlib.List.mem (nat t) (!aw).cvq          (* nobody signalled it *)
            | AIdle, MwSemP ->
              let x = MuWaitModel.get_mw w (nat t) in
              (match x.mw_cond with Some (f, a) -> not (w.pst f a) | None -> false)
            | _ -> false) in
         if legit then bump "end:legit-sleeper"
         else raise (Violation (Printf.sprintf "stuck: thread %d not finished at quiescence (word %d, queue [%s], cvq [%s], waiting %b, sem %d, transferred %b)" t
                                  (zi w.word) (String.concat ";" (Stdlib.List.map (fun p -> string_of_int (int_of_nat p)) w.queue))
                                  (String.concat ";" (Stdlib.List.map (fun p -> string_of_int (int_of_nat p)) (!aw).cvq))
                                  (w.waiting (nat t)) (zi (w.sem (nat t))) ((!aw).xferred (nat t))))
       end
     done;
     if zi w.word land (zi Consts.coq_MU_ANY_LOCK) <> 0 then raise (Violation (Printf.sprintf "stuck: mutex still held at quiescence (word %d)" (zi w.word)));
     if w.queue <> [] && not (Stdlib.List.for_all (fun p -> match w.wcond p with Some (f, a) -> not (w.pst f a) | None -> false) w.queue) then
       raise (Violation "stuck: a runnable waiter is left on mu->waiters at quiescence");
     bump "runs-ok";
     if !window_hits > 0 then bump "runs-with-xfer-in-scanner-window";
     true
   with Violation m ->
     Printf.printf "VIOLATION seed=%d %s\n" seed m;
     if verbose then begin
       Printf.printf "  schedule (thread:choice): %s\n"
         (String.concat " " (Stdlib.List.rev_map (fun (t, c) -> Printf.sprintf "%d%s" t (match c with CNormal -> "" | CTimeout -> "t" | CCancel -> "c")) !log))
     end;
     bump ("VIOLATION " ^ (try String.sub m 0 (String.index m ':') with Not_found -> m));
     false)

let () =
  let first = int_of_string Sys.argv.(1) and n = int_of_string Sys.argv.(2) in
  let verbose = Array.length Sys.argv > 3 in
  let bad = ref 0 in
  for s = first to first + n - 1 do if not (run_one verbose s) then incr bad done;
  let cov = Hashtbl.fold (fun k v acc -> Printf.sprintf "%s=%d" k v :: acc) stats [] in
  Printf.printf "SUMMARY runs=%d violations=%d %s\n" n !bad (String.concat " " (Stdlib.List.sort compare cov))
