(* Lock-step replay of a sem_mix trace against the extracted SemModel. *)
open SemModel
let rec pos_of_int (i : int) : BinNums.positive =
  if i = 1 then BinNums.Coq_xH else if i land 1 = 1 then BinNums.Coq_xI (pos_of_int (i lsr 1)) else BinNums.Coq_xO (pos_of_int (i lsr 1))
let z_of_int (i : int) : BinNums.coq_Z = if i = 0 then BinNums.Z0 else if i > 0 then BinNums.Zpos (pos_of_int i) else BinNums.Zneg (pos_of_int (-i))
let rec int_of_pos = function BinNums.Coq_xH -> 1 | BinNums.Coq_xI p -> 2 * int_of_pos p + 1 | BinNums.Coq_xO p -> 2 * int_of_pos p
let int_of_z = function BinNums.Z0 -> 0 | BinNums.Zpos p -> int_of_pos p | BinNums.Zneg p -> - (int_of_pos p)
let z_of_string (s : string) : BinNums.coq_Z =
  let neg = String.length s > 0 && s.[0] = '-' in
  let acc = ref BinNums.Z0 in
  String.iteri (fun i c -> if not (i = 0 && neg) then
                   acc := BinInt.Z.add (BinInt.Z.mul !acc (z_of_int 10)) (z_of_int (Char.code c - 48))) s;
  if neg then BinInt.Z.opp !acc else !acc
let rec nat_of_int i = if i <= 0 then Datatypes.O else Datatypes.S (nat_of_int (i - 1))

let sites : (string * int, string * int) Hashtbl.t = Hashtbl.create 256
let load_sites path =
  let ic = open_in path in
  let s = really_input_string ic (in_channel_length ic) in
  close_in ic;
  let re_obj = Str.regexp "{[^}]*}" in
  let field o name =
    let re = Str.regexp ("\"" ^ name ^ "\": *\\(\"[^\"]*\"\\|[0-9]+\\)") in
    ignore (Str.search_forward re o 0);
    let v = Str.matched_group 1 o in
    if String.length v > 0 && v.[0] = '"' then String.sub v 1 (String.length v - 2) else v in
  let pos = ref 0 in
  (try while true do
       let p = Str.search_forward re_obj s !pos in
       let o = Str.matched_string s in
       pos := p + String.length o;
       (try Hashtbl.replace sites (field o "file", int_of_string (field o "line")) (field o "fn", int_of_string (field o "ord")) with Not_found -> ())
     done with Not_found -> ())

exception Mismatch of string
let () =
  let trace = Sys.argv.(1) in
  load_sites Sys.argv.(2);
  let ic = open_in trace in
  let w = ref (SemModel.init [] [Datatypes.O; Datatypes.O; Datatypes.O] (z_of_int 0)) in
  let started = ref false in
  let timeout_taken = ref false in
  let steps = ref 0 and skipped = ref 0 in
  let last_ev = ref "" in
  let last_fts : (int * (BinNums.coq_Z * BinNums.coq_Z) option) option ref = ref None in
  let covered : (string, int) Hashtbl.t = Hashtbl.create 32 in
  let fail msg = raise (Mismatch (Printf.sprintf "%s (at trace event: %s)" msg !last_ev)) in
  let cover k = Hashtbl.replace covered k (1 + try Hashtbl.find covered k with Not_found -> 0) in
  let sync_clock now =
    started := true;
    let c = int_of_z (SemModel.clock !w) in
    if now > c then w := fst (SemModel.step !w (Tick (z_of_int (now - c))) CNormal);
    (* the kernel's timer fires as soon as the clock passes the deadline: the sleeper is no longer there for a later FUTEX_WAKE *)
    if SemReplay.timeout_due !w then begin
      w := fst (SemModel.step !w Owner CNormal); incr steps; timeout_taken := true end in
  let do_step actor choice expect =
    let (w', ev) = SemModel.step !w actor choice in
    w := w'; incr steps; expect ev in
  let poster_of t = nat_of_int (t - 2) in
  (* the comparison of the deadline with the clock value read earlier is thread-local work of the owner: the model makes it a step
     of its own (it uses the value LOGGED by the clock step, not the clock), taken when the owner is next heard of *)
  let flush_decide () =
    match (!w).owner with
    | TDecide (_, _) ->
      do_step Owner CNormal (fun ev -> match ev with
        | EvDecide e -> cover (if e then "decide-expired" else "decide-retry")
        | _ -> fail "model is not at the deadline decision")
    | _ -> () in
  (try
     while true do
       let line = input_line ic in
       if String.length line > 2 && line.[0] = 'N' then begin
         match String.split_on_char ' ' line with
         | _ :: _ :: "call" :: "p" :: _ -> w := SemReplay.push_call !w None
         | _ :: _ :: "call" :: "tp" :: s :: n :: _ ->
           w := SemReplay.push_call !w (Some { t_sec = z_of_string s; t_nsec = z_of_string n })
         | _ :: _ :: "fts" :: t :: "none" :: _ -> last_fts := Some (int_of_string t, None)
         | _ :: _ :: "fts" :: t :: s :: n :: _ -> last_fts := Some (int_of_string t, Some (z_of_string s, z_of_string n))
         | _ :: _ :: "ret" :: r :: _ ->
           flush_decide ();
           (match (!w).owner with OIdle -> () | _ -> raise (Mismatch "the implementation returned from a timed P, the model's call is not complete"));
           let m = int_of_z (SemReplay.last_code !w) in
           if m <> int_of_string r then raise (Mismatch (Printf.sprintf "timed P returned %s in the implementation, %d in the model" r m))
         | _ -> ()
       end else if String.length line > 2 && line.[0] = 'E' then begin
         last_ev := line;
         match String.split_on_char ' ' line with
         | [_; _step; tid; kind; _order; where; _obj; a; b; ok; now] ->
           let t = int_of_string tid and a = int_of_string a and b = int_of_string b and ok = (ok = "1") in
           sync_clock (int_of_string now);
           if t = 1 then flush_decide ();
           let file, ln = (match String.split_on_char ':' where with [f; l] -> f, (try int_of_string l with _ -> 0) | _ -> where, 0) in
           if file = "nsync_semaphore_futex.c" then begin
             let (fn, ord) = try Hashtbl.find sites (file, ln) with Not_found -> fail "trace site not in Gen/Sites" in
             let base = (match fn with "nsync_mu_semaphore_p" -> 100 | "nsync_mu_semaphore_p_with_deadline" -> 200
                                      | "nsync_mu_semaphore_v" -> 300 | _ -> fail ("unexpected function " ^ fn)) in
             let key = base + ord in
             cover (string_of_int key);
             let actor = if base = 300 then begin
                 if key = 301 && SemReplay.poster_idle !w (poster_of t) then w := SemReplay.add_post !w (poster_of t);
                 Poster (poster_of t) end else Owner in
             do_step actor CNormal (fun ev ->
               match kind, ev with
               | "load", EvLoad (s, v) ->
                 if int_of_z s <> key then fail (Printf.sprintf "model at site %d, implementation at %d" (int_of_z s) key);
                 if int_of_z v <> a then fail "load value differs"
               | "cas", EvCas (s, o, n, k) ->
                 if int_of_z s <> key then fail (Printf.sprintf "model at site %d, implementation at %d" (int_of_z s) key);
                 if int_of_z o <> a || int_of_z n <> b then fail (Printf.sprintf "CAS values differ: model %d->%d implementation %d->%d" (int_of_z o) (int_of_z n) a b);
                 if k <> ok then fail "CAS outcome differs"
               | _, _ -> fail "event kinds differ")
           end else if kind = "fwait" then begin
             (* the timespec handed to the kernel *)
             (match SemReplay.expected_ts !w, !last_fts with
              | Some mts, Some (ft, fts) when ft = t ->
                let same = (match mts, fts with
                    | None, None -> true
                    | Some m, Some (s, n) -> BinInt.Z.eqb m.t_sec s && BinInt.Z.eqb m.t_nsec n
                    | _ -> false) in
                if not same then fail "timespec passed to FUTEX_WAIT differs from the model's"
              | _ -> ());
             let file = where in
             if file = "woken:0" then incr skipped   (* the wake was the poster's step *)
             else if file = "wake-timeout:0" && !timeout_taken then begin timeout_taken := false; incr skipped end
             else begin
               let choice = if file = "injected:0" then (if b = int_of_z Consts.coq_EINTR then CEintr else CEarlyTimeout) else CNormal in
               cover ("fwait-" ^ file ^ "-" ^ string_of_int b);
               do_step Owner choice (fun ev ->
                 match ev with
                 | EvFutexWait r ->
                   let r = int_of_z r in
                   let impl = if ok then 0 else b in
                   if r <> impl then fail (Printf.sprintf "futex wait outcome differs: model %d implementation %d" r impl)
                 | _ -> fail "implementation is in futex wait, model elsewhere")
             end
           end else if kind = "fwake" then begin
             cover "fwake";
             do_step (Poster (poster_of t)) CNormal (fun ev ->
               match ev with
               | EvWake n -> if int_of_z n <> b then fail (Printf.sprintf "wake count differs: model %d implementation %d" (int_of_z n) b)
               | _ -> fail "implementation issues FUTEX_WAKE, model elsewhere")
           end else if kind = "clock" && t = 1 then begin
             cover "clock";
             do_step Owner CNormal (fun ev -> match ev with
               | EvClock rd ->
                 (* the value the implementation read (trace: a = tv_sec as uint32, b = tv_nsec) against the value the model logs *)
                 if (int_of_z rd.t_sec) land 0xffffffff <> a land 0xffffffff || int_of_z rd.t_nsec <> b then
                   fail (Printf.sprintf "clock value read differs: model %d.%09d implementation %d.%09d" (int_of_z rd.t_sec) (int_of_z rd.t_nsec) a b);
                 if int_of_z (SemModel.tm_ns rd) <> int_of_string now then fail "clock value read differs from the virtual clock"
               | _ -> fail "implementation reads the clock, model elsewhere")
           end else incr skipped
         | _ -> ()
       end
     done
   with
   | End_of_file -> ()
   | Mismatch m -> Printf.printf "MISMATCH %s\n" m; exit 1);
  let cov = Hashtbl.fold (fun k v acc -> Printf.sprintf "%s:%d" k v :: acc) covered [] in
  Printf.printf "OK steps=%d skipped=%d snapshots=0 sites=%s\n" !steps !skipped (String.concat "," (Stdlib.List.sort compare cov))
