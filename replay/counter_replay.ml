(* Lock-step replay of a counter_mix trace against the extracted CounterModel.
   - every event of counter.c is one [LStep tid] of the model: same site, same value read / written, same CAS
     outcome; for the stores to a waiter record the record's owner (stack region stk<u>) is compared too;
   - the abstract semaphore is tied to the successful CASes of nsync_mu_semaphore_v (only when the model's thread
     is at the V of nsync_counter_add; the other V's belong to counter_mu and are skipped) and of
     nsync_mu_semaphore_p_with_deadline (the thread is at the P of nsync_wait_n; the count read by the CAS must be
     the model's count), and to the clock read that follows a futex timeout ([LTimeout], which the model allows
     only when clock >= deadline);
   - the model's clock follows the trace's clock ([LTick]) before every step;
   - the notes "call <tid> add <d> | value | wait none|<ns>" push the call on the thread's program and
     "ret <tid> <r>" is compared with the model's logged result;
   - events of other files are skipped.  At the end every announced call must have returned in the model. *)
open Rcommon
open CounterModel

let fn_code = function
  | "nsync_counter_add" -> 1 | "nsync_counter_value" -> 2 | "nsync_counter_wait" -> 3
  | "counter_ready_time" -> 4 | "counter_enqueue" -> 5 | "counter_dequeue" -> 6 | _ -> 0

let () =
  load_sites Sys.argv.(2);
  let ic = open_in Sys.argv.(1) in
  let w = ref (CounterReplay.init_n (z_of_int 0) (z_of_int 0) (nat_of_int 16)) in
  let started = ref false in
  let steps = ref 0 and skipped = ref 0 in
  let cur = ref "" in
  let fail msg = raise (Mismatch (Printf.sprintf "%s (at trace line: %s)" msg !cur)) in
  let timed_out = Array.make 16 false in         (* the last futex wait of the thread ended with ETIMEDOUT *)
  let sem_region : (int, string) Hashtbl.t = Hashtbl.create 16 in
  let rets = Array.make 16 0 in
  let do_step l = let (w', ev) = CounterModel.step !w l in w := w'; incr steps; ev in
  let sync_clock now =
    let c = int_of_z (CounterModel.clock !w) in
    if now > c then ignore (CounterModel.step !w (LTick (z_of_int (now - c))) |> fun (w', _) -> w := w') in
  let pcc t = let (a, b) = CounterReplay.pc_class !w (nat_of_int t) in (int_of_z a, int_of_z b) in
  (try
     while true do
       let line = input_line ic in
       cur := line;
       if String.length line > 2 && line.[0] = 'N' then begin
         match String.split_on_char ' ' line with
         | [_; _; "call"; tid; "add"; d] -> w := CounterReplay.push_op !w (nat_of_int (int_of_string tid)) (Add (z_of_string d)); cover "call-add"
         | [_; _; "call"; tid; "value"] -> w := CounterReplay.push_op !w (nat_of_int (int_of_string tid)) Value; cover "call-value"
         | [_; _; "call"; tid; "wait"; "none"] -> w := CounterReplay.push_op !w (nat_of_int (int_of_string tid)) (Wait None); cover "call-wait"
         | [_; _; "call"; tid; "wait"; ns] -> w := CounterReplay.push_op !w (nat_of_int (int_of_string tid)) (Wait (Some (z_of_string ns))); cover "call-wait-timed"
         | [_; _; "ret"; tid; r] ->
           let t = int_of_string tid in
           rets.(t) <- rets.(t) + 1;
           let (n, res) = CounterReplay.returned !w (nat_of_int t) in
           if int_of_z n <> rets.(t) then fail (Printf.sprintf "implementation returned from call %d of thread %d, the model has completed %d" rets.(t) t (int_of_z n));
           if fst (pcc t) <> 0 then fail "implementation returned, the model's thread is inside a call";
           if int_of_z res <> int_of_string r then fail (Printf.sprintf "returned value differs: model %d implementation %s" (int_of_z res) r);
           cover "ret"
         | _ -> ()
       end
       else if String.length line > 2 && line.[0] = 'E' then
         match parse_event line with
         | Some e when e.file = "counter.c" ->
           let (fn, ord) = try Hashtbl.find sites (e.file, e.line) with Not_found -> fail "trace site not in Gen/Sites" in
           if fn = "nsync_counter_new" then begin
             if !started then fail "second counter";
             started := true;
             if e.b <> int_of_z (Sites.nsync_counter_new_store1_new (z_of_int e.b)) then fail "initial value differs";
             w := CounterReplay.init_n (z_of_int e.b) (z_of_int e.now) (nat_of_int 16);
             cover "new"
           end else begin
             let key = 100 * fn_code fn + ord in
             sync_clock e.now;
             if fst (pcc e.tid) = 2 then fail "the implementation left P although the model saw neither a successful P nor a timeout";
             cover (string_of_int key);
             let ev = do_step (LStep (nat_of_int e.tid)) in
             (match e.kind, ev with
              | "load", EvLoad (s, v) ->
                if int_of_z s <> key then fail (Printf.sprintf "model at site %d, implementation at %d" (int_of_z s) key);
                if int_of_z v <> e.a then fail (Printf.sprintf "load value differs: model %d implementation %d" (int_of_z v) e.a)
              | "cas", EvCas (s, o, n, k) ->
                if int_of_z s <> key then fail (Printf.sprintf "model at site %d, implementation at %d" (int_of_z s) key);
                if int_of_z o <> e.a || int_of_z n <> e.b then fail (Printf.sprintf "CAS values differ: model %d->%d" (int_of_z o) (int_of_z n));
                if k <> e.ok then fail "CAS outcome differs"
              | "store", EvStore (s, u, v) ->
                if int_of_z s <> key then fail (Printf.sprintf "model at site %d, implementation at %d" (int_of_z s) key);
                if int_of_z v <> e.b then fail (Printf.sprintf "stored value differs: model %d implementation %d" (int_of_z v) e.b);
                (* stores to nw->waiting: the record lives on the stack of its thread *)
                if fn <> "counter_ready_time" && obj_region e.obj <> "stk" ^ string_of_int (int_of_nat u) then
                  fail (Printf.sprintf "the record written belongs to another thread: model %d, implementation %s" (int_of_nat u) e.obj)
              | _, EvBlocked -> fail "the model's thread is blocked (lock held or semaphore 0) at this step"
              | _, _ -> fail "event kinds differ")
           end
         | Some e when e.file = "nsync_semaphore_futex.c" && e.kind = "cas" && e.ok ->
           let (fn, _) = try Hashtbl.find sites (e.file, e.line) with Not_found -> ("", 0) in
           let (cls, arg) = pcc e.tid in
           if fn = "nsync_mu_semaphore_v" && cls = 1 then begin
             sync_clock e.now;
             (match Hashtbl.find_opt sem_region arg with
              | Some r when r <> e.obj -> fail (Printf.sprintf "V on %s, the semaphore of thread %d is %s" e.obj arg r)
              | _ -> Hashtbl.replace sem_region arg e.obj);
             if int_of_z (CounterReplay.sem_of !w (nat_of_int arg)) <> e.a then fail "semaphore count differs at V";
             (match do_step (LStep (nat_of_int e.tid)) with
              | EvV u -> if int_of_nat u <> arg then fail "V target differs"
              | _ -> fail "model does not execute V here");
             cover "V"
           end else if fn = "nsync_mu_semaphore_p_with_deadline" && cls = 2 then begin
             sync_clock e.now;
             (match Hashtbl.find_opt sem_region e.tid with
              | Some r when r <> e.obj -> fail (Printf.sprintf "P on %s, the semaphore of thread %d is %s" e.obj e.tid r)
              | _ -> Hashtbl.replace sem_region e.tid e.obj);
             if int_of_z (CounterReplay.sem_of !w (nat_of_int e.tid)) <> e.a then
               fail (Printf.sprintf "semaphore count differs at P: model %d implementation %d" (int_of_z (CounterReplay.sem_of !w (nat_of_int e.tid))) e.a);
             (match do_step (LStep (nat_of_int e.tid)) with
              | EvP -> ()
              | _ -> fail "model cannot execute P here");
             cover "P"
           end else if fn = "nsync_mu_semaphore_p_with_deadline" then fail "P_with_deadline outside the model's P"
           else incr skipped
         | Some e when e.kind = "fwait" && e.tid < 16 ->
           timed_out.(e.tid) <- (not e.ok && e.b = int_of_z Consts.coq_ETIMEDOUT); incr skipped
         | Some e when e.kind = "clock" && e.tid < 16 && timed_out.(e.tid) && fst (pcc e.tid) = 2 ->
           (* nsync_mu_semaphore_p_with_deadline re-reads the clock after ETIMEDOUT and gives up iff deadline <= now *)
           timed_out.(e.tid) <- false;
           let (_, arg) = pcc e.tid in
           if arg > 0 && arg - 1 <= e.a * 1000000000 + e.b then begin
             sync_clock e.now;
             (match do_step (LTimeout (nat_of_int e.tid)) with
              | EvTimeout -> cover "timeout"
              | _ -> fail "the implementation's P timed out, the model's clock has not reached the deadline")
           end else cover "early-timeout-retry"
         | Some _ -> incr skipped
         | None -> ()
     done
   with End_of_file -> () | Mismatch m -> Printf.printf "MISMATCH %s\n" m; exit 1);
  (* the model's own verdict on the replayed execution *)
  for t = 0 to 15 do
    if fst (pcc t) <> 0 || int_of_z (CounterReplay.calls_left !w (nat_of_int t)) <> 0 then begin
      Printf.printf "MISMATCH at the end of the trace thread %d has not finished in the model\n" t; exit 1 end
  done;
  if CounterModel.broken !w then begin Printf.printf "MISMATCH the model crashed\n"; exit 1 end;
  if not (CounterReplay.lock_free !w) || int_of_z (CounterReplay.nwaiters !w) <> 0 then begin
    Printf.printf "MISMATCH at the end counter_mu is held or waiters are queued in the model\n"; exit 1 end;
  finish !steps !skipped
