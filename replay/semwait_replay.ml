(* Lock-step replay of a cancel_mix trace against the extracted SemWaitModel.
   Matched, in order, per thread: every atomic site of sem_wait.c; every atomic site of note.c on the CANCEL NOTE (the note the
   scenario announces with "sw note": loads / the store of `notified`, the store of a queued record's `waiting`); every lock /
   unlock boundary of the cancel note's note_mu (the successful CAS or store on <note block>+48 that flips the writer bit);
   the clock read of nsync_note_notified_deadline_; the V of note_notify_child; the P (success: its CAS; time-out: its clock
   read at/after the deadline) of nsync_sem_wait_with_cancel_; and, for a note with a parent, notify ()'s trylock / lock /
   unlock of the PARENT's note_mu.  The semaphore of each waiter struct is followed through every successful CAS of
   nsync_semaphore_futex.c on it: posts / takes outside the modelled calls (mutex sleeps and wake-ups of the same waiter
   struct) are the model's environment steps AEnvV / AEnvP, and after every modelled or mirrored semaphore step the model's
   count must equal the word the implementation wrote.
   A call of nsync_sem_wait_with_cancel_ is internal to nsync_cv_wait_with_deadline / nsync_mu_wait_with_deadline; the scenario
   announces the surrounding wait ("sw wait <tid> <note> <deadline>" ... "sw ret <tid> <result>") and every first event of
   nsync_note_notified_deadline_ on the cancel note by an idle thread inside an announced wait starts a new model call with
   those arguments.  Notifications that arrive through the parent ("sw call <tid> pnotify 0") start the model's OParentNotify
   when the thread takes the cancel note's note_mu; the events of the parent note itself are skipped.
   At "sw ret" of a wait the model's thread must be idle and its last call must have returned the announced non-zero result.
   Main-thread (tid 0) clock reads are not scheduling points of the runtime and are not in the trace: the model takes
   those steps silently.  At the end: every model thread idle, the note's queue empty, dead_touch = 0. *)
open Rcommon
open SemWaitModel

let off_mu = 48 and off_notified = ref (-1)
let site_code fn ord =
  match fn with
  | "note_notify_child" -> 10 + ord | "notify" -> 20 + ord | "nsync_note_notified_deadline_" -> 30 + ord
  | "nsync_sem_wait_with_cancel_" -> 80 + ord
  | _ -> -1
let opt_time s = if s = "none" then None else Some (z_of_string s)
let nthreads = 16

let () =
  load_sites Sys.argv.(2);
  let ic = open_in Sys.argv.(1) in
  let lines = ref [] in
  (try while true do lines := input_line ic :: !lines done with End_of_file -> ());
  let lines = Stdlib.List.rev !lines in
  let first_now = Stdlib.List.fold_left (fun acc l -> if acc >= 0 then acc else
      if String.length l > 2 && l.[0] = 'E' then (match parse_event l with Some e -> e.now | None -> acc) else acc) (-1) lines in
  let w = ref (SemWaitReplay.init_c (z_of_int (max first_now 0))) in
  let steps = ref 0 and skipped = ref 0 in
  let cur = ref "" in
  let fail msg = raise (Mismatch (Printf.sprintf "%s (at trace line: %s)" msg !cur)) in
  let started = ref false in
  let note_region = ref "" and parent_region = ref "" in
  let in_wait : (int, BinNums.coq_Z option) Hashtbl.t = Hashtbl.create 8 in
  let in_pnotify : (int, unit) Hashtbl.t = Hashtbl.create 8 in
  let pushed = Array.make nthreads 0 in
  let rec_obj : (int, string) Hashtbl.t = Hashtbl.create 16 in
  let sem_region_of : (int, string) Hashtbl.t = Hashtbl.create 8 in
  let owner_of_region : (string, int) Hashtbl.t = Hashtbl.create 8 in
  let sync now =
    let c = int_of_z (SemWaitModel.clock !w) in
    if now > c then w := SemWaitModel.tick !w (z_of_int (now - c)) in
  let expects t = int_of_z (SemWaitReplay.expects !w (nat_of_int t)) in
  let pc t = int_of_z (SemWaitReplay.pc_code !w (nat_of_int t)) in
  let idle t = SemWaitReplay.idle !w (nat_of_int t) in
  let sem_of t = int_of_nat (SemWaitReplay.sem_of !w (nat_of_int t)) in
  (* one model step of thread t *)
  let do_step t c =
    let tn = nat_of_int t in
    let p = pc t in
    let before = int_of_nat (SemWaitReplay.nrets !w) in
    let (w', ev) = SemWaitModel.step !w tn c in
    if ev = EvBlocked then fail (Printf.sprintf "the model's step (pc %d) of thread %d is not enabled" p t);
    if ev = EvNone then fail (Printf.sprintf "the model's thread %d (pc %d) has no step" t p);
    cover (Printf.sprintf "p%d" p);
    w := w'; incr steps;
    (* branch coverage: the pc this step leads to (0: the call returned) *)
    cover (Printf.sprintf "b%d>%d" p (if idle t then 0 else int_of_z (SemWaitReplay.pc_code !w tn)));
    if int_of_nat (SemWaitReplay.nrets !w) > before then begin
      match SemWaitReplay.last_ret !w with
      | Some ((r, y), near) -> cover (Printf.sprintf "ret%d_why%d%s" (int_of_z r) (int_of_z y) (if near then "_nearer" else ""))
      | None -> ()
    end;
    ev in
  (* steps that leave no event in the trace: the main thread's clock reads *)
  let rec drain t =
    if t = 0 && expects t = 3 then
      (match do_step t false with EvClock _ -> drain t | _ -> fail "model: silent clock step gave another event") in
  let push t o = w := SemWaitReplay.push_op !w (nat_of_int t) o; pushed.(t) <- pushed.(t) + 1 in
  (* notify (): nsync_mu_trylock (&parent->note_mu) failed -- seen only when the thread goes on to unlock the note *)
  let resolve_try_fail t =
    if expects t = 8 then begin
      match do_step t true with
      | EvTryPar false -> cover "trypar_failed"
      | _ -> fail "model: forced trylock failure gave another event"
    end in
  let bind_sem o region real_before =
    (match Hashtbl.find_opt sem_region_of o with
     | Some r -> if r <> region then fail (Printf.sprintf "thread %d's semaphore was %s, now %s" o r region)
     | None ->
       (match Hashtbl.find_opt owner_of_region region with
        | Some o' -> fail (Printf.sprintf "semaphore %s belongs to thread %d, the model says thread %d" region o' o)
        | None -> ());
       Hashtbl.replace sem_region_of o region; Hashtbl.replace owner_of_region region o;
       (* posts made before we knew whose semaphore this is *)
       let m = sem_of o in
       if m > real_before then fail (Printf.sprintf "model count %d of thread %d's semaphore exceeds the implementation's %d" m o real_before);
       for _ = 1 to real_before - m do w := SemWaitModel.env_v !w (nat_of_int o); cover "env_v_presync" done) in
  let check_sem o real_after what =
    if sem_of o <> real_after then
      fail (Printf.sprintf "%s: semaphore of thread %d is %d in the model, %d in the implementation" what o (sem_of o) real_after) in
  let check_wait_res t (r : string) =
    if not (idle t) then fail (Printf.sprintf "implementation returned from the wait of thread %d, the model's thread is at pc %d" t (pc t));
    let ri = int_of_string r in
    if ri <> 0 then begin
      match SemWaitReplay.last_res !w (nat_of_int t) with
      | Some (OWait (_, _), RInt m) ->
        if int_of_z m <> ri then fail (Printf.sprintf "result differs: implementation's wait returned %d, the model's last nsync_sem_wait_with_cancel_ %d" ri (int_of_z m))
      | _ -> fail "the model has no completed wait for this thread"
    end in
  let handle_note (l : string) =
    match String.split_on_char ' ' l with
    | _ :: _ :: "sw" :: "note" :: id :: region :: exp :: par :: pregion :: _ ->
      let strip r = obj_region r in
      note_region := strip region;
      if pregion <> "-" then parent_region := strip pregion;
      w := SemWaitReplay.add_note !w (nat_of_int (int_of_string id)) (opt_time exp) (par = "1");
      started := true; cover ("note_kind_" ^ (if par = "1" then "child" else if exp = "none" then "plain" else "expiring"))
    | _ :: _ :: "sw" :: "wait" :: t :: _n :: d :: _ ->
      let t = int_of_string t in
      if not (idle t) then fail "implementation starts a wait while the model's thread is still inside a call";
      Hashtbl.replace in_wait t (opt_time d); cover "wait"
    | _ :: _ :: "sw" :: "call" :: t :: opn :: _n :: _ ->
      let t = int_of_string t in
      if not (idle t) then fail "implementation starts a call while the model's thread is still inside one";
      (match opn with
       | "notify" -> push t (ONotify (nat_of_int 0))
       | "isn" -> push t (OIsNotified (nat_of_int 0))
       | "pnotify" -> Hashtbl.replace in_pnotify t ()
       | _ -> fail "unknown call note");
      cover ("call_" ^ opn)
    | _ :: _ :: "sw" :: "ret" :: t :: r :: _ ->
      let t = int_of_string t in
      drain t;
      if Hashtbl.mem in_wait t then begin check_wait_res t r; Hashtbl.remove in_wait t end
      else begin
        Hashtbl.remove in_pnotify t;
        if not (idle t) then fail (Printf.sprintf "implementation returned from the call of thread %d, the model's thread is at pc %d" t (pc t));
        (match SemWaitReplay.last_res !w (nat_of_int t) with
         | Some (OIsNotified _, RBool b) when r <> "-" -> if (r = "1") <> b then fail "nsync_note_is_notified: result differs"
         | _ -> ())
      end
    | _ -> () in
  let handle_event (e : event) =
    let t = e.tid in
    if not !started then incr skipped else begin
    sync e.now;
    drain t;
    let region = obj_region e.obj and off = obj_offset e.obj in
    let fn_ord = Hashtbl.find_opt sites (e.file, e.line) in
    let fn = match fn_ord with Some (f, _) -> f | None -> "" in
    let ord = match fn_ord with Some (_, o) -> o | None -> 0 in
    let key = site_code fn ord in
    let is_waiting_store = e.file = "note.c" && fn = "note_notify_child" && ord = 3 in
    if e.file = "sem_wait.c" || (e.file = "note.c" && (region = !note_region || is_waiting_store)) then begin
      if key < 0 then fail "trace site not in Gen/Sites (or of a function the model does not have)";
      cover (Printf.sprintf "s%d" key);
      resolve_try_fail t;
      (* a new nsync_sem_wait_with_cancel_ of an announced wait *)
      if idle t && Hashtbl.mem in_wait t then begin
        if key <> 31 then fail (Printf.sprintf "a wait's first event on the cancel note is site %d, not the first load of nsync_note_notified_deadline_" key);
        push t (OWait (Some (nat_of_int 0), Hashtbl.find in_wait t)); cover "sem_wait_call"
      end;
      if expects t <> 1 then fail (Printf.sprintf "implementation is at site %d, model expects kind %d (pc %d)" key (expects t) (pc t));
      if e.kind = "load" && !off_notified < 0 then off_notified := off;
      let ev = do_step t false in
      (match e.kind, ev with
       | "load", EvLoad (s, n, v) ->
         if int_of_z s <> key then fail (Printf.sprintf "model at site %d, implementation at %d" (int_of_z s) key);
         if region <> !note_region || off <> !off_notified then fail "load of `notified` on an unexpected object";
         if int_of_nat n <> 0 then fail "model loads another note";
         if int_of_z v <> e.a then fail (Printf.sprintf "load value differs: model %d implementation %d" (int_of_z v) e.a);
         cover (Printf.sprintf "s%d=%d" key e.a)
       | "store", EvStoreN (s, n, v) ->
         if int_of_z s <> key then fail (Printf.sprintf "model at site %d, implementation at %d" (int_of_z s) key);
         if region <> !note_region || off <> !off_notified then fail "store to `notified` on an unexpected object";
         if int_of_nat n <> 0 then fail "model stores to another note";
         if int_of_z v <> e.b then fail "stored value differs"
       | "store", EvStoreW (s, r, v) ->
         if int_of_z s <> key then fail (Printf.sprintf "model at site %d, implementation at %d" (int_of_z s) key);
         if int_of_z v <> e.b then fail "stored waiting value differs";
         let r = int_of_nat r in
         if key = 81 then begin
           if region <> Printf.sprintf "stk%d" t then fail (Printf.sprintf "nw of thread %d is on %s, not on its own stack" t region);
           Hashtbl.replace rec_obj r e.obj
         end else begin
           let o = int_of_nat (SemWaitReplay.rec_owner !w (nat_of_int r)) in
           (match Hashtbl.find_opt rec_obj r with
            | Some ob -> if ob <> e.obj then fail (Printf.sprintf "the notifier writes %s, the model's record %d is at %s" e.obj r ob)
            | None -> fail "the model's record has no known address");
           if region <> Printf.sprintf "stk%d" o then fail (Printf.sprintf "waiter record is on %s, model says thread %d" region o);
           if e.a <> 1 then fail "the record's waiting word was not 1"
         end
       | _, _ -> fail (Printf.sprintf "event kinds differ (model pc gave another event) site %d" key))
    end else if e.file = "note.c" then begin
      if !parent_region <> "" && region = !parent_region then begin cover "parent_site_skipped"; incr skipped end
      else fail "note.c event on an object that is neither the cancel note nor its parent"
    end else begin
      let flips = (e.kind = "cas" && e.ok || e.kind = "store") && (e.a land 1) <> (e.b land 1) in
      if region = !note_region && off = off_mu && flips then begin
        if e.b land 1 = 1 then begin
          resolve_try_fail t;
          if idle t && Hashtbl.mem in_pnotify t then begin push t (OParentNotify (nat_of_int 0)); cover "pnotify_reaches_child" end;
          if expects t <> 1 then fail (Printf.sprintf "implementation acquires the note's note_mu, model expects kind %d (pc %d)" (expects t) (pc t));
          cover "lock";
          match do_step t false with
          | EvLock m -> if int_of_nat m <> 0 then fail "model locks another note"
          | _ -> fail "implementation acquires the note's note_mu, the model's step is not a lock"
        end else begin
          resolve_try_fail t;
          if expects t <> 1 then fail (Printf.sprintf "implementation releases the note's note_mu, model expects kind %d (pc %d)" (expects t) (pc t));
          cover "unlock";
          match do_step t false with
          | EvUnlock m -> if int_of_nat m <> 0 then fail "model unlocks another note"
          | _ -> fail "implementation releases the note's note_mu, the model's step is not an unlock"
        end
      end else if !parent_region <> "" && region = !parent_region && off = off_mu && flips && (expects t = 8 || expects t = 9 || expects t = 10) then begin
        match expects t, e.b land 1 with
        | 8, 1 -> if fn <> "nsync_mu_trylock" then fail "the parent's note_mu is taken, but not by nsync_mu_trylock";
          (match do_step t false with EvTryPar true -> cover "trypar_ok" | _ -> fail "model: trylock step gave another event")
        | 9, 1 -> (match do_step t false with EvLockPar -> cover "lockpar" | _ -> fail "model: parent lock step gave another event")
        | 10, 0 -> (match do_step t false with EvUnlockPar -> cover "unlockpar" | _ -> fail "model: parent unlock step gave another event")
        | k, _ -> fail (Printf.sprintf "the parent's note_mu flips the wrong way for model kind %d" k)
      end else if e.kind = "clock" then begin
        match expects t with
        | 3 -> (match do_step t false with
            | EvClock now -> if int_of_z now <> e.now then fail "clock value differs"; cover "clock"
            | _ -> fail "model: clock step gave another event")
        | 5 -> if SemWaitReplay.sleep_due !w (nat_of_int t) then begin
            match do_step t true with EvP false -> cover "p_timeout" | _ -> fail "model: timeout step gave another event" end
          else cover "p_early_wake"
        | _ -> incr skipped
      end else if e.file = "nsync_semaphore_futex.c" && e.kind = "cas" && e.ok then begin
        if fn = "nsync_mu_semaphore_v" then begin
          if expects t = 4 then begin
            (* whose semaphore: read off the model's pending V before the step *)
            let tn = nat_of_int t in
            let (w', ev) = SemWaitModel.step !w tn false in
            (match ev with
             | EvV (r, o) ->
               let o = int_of_nat o in
               ignore r; ignore w';
               bind_sem o region e.a;
               (match do_step t false with EvV (_, _) -> () | _ -> fail "model: V step gave another event");
               check_sem o e.b "V of a notifier";
               cover "v"
             | _ -> fail "model: V step gave another event")
          end else begin
            match Hashtbl.find_opt owner_of_region region with
            | Some o -> w := SemWaitModel.env_v !w (nat_of_int o); check_sem o e.b "a post from outside the model"; cover "env_v"
            | None -> incr skipped
          end
        end else if fn = "nsync_mu_semaphore_p_with_deadline" && expects t = 5 then begin
          bind_sem t region e.a;
          (match do_step t false with EvP true -> () | _ -> fail "model: P step gave another event");
          check_sem t e.b "P of a wait";
          cover "p_ok"
        end else begin
          match Hashtbl.find_opt owner_of_region region with
          | Some o ->
            if o <> t then fail (Printf.sprintf "thread %d takes a post of thread %d's semaphore" t o);
            w := SemWaitModel.env_p !w (nat_of_int t); check_sem t e.b "a take outside the modelled call"; cover "env_p"
          | None -> incr skipped
        end
      end else incr skipped
    end end in
  (try
     Stdlib.List.iter (fun line ->
         cur := line;
         if String.length line > 2 && line.[0] = 'N' then handle_note line
         else if String.length line > 2 && line.[0] = 'E' then
           (match parse_event line with Some e -> handle_event e | None -> ())) lines;
     cur := "<end of trace>";
     if not !started then fail "the trace has no `sw note` announcement";
     for t = 0 to nthreads - 1 do
       if not (idle t) then fail (Printf.sprintf "thread %d of the model has not finished (pc %d)" t (pc t))
     done;
     if SemWaitReplay.note_queue !w (nat_of_int 0) <> [] then fail "the model's waiter list of the note is not empty at the end";
     if int_of_z (SemWaitReplay.dead !w) <> 0 then fail "model ghost: a dead record was touched"
   with Mismatch m -> Printf.printf "MISMATCH %s\n" m; exit 1);
  Rcommon.finish !steps !skipped
