(* Lock-step replay of a muwait_mix / mu_mix trace (harness/rt/vrt.c format) against the extracted MuWaitModel.
   - every atomic event of mu.c / mu_wait.c on the mutex "mu0" (its word, or a field of a waiter queued on it) and every
     event of nsync_spin_test_and_set_ (common.c) on mu0's word is one [Thr tid] step of the model: same site
     (100*function + ordinal of Gen/Sites.v), same values read / written, same CAS outcome, same target waiter;
     remove_count values are compared up to the per-waiter offset observed at the first access of the call (waiter
     structs are recycled through the free pool; the model identifies a waiter with the thread using it);
   - successful P / V CASes of the futex semaphore on a waiter of mu0 are the model's P / V steps; a V by a thread that
     is not at the V of nsync_mu_unlock_slow_ is the cancel note's wake-up ([NoteV]); the store of the note's
     notified flag is [Notify];
   - the model's clock follows the trace ([Tick]) before every step; a thread that leaves nsync_sem_wait_with_cancel_
     without a P (its next event is mu_wait.c's load of w->nw.waiting after the wait) takes the model's timed-P step
     with choice CTimeout / CCancel (taken from the call's announced result when that decides it), which the model
     allows only when clock >= deadline / the note is notified;
   - notes "mwait tid f a eq dl canc" push the call, "mwret tid r" is compared with the model's result,
     "eval tid f a res" is the model's evaluation step (same condition, same result), "setc tid f a b" a write to
     the protected state;
   - S lines: the real queue (waiter blocks head first, each with its same_condition neighbours) must equal the
     model's queue and ring pointers.
   Events on other mutexes (the note's) and other files are skipped. *)
open Rcommon
open MuWaitModel

let nthreads = 16
let fid = function
  | "nsync_mu_lock" -> 100 | "nsync_mu_rlock" -> 200 | "nsync_mu_trylock" -> 300 | "nsync_mu_rtrylock" -> 400
  | "nsync_mu_lock_slow_" -> 500 | "mu_release_spinlock" -> 600 | "nsync_mu_unlock" -> 700
  | "nsync_mu_runlock" -> 800 | "nsync_mu_unlock_slow_" -> 900 | "nsync_mu_wait_with_deadline" -> 1000
  | "mu_try_acquire_after_timeout_or_cancel" -> 1100 | "nsync_mu_unlock_without_wakeup" -> 1200
  | "nsync_remove_from_mu_queue_" -> 1300 | "nsync_spin_test_and_set_" -> 1400 | _ -> -1
(* sites that access a field of a waiter record rather than the mutex word *)
let waiter_site k = Stdlib.List.mem k [504; 505; 907; 1002; 1003; 1006; 1007; 1008; 1105; 1106; 1107; 1301; 1302]

let () =
  let trace = Sys.argv.(1) in
  load_sites Sys.argv.(2);
  let mu_name = if Array.length Sys.argv > 3 then Sys.argv.(3) else "mu0" in
  let lines =
    let ic = open_in trace in
    let acc = ref [] in
    (try while true do acc := input_line ic :: !acc done with End_of_file -> ());
    close_in ic; Array.of_list (Stdlib.List.rev !acc) in
  (* look-ahead: the announced results of each thread's calls, in order *)
  let rets = Array.make nthreads [] in
  Array.iter (fun l -> match String.split_on_char ' ' l with
      | ["N"; _; "mwret"; t; r] -> let t = int_of_string t in rets.(t) <- rets.(t) @ [int_of_string r]
      | _ -> ()) lines;
  let w = ref (MuWaitReplay.init_n (nat_of_int nthreads) (Stdlib.List.map nat_of_int [0; 0; 1; 2; 3]) (z_of_int 0)) in
  let blk_of_thread = Array.make nthreads "" in
  let thread_of_blk : (string, int) Hashtbl.t = Hashtbl.create 16 in
  let cur_mu = Array.make nthreads "" in
  let rc_off = Array.make nthreads 0 and rc_valid = Array.make nthreads false in
  let rc_field = ref (-1) in
  let steps = ref 0 and skipped = ref 0 and snaps = ref 0 in
  let cur = ref "" in
  let fail msg = raise (Mismatch (Printf.sprintf "%s (at trace line: %s)" msg !cur)) in
  let etimedout = int_of_z Consts.coq_ETIMEDOUT and ecanceled = int_of_z Consts.coq_ECANCELED in
  let pcc t = int_of_z (MuWaitReplay.pc_code !w (nat_of_int t)) in
  let do_actor a = let (w', ev) = MuWaitModel.step !w a in w := w'; incr steps; ev in
  (* branch coverage of the model's queue algorithms (which arm the next step of thread t will take) *)
  let probe t =
    let wd = !w in
    let ce a b = MuWaitModel.cond_eq wd.wcond wd.weq wd.cls a b in
    let rm_probe q e =
      let q' = MuWaitModel.remove1 e q in
      if q' = [] then cover "b:rm_last_one"
      else if wd.scn e <> e then cover "b:rm_unlink"
      else begin
        let prev = MuWaitModel.circ_prev q e and next = MuWaitModel.circ_next q e in
        if prev <> List.last q' e then (if ce prev next then cover "b:rm_merge_neighbours" else cover "b:rm_no_merge")
        else cover "b:rm_at_end"
      end in
    match (MuWaitModel.get wd (nat_of_int t)).t_pc with
    | UsEval (_, u) ->
      (match u.u_rest with
       | p :: tl ->
         if MuWaitModel.skip_past wd.scp u.u_new u.u_rest p <> tl then cover "b:skip_jump_possible";
         if wd.scp p <> p then cover "b:eval_in_ring"
       | [] -> ())
    | RmCas (KScan (_, u), _) -> (match u.u_rest with e :: _ -> rm_probe u.u_new e | [] -> ())
    | RmCas (KTry _, _) -> rm_probe wd.queue (nat_of_int t)
    | SpinCas (KScan (_, u), _) ->
      if wd.queue <> [] then cover "b:scan_next_round";
      (match MuWaitModel.last_opt u.u_done, MuWaitModel.first_opt u.u_new with
       | Some a, Some b -> if ce a b then cover "b:round_merge"
       | _ -> ())
    | SpinCas (KWait, _) ->
      let x = MuWaitModel.get_mw wd (nat_of_int t) in
      if x.mw_first then (match MuWaitModel.last_opt wd.queue with Some a -> if ce a (nat_of_int t) then cover "b:enq_last_merge" | None -> ())
      else (cover "b:enq_first"; match MuWaitModel.first_opt wd.queue with Some b -> if ce (nat_of_int t) b then cover "b:enq_first_merge" | None -> ())
    | UsCasSpin (_, old) ->
      if int_of_z old land 16 <> 0 then (if int_of_z old land 1 = 0 then cover "b:convert_reader" else cover "b:testing_writer") else cover "b:no_testing"
    | _ -> () in
  let do_step t c =
    probe t;
    let ev = do_actor (Thr (nat_of_int t, c)) in
    if pcc t = 5 then fail (Printf.sprintf "model thread %d crashed (reason %d)" t (int_of_z (MuWaitReplay.crash_why !w (nat_of_int t))));
    ev in
  let sync_clock now =
    let c = int_of_z (MuWaitModel.clock !w) in
    if now > c then (let (w', _) = MuWaitModel.step !w (Tick (z_of_int (now - c))) in w := w') in
  let ensure_op t o =
    if MuWaitReplay.is_idle !w (nat_of_int t) then begin w := MuWaitReplay.push_op !w (nat_of_int t) o; rc_valid.(t) <- false end in
  let bind t blk =
    if blk_of_thread.(t) <> blk then rc_valid.(t) <- false;
    (match Hashtbl.find_opt thread_of_blk blk with Some u when u <> t -> blk_of_thread.(u) <- "" | _ -> ());
    if blk_of_thread.(t) <> "" then Hashtbl.remove thread_of_blk blk_of_thread.(t);
    blk_of_thread.(t) <- blk; Hashtbl.replace thread_of_blk blk t in
  let rc_check p real model =
    if not rc_valid.(p) then begin rc_off.(p) <- real - model; rc_valid.(p) <- true end
    else if real <> model + rc_off.(p) then fail (Printf.sprintf "remove_count of waiter %d differs: model %d (+%d) implementation %d" p model rc_off.(p) real) in
  let thread_of b = try Hashtbl.find thread_of_blk b with Not_found -> -1 in
  let site_err s key = fail (Printf.sprintf "model is at site %d, implementation at %d" (int_of_z s) key) in
  (* the timed P of a thread that left nsync_sem_wait_with_cancel_ without consuming a post *)
  let sem_out t =
    let r = (match rets.(t) with r :: _ -> r | [] -> 0) in
    let tn = nat_of_int t in
    let c = if r = etimedout then CTimeout else if r = ecanceled then CCancel
      else if MuWaitReplay.timeout_enabled !w tn then CTimeout else CCancel in
    match do_step t c with
    | EvSemOut _ -> cover "semout"
    | EvBlocked -> fail (Printf.sprintf "thread %d left its timed wait without a post, but in the model neither the deadline has passed nor is the note notified (choice %s)" t (match c with CTimeout -> "timeout" | _ -> "cancel"))
    | _ -> fail "model not at the timed P" in
  let handle_event (e : event) =
    let t = e.tid in
    sync_clock e.now;
    let region = obj_region e.obj in
    let in_mu_files = (e.file = "mu.c" || e.file = "mu_wait.c" || e.file = "common.c") in
    if in_mu_files && (e.kind = "cas" || e.kind = "load" || e.kind = "store") then begin
      match Hashtbl.find_opt sites (e.file, e.line) with
      | None -> if e.file = "common.c" then incr skipped else fail "trace site not in Gen/Sites"
      | Some (fn, ord) ->
        let f = fid fn in
        if f < 0 then incr skipped
        else begin
          (* mu_wait.c:96 holds two sites (loads of w->nw.waiting and of w->remove_count); Sites.json keeps one per line:
             tell them apart by the field offset, learnt at site 1003 (the load of remove_count at line 197) *)
          let key = f + ord in
          if key = 1003 then rc_field := obj_offset e.obj;
          let key = if key = 1106 && obj_offset e.obj <> !rc_field then 1105 else key in
          let relevant =
            if waiter_site key then (if e.file = "mu_wait.c" then MuWaitReplay.in_call !w (nat_of_int t) else cur_mu.(t) = mu_name)
            else begin
              if f <> 1400 then cur_mu.(t) <- region;      (* the word of the mutex this thread is operating on *)
              region = mu_name
            end in
          if not relevant then incr skipped
          else begin
            (match key with
             | 101 -> ensure_op t (OLock W) | 201 -> ensure_op t (OLock R)
             | 301 -> ensure_op t (OTry W) | 401 -> ensure_op t (OTry R)
             | 701 | 801 -> ensure_op t OUnlock
             | 1201 -> ensure_op t OUnlockNW
             | _ -> ());
            if key = 1007 && pcc t = 1 then sem_out t;
            cover (string_of_int key);
            let ev = do_step t CNormal in
            match e.kind, ev with
            | "cas", EvCas (s, o, n, k) ->
              if int_of_z s <> key then site_err s key;
              if int_of_z o <> e.a || int_of_z n <> e.b then fail (Printf.sprintf "CAS values differ: model %d->%d, implementation %d->%d" (int_of_z o) (int_of_z n) e.a e.b);
              if k <> e.ok then fail "CAS outcome differs"
            | "load", EvLoad (s, v) ->
              if int_of_z s <> key then site_err s key;
              if int_of_z v <> e.a then fail (Printf.sprintf "load value differs: model %d implementation %d" (int_of_z v) e.a)
            | "store", EvStoreWord (s, n) ->
              if int_of_z s <> key then site_err s key;
              if int_of_z n <> e.b then fail (Printf.sprintf "stored word differs: model %d implementation %d" (int_of_z n) e.b)
            | "store", EvStoreW (s, p, v) ->
              if int_of_z s <> key then site_err s key;
              if key = 504 || key = 1002 then bind t region;
              if int_of_nat p <> thread_of region then fail (Printf.sprintf "waiting store targets thread %d in the model, %d in the implementation" (int_of_nat p) (thread_of region));
              if int_of_z v <> e.b then fail "waiting store value differs"
            | "load", EvLoadW (s, v) ->
              if int_of_z s <> key then site_err s key;
              if thread_of region <> t then fail "waiting flag of another waiter read";
              if int_of_z v <> e.a then fail (Printf.sprintf "waiting flag differs: model %d implementation %d" (int_of_z v) e.a)
            | "load", EvLoadRc (s, p, v) ->
              if int_of_z s <> key then site_err s key;
              let p = int_of_nat p in
              if thread_of region <> p then fail (Printf.sprintf "remove_count of thread %d's waiter read in the model, of thread %d's in the implementation" p (thread_of region));
              rc_check p e.a (int_of_z v)
            | "cas", EvCasRc (s, p, o, n, k) ->
              if int_of_z s <> key then site_err s key;
              let p = int_of_nat p in
              if thread_of region <> p then fail "remove_count CAS targets a different waiter";
              rc_check p e.a (int_of_z o);
              if e.b - e.a <> int_of_z n - int_of_z o then fail "remove_count increment differs";
              if k <> e.ok then fail "remove_count CAS outcome differs"
            | _, EvBlocked -> fail "model thread is blocked on its semaphore but the implementation thread moved"
            | _, _ -> fail ("event kinds differ (implementation " ^ e.kind ^ " at site " ^ string_of_int key ^ ")")
          end
        end
    end
    else if e.file = "nsync_semaphore_futex.c" && e.kind = "cas" && e.ok then begin
      match Hashtbl.find_opt sites (e.file, e.line) with
      | Some (("nsync_mu_semaphore_p" | "nsync_mu_semaphore_p_with_deadline"), _) ->
        if blk_of_thread.(t) = region && region <> "" && (pcc t = 1 || pcc t = 3) then begin
          match do_step t CNormal with
          | EvP -> cover "P"
          | EvBlocked -> fail "P succeeded in the implementation but the model's count is 0"
          | _ -> fail "implementation completed P, model elsewhere"
        end else incr skipped
      | Some ("nsync_mu_semaphore_v", _) ->
        let tp = thread_of region in
        if pcc t = 2 && cur_mu.(t) = mu_name then begin
          match do_step t CNormal with
          | EvV p -> cover "V"; if int_of_nat p <> tp then fail "V targets a different waiter"
          | _ -> fail "implementation completed V, model elsewhere"
        end else if tp >= 0 && MuWaitReplay.in_call !w (nat_of_int tp) && pcc tp = 1 then begin
          (* the cancel note wakes a thread blocked in nsync_sem_wait_with_cancel_ *)
          match do_actor (NoteV (nat_of_int tp)) with
          | EvNoteV _ -> cover "noteV"
          | _ -> fail "V from the note on a waiter of mu0, but the model's note is not notified"
        end else incr skipped
      | _ -> incr skipped
    end
    else if e.file = "note.c" && e.kind = "store" then begin
      match Hashtbl.find_opt sites (e.file, e.line) with
      | Some ("note_notify_child", 2) -> ignore (do_actor Notify); cover "notify"
      | _ -> incr skipped
    end
    else incr skipped in
  let handle_note (parts : string list) =
    match parts with
    | "mwait" :: t :: f :: a :: eq :: dl :: canc :: _ ->
      let t = int_of_string t and f = int_of_string f in
      let c = if f < 0 then None else Some (nat_of_int f, nat_of_int (int_of_string a)) in
      let d = if dl = "none" then None else Some (z_of_string dl) in
      if not (MuWaitReplay.is_idle !w (nat_of_int t)) then fail "nsync_mu_wait_with_deadline called while the model thread is inside another call";
      w := MuWaitReplay.clear_ret !w (nat_of_int t);
      ensure_op t (OMuWait (c, eq = "1", d, canc = "1"));
      cover "mwait"
    | ["mwret"; t; r] ->
      let t = int_of_string t and r = int_of_string r in
      (match rets.(t) with _ :: rest -> rets.(t) <- rest | [] -> ());
      if MuWaitReplay.in_call !w (nat_of_int t) then fail "nsync_mu_wait_with_deadline returned in the implementation, the model is still inside the call";
      let m = int_of_z (MuWaitReplay.ret_code !w (nat_of_int t)) in
      if m <> r then fail (Printf.sprintf "nsync_mu_wait_with_deadline returned %d in the implementation, %d in the model" r m);
      cover (Printf.sprintf "ret%d" r)
    | ["eval"; t; f; a; r] ->
      let t = int_of_string t in
      (match do_step t CNormal with
       | EvEval (_, f', a', r') ->
         if int_of_nat f' <> int_of_string f || int_of_nat a' <> int_of_string a then
           fail (Printf.sprintf "condition evaluated: model f%d(a%d), implementation f%s(a%s)" (int_of_nat f') (int_of_nat a') f a);
         if r' <> (r = "1") then fail "condition value differs";
         cover "eval"
       | _ -> fail "implementation evaluated a condition, model elsewhere")
    | ["setc"; t; f; a; b] ->
      let t = int_of_string t in
      ensure_op t (OSetCond (nat_of_int (int_of_string f), nat_of_int (int_of_string a), b = "1"));
      (match do_step t CNormal with EvSet _ -> cover "setc" | _ -> fail "protected-state write: model thread not idle inside a write section")
    | _ -> () in
  let handle_snapshot (entries : string list) =
    incr snaps;
    if not (MuWaitReplay.unstable_queue !w) then begin
      let real = Stdlib.List.map (fun s ->
          match String.split_on_char '/' s with
          | [a; p; n] -> (thread_of (obj_region a), thread_of (obj_region p), thread_of (obj_region n))
          | [a] -> (thread_of (obj_region a), -3, -3)      (* mu_mix's snapshot: queue members only *)
          | _ -> (-2, -2, -2)) entries in
      let plain = Stdlib.List.exists (fun (_, p, _) -> p = -3) real in
      let model = Stdlib.List.map (fun x -> if plain then (int_of_nat x, -3, -3) else
                                       (int_of_nat x, int_of_nat (MuWaitModel.scp !w x), int_of_nat (MuWaitModel.scn !w x))) (MuWaitModel.queue !w) in
      if Stdlib.List.exists (fun (a, p, _) -> p >= 0 && p <> a) real then cover "ring_snap";
      if real <> model then
        let show l = String.concat " " (Stdlib.List.map (fun (a, p, n) -> Printf.sprintf "%d/%d/%d" a p n) l) in
        fail (Printf.sprintf "queue / same_condition rings differ: model [%s] implementation [%s]" (show model) (show real))
    end in
  (try
     Array.iter (fun line ->
         cur := line;
         if String.length line > 2 then
           match line.[0] with
           | 'E' -> (match parse_event line with Some e -> handle_event e | None -> ())
           | 'N' -> (match String.split_on_char ' ' line with _ :: _ :: parts -> handle_note parts | _ -> ())
           | 'S' -> if !steps > 0 then
               (match String.split_on_char ' ' line with
                | _ :: "Q" :: entries -> handle_snapshot (Stdlib.List.filter (fun s -> s <> "") entries)
                | _ -> ())
           | _ -> ()) lines;
     (* every thread must have finished its calls in the model too *)
     for t = 0 to nthreads - 1 do
       if not (MuWaitReplay.is_idle !w (nat_of_int t)) then begin cur := "end of trace"; fail (Printf.sprintf "model thread %d has not finished" t) end
     done;
     if MuWaitReplay.bad_evals !w <> Datatypes.O then begin cur := "end of trace"; fail "model logged a condition evaluation without the lock / beside a writer" end
   with Mismatch m -> Printf.printf "MISMATCH %s\n" m; exit 1);
  cover (Printf.sprintf "evals=%d" (int_of_nat (MuWaitReplay.nevals !w)));
  let cov = Hashtbl.fold (fun k v acc -> Printf.sprintf "%s:%d" k v :: acc) covered [] in
  Printf.printf "OK steps=%d skipped=%d snapshots=%d sites=%s\n" !steps !skipped !snaps (String.concat "," (Stdlib.List.sort compare cov))
