(* Lock-step replay of a muwait_mix trace (harness/rt/vrt.c format; VRT_CV=1 or VRT_MODE=3) against the extracted MuAllModel
   (Model/MuAllModel.v: MuWaitModel + the part of cv.c that works on the mutex).

   mu.c / mu_wait.c / nsync_spin_test_and_set_ on the mutex "mu0": exactly as replay/muwait_replay.ml -- every atomic event
   is one [Thr tid] step of the model: same site (100*function + ordinal of Gen/Sites.v), same values read / written, same
   CAS outcome, same target waiter; remove_count values up to the per-waiter offset; successful P / V CASes of the futex
   semaphore are the model's P / V steps; the clock follows the trace; notes "mwait" / "mwret" / "eval" / "setc"; S lines
   compare the real mutex queue AND the same_condition ring pointers with the model's.  This includes the steps the mutex
   takes INSIDE nsync_cv_wait (the release, the re-acquisition afresh or as designated waker) and the scan of
   nsync_mu_unlock_slow_ finding a transferred cv waiter in mu->waiters.
   cv.c, as replay/muxfer_replay.ml:
     * wake_waiters' sites on the mutex word (1501 load, 1502 acquiring CAS, 1503 load, 1504 releasing CAS, 1505 reload) with
       the values read / written and the CAS outcome, and its store waiting = 0 (1506) with the waiter it targets;
     * in nsync_cv_wait_with_deadline_generic: the store waiting = 1 (1601), the load of the mutex word (1602), the loads of
       waiting (1605, 1606, 1613), and -- inside the confirmation section -- whether the store waiting = 0 (1611) happened;
     * every completed P / V on a waiter's semaphore (P inside the cv wait or inside lock_slow / mu_wait; V by wake_waiters or
       by unlock_slow);
     * events on the cv word only DELIMIT the model's atomic sections: the section's step is taken at the store that
       releases the cv spinlock (1604 enqueue, 1612 confirmation, 1706 / 1804 selection); the load of the cv word by signal /
       broadcast (1701 / 1801) selects [CNormal] (CV_NON_EMPTY set) or the early exit (clear: the model refuses it unless its
       cv queue is empty).
   A nsync_mu_wait call that the scenario does not announce (MODE 3's M) is recognised at its first site (1001) and its
   condition is taken from the "eval" note of the evaluation that follows.
   Coverage keys "xfer:*" describe each successful acquiring CAS of wake_waiters: whether some thread was inside the scan of
   nsync_mu_unlock_slow_ with the queue swapped out and the spinlock RELEASED (the window this model exists for). *)
open Rcommon
open MuWaitModel
open MuAllModel

let nthreads = 16
let fid = function
  | "nsync_mu_lock" -> 100 | "nsync_mu_rlock" -> 200 | "nsync_mu_trylock" -> 300 | "nsync_mu_rtrylock" -> 400
  | "nsync_mu_lock_slow_" -> 500 | "mu_release_spinlock" -> 600 | "nsync_mu_unlock" -> 700
  | "nsync_mu_runlock" -> 800 | "nsync_mu_unlock_slow_" -> 900 | "nsync_mu_wait_with_deadline" -> 1000
  | "mu_try_acquire_after_timeout_or_cancel" -> 1100 | "nsync_mu_unlock_without_wakeup" -> 1200
  | "nsync_remove_from_mu_queue_" -> 1300 | "nsync_spin_test_and_set_" -> 1400 | _ -> -1
let fid_cv = function
  | "wake_waiters" -> 1500 | "nsync_cv_wait_with_deadline_generic" -> 1600 | "nsync_cv_signal" -> 1700
  | "nsync_cv_broadcast" -> 1800 | "cv_enqueue" -> 1900 | "cv_dequeue" -> 2000 | "cv_ready_time" -> 2100 | _ -> -1
let waiter_site k = Stdlib.List.mem k [504; 505; 907; 1002; 1003; 1006; 1007; 1008; 1105; 1106; 1107; 1301; 1302]

let () =
  let trace = Sys.argv.(1) in
  load_sites Sys.argv.(2);
  let mu_name = if Array.length Sys.argv > 3 then Sys.argv.(3) else "mu0" in
  let lines =
    let ic = open_in trace in
    let acc = ref [] in
    (try while true do acc := input_line ic :: !acc done with End_of_file -> ());
    close_in ic; Array.of_list (Stdlib.List.rev !acc) in
  let rets = Array.make nthreads [] in
  let announced_setc = ref false in
  Array.iter (fun l -> match String.split_on_char ' ' l with
      | ["N"; _; "mwret"; t; r] -> let t = int_of_string t in rets.(t) <- rets.(t) @ [int_of_string r]
      | "N" :: _ :: "setc" :: _ -> announced_setc := true
      | _ -> ()) lines;
  (* scenarios that do not announce their writes to the protected state (MODE 3): the truth of a condition is then an INPUT of
     the replay, allowed to change only if some thread has been inside a write section since the value was last observed *)
  let wsections = ref 0 in
  let seen_at : (int * int, int) Hashtbl.t = Hashtbl.create 8 in
  let w = ref (MuAllReplay.ainit_n (nat_of_int nthreads) (Stdlib.List.map nat_of_int [0; 0; 1; 2; 3]) (z_of_int 0)) in
  let muw () = (!w).mu in
  let blk_of_thread = Array.make nthreads "" in
  let thread_of_blk : (string, int) Hashtbl.t = Hashtbl.create 16 in
  let cur_mu = Array.make nthreads "" in
  let rc_off = Array.make nthreads 0 and rc_valid = Array.make nthreads false in
  let rc_field = ref (-1) in
  let removed : (int, bool) Hashtbl.t = Hashtbl.create 16 in
  let steps = ref 0 and skipped = ref 0 and snaps = ref 0 in
  let cur = ref "" and cur_idx = ref 0 in
  let fail msg = raise (Mismatch (Printf.sprintf "%s (at trace line: %s)" msg !cur)) in
  let etimedout = int_of_z Consts.coq_ETIMEDOUT and ecanceled = int_of_z Consts.coq_ECANCELED in
  let nat t = nat_of_int t in
  let pcc t = int_of_z (MuAllReplay.mpc_code !w (nat t)) in
  let code t = int_of_z (MuAllReplay.apc_code !w (nat t)) in
  let do_actor a = let (w', ev) = MuAllModel.astep !w a in w := w'; incr steps; ev in
  let probe t =
    let wd = muw () in
    let ce a b = MuWaitModel.cond_eq wd.wcond wd.weq wd.cls a b in
    let rm_probe q e =
      let q' = MuWaitModel.remove1 e q in
      if q' = [] then cover "b:rm_last_one"
      else if wd.scn e <> e then cover "b:rm_unlink"
      else begin
        let prev = MuWaitModel.circ_prev q e and next = MuWaitModel.circ_next q e in
        if prev <> List.last q' e then (if ce prev next then cover "b:rm_merge_neighbours" else cover "b:rm_no_merge")
        else cover "b:rm_at_end"
      end in
    if MuAllReplay.is_desig_entry !w (nat t) then cover "desig-entry";
    match (MuWaitModel.get wd (nat t)).t_pc with
    | UsEval (_, u) ->
      (match u.u_rest with
       | p :: tl ->
         if MuWaitModel.skip_past wd.scp u.u_new u.u_rest p <> tl then cover "b:skip_jump_possible";
         if wd.scp p <> p then cover "b:eval_in_ring"
       | [] -> ())
    | RmCas (KScan (_, u), _) ->
      (match u.u_rest with
       | e :: _ -> rm_probe u.u_new e; if MuAllReplay.xferred_of !w e && wd.wcond e = None then cover "scan:removes-transferred-cv-waiter"
       | [] -> ())
    | RmCas (KTry _, _) -> rm_probe wd.queue (nat t)
    | SpinCas (KScan (_, u), _) ->
      if wd.queue <> [] then begin
        cover "b:scan_next_round";
        if Stdlib.List.exists (fun p -> MuAllReplay.xferred_of !w p && wd.wcond p = None) wd.queue then cover "scan:next-round-picks-up-transferred"
      end;
      (match MuWaitModel.last_opt u.u_done, MuWaitModel.first_opt u.u_new with
       | Some a, Some b -> if ce a b then cover "b:round_merge"
       | _ -> ())
    | SpinCas (KWait, _) ->
      let x = MuWaitModel.get_mw wd (nat t) in
      if x.mw_first then (match MuWaitModel.last_opt wd.queue with Some a -> if ce a (nat t) then cover "b:enq_last_merge" | None -> ())
      else (cover "b:enq_first"; match MuWaitModel.first_opt wd.queue with Some b -> if ce (nat t) b then cover "b:enq_first_merge" | None -> ())
    | UsCasSpin (_, old) ->
      if int_of_z old land 16 <> 0 then (if int_of_z old land 1 = 0 then cover "b:convert_reader" else cover "b:testing_writer") else cover "b:no_testing"
    | _ -> () in
  let do_step t c =
    probe t;
    let h0 = MuAllReplay.held_of !w (nat t) in
    let ev = do_actor (Thr (nat t, c)) in
    (match h0, MuAllReplay.held_of !w (nat t) with
     | (None | Some R), Some W -> incr wsections
     | _ -> ());
    if pcc t = 5 then fail (Printf.sprintf "model thread %d crashed (reason %d)" t (int_of_z (MuAllReplay.crash_why !w (nat t))));
    if code t = 99 then fail (Printf.sprintf "model thread %d: client-contract crash of the cv wait" t);
    ev in
  let sync_clock now =
    let c = int_of_z (MuWaitModel.clock (muw ())) in
    if now > c then (let (w', _) = MuAllModel.astep !w (Tick (z_of_int (now - c))) in w := w') in
  let idle t = MuAllReplay.a_idle !w (nat t) in
  let push t o = w := MuAllReplay.apush_op !w (nat t) o in
  let ensure_op t o = if idle t then begin push t (AOp o); rc_valid.(t) <- false end in
  let bind t blk =
    if blk_of_thread.(t) <> blk then rc_valid.(t) <- false;
    (match Hashtbl.find_opt thread_of_blk blk with Some u when u <> t -> blk_of_thread.(u) <- "" | _ -> ());
    if blk_of_thread.(t) <> "" then Hashtbl.remove thread_of_blk blk_of_thread.(t);
    blk_of_thread.(t) <- blk; Hashtbl.replace thread_of_blk blk t in
  let rc_check p real model =
    if not rc_valid.(p) then begin rc_off.(p) <- real - model; rc_valid.(p) <- true end
    else if real <> model + rc_off.(p) then fail (Printf.sprintf "remove_count of waiter %d differs: model %d (+%d) implementation %d" p model rc_off.(p) real) in
  let thread_of b = try Hashtbl.find thread_of_blk b with Not_found -> -1 in
  let site_err s key = fail (Printf.sprintf "model is at site %d, implementation at %d" (int_of_z s) key) in
  let sem_out t =
    let r = (match rets.(t) with r :: _ -> r | [] -> 0) in
    let c = if r = etimedout then CTimeout else if r = ecanceled then CCancel
      else if MuAllReplay.timeout_enabled !w (nat t) then CTimeout else CCancel in
    match do_step t c with
    | AMu (EvSemOut _) -> cover "semout"
    | AMu EvBlocked -> fail (Printf.sprintf "thread %d left its timed wait without a post, but in the model neither the deadline has passed nor is the note notified" t)
    | _ -> fail "model not at the timed P" in
  (* compare a trace event with the model's event *)
  let cmp (e : event) key ev =
    let region = obj_region e.obj in
    let t = e.tid in
    match e.kind, ev with
    | "cas", AMu (EvCas (s, o, n, k)) ->
      if int_of_z s <> key then site_err s key;
      if int_of_z o <> e.a || int_of_z n <> e.b then fail (Printf.sprintf "CAS values differ: model %d->%d, implementation %d->%d" (int_of_z o) (int_of_z n) e.a e.b);
      if k <> e.ok then fail (Printf.sprintf "CAS outcome differs: model %b implementation %b" k e.ok)
    | "load", AMu (EvLoad (s, v)) ->
      if int_of_z s <> key then site_err s key;
      if int_of_z v <> e.a then fail (Printf.sprintf "load value differs: model %d implementation %d" (int_of_z v) e.a)
    | "store", AMu (EvStoreWord (s, n)) ->
      if int_of_z s <> key then site_err s key;
      if int_of_z n <> e.b then fail (Printf.sprintf "stored word differs: model %d implementation %d" (int_of_z n) e.b)
    | "store", AMu (EvStoreW (s, p, v)) ->
      if int_of_z s <> key then site_err s key;
      if key = 504 || key = 1002 || key = 1601 then bind t region;
      if int_of_nat p <> thread_of region then fail (Printf.sprintf "waiting store targets thread %d in the model, %d in the implementation" (int_of_nat p) (thread_of region));
      if int_of_z v <> e.b then fail "waiting store value differs"
    | "load", AMu (EvLoadW (s, v)) ->
      if int_of_z s <> key then site_err s key;
      if thread_of region <> t then fail "waiting flag of another waiter read";
      if int_of_z v <> e.a then fail (Printf.sprintf "waiting flag differs: model %d implementation %d" (int_of_z v) e.a)
    | "load", AMu (EvLoadRc (s, p, v)) ->
      if int_of_z s <> key then site_err s key;
      let p = int_of_nat p in
      if thread_of region <> p then fail (Printf.sprintf "remove_count of thread %d's waiter read in the model, of thread %d's in the implementation" p (thread_of region));
      rc_check p e.a (int_of_z v)
    | "cas", AMu (EvCasRc (s, p, o, n, k)) ->
      if int_of_z s <> key then site_err s key;
      let p = int_of_nat p in
      if thread_of region <> p then fail "remove_count CAS targets a different waiter";
      rc_check p e.a (int_of_z o);
      if e.b - e.a <> int_of_z n - int_of_z o then fail "remove_count increment differs";
      if k <> e.ok then fail "remove_count CAS outcome differs"
    | _, AMu EvBlocked -> fail "model thread is blocked on its semaphore but the implementation thread moved"
    | _, AMu EvCrash -> fail "model thread crashed"
    | _, ARefused -> fail "the model refuses this choice"
    | _, _ -> fail ("event kinds differ (implementation " ^ e.kind ^ " at site " ^ string_of_int key ^ ")") in
  (* the first "eval t f a r" note after the current line *)
  let next_eval t =
    let r = ref None and i = ref (!cur_idx + 1) in
    while !r = None && !i < Array.length lines do
      (match String.split_on_char ' ' lines.(!i) with
       | ["N"; _; "eval"; t'; f; a; _] when int_of_string t' = t -> r := Some (int_of_string f, int_of_string a)
       | _ -> ());
      incr i
    done; !r in
  let expect t c what = if code t <> c then fail (Printf.sprintf "%s: model thread is at wrapper pc %d, expected %d" what (code t) c) in
  let sec t what f =
    (match do_step t CNormal with
     | ASec (s, n) -> f (int_of_z s) (int_of_z n)
     | _ -> fail ("the model does not take the section step " ^ what)) in
  (* ---- cv.c ---- *)
  let cv_event (e : event) fn ord =
    let t = e.tid in
    let key = fid_cv fn + ord in
    if fid_cv fn < 0 then fail ("function of cv.c outside MuAllModel: " ^ fn);
    cover (string_of_int key);
    match key with
    | 1601 ->
      if not (idle t) then fail "cv wait starts while the model thread is busy";
      (match MuAllReplay.held_of !w (nat t) with
       | Some m -> push t (AWait m)
       | None -> fail "cv wait by a thread that does not hold the mutex in the model");
      rc_valid.(t) <- false;
      cmp e key (do_step t CNormal);
      expect t 2 "wait.store1"
    | 1602 -> expect t 2 "wait.load-mu"; if obj_region e.obj <> mu_name then fail "cv wait on another mutex"; cmp e key (do_step t CNormal)
    | 1603 -> incr skipped
    | 1604 -> expect t 3 "wait.enqueue"; sec t "enqueue" (fun _ _ -> ())
    | 1605 -> expect t 5 "wait.loop"; cmp e key (do_step t CNormal)
    | 1606 ->
      if code t = 6 then begin
        (match do_step t CTimeout with ATimeout -> cover "sem:nonzero" | _ -> fail "model does not take the timeout step") end;
      expect t 7 "wait.load6"; cmp e key (do_step t CNormal)
    | 1607 -> expect t 8 "wait.confirm";
      if (e.a <> 0) <> (MuWaitModel.waiting (muw ()) (nat t)) then fail "waiting flag differs inside the confirmation section";
      incr skipped
    | 1608 | 1609 | 1610 -> incr skipped
    | 1611 -> expect t 8 "wait.confirm(store)"; if e.b <> 0 then fail "the confirmation section stores a non-zero waiting flag"; Hashtbl.replace removed t true; incr skipped
    | 1612 -> expect t 8 "wait.confirm(release)";
      let r = (try Hashtbl.find removed t with Not_found -> false) in
      Hashtbl.remove removed t;
      sec t "confirm" (fun _ n ->
          if (n = 1) <> r then fail (Printf.sprintf "confirmation section: model %s, implementation %s"
                                      (if n = 1 then "removes the waiter from the cv queue" else "finds the waiter taken")
                                      (if r then "removed it" else "found it taken"));
          cover (if r then "confirm:removed" else if MuAllReplay.xferred_of !w (nat t) then "confirm:taken-transferred" else "confirm:taken"))
    | 1613 -> expect t 9 "wait.load13"; cmp e key (do_step t CNormal)
    | 1701 | 1801 ->
      if not (idle t) then fail "signal / broadcast starts while the model thread is busy";
      push t (if key = 1701 then ASignal else ABroadcast);
      let c = if e.a land (int_of_z Consts.coq_CV_NON_EMPTY) <> 0 then CNormal else CTimeout in
      (match do_step t c with
       | ASec (_, n) -> cover (if int_of_z n = 0 then "signal:early-exit" else "signal:enter")
       | ARefused -> fail "implementation saw CV_NON_EMPTY clear, the model's cv queue is not empty"
       | _ -> fail "model does not take the signal load step")
    | 1702 | 1703 | 1704 | 1705 | 1802 | 1803 -> incr skipped
    | 1706 | 1804 -> expect t 12 "signal.select"; sec t "select" (fun _ n -> cover (if n = 0 then "select:none" else if n = 1 then "select:one" else "select:many"))
    | 1501 -> expect t 13 "wake.load1"; if obj_region e.obj <> mu_name then fail "wake_waiters on another mutex"; cmp e key (do_step t CNormal)
    | 1502 -> expect t 14 "wake.cas1";
      let win = int_of_z (MuAllReplay.scanner_window !w) in
      let q0 = Stdlib.List.length (MuWaitModel.queue (muw ())) in
      cmp e key (do_step t CNormal);
      if e.ok then begin
        let q1 = Stdlib.List.length (MuWaitModel.queue (muw ())) in
        cover (Printf.sprintf "xfer:moved=%d" (min (q1 - q0) 2));
        cover (match win with 0 -> "xfer:no-scanner-window"
                            | 1 -> "xfer:IN-SCANNER-WINDOW-private-lists-empty"
                            | _ -> "xfer:IN-SCANNER-WINDOW-private-lists-nonempty");
        if q1 = 0 then cover "xfer:F15-clears-MU_WAITING";
        if q1 = 0 && win = 2 then cover "xfer:F15-clear-WHILE-SCANNER-HOLDS-WAITERS"
      end else cover "xfer:cas1-failed"
    | 1503 -> expect t 15 "wake.load3"; cmp e key (do_step t CNormal)
    | 1504 -> expect t 16 "wake.cas2"; cmp e key (do_step t CNormal)
    | 1505 -> expect t 17 "wake.load5"; cmp e key (do_step t CNormal)
    | 1506 -> expect t 18 "wake.store"; cmp e key (do_step t CNormal)
    (* nsync_wait_n on the cv: cv_enqueue / cv_ready_time / cv_dequeue on a record in the caller's stack frame *)
    | 1901 ->
      if not (idle t) then fail "nsync_wait_n enqueues while the model thread is busy";
      push t AWaitN;
      Hashtbl.replace thread_of_blk (obj_region e.obj) t;
      if e.b <> 1 then fail "cv_enqueue stores a waiting flag other than 1";
      w := MuAllModel.abegin !w (nat t);
      expect t 20 "waitn.enqueue(store)"; incr skipped
    | 1902 -> expect t 20 "waitn.enqueue"; sec t "cv_enqueue" (fun _ _ -> cover "waitn:enqueued")
    | 2101 -> expect t 21 "waitn.ready_time"; cmp e key (do_step t CNormal)
    | 2001 -> expect t 23 "waitn.dequeue(load)"; incr skipped
    | 2002 -> expect t 23 "waitn.dequeue(store)"; if e.b <> 0 then fail "cv_dequeue stores a non-zero waiting flag"; Hashtbl.replace removed t true; incr skipped
    | 2003 -> expect t 23 "waitn.dequeue";
      let r = (try Hashtbl.find removed t with Not_found -> false) in
      Hashtbl.remove removed t;
      sec t "cv_dequeue" (fun _ n ->
          if (n = 1) <> r then fail (Printf.sprintf "cv_dequeue: model %s, implementation %s" (if n = 1 then "removes the record" else "finds it taken") (if r then "removed it" else "found it taken"));
          cover (if r then "waitn:dequeued" else "waitn:taken"))
    | 2004 -> expect t 24 "waitn.spin"; cmp e key (do_step t CNormal)
    | _ -> fail (Printf.sprintf "cv.c site %d outside the scenarios of this tie" key) in
  let handle_event (e : event) =
    let t = e.tid in
    sync_clock e.now;
    let region = obj_region e.obj in
    let in_mu_files = (e.file = "mu.c" || e.file = "mu_wait.c" || e.file = "common.c") in
    if e.file = "cv.c" && (e.kind = "cas" || e.kind = "load" || e.kind = "store") then begin
      match Hashtbl.find_opt sites (e.file, e.line) with
      | None -> fail "trace site of cv.c not in Gen/Sites"
      | Some (fn, ord) -> cv_event e fn ord
    end
    else if in_mu_files && (e.kind = "cas" || e.kind = "load" || e.kind = "store") then begin
      match Hashtbl.find_opt sites (e.file, e.line) with
      | None -> if e.file = "common.c" then incr skipped else fail "trace site not in Gen/Sites"
      | Some (fn, ord) ->
        let f = fid fn in
        if f < 0 then incr skipped
        else begin
          let key = f + ord in
          if key = 1003 then rc_field := obj_offset e.obj;
          let key = if key = 1106 && obj_offset e.obj <> !rc_field then 1105 else key in
          let relevant =
            if waiter_site key then (if e.file = "mu_wait.c" then MuAllReplay.in_call !w (nat t) else cur_mu.(t) = mu_name)
            else begin
              if f <> 1400 then cur_mu.(t) <- region;
              region = mu_name
            end in
          if not relevant then incr skipped
          else begin
            (match code t with
             | 0 | 4 | 10 -> ()
             | c -> fail (Printf.sprintf "mu.c / mu_wait.c event while the model thread is at wrapper pc %d" c));
            (match key with
             | 101 -> ensure_op t (OLock W) | 201 -> ensure_op t (OLock R)
             | 301 -> ensure_op t (OTry W) | 401 -> ensure_op t (OTry R)
             | 701 | 801 -> ensure_op t OUnlock
             | 1201 -> ensure_op t OUnlockNW
             | 1001 when idle t ->
               (* an unannounced nsync_mu_wait (no deadline, no note, no eq): its condition from the evaluation that follows *)
               (match next_eval t with
                | Some (f, a) -> w := MuAllReplay.clear_ret !w (nat t); ensure_op t (OMuWait (Some (nat f, nat a), false, None, false)); cover "mwait-inferred"
                | None -> fail "nsync_mu_wait_with_deadline entered without announcement and without a following evaluation")
             | _ -> ());
            if key = 1007 && pcc t = 1 then sem_out t;
            cover (string_of_int key);
            let c0 = code t in
            let ev = do_step t CNormal in
            cmp e key ev;
            if c0 = 4 && code t = 5 then cover "wait:released";
            if c0 = 10 && code t = 0 then begin
              cover "wait:reacquired";
              if not (MuAllReplay.last_ret_ok !w (nat t)) then fail "the model logged a return of the cv wait without the mutex held in the declared mode"
            end
          end
        end
    end
    else if e.file = "nsync_semaphore_futex.c" && e.kind = "cas" && e.ok then begin
      match Hashtbl.find_opt sites (e.file, e.line) with
      | Some (("nsync_mu_semaphore_p" | "nsync_mu_semaphore_p_with_deadline"), _) ->
        if code t = 22 || (blk_of_thread.(t) = region && region <> "" && (code t = 6 || ((pcc t = 1 || pcc t = 3) && (code t = 0 || code t = 10)))) then begin
          let lbl = if code t = 22 then "P-waitn" else if code t = 6 then "P-cv" else "P" in
          if code t = 22 then Hashtbl.replace thread_of_blk region t;
          match do_step t CNormal with
          | AMu EvP -> cover lbl
          | AMu EvBlocked -> fail "P succeeded in the implementation but the model's count is 0"
          | _ -> fail "implementation completed P, model elsewhere"
        end else incr skipped
      | Some ("nsync_mu_semaphore_v", _) ->
        let tp = thread_of region in
        (match MuAllReplay.v_target !w (nat t) with
         | Some p when (code t = 19 || cur_mu.(t) = mu_name) ->
           (* the semaphore of an nsync_wait_n caller lives in its waiter struct, which no event has tied to the thread yet *)
           let tp = if tp < 0 && code t = 19 && (let cp = code (int_of_nat p) in cp >= 20 && cp <= 24 || cp = 0) && (!w).nonmu p
             then begin Hashtbl.replace thread_of_blk region (int_of_nat p); cover "waitn:sem-learnt"; int_of_nat p end else tp in
           if int_of_nat p <> tp then fail (Printf.sprintf "V targets thread %d in the implementation, %d in the model" tp (int_of_nat p));
           let lbl = if code t = 19 then "V-cv" else "V" in
           (match do_step t CNormal with
            | AMu (EvV p') when int_of_nat p' = tp -> cover lbl
            | _ -> fail "implementation completed V, model elsewhere")
         | _ ->
           if tp >= 0 && ((MuAllReplay.in_call !w (nat tp) && pcc tp = 1) || code tp = 6) then begin
             match do_actor (NoteV (nat tp)) with
             | AMu (EvNoteV _) -> cover "noteV"
             | _ -> fail "V from the note on a waiter of mu0, but the model's note is not notified"
           end else incr skipped)
      | _ -> incr skipped
    end
    else if e.file = "note.c" && e.kind = "store" then begin
      match Hashtbl.find_opt sites (e.file, e.line) with
      | Some ("note_notify_child", 2) -> ignore (do_actor Notify); cover "notify"
      | _ -> incr skipped
    end
    else begin
      if region = mu_name && ((e.kind = "cas" && e.ok) || e.kind = "store") then fail "a write to the mutex word from code outside the model";
      incr skipped
    end in
  let handle_note (parts : string list) =
    match parts with
    | "mwait" :: t :: f :: a :: eq :: dl :: canc :: _ ->
      let t = int_of_string t and f = int_of_string f in
      let c = if f < 0 then None else Some (nat f, nat (int_of_string a)) in
      let d = if dl = "none" then None else Some (z_of_string dl) in
      if not (idle t) then fail "nsync_mu_wait_with_deadline called while the model thread is inside another call";
      w := MuAllReplay.clear_ret !w (nat t);
      ensure_op t (OMuWait (c, eq = "1", d, canc = "1"));
      cover "mwait"
    | ["mwret"; t; r] ->
      let t = int_of_string t and r = int_of_string r in
      (match rets.(t) with _ :: rest -> rets.(t) <- rest | [] -> ());
      if MuAllReplay.in_call !w (nat t) then fail "nsync_mu_wait_with_deadline returned in the implementation, the model is still inside the call";
      let m = int_of_z (MuAllReplay.ret_code !w (nat t)) in
      if m <> r then fail (Printf.sprintf "nsync_mu_wait_with_deadline returned %d in the implementation, %d in the model" r m);
      cover (Printf.sprintf "ret%d" r)
    | ["eval"; t; f; a; r] ->
      let t = int_of_string t in
      if not !announced_setc then begin
        let fi = int_of_string f and ai = int_of_string a in
        let cur_v = MuWaitModel.pst (muw ()) (nat fi) (nat ai) in
        let last = (try Hashtbl.find seen_at (fi, ai) with Not_found -> 0) in
        if cur_v <> (r = "1") then begin
          if !wsections > last then begin w := MuAllReplay.force_pst !w (nat fi) (nat ai) (r = "1"); cover "setc-inferred" end
          else fail "condition value changed although no thread has been inside a write section since it was last evaluated"
        end;
        Hashtbl.replace seen_at (fi, ai) !wsections
      end;
      (match do_step t CNormal with
       | AMu (EvEval (_, f', a', r')) ->
         if int_of_nat f' <> int_of_string f || int_of_nat a' <> int_of_string a then
           fail (Printf.sprintf "condition evaluated: model f%d(a%d), implementation f%s(a%s)" (int_of_nat f') (int_of_nat a') f a);
         if r' <> (r = "1") then fail "condition value differs";
         cover "eval";
         if (!w).cvq <> [] || Stdlib.List.exists (fun p -> MuAllReplay.xferred_of !w p) (MuWaitModel.queue (muw ()) @ MuAllReplay.scanner_lists !w)
         then cover "eval:with-cv-waiters-present"
       | _ -> fail "implementation evaluated a condition, model elsewhere")
    | ["setc"; t; f; a; b] ->
      let t = int_of_string t in
      (* protected state may be written by a thread that is at a call boundary inside a write section *)
      if not (idle t) then fail "protected-state write while the model thread is inside a call";
      push t (AOp (OSetCond (nat (int_of_string f), nat (int_of_string a), b = "1")));
      (match do_step t CNormal with AMu (EvSet _) -> cover "setc" | _ -> fail "protected-state write: model thread not idle inside a write section")
    | _ -> () in
  let handle_snapshot (entries : string list) =
    incr snaps;
    if not (MuAllReplay.unstable_queue !w) then begin
      let real = Stdlib.List.map (fun s ->
          match String.split_on_char '/' s with
          | [a; p; n] -> (thread_of (obj_region a), thread_of (obj_region p), thread_of (obj_region n))
          | [a] -> (thread_of (obj_region a), -3, -3)
          | _ -> (-2, -2, -2)) entries in
      let plain = Stdlib.List.exists (fun (_, p, _) -> p = -3) real in
      let mw = muw () in
      let model = Stdlib.List.map (fun x -> if plain then (int_of_nat x, -3, -3) else
                                       (int_of_nat x, int_of_nat (MuWaitModel.scp mw x), int_of_nat (MuWaitModel.scn mw x))) (MuWaitModel.queue mw) in
      if Stdlib.List.exists (fun (a, p, _) -> p >= 0 && p <> a) real then cover "ring_snap";
      if Stdlib.List.exists (fun x -> MuAllReplay.xferred_of !w x && MuWaitModel.wcond mw x = None) (MuWaitModel.queue mw) then cover "snap:with-transferred-waiter";
      if real <> model then
        let show l = String.concat " " (Stdlib.List.map (fun (a, p, n) -> Printf.sprintf "%d/%d/%d" a p n) l) in
        fail (Printf.sprintf "queue / same_condition rings differ: model [%s] implementation [%s]" (show model) (show real))
    end in
  (try
     Array.iteri (fun i line ->
         cur := line; cur_idx := i;
         if String.length line > 2 then
           match line.[0] with
           | 'E' -> (match parse_event line with Some e -> handle_event e | None -> ())
           | 'N' -> (match String.split_on_char ' ' line with _ :: _ :: parts -> handle_note parts | _ -> ())
           | 'S' -> if !steps > 0 then
               (match String.split_on_char ' ' line with
                | _ :: "Q" :: entries -> handle_snapshot (Stdlib.List.filter (fun s -> s <> "") entries)
                | _ -> ())
           | _ -> ()) lines;
     for t = 0 to nthreads - 1 do
       if not (idle t) then begin cur := "end of trace"; fail (Printf.sprintf "model thread %d has not finished" t) end;
       if not (MuAllReplay.last_ret_ok !w (nat t)) then begin cur := "end of trace"; fail (Printf.sprintf "thread %d returned from a cv wait without the mutex in the declared mode" t) end
     done;
     if MuAllReplay.bad_evals !w <> Datatypes.O then begin cur := "end of trace"; fail "model logged a condition evaluation without the lock / beside a writer" end
   with Mismatch m -> Printf.printf "MISMATCH %s\n" m; exit 1);
  cover (Printf.sprintf "evals=%d" (int_of_nat (MuAllReplay.nevals !w)));
  let cov = Hashtbl.fold (fun k v acc -> Printf.sprintf "%s:%d" k v :: acc) covered [] in
  Printf.printf "OK steps=%d skipped=%d snapshots=%d sites=%s\n" !steps !skipped !snaps (String.concat "," (Stdlib.List.sort compare cov))
