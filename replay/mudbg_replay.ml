(* Lock-step replay of an implementation trace (harness/rt/vrt.c format) of harness/scen/mu_mix.c run with
   VRT_DEBUGGER=1|2 against the extracted MuDbgModel (MuModel + debugger threads):
   - every atomic step of the real mu.c must be the step MuModel takes for that thread (as replay/mu_replay.ml);
   - every atomic step the debugger thread makes in debug.c (emit_mu_state, emit_waiters) and in common.c
     (nsync_spin_test_and_set_ on the mutex word) must be the step MuDbgModel.dbg_step takes for that debugger:
     same site, same value read, same CAS operands and outcome; under the spinlock the waiter records read must be
     the model's queue in order, with the model's waiting flags.
   The entry point of each debug call is announced by the scenario ("N <step> dbgcall <tid> <0|1|2>"); the number of
   waiter-record loads of the call (what the text buffer's capacity decides) is read ahead from the trace and given to
   the model as the call's parameters. *)
open MuModel
open MuDbgModel
open Rcommon

let fid = function
  | "nsync_mu_lock" -> 100 | "nsync_mu_rlock" -> 200 | "nsync_mu_trylock" -> 300 | "nsync_mu_rtrylock" -> 400
  | "nsync_mu_lock_slow_" -> 500 | "mu_release_spinlock" -> 600 | "nsync_mu_unlock" -> 700
  | "nsync_mu_runlock" -> 800 | "nsync_mu_unlock_slow_" -> 900 | _ -> -1
let dfid = function
  | "nsync_spin_test_and_set_" -> 1000 | "emit_waiters" -> 1100 | "emit_mu_state" -> 1200 | _ -> -1

let () =
  let trace = Sys.argv.(1) and sites_json = Sys.argv.(2) in
  load_sites sites_json;
  let lines =
    let ic = open_in trace in
    let acc = ref [] in
    (try while true do acc := input_line ic :: !acc done with End_of_file -> ());
    close_in ic; Array.of_list (Stdlib.List.rev !acc) in
  let nl = Array.length lines in
  let w = ref (MuDbgReplay.dinit_n (nat_of_int 12) (nat_of_int 4)) in
  let thread_of_blk : (string, int) Hashtbl.t = Hashtbl.create 16 in
  let dbg_of_tid : (int, int) Hashtbl.t = Hashtbl.create 4 in
  let pending_kind : (int, int) Hashtbl.t = Hashtbl.create 4 in
  let steps = ref 0 and dsteps = ref 0 and skipped = ref 0 and snaps = ref 0 and calls = ref 0 in
  let locked_reads = ref 0 and unsafe_reads = ref 0 in
  let last_ev = ref "" in
  let fail msg = raise (Mismatch (Printf.sprintf "%s (at trace event: %s)" msg !last_ev)) in
  let bw () = MuDbgModel.base !w in
  let do_base t expect =
    let (w', ev) = MuDbgModel.dstep !w (TBase (nat_of_int t)) in
    w := w'; incr steps;
    (match ev with DEvBase e -> expect e | _ -> fail "base step returned a debugger event") in
  let ensure_op t o = if MuDbgReplay.base_is_idle !w (nat_of_int t) then w := MuDbgReplay.push_base_op !w (nat_of_int t) o in
  let dbg_index tid =
    try Hashtbl.find dbg_of_tid tid with Not_found ->
      let d = Hashtbl.length dbg_of_tid in
      if d >= 4 then fail "more than 4 debugger threads";
      Hashtbl.replace dbg_of_tid tid d; d in
  (* is this event an event of a debug-state call on the mutex? *)
  let dbg_event (e : event) : (string * int) option =
    if e.file = "debug.c" || (e.file = "common.c" && obj_region e.obj = "mu0") then
      (try let (fn, ord) = Hashtbl.find sites (e.file, e.line) in if dfid fn >= 0 then Some (fn, ord) else None
       with Not_found -> None)
    else None in
  (* number of waiter-record loads the call starting at line i (an emit_mu_state load 1 of tid) makes *)
  let count_loads i tid =
    let n = ref 0 and j = ref (i + 1) and stop = ref false in
    while not !stop && !j < nl do
      let l = lines.(!j) in
      if String.length l > 2 && l.[0] = 'E' then begin
        match parse_event l with
        | Some e when e.tid = tid ->
          (match dbg_event e with
           | Some ("emit_mu_state", 1) -> stop := true
           | Some ("emit_waiters", _) -> incr n
           | _ -> ())
        | _ -> ()
      end;
      incr j
    done; !n in
  (try
     for i = 0 to nl - 1 do
       let line = lines.(i) in
       if String.length line > 2 && line.[0] = 'N' then begin
         match String.split_on_char ' ' line with
         | [_; _; "dbgcall"; tid; kind] -> Hashtbl.replace pending_kind (int_of_string tid) (int_of_string kind)
         | _ -> ()
       end else if String.length line > 2 && line.[0] = 'E' then begin
         last_ev := line;
         match parse_event line with
         | None -> ()
         | Some e ->
           let t = e.tid and a = e.a and b = e.b and ok = e.ok and kind = e.kind in
           if e.file = "mu.c" then begin
             let (fn, ord) = try Hashtbl.find sites (e.file, e.line) with Not_found -> fail "trace site not in Gen/Sites" in
             let f = fid fn in
             if fn = "nsync_remove_from_mu_queue_" then incr skipped   (* remove_count bookkeeping: a stutter step here *)
             else begin
               if f < 0 then fail ("function outside MuModel: " ^ fn);
               (match f, ord with
                | 100, 1 -> ensure_op t (OLock W) | 200, 1 -> ensure_op t (OLock R)
                | 300, 1 -> ensure_op t (OTry W) | 400, 1 -> ensure_op t (OTry R)
                | 700, 1 | 800, 1 -> ensure_op t OUnlock
                | _ -> ());
               let key = (match f, ord with 600, 3 -> 601 | 900, 6 -> 904 | _ -> f + ord) in
               cover (string_of_int key);
               do_base t (fun ev ->
                 match kind, ev with
                 | "cas", EvCas (s, o, n, k) ->
                   if int_of_z s <> key then fail (Printf.sprintf "model is at site %d, implementation at %d" (int_of_z s) key);
                   if int_of_z o <> a || int_of_z n <> b then fail (Printf.sprintf "CAS values differ: model %d->%d, implementation %d->%d" (int_of_z o) (int_of_z n) a b);
                   if k <> ok then fail "CAS outcome differs"
                 | "load", EvLoad (s, v) ->
                   if int_of_z s <> key then fail (Printf.sprintf "model is at site %d, implementation at %d" (int_of_z s) key);
                   if int_of_z v <> a then fail (Printf.sprintf "load value differs: model %d implementation %d" (int_of_z v) a)
                 | "store", EvStoreWaiting (p, v) ->
                   let blk = obj_region e.obj in
                   if key = 504 then Hashtbl.replace thread_of_blk blk t;
                   let tp = (try Hashtbl.find thread_of_blk blk with Not_found -> fail "store to unknown waiter") in
                   if int_of_nat p <> tp then fail (Printf.sprintf "waiting store targets thread %d in the model, %d in the implementation" (int_of_nat p) tp);
                   if int_of_z v <> b then fail "waiting store value differs"
                 | "load", EvLoadWaiting v ->
                   if key <> 505 then fail "model reads waiting, implementation elsewhere";
                   if int_of_z v <> a then fail (Printf.sprintf "waiting flag differs: model %d implementation %d" (int_of_z v) a)
                 | _, EvBlocked -> fail "model thread is blocked on its semaphore but the implementation thread moved"
                 | _, _ -> fail ("event kinds differ (implementation " ^ kind ^ ")"))
             end
           end else if e.file = "nsync_semaphore_futex.c" && kind = "cas" && ok then begin
             let (fn, _) = try Hashtbl.find sites (e.file, e.line) with Not_found -> fail "semaphore site not in Gen/Sites" in
             if fn = "nsync_mu_semaphore_p" then
               do_base t (fun ev -> match ev with EvP -> () | EvBlocked -> fail "P succeeded in the implementation but the model's count is 0" | _ -> fail "implementation completed P, model elsewhere")
             else if fn = "nsync_mu_semaphore_v" then
               do_base t (fun ev -> match ev with
                 | EvV p ->
                   let tp = (try Hashtbl.find thread_of_blk (obj_region e.obj) with Not_found -> fail "V on unknown waiter") in
                   if int_of_nat p <> tp then fail "V targets a different waiter"
                 | _ -> fail "implementation completed V, model elsewhere")
             else incr skipped
           end else begin
             match dbg_event e with
             | None ->
               if e.file = "debug.c" && (kind = "load" || kind = "cas" || kind = "store") then fail "atomic event of debug.c outside the model"
               else incr skipped
             | Some (fn, ord) ->
               let d = dbg_index t in
               let dn = nat_of_int d in
               let key = dfid fn + ord in
               if key = 1201 then begin
                 (* a new call *)
                 if not (MuDbgReplay.dbg_is_idle !w dn) then fail "a debug call starts but the model's previous call has not returned";
                 let k = (try Hashtbl.find pending_kind t with Not_found -> fail "debug call without a dbgcall note") in
                 Hashtbl.remove pending_kind t;
                 let l = count_loads i t in
                 let op = (match k with
                     | 0 -> if l <> 0 then fail "nsync_mu_debug_state read waiter records"; DState
                     | 1 -> DStateWaiters (nat_of_int ((l + 1) / 2), nat_of_int l)
                     | 2 -> DDebugger (nat_of_int ((l + 1) / 2), nat_of_int l)
                     | _ -> fail "unknown dbgcall kind") in
                 w := MuDbgReplay.push_dop !w dn op;
                 incr calls; cover (Printf.sprintf "call%d" k)
               end;
               cover (Printf.sprintf "d%d" (int_of_z (MuDbgReplay.dpc_code !w dn)));
               let was_owner = MuDbgReplay.dbg_owner !w dn in
               let (w', ev) = MuDbgModel.dstep !w (TDbg dn) in
               w := w'; incr dsteps;
               let on_word = (obj_region e.obj = "mu0" && obj_offset e.obj = 0) in
               (match kind, ev with
                | "load", DEvLoad (s, v) ->
                  if not on_word then fail "model loads the mutex word, implementation loads something else";
                  if int_of_z s <> key then fail (Printf.sprintf "debugger: model is at site %d, implementation at %d" (int_of_z s) key);
                  if int_of_z v <> a then fail (Printf.sprintf "debugger: load value differs: model %d implementation %d" (int_of_z v) a)
                | "cas", DEvCas (s, o, n, k) ->
                  if not on_word then fail "model CASes the mutex word, implementation something else";
                  if int_of_z s <> key then fail (Printf.sprintf "debugger: model is at site %d, implementation at %d" (int_of_z s) key);
                  if int_of_z o <> a || int_of_z n <> b then fail (Printf.sprintf "debugger: CAS values differ: model %d->%d, implementation %d->%d" (int_of_z o) (int_of_z n) a b);
                  if k <> ok then fail "debugger: CAS outcome differs";
                  (* ghost ownership follows the spinlock CASes *)
                  let now_owner = MuDbgReplay.dbg_owner !w dn in
                  if key = 1002 && ok && not now_owner then fail "ghost: acquired but not owner";
                  if key = 1203 && ok && (now_owner || not was_owner) then fail "ghost: released but owner / was not owner"
                | "load", DEvReadWaiting (p, v) ->
                  if key <> 1101 then fail "model reads a waiting flag, implementation is elsewhere";
                  let tp = (try Hashtbl.find thread_of_blk (obj_region e.obj) with Not_found -> fail "debugger reads an unknown waiter") in
                  if int_of_nat p <> tp then fail (Printf.sprintf "debugger reads the record of thread %d in the model, %d in the implementation" (int_of_nat p) tp);
                  if int_of_z v <> a then fail (Printf.sprintf "debugger: waiting flag differs: model %d implementation %d" (int_of_z v) a);
                  if not was_owner then fail "locked walk without ownership";
                  incr locked_reads
                | "load", DEvReadRemove p ->
                  if key <> 1102 then fail "model reads remove_count, implementation is elsewhere";
                  let tp = (try Hashtbl.find thread_of_blk (obj_region e.obj) with Not_found -> fail "debugger reads an unknown waiter") in
                  if int_of_nat p <> tp then fail "debugger reads remove_count of a different record";
                  incr locked_reads
                | "load", DEvReadUnsafe ->
                  if key <> 1101 && key <> 1102 then fail "model makes an unlocked record load, implementation is elsewhere";
                  if was_owner then fail "unlocked walk while owning the spinlock";
                  incr unsafe_reads
                | _, DEvNone -> fail "model debugger is idle but the implementation moved"
                | _, _ -> fail ("debugger: event kinds differ (implementation " ^ kind ^ ")"))
           end
       end else if String.length line > 2 && line.[0] = 'S' && !steps > 0 then begin
         match String.split_on_char ' ' line with
         | _ :: "Q" :: blks ->
           incr snaps;
           let real = Stdlib.List.map (fun b -> try Hashtbl.find thread_of_blk (obj_region b) with Not_found -> -1) (Stdlib.List.filter (fun s -> s <> "") blks) in
           let model = Stdlib.List.map int_of_nat (MuModel.queue (bw ())) in
           let spin_held = (int_of_z (MuModel.word (bw ()))) land (int_of_z Consts.coq_MU_SPINLOCK) <> 0 in
           if (not spin_held) && real <> model then
             fail (Printf.sprintf "queue differs: model [%s] implementation [%s]"
                     (String.concat ";" (Stdlib.List.map string_of_int model)) (String.concat ";" (Stdlib.List.map string_of_int real)))
         | _ -> ()
       end
     done;
     Hashtbl.iter (fun _ d -> if not (MuDbgReplay.dbg_is_idle !w (nat_of_int d)) then begin
         last_ev := "<end of trace>"; fail "trace ended inside a debug call of the model" end) dbg_of_tid
   with Mismatch m -> Printf.printf "MISMATCH %s\n" m; exit 1);
  let cov = Hashtbl.fold (fun k v acc -> Printf.sprintf "%s:%d" k v :: acc) covered [] in
  Printf.printf "OK steps=%d skipped=%d snapshots=%d dsteps=%d calls=%d locked_reads=%d unsafe_reads=%d sites=%s\n"
    !steps !skipped !snaps !dsteps !calls !locked_reads !unsafe_reads (String.concat "," (Stdlib.List.sort compare cov))
