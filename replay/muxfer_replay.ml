(* Lock-step replay of a cv_mix trace (harness/rt/vrt.c format) against the extracted MuXferModel
   (Model/MuXferModel.v: MuModel + the part of cv.c that works on the mutex).

   COMPARED, event by event, with the step the model takes for the same thread (site, values read / written, CAS
   outcome, target waiter):
     * every event of mu.c on the mutex mu0 (lock, rlock, trylock, rtrylock, unlock, runlock, lock_slow, unlock_slow,
       mu_release_spinlock), including those inside nsync_cv_wait* -- the release, and the re-acquisition either afresh
       or as designated waker (entry LsLoad with clear = MU_DESIG_WAKER, wait_count 0: counted as "desig-entry");
     * wake_waiters' sites on the mutex word (load 61, CAS 69, load 130, CAS 132, load 133) and its store waiting = 0
       (148) with the waiter it targets;
     * in nsync_cv_wait_with_deadline_generic: the store waiting = 1 (200), the load of the mutex word (214), the loads
       of waiting (248, 253, 286), and -- inside the confirmation section -- whether the store waiting = 0 (279) happened;
     * every completed P / V on a waiter's semaphore (P inside the cv wait or inside lock_slow; V by wake_waiters or by
       unlock_slow).  A V by code outside the model (the note's notifier) on a known waiter is the actor [EnvV].
   Events of cv.c / nsync_spin_test_and_set_ on the cv word only DELIMIT the model's atomic sections: the section's step
   is taken at the store that releases the cv spinlock (236 enqueue, 283 confirmation, 393 / 431 selection); the load of
   the cv word by signal / broadcast (320 / 404) selects [CGo] (CV_NON_EMPTY set) or [CAlt] (clear: the model refuses
   the early exit unless its queue is empty).  remove_count events are skipped.  A non-zero result of
   nsync_sem_wait_with_cancel_ is inferred (the thread arrives at line 253 while the model is at the semaphore wait) and
   becomes the choice [CAlt].
     * nsync_wait_n on the cv (cv_mix MODE 3 / MODE 7; XWaitN (Some m) when the model thread holds the mutex at the call,
       XWaitN None otherwise): the store waiting = 0 of wait.c (54), cv_ready_time's load (cv.c 472) with its value,
       inside cv_enqueue the store waiting = 1 (481), inside cv_dequeue the load (492) and whether the store waiting = 0
       (502) happened, the spin load (515); its unlock / lock callbacks are MuModel steps like those of a native wait; its
       P on the thread's semaphore; wake_waiters' store waiting = 0 on the record (region stk<t>: the record lives in the
       caller's frame).  The sections [XnEnq] / [XnDeq] are taken at the stores that release the cv spinlock (483 / 510).
       A deadline that ends the sleep is inferred (the thread arrives at cv_dequeue while the model is at the semaphore).
       The semaphore block of a thread that has never slept before is learnt at the first V the model says targets it.
   Snapshots (S lines): the cv queue is compared whenever no cv section is open, the mutex queue whenever the mutex
   spinlock is free in the model.  At the end every logged return of a wait must hold the mutex in the declared mode.
   GENERIC waits (cv_mix MODE 5 / 6 with VRT_GENERIC / VRT_MIXLOCKS: nsync_cv_wait_with_deadline_generic with the scenario's own
   lock routines; announced by the 4th field of the "wait <tid> <deadline> <cancellable> <generic>" note): the operation is
   [XWaitG m]; there is no load of the mutex word (cv_mu == NULL); the callbacks' nsync_mu_unlock / lock are MuModel steps like
   those of a native wait; wake_waiters' store on such a waiter must find it on the waker's list, never on the mutex queue
   (label wake.store:generic).
   RESULTS: the value a wait returns ("ret <tid> <code>" notes of cv_mix's checked waits) is compared with the model's ghost
   outcome [w_out] of that wait (read when the re-acquisition completes, XwReacq -> XIdle): code != 0 iff w_out; the value
   nsync_wait_n returns ("retn <tid> <r>") with what the model's cv_dequeue section did (r = 1 = count iff the record was
   still queued; a call that made no step at all -- deadline already expired -- must return count).  Labels ret:zero /
   ret:nonzero / retn:woken / retn:count / retn:no-step.
   Coverage labels of wake_waiters' acquiring CAS: transfer:<n> (mutex-queue members that were transferred),
   cas1:moved / cas1:nobody, and cas1:nobody+waiting-cleared when the releasing CAS that follows a CAS which transferred
   nobody clears MU_WAITING (the F15 shape, repaired code). *)
open Rcommon
open MuModel
open MuXferModel

let fid_mu = function
  | "nsync_mu_lock" -> 100 | "nsync_mu_rlock" -> 200 | "nsync_mu_trylock" -> 300 | "nsync_mu_rtrylock" -> 400
  | "nsync_mu_lock_slow_" -> 500 | "mu_release_spinlock" -> 600 | "nsync_mu_unlock" -> 700
  | "nsync_mu_runlock" -> 800 | "nsync_mu_unlock_slow_" -> 900 | _ -> -1
let fid_cv = function
  | "wake_waiters" -> 1000 | "nsync_cv_wait_with_deadline_generic" -> 1100 | "nsync_cv_signal" -> 1200
  | "nsync_cv_broadcast" -> 1300 | "cv_ready_time" -> 1400 | "cv_enqueue" -> 1500 | "cv_dequeue" -> 1600 | _ -> -1

let () =
  load_sites Sys.argv.(2);
  let ic = open_in Sys.argv.(1) in
  let nthreads = 16 in
  let w = ref (MuXferReplay.xinit_n (nat_of_int nthreads)) in
  let steps = ref 0 and skipped = ref 0 and snaps = ref 0 and envs = ref 0 in
  let main_blk : (int, string) Hashtbl.t = Hashtbl.create 16 in
  let thread_of_blk : (string, int) Hashtbl.t = Hashtbl.create 16 in
  let removed : (int, bool) Hashtbl.t = Hashtbl.create 16 in
  let nobody : (int, bool) Hashtbl.t = Hashtbl.create 16 in
  let next_generic : (int, bool) Hashtbl.t = Hashtbl.create 16 in  (* the thread's next cv wait goes through the generic interface *)
  let last_out : (int, bool) Hashtbl.t = Hashtbl.create 16 in      (* w_out of the wait the thread has just completed *)
  let last_nout : (int, bool) Hashtbl.t = Hashtbl.create 16 in     (* nsync_wait_n: the record was still queued at cv_dequeue *)
  let cv_open = ref false in
  let last_ev = ref "" in
  let fail msg = raise (Mismatch (Printf.sprintf "%s (at trace event: %s)" msg !last_ev)) in
  let nat t = nat_of_int t in
  let code t = int_of_z (MuXferReplay.xpc_code !w (nat t)) in
  let busy t = MuXferReplay.mu_busy !w (nat t) in
  (* posts by code outside the model (the note's notifier) on a semaphore whose owner is not known yet: delivered as [EnvV]
     when the owner is learnt (a post only adds to the count; its owner cannot have completed a P on it in between without
     the block being known) *)
  let pending_v : (string, int) Hashtbl.t = Hashtbl.create 16 in
  let learn_blk t blk =
    (match (try Some (Hashtbl.find main_blk t) with Not_found -> None) with
     | Some b when b <> blk -> fail (Printf.sprintf "thread %d uses waiter %s, it used %s before" t blk b)
     | _ -> ());
    Hashtbl.replace main_blk t blk; Hashtbl.replace thread_of_blk blk t;
    (match (try Some (Hashtbl.find pending_v blk) with Not_found -> None) with
     | Some k ->
       Hashtbl.remove pending_v blk;
       for _ = 1 to k do
         let (w', _) = MuXferModel.xstep !w (EnvV (nat_of_int t)) in
         w := w'; incr envs; cover "sem:V-env-late"
       done
     | None -> ()) in
  let thr t c =
    if MuXferReplay.is_desig_entry !w (nat t) then cover "desig-entry";
    let (w', ev) = MuXferModel.xstep !w (Thr (nat t, c)) in
    w := w'; incr steps; ev in
  let push t o = w := MuXferModel.xbegin (MuXferReplay.xpush_op !w (nat t) o) (nat t) in
  let idle t = code t = 0 && not (busy t) in
  let chk_site s key = if int_of_z s <> key then fail (Printf.sprintf "model is at site %d, implementation at %d" (int_of_z s) key) in
  (* a record in a thread's frame (region stk<t>) is the nsync_wait_n record of thread t *)
  let stk_thread blk = if String.length blk > 3 && String.sub blk 0 3 = "stk" then (try Some (int_of_string (String.sub blk 3 (String.length blk - 3))) with _ -> None) else None in
  let blk_thread blk what =
    match stk_thread blk with
    | Some u -> if not (MuXferReplay.xn_rec_of !w (nat u) || code u = 20 || code u = 21) then fail (what ^ " on the frame of a thread that has no nsync_wait_n record in the model"); u
    | None ->
      let u = (try Hashtbl.find thread_of_blk blk with Not_found -> fail (what ^ " on an unknown waiter " ^ blk)) in
      if MuXferReplay.xn_rec_of !w (nat u) then fail (what ^ " on the waiter struct of a thread whose record is an nsync_wait_n record in the model"); u in
  (* compare a MuModel-style event with the trace event *)
  let cmp_mu (e : event) key ev =
    match e.kind, ev with
    | "cas", XMu (EvCas (s, o, n, k)) ->
      chk_site s key;
      if int_of_z o <> e.a || int_of_z n <> e.b then
        fail (Printf.sprintf "CAS values differ: model %d->%d, implementation %d->%d" (int_of_z o) (int_of_z n) e.a e.b);
      if k <> e.ok then fail (Printf.sprintf "CAS outcome differs: model %b implementation %b" k e.ok)
    | "load", XMu (EvLoad (s, v)) ->
      chk_site s key;
      if int_of_z v <> e.a then fail (Printf.sprintf "load value differs at site %d: model %d implementation %d" key (int_of_z v) e.a)
    | "store", XMu (EvStoreWaiting (p, v)) ->
      let tp = blk_thread (obj_region e.obj) "waiting store" in
      if int_of_nat p <> tp then fail (Printf.sprintf "waiting store targets thread %d in the model, %d in the implementation" (int_of_nat p) tp);
      if int_of_z v <> e.b then fail "waiting store value differs"
    | "load", XMu (EvLoadWaiting v) ->
      if key <> 505 then fail "model reads waiting (lock_slow), implementation elsewhere";
      if int_of_z v <> e.a then fail (Printf.sprintf "waiting flag differs: model %d implementation %d" (int_of_z v) e.a)
    | _, XMu EvBlocked -> fail "model thread is blocked on its semaphore but the implementation thread moved"
    | _, XMu EvCrash -> fail "model thread crashed"
    | _, XRefused -> fail "the model refuses this choice"
    | _, _ -> fail (Printf.sprintf "event kinds differ (implementation %s at site %d)" e.kind key) in
  (* ---- mu.c on mu0 ---- *)
  let mu_event (e : event) fn ord =
    let t = e.tid in
    let f = fid_mu fn in
    if f < 0 then fail ("function outside MuModel: " ^ fn);
    if idle t then begin
      match f, ord with
      | 100, 1 -> push t (XOp (OLock W)) | 200, 1 -> push t (XOp (OLock R))
      | 300, 1 -> push t (XOp (OTry W)) | 400, 1 -> push t (XOp (OTry R))
      | 700, 1 | 800, 1 -> push t (XOp OUnlock)
      | _ -> fail (Printf.sprintf "mu.c site %d while the model thread is idle" (f + ord))
    end;
    (match code t with
     | 0 | 4 | 10 | 22 | 27 -> ()
     | c -> fail (Printf.sprintf "mu.c event while the model thread is at wrapper pc %d" c));
    let key = (match f, ord with 600, 3 -> 601 | 900, 6 -> 904 | _ -> f + ord) in
    cover (string_of_int key);
    if key = 504 then learn_blk t (obj_region e.obj);
    let c0 = code t in
    let out0 = MuXferReplay.reacq_out !w (nat t) in
    let ev = thr t CGo in
    cmp_mu e key ev;
    (match out0 with Some o when c0 = 10 && code t = 0 -> Hashtbl.replace last_out t o | _ -> ());
    if c0 = 4 && code t = 5 then cover "wait:released";
    if c0 = 22 && code t = 23 then cover "waitn:released";
    if c0 = 27 && code t = 0 then begin
      cover "waitn:reacquired";
      if not (MuXferReplay.last_ret_ok !w (nat t)) then fail "the model logged a return of nsync_wait_n without the mutex held in the declared mode"
    end;
    if c0 = 10 && code t = 0 then begin
      cover "wait:reacquired";
      if not (MuXferReplay.last_ret_ok !w (nat t)) then fail "the model logged a return of the wait without the mutex held in the declared mode"
    end in
  (* ---- cv.c ---- *)
  let expect t c what = if code t <> c then fail (Printf.sprintf "%s: model thread is at wrapper pc %d, expected %d" what (code t) c) in
  let sec t what f =
    (match thr t CGo with
     | XSec (s, n) -> f (int_of_z s) (int_of_z n)
     | _ -> fail ("the model does not take the section step " ^ what)) in
  let cv_event (e : event) fn ord =
    let t = e.tid in
    let key = fid_cv fn + ord in
    if fid_cv fn < 0 then fail ("function of cv.c outside MuXferModel: " ^ fn);
    cover (string_of_int key);
    match key with
    (* nsync_cv_wait_with_deadline_generic *)
    | 1101 ->
      if not (idle t) then fail "cv wait starts while the model thread is busy";
      let gen = (try Hashtbl.find next_generic t with Not_found -> false) in
      Hashtbl.remove next_generic t;
      (match MuXferReplay.held_of !w (nat t) with
       | Some m -> push t (if gen then XWaitG m else XWait m)
       | None -> fail "cv wait by a thread that does not hold the mutex in the model");
      if gen then cover "wait:generic";
      expect t (if gen then 28 else 1) "wait.store1";
      learn_blk t (obj_region e.obj);
      cmp_mu e key (thr t CGo)
    | 1102 -> expect t 2 "wait.load-mu"; if obj_region e.obj <> "mu0" then fail "cv wait on another mutex"; cmp_mu e key (thr t CGo)
    | 1103 -> incr skipped
    | 1104 -> expect t 3 "wait.enqueue"; sec t "enqueue" (fun _ _ -> ())
    | 1105 -> expect t 5 "wait.loop"; cmp_mu e key (thr t CGo)
    | 1106 ->
      if code t = 6 then begin
        (match thr t CAlt with XTimeout -> cover "sem:nonzero" | _ -> fail "model does not take the timeout step") end;
      expect t 7 "wait.load6"; cmp_mu e key (thr t CGo)
    | 1107 -> expect t 8 "wait.confirm(207)";
      if (e.a <> 0) <> (MuModel.waiting (MuXferModel.mw !w) (nat t)) then fail "waiting flag differs inside the confirmation section";
      incr skipped
    | 1108 | 1109 | 1110 -> incr skipped
    | 1111 -> expect t 8 "wait.confirm(211)"; if e.b <> 0 then fail "store 279 writes non-zero"; Hashtbl.replace removed t true; incr skipped
    | 1112 -> expect t 8 "wait.confirm(212)";
      let r = (try Hashtbl.find removed t with Not_found -> false) in
      Hashtbl.remove removed t;
      sec t "confirm" (fun _ n ->
          if (n = 1) <> r then fail (Printf.sprintf "confirmation section: model %s, implementation %s"
                                      (if n = 1 then "removes the waiter from the cv queue" else "finds the waiter taken")
                                      (if r then "removed it" else "found it taken"));
          cover (if r then "confirm:removed" else if MuXferReplay.xferred_of !w (nat t) then "confirm:taken-transferred" else "confirm:taken"))
    | 1113 -> expect t 9 "wait.load13"; cmp_mu e key (thr t CGo)
    (* nsync_cv_signal / nsync_cv_broadcast *)
    | 1201 | 1301 ->
      if not (idle t) then fail "signal / broadcast starts while the model thread is busy";
      push t (if key = 1201 then XSignal else XBroadcast);
      expect t 11 "signal.load";
      let c = if e.a land (int_of_z Consts.coq_CV_NON_EMPTY) <> 0 then CGo else CAlt in
      (match thr t c with
       | XSec (_, n) -> cover (if int_of_z n = 0 then "signal:early-exit" else "signal:enter")
       | XRefused -> fail "implementation saw CV_NON_EMPTY clear, the model's cv queue is not empty"
       | _ -> fail "model does not take the signal load step")
    | 1202 | 1203 | 1204 | 1205 | 1302 | 1303 -> incr skipped
    | 1206 | 1304 -> expect t 12 "signal.select"; sec t "select" (fun _ n -> cover (if n = 0 then "select:none" else if n = 1 then "select:one" else "select:many"))
    (* wake_waiters *)
    | 1001 -> expect t 13 "wake.load1"; cmp_mu e key (thr t CGo)
    | 1002 -> expect t 14 "wake.cas1";
      let q0 = Stdlib.List.length (MuXferReplay.mu_queue !w) in
      cmp_mu e key (thr t CGo);
      if e.ok then begin
        cover (Printf.sprintf "transfer:%d" (Stdlib.List.length (Stdlib.List.filter (fun x -> MuXferReplay.xferred_of !w x) (MuXferReplay.mu_queue !w))));
        let q1 = Stdlib.List.length (MuXferReplay.mu_queue !w) in
        if q1 > q0 then cover "cas1:moved" else begin cover "cas1:nobody"; if q1 = 0 then Hashtbl.replace nobody t true end
      end
    | 1003 -> expect t 15 "wake.load3"; cmp_mu e key (thr t CGo)
    | 1004 -> expect t 16 "wake.cas2"; cmp_mu e key (thr t CGo);
      if e.ok then begin
        if (try Hashtbl.find nobody t with Not_found -> false) then begin
          if e.a land 4 <> 0 && e.b land 4 = 0 then cover "cas1:nobody+waiting-cleared"
          else fail "wake_waiters transferred nobody onto an empty queue and its release left MU_WAITING set"
        end;
        Hashtbl.remove nobody t
      end
    | 1005 -> expect t 17 "wake.load5"; cmp_mu e key (thr t CGo)
    | 1006 -> expect t 18 "wake.store";
      cover (if stk_thread (obj_region e.obj) <> None then "wake.store:waitn-record"
             else if (match (try Some (Hashtbl.find thread_of_blk (obj_region e.obj)) with Not_found -> None) with
                      | Some u -> MuXferModel.nrec !w (nat u) | None -> false) then "wake.store:generic" else "wake.store:native");
      cmp_mu e key (thr t CGo)
    (* nsync_wait_n on the cv: cv_ready_time / cv_enqueue / cv_dequeue *)
    | 1401 -> expect t 23 "waitn.ready_time"; cmp_mu e key (thr t CGo)
    | 1501 -> expect t 21 "waitn.enqueue(481)"; if e.b <> 1 then fail "cv_enqueue stores a waiting flag other than 1"; incr skipped
    | 1502 -> expect t 21 "waitn.enqueue(483)"; sec t "cv_enqueue" (fun _ _ -> ())
    | 1601 ->
      if code t = 24 then begin
        (match thr t CAlt with XTimeout -> cover "waitn:deadline" | _ -> fail "model does not take the deadline step of nsync_wait_n") end;
      expect t 25 "waitn.dequeue(492)";
      if (e.a <> 0) <> (MuModel.waiting (MuXferModel.mw !w) (nat t)) then fail "waiting flag of the nsync_wait_n record differs inside cv_dequeue";
      incr skipped
    | 1602 -> expect t 25 "waitn.dequeue(502)"; if e.b <> 0 then fail "cv_dequeue stores a waiting flag other than 0"; Hashtbl.replace removed t true; incr skipped
    | 1603 -> expect t 25 "waitn.dequeue(510)";
      let r = (try Hashtbl.find removed t with Not_found -> false) in
      Hashtbl.remove removed t;
      sec t "cv_dequeue" (fun _ n ->
          if (n = 1) <> r then fail (Printf.sprintf "cv_dequeue: model %s, implementation %s"
                                      (if n = 1 then "unlinks the record" else "finds the record taken or woken")
                                      (if r then "unlinked it" else "found it taken or woken"));
          Hashtbl.replace last_nout t r;
          cover (if r then "dequeue:was-queued" else "dequeue:taken"))
    | 1604 -> expect t 26 "waitn.spin"; cmp_mu e key (thr t CGo)
    | _ -> fail (Printf.sprintf "cv.c site %d outside the model" key) in
  (* ---- wait.c ---- *)
  let wait_event (e : event) fn ord =
    let t = e.tid in
    if fn <> "nsync_wait_n" || ord <> 1 then fail "site of wait.c outside the model";
    cover "1701";
    if not (idle t) then fail "nsync_wait_n starts while the model thread is busy";
    (match stk_thread (obj_region e.obj) with
     | Some u when u = t -> ()
     | _ -> fail "nsync_wait_n record outside the caller's frame (count > 4 is not modelled)");
    push t (XWaitN (MuXferReplay.held_of !w (nat t)));
    expect t 20 "waitn.store0";
    cmp_mu e 1701 (thr t CGo) in
  (* ---- semaphores ---- *)
  let sem_event (e : event) fn =
    let t = e.tid in
    if e.kind = "cas" && e.ok then begin
      let blk = obj_region e.obj in
      if fn = "nsync_mu_semaphore_p" || fn = "nsync_mu_semaphore_p_with_deadline" then begin
        if (try Hashtbl.find main_blk t = blk with Not_found -> false) then begin
          if code t = 6 then
            (match thr t CGo with
             | XMu EvP -> cover "sem:P-cv"
             | XMu EvBlocked -> fail "P succeeded in the implementation (cv wait) but the model's count is 0"
             | _ -> fail "implementation completed P, model elsewhere")
          else if code t = 24 then
            (match thr t CGo with
             | XMu EvP -> cover "sem:P-waitn"
             | XMu EvBlocked -> fail "P succeeded in the implementation (nsync_wait_n) but the model's count is 0"
             | _ -> fail "implementation completed P, model elsewhere")
          else if MuXferReplay.mu_sem_pc !w (nat t) && (code t = 0 || code t = 10 || code t = 27) then
            (match thr t CGo with
             | XMu EvP -> cover "sem:P-mu"
             | XMu EvBlocked -> fail "P succeeded in the implementation (lock_slow) but the model's count is 0"
             | _ -> fail "implementation completed P, model elsewhere")
          else fail (Printf.sprintf "P on the thread's semaphore at wrapper pc %d, which does not sleep" (code t))
        end else incr skipped
      end else if fn = "nsync_mu_semaphore_v" then begin
        (* the semaphore of a thread that has not slept in nsync_mu_lock_slow_ / nsync_cv_wait yet: learnt from the model's target *)
        (match (try Some (Hashtbl.find thread_of_blk blk) with Not_found -> None), MuXferReplay.v_target !w (nat t) with
         | None, Some p when not (Hashtbl.mem main_blk (int_of_nat p)) -> learn_blk (int_of_nat p) blk; cover "sem:learnt-at-V"
         | _ -> ());
        match (try Some (Hashtbl.find thread_of_blk blk) with Not_found -> None) with
        | None ->
          if String.length blk > 3 && String.sub blk 0 3 = "blk" && MuXferReplay.v_target !w (nat t) = None
          then Hashtbl.replace pending_v blk (1 + try Hashtbl.find pending_v blk with Not_found -> 0);
          incr skipped
        | Some u ->
          (match MuXferReplay.v_target !w (nat t) with
           | Some p ->
             if int_of_nat p <> u then fail (Printf.sprintf "V targets thread %d in the implementation, %d in the model" u (int_of_nat p));
             let lbl = if code t = 19 then "sem:V-cv" else "sem:V-mu" in
             (match thr t CGo with
              | XMu (EvV p') when int_of_nat p' = u -> cover lbl
              | _ -> fail "implementation completed V, model elsewhere")
           | None ->
             let (w', _) = MuXferModel.xstep !w (EnvV (nat u)) in
             w := w'; incr envs; cover "sem:V-env")
      end else incr skipped
    end else incr skipped in
  (try
     while true do
       let line = input_line ic in
       if String.length line > 2 && line.[0] = 'E' then begin
         last_ev := line;
         match parse_event line with
         | None -> ()
         | Some e ->
           let site = (try Some (Hashtbl.find sites (e.file, e.line)) with Not_found -> None) in
           let region = obj_region e.obj in
           (match site with
            | Some (fn, ord) when e.file = "cv.c" ->
              if region = "cv0" then begin
                if e.kind = "store" then cv_open := false
              end;
              cv_event e fn ord
            | Some (fn, _) when fn = "nsync_spin_test_and_set_" && region = "cv0" ->
              if e.kind = "cas" && e.ok then cv_open := true;
              incr skipped
            | Some (fn, ord) when e.file = "mu.c" ->
              if fn = "nsync_remove_from_mu_queue_" then incr skipped
              else if region = "mu0"
                      || (busy e.tid && (code e.tid = 0 || code e.tid = 4 || code e.tid = 10 || code e.tid = 22 || code e.tid = 27)
                          && String.length region > 3 && String.sub region 0 3 = "blk"
                          && (fn = "nsync_mu_lock_slow_" || fn = "nsync_mu_unlock_slow_")) then mu_event e fn ord
              else incr skipped
            | Some (fn, _) when e.file = "nsync_semaphore_futex.c" -> sem_event e fn
            | Some (fn, ord) when e.file = "wait.c" -> wait_event e fn ord
            | None when e.file = "cv.c" -> fail "trace site not in Gen/Sites"
            | _ ->
              if region = "mu0" && ((e.kind = "cas" && e.ok) || e.kind = "store") then fail "a write to the mutex word from code outside the model"
              else incr skipped)
       end else if String.length line > 2 && line.[0] = 'N' then begin
         last_ev := line;
         (match String.split_on_char ' ' line with
          | [_; _; "wait"; tid; _; _; gen] -> Hashtbl.replace next_generic (int_of_string tid) (gen = "1")
          | [_; _; "ret"; tid; code] ->
            let t = int_of_string tid and c = int_of_string code in
            (match (try Some (Hashtbl.find last_out t) with Not_found -> None) with
             | None -> fail "the implementation returned from a cv wait, the model has not completed one"
             | Some o ->
               Hashtbl.remove last_out t;
               if (c <> 0) <> o then fail (Printf.sprintf "result of the cv wait differs: implementation returned %d, model outcome %s" c (if o then "non-zero" else "0"));
               cover (if o then "ret:nonzero" else "ret:zero"))
          | [_; _; "retn"; tid; code] ->
            let t = int_of_string tid and r = int_of_string code in
            (match (try Some (Hashtbl.find last_nout t) with Not_found -> None) with
             | None -> if r <> 1 then fail "nsync_wait_n made no step in the model and did not return count"; cover "retn:no-step"
             | Some q ->
               Hashtbl.remove last_nout t;
               if (r = 1) <> q then fail (Printf.sprintf "result of nsync_wait_n differs: implementation returned %d, model %s" r (if q then "found the record still queued" else "found it taken"));
               cover (if q then "retn:count" else "retn:woken"))
          | _ -> ())
       end else if String.length line > 2 && line.[0] = 'S' && !steps > 0 then begin
         match String.split_on_char ' ' line with
         | _ :: "CVQ" :: rest ->
           let rec split acc = function [] -> (Stdlib.List.rev acc, []) | "|" :: "MQ" :: r -> (Stdlib.List.rev acc, r) | x :: r -> split (x :: acc) r in
           let (cq, mq) = split [] rest in
           let ids l = Stdlib.List.map (fun s -> match stk_thread (obj_region s) with Some u -> u | None -> (try Hashtbl.find thread_of_blk (obj_region s) with Not_found -> -98))
               (Stdlib.List.filter (fun s -> s <> "") l) in
           let show l = String.concat ";" (Stdlib.List.map string_of_int l) in
           if not !cv_open then begin
             incr snaps;
             let real = ids cq and model = Stdlib.List.map int_of_nat (MuXferModel.cvq !w) in
             if real <> model then fail (Printf.sprintf "cv queue differs: model [%s] implementation [%s]" (show model) (show real))
           end;
           if MuXferReplay.mu_spin_free !w then begin
             let real = ids mq and model = Stdlib.List.map int_of_nat (MuXferReplay.mu_queue !w) in
             if real <> model then fail (Printf.sprintf "mutex queue differs: model [%s] implementation [%s]" (show model) (show real))
           end
         | _ -> ()
       end
     done
   with
   | End_of_file -> ()
   | Mismatch m -> Printf.printf "MISMATCH %s\n" m; exit 1);
  for t = 0 to nthreads - 1 do
    if not (MuXferReplay.last_ret_ok !w (nat t)) then begin Printf.printf "MISMATCH thread %d returned from a wait without the mutex in the declared mode\n" t; exit 1 end
  done;
  let cov = Hashtbl.fold (fun k v acc -> Printf.sprintf "%s:%d" k v :: acc) covered [] in
  Printf.printf "OK steps=%d skipped=%d snapshots=%d env=%d sites=%s\n" !steps !skipped !snaps !envs
    (String.concat "," (Stdlib.List.sort compare cov))
