(* Lock-step replay of a waitn_mix trace against the extracted WaitNModel.

   The model has one step per critical section of an object (note_mu, counter_mu, cv spinlock), per lock-free read,
   per wait.c site, per semaphore P / V.  Pass 1 maps every such operation of the implementation to the trace line
   at which it takes effect (its linearization point):
     - operations announced by the scenario's wrappers ("rb/re", "qb/qe", "db/de", "ab/ae") are located at the
       atomic event INSIDE them that publishes them: the store of n->notified (note_notify_child), the CAS on c->value
       (nsync_counter_add), the release store of pcv->word (cv_enqueue / cv_dequeue / signal / broadcast), the store of
       nw->waiting made under the object's lock (note_/counter_ enqueue, dequeue), the deciding lock-free load otherwise
       (sites are identified by (function, ordinal) from Gen/Sites.json, not by line numbers);
     - wait.c's own site (the `waiting` init store), free(nw), the successful semaphore CASes (P in
       nsync_mu_semaphore_p_with_deadline, V in nsync_mu_semaphore_v), wake_waiters' store of waiting, cv_dequeue's
       spin loads are located at their own events; a P that timed out at the caller's last event before its next operation;
     - call / return / unlock / lock callbacks at the scenario's notes.
   Pass 2 steps the model in that order with the same thread, the implementation's clock, and compares the step kind,
   the object index, ready times, enqueue / dequeue results, values stored / loaded, the number of records a
   signal / broadcast takes, counter values and the returned index. *)
open Rcommon
open WaitNModel

type expect =
  | XCall of WaitNModel.op
  | XReady of bool * int * string
  | XInit of int
  | XEnq of int * bool
  | XUnlock | XLock
  | XP of bool
  | XDeqPre of int
  | XDeq of int * bool
  | XSpin of int * int
  | XFree
  | XRet of int
  | XNotify of int | XPoll of int
  | XAdd of int * int * int
  | XTake of bool * int * int
  | XWStore | XV
  | XMuLock | XMuUnlock

type wop = WNone | WReady of int * bool | WEnq of int | WDeq of int | WAct of string * int * int
type tst = { mutable cur : wop; mutable evs : (int * event) list; mutable in_call : bool; mutable p_open : bool;
             mutable last_ev : int; mutable kinds : char array;
             mutable last_file : string }

let site_of e = try Hashtbl.find sites (e.file, e.line) with Not_found -> ("", 0)
let time_of_string s = if s = "none" then None else Some (z_of_int (int_of_string s))
let string_of_time = function None -> "none" | Some z -> string_of_int (int_of_z z)

let () =
  load_sites Sys.argv.(2);
  let ic = open_in Sys.argv.(1) in
  let lines = ref [] in
  (try while true do lines := input_line ic :: !lines done with End_of_file -> ());
  let lines = Array.of_list (Stdlib.List.rev !lines) in
  let n = Array.length lines in
  let now_at = Array.make (n + 1) 0 in
  let actions = ref [] in
  let nact = ref 0 in
  let emit pos tid x = incr nact; actions := (pos, !nact, tid, x) :: !actions in
  let objs = ref [] in
  let ths = Array.init 16 (fun _ -> { cur = WNone; evs = []; in_call = false; p_open = false; last_ev = 0; kinds = [||];
                                     last_file = "" }) in
  let skipped = ref 0 in
  let mutex_v : (string, int list) Hashtbl.t = Hashtbl.create 16 in
  let mutex_p : (string, int list) Hashtbl.t = Hashtbl.create 16 in
  let p_addr : (int, string) Hashtbl.t = Hashtbl.create 16 in
  let injected : (string, int) Hashtbl.t = Hashtbl.create 16 in
  let fail_at pos msg = raise (Mismatch (Printf.sprintf "%s (at trace line %d: %s)" msg (pos + 1) (if pos < n then lines.(pos) else ""))) in
  (* linearization helpers over the chronological events of one announced operation *)
  let is_nload (_, e) = e.file = "note.c" && e.kind = "load" &&
                        (let (fn, _) = site_of e in fn = "nsync_note_notified_deadline_" || fn = "notify" || fn = "note_notify_child") in
  let is_nstore (_, e) = e.file = "note.c" && e.kind = "store" && site_of e = ("note_notify_child", 2) in
  let last_such pos f evs = match Stdlib.List.rev (Stdlib.List.filter f evs) with x :: _ -> x | [] -> fail_at pos "no linearization event found" in
  let first_such f evs = match Stdlib.List.filter f evs with x :: _ -> Some x | [] -> None in
  let note_lin pos evs = match first_such is_nstore evs with Some (p, _) -> p | None -> fst (last_such pos is_nload evs) in
  let in_fn name (_, e) = fst (site_of e) = name in
  let close_p st tid = if st.p_open then begin emit st.last_ev tid (XP false); st.p_open <- false end in
  let cur_now = ref 0 in
  (try
    for pos = 0 to n - 1 do
      let line = lines.(pos) in
      if String.length line > 2 && line.[0] = 'E' then begin
        (match parse_event line with
         | Some e ->
           cur_now := e.now;
           (* posts and takes that belong to nsync_mu_lock sleeps (not part of this model): a V whose caller came from mu.c, a
              success of the untimed nsync_mu_semaphore_p *)
           if e.file = "nsync_semaphore_futex.c" && e.kind = "cas" && e.ok then begin
             let fn = fst (site_of e) in
             if fn = "nsync_mu_semaphore_v" && e.tid > 0 && e.tid < 16 && ths.(e.tid).last_file = "mu.c" then
               Hashtbl.replace mutex_v e.obj (pos :: (try Hashtbl.find mutex_v e.obj with Not_found -> []))
             else if fn = "nsync_mu_semaphore_p" then
               Hashtbl.replace mutex_p e.obj (pos :: (try Hashtbl.find mutex_p e.obj with Not_found -> []))
           end;
           if e.tid > 0 && e.tid < 16 && e.file <> "nsync_semaphore_futex.c" && e.file <> "-" then ths.(e.tid).last_file <- e.file;
           if e.tid > 0 && e.tid < 16 then begin
             let st = ths.(e.tid) in
             (match st.cur with
              | WNone ->
                if st.in_call then begin
                  if e.file = "wait.c" && e.kind = "store" then emit pos e.tid (XInit e.b)
                  else if e.kind = "free" then emit pos e.tid XFree
                  else if e.file = "nsync_semaphore_futex.c" && fst (site_of e) = "nsync_mu_semaphore_p_with_deadline" then begin
                    st.p_open <- true;
                    if e.kind = "cas" && e.ok then begin Hashtbl.replace p_addr pos e.obj; emit pos e.tid (XP true); st.p_open <- false end
                  end else incr skipped
                end else incr skipped
              | _ -> st.evs <- (pos, e) :: st.evs);
             st.last_ev <- pos
           end
         | None -> ())
      end else if String.length line > 2 && line.[0] = 'N' then begin
        let toks = Stdlib.List.filter (fun s -> s <> "") (String.split_on_char ' ' line) in
        (match toks with
         | "N" :: _ :: "obj" :: i :: rest -> objs := (int_of_string i, rest) :: !objs
         | "N" :: _ :: "call" :: tid :: mu :: dl :: cnt :: kinds ->
           let tid = int_of_string tid in
           let st = ths.(tid) in
           let cnt = int_of_string cnt in
           let kinds = Array.of_list (Stdlib.List.map (fun s -> s.[0]) kinds) in
           if Array.length kinds <> cnt then fail_at pos "call note: kinds do not match count";
           st.kinds <- kinds; st.in_call <- true;
           let os = Stdlib.List.mapi (fun i k -> match k with 'N' -> ONote (nat_of_int i) | 'C' -> OCounter (nat_of_int i) | _ -> OCv (nat_of_int i))
                      (Array.to_list kinds) in
           emit pos tid (XCall (OpWaitN ((if mu = "1" then Some (nat_of_int 0) else None), time_of_string dl, os)))
         | ["N"; _; "ret"; tid; r] ->
           let tid = int_of_string tid in
           close_p ths.(tid) tid;
           ths.(tid).in_call <- false; emit pos tid (XRet (int_of_string r))
         | ["N"; _; "rb"; tid; j; first] ->
           let tid = int_of_string tid in let st = ths.(tid) in
           close_p st tid; st.cur <- WReady (int_of_string j, first = "1"); st.evs <- []
         | ["N"; _; "re"; tid; _; tm] ->
           let tid = int_of_string tid in let st = ths.(tid) in
           let evs = Stdlib.List.rev st.evs in
           (match st.cur with
            | WReady (j, first) ->
              let lin = (match st.kinds.(j) with
                  | 'N' -> note_lin pos evs
                  | 'C' -> fst (last_such pos (fun (_, e) -> e.kind = "load" && fst (site_of e) = "counter_ready_time") evs)
                  | _ -> if first then pos else fst (last_such pos (in_fn "cv_ready_time") evs)) in
              emit lin tid (XReady (first, j, tm))
            | _ -> fail_at pos "re without rb");
           st.cur <- WNone
         | ["N"; _; "qb"; tid; j] -> let st = ths.(int_of_string tid) in st.cur <- WEnq (int_of_string j); st.evs <- []
         | ["N"; _; "qe"; tid; _; r] ->
           let tid = int_of_string tid in let st = ths.(tid) in
           let evs = Stdlib.List.rev st.evs in
           (match st.cur with
            | WEnq j ->
              let lin = (match st.kinds.(j) with
                  | 'N' -> fst (last_such pos (fun (p, e) -> e.kind = "store" && in_fn "note_enqueue" (p, e)) evs)
                  | 'C' -> fst (last_such pos (fun (p, e) -> e.kind = "store" && in_fn "counter_enqueue" (p, e)) evs)
                  | _ -> fst (last_such pos (fun (_, e) -> site_of e = ("cv_enqueue", 2)) evs)) in
              emit lin tid (XEnq (j, r = "1"))
            | _ -> fail_at pos "qe without qb");
           st.cur <- WNone
         | ["N"; _; "db"; tid; j] ->
           let tid = int_of_string tid in let st = ths.(tid) in
           close_p st tid; st.cur <- WDeq (int_of_string j); st.evs <- []
         | ["N"; _; "de"; tid; _; r] ->
           let tid = int_of_string tid in let st = ths.(tid) in
           let evs = Stdlib.List.rev st.evs in
           (match st.cur with
            | WDeq j ->
              (match st.kinds.(j) with
               | 'N' ->
                 let rec split acc = function
                   | x :: rest when not (in_fn "note_dequeue" x) -> split (x :: acc) rest
                   | l -> (Stdlib.List.rev acc, l) in
                 let (pre, cs) = split [] evs in
                 emit (note_lin pos pre) tid (XDeqPre j);
                 emit (fst (last_such pos (in_fn "note_dequeue") cs)) tid (XDeq (j, r = "1"))
               | 'C' -> emit (fst (last_such pos (in_fn "counter_dequeue") evs)) tid (XDeq (j, r = "1"))
               | _ ->
                 emit (fst (last_such pos (fun (_, e) -> site_of e = ("cv_dequeue", 3)) evs)) tid (XDeq (j, r = "1"));
                 Stdlib.List.iter (fun (p, e) -> if site_of e = ("cv_dequeue", 4) then emit p tid (XSpin (j, e.a))) evs)
            | _ -> fail_at pos "de without db");
           st.cur <- WNone
         | ["N"; _; "unlock"; tid] -> emit pos (int_of_string tid) XUnlock
         | ["N"; _; "lock"; tid] -> emit pos (int_of_string tid) XLock
         | ["N"; _; "mulock"; tid] -> emit pos (int_of_string tid) XMuLock
         | ["N"; _; "muunlock"; tid] -> emit pos (int_of_string tid) XMuUnlock
         | "N" :: _ :: "ab" :: tid :: what :: i :: rest ->
           let st = ths.(int_of_string tid) in
           st.cur <- WAct (what, int_of_string i, (match rest with d :: _ -> int_of_string d | [] -> 0)); st.evs <- []
         | ["N"; _; "ae"; tid] ->
           let tid = int_of_string tid in let st = ths.(tid) in
           let evs = Stdlib.List.rev st.evs in
           (match st.cur with
            | WAct ("notify", i, _) -> emit (note_lin pos evs) tid (XNotify i)
            | WAct ("poll", i, _) -> emit (note_lin pos evs) tid (XPoll i)
            | WAct ("add", i, d) ->
              let (p, e) = last_such pos (fun (_, e) -> e.kind = "cas" && e.ok && fst (site_of e) = "nsync_counter_add") evs in
              emit p tid (XAdd (i, d, e.b))
            | WAct (("signal" | "broadcast") as what, i, _) ->
              let fn = if what = "signal" then "nsync_cv_signal" else "nsync_cv_broadcast" in
              let rel = first_such (fun (_, e) -> e.kind = "store" && e.file = "cv.c" && fst (site_of e) = fn) evs in
              let lin = (match rel with Some (p, _) -> p | None -> fst (last_such pos (fun (_, e) -> site_of e = (fn, 1)) evs)) in
              let wst = Stdlib.List.filter (fun (_, e) -> site_of e = ("wake_waiters", 6)) evs in
              emit lin tid (XTake (what = "signal", i, Stdlib.List.length wst));
              Stdlib.List.iter (fun (p, e) ->
                  if site_of e = ("wake_waiters", 6) then emit p tid XWStore
                  else if e.kind = "cas" && e.ok && fst (site_of e) = "nsync_mu_semaphore_v" then emit p tid XV) evs
            | _ -> fail_at pos "ae without ab");
           st.cur <- WNone
         | _ -> ())
      end;
      now_at.(pos) <- !cur_now
    done
  with Mismatch m -> Printf.printf "MISMATCH %s\n" m; exit 1);
  (* ---------- pass 2 ---------- *)
  let acts = Stdlib.List.sort (fun (p1, s1, _, _) (p2, s2, _, _) -> compare (p1, s1) (p2, s2)) !actions in
  let w = ref WaitNReplay.world0 in
  Stdlib.List.iter (fun (i, rest) ->
      match rest with
      | ["N"; notified; exp] -> w := WaitNReplay.init_note !w (nat_of_int i) (z_of_int (int_of_string notified)) (time_of_string exp)
      | ["C"; v] -> w := WaitNReplay.init_ctr !w (nat_of_int i) (z_of_int (int_of_string v))
      | _ -> ()) !objs;
  let steps = ref 0 in
  let max_count = ref 0 in
  (try
    Stdlib.List.iter (fun (pos, _, tid, x) ->
        let fail msg = fail_at pos msg in
        let t = nat_of_int tid in
        w := WaitNReplay.clock_to !w (z_of_int now_at.(pos));
        let idle () = (match WaitNReplay.pc_of !w t with PIdle -> () | _ -> fail "the model's thread is not idle where the implementation starts a new operation") in
        let push o = idle (); w := WaitNReplay.push_op !w t o in
        (match x with
         | XCall o ->
           push o; (match o with OpWaitN (_, _, os) -> max_count := max !max_count (Stdlib.List.length os) | _ -> ())
         | XNotify i -> push (OpNotify (nat_of_int i))
         | XPoll i -> push (OpPoll (nat_of_int i))
         | XAdd (i, d, _) -> push (OpAdd (nat_of_int i, z_of_int d))
         | XTake (sg, i, _) -> push (if sg then OpSignal (nat_of_int i) else OpBroadcast (nat_of_int i))
         | XMuLock -> push (OpLock (nat_of_int 0))
         | XMuUnlock -> push (OpUnlock (nat_of_int 0))
         | XP true when int_of_nat (WaitNReplay.sem_of !w t) = 0 ->
           (* the implementation's P succeeded where the model holds no post: legitimate only if an nsync_mu_lock sleep of this
              thread left one behind on the same semaphore (a V made from mu.c not matched by a P of the mutex code) -- then the
              environment step OpStale supplies it, made by pseudo-thread 0 *)
           let addr = (try Hashtbl.find p_addr pos with Not_found -> "") in
           let before l = Stdlib.List.length (Stdlib.List.filter (fun p -> p < pos) l) in
           let avail = before (try Hashtbl.find mutex_v addr with Not_found -> []) - before (try Hashtbl.find mutex_p addr with Not_found -> [])
                       - (try Hashtbl.find injected addr with Not_found -> 0) in
           if avail >= 1 then begin
             let env = nat_of_int 0 in
             w := WaitNReplay.push_op !w env (OpStale t);
             let ((w', _), _) = WaitNModel.step !w env false in w := w';
             Hashtbl.replace injected addr (1 + (try Hashtbl.find injected addr with Not_found -> 0));
             cover "stale_post"
           end
         | _ -> ());
        let ((w', ev), _touched) = WaitNModel.step !w t (match x with XP false -> true | _ -> false) in
        w := w'; incr steps;
        let name = (match ev with
            | EvNone -> "none" | EvCall -> "call" | EvReady (true, _, _) -> "ready_first" | EvReady (false, _, _) -> "ready_loop"
            | EvInit _ -> "init" | EvEnq (_, true) -> "enq1" | EvEnq (_, false) -> "enq0" | EvUnlock -> "unlock" | EvP POk -> "p_ok"
            | EvP PTimeout -> "p_timeout" | EvP PBlocked -> "p_blocked" | EvDeqPre _ -> "deqpre" | EvDeq (_, true, _) -> "deq1"
            | EvDeq (_, false, _) -> "deq0" | EvDeqSpin (_, v) -> if int_of_z v = 0 then "spin_done" else "spin_wait"
            | EvFree -> "free" | EvLock true -> "lock" | EvLock false -> "lock_blocked" | EvRet _ -> "ret" | EvNotify _ -> "notify" | EvPoll _ -> "poll"
            | EvAdd _ -> "add" | EvTake (_, k) -> if k = Datatypes.O then "take0" else "take" | EvWakeStore _ -> "wstore" | EvV _ -> "v"
            | EvMuLock (_, true) -> "mulock" | EvMuLock (_, false) -> "mulock_blocked" | EvMuUnlock _ -> "muunlock" | EvTick -> "tick" | EvPanic -> "panic") in
        cover name;
        let bad what = fail (Printf.sprintf "thread %d: implementation did %s, model did %s" tid what name) in
        (match x, ev with
         | XCall _, EvCall -> ()
         | XReady (f, j, tm), EvReady (f', j', nt) ->
           if f <> f' || j <> int_of_nat j' then bad (Printf.sprintf "ready_time(first=%b) of object %d" f j);
           if string_of_time nt <> tm then fail (Printf.sprintf "ready_time of object %d: implementation %s, model %s" j tm (string_of_time nt))
         | XInit v, EvInit (_, v') -> if int_of_z v' <> v then fail "init store value differs"
         | XEnq (j, r), EvEnq (j', r') ->
           if j <> int_of_nat j' then bad (Printf.sprintf "enqueue of object %d" j);
           if r <> r' then fail (Printf.sprintf "enqueue of object %d: implementation returned %b, model %b" j r r')
         | XUnlock, EvUnlock -> ()
         | XLock, EvLock true -> ()
         | XP true, EvP POk -> ()
         | XP false, EvP PTimeout -> ()
         | XDeqPre j, EvDeqPre j' -> if j <> int_of_nat j' then bad (Printf.sprintf "dequeue (deadline part) of object %d" j)
         | XDeq (j, r), EvDeq (j', r', _) ->
           if j <> int_of_nat j' then bad (Printf.sprintf "dequeue of object %d" j);
           if r <> r' then fail (Printf.sprintf "dequeue of object %d: implementation returned %b, model %b" j r r')
         | XSpin (j, v), EvDeqSpin (j', v') ->
           if j <> int_of_nat j' then bad "cv_dequeue spin load";
           if int_of_z v' <> v then fail (Printf.sprintf "cv_dequeue spin load: implementation read %d, model %d" v (int_of_z v'))
         | XFree, EvFree -> ()
         | XRet r, EvRet r' -> if r <> int_of_nat r' then fail (Printf.sprintf "nsync_wait_n returned %d, the model %d" r (int_of_nat r'))
         | XNotify _, EvNotify _ -> ()
         | XPoll _, EvPoll _ -> ()
         | XAdd (_, _, v), EvAdd (_, v') -> if int_of_z v' <> v then fail (Printf.sprintf "counter value: implementation %d, model %d" v (int_of_z v'))
         | XTake (_, _, k), EvTake (_, k') ->
           if k <> int_of_nat k' then fail (Printf.sprintf "signal/broadcast took %d records, the model %d" k (int_of_nat k'))
         | XWStore, EvWakeStore (_, v) -> if int_of_z v <> 0 then fail "wake store value"
         | XV, EvV _ -> ()
         | XMuLock, EvMuLock (_, true) -> ()
         | XMuUnlock, EvMuUnlock _ -> ()
         | XCall _, _ -> bad "call" | XReady _, _ -> bad "ready_time" | XInit _, _ -> bad "the waiting init store (wait.c)"
         | XEnq _, _ -> bad "enqueue" | XUnlock, _ -> bad "the unlock callback" | XLock, _ -> bad "the lock callback"
         | XP true, _ -> bad "a successful P" | XP false, _ -> bad "a timed-out P" | XDeqPre _, _ -> bad "dequeue (deadline part)"
         | XDeq _, _ -> bad "dequeue" | XSpin _, _ -> bad "cv_dequeue spin load" | XFree, _ -> bad "free (nw)" | XRet _, _ -> bad "return"
         | XNotify _, _ -> bad "notify" | XPoll _, _ -> bad "is_notified" | XAdd _, _ -> bad "counter add" | XTake _, _ -> bad "signal/broadcast"
         | XWStore, _ -> bad "wake_waiters store" | XV, _ -> bad "semaphore V" | XMuLock, _ -> bad "mu lock" | XMuUnlock, _ -> bad "mu unlock");
        (* the model's own verdicts at a return *)
        (match x with
         | XRet r ->
           let c = int_of_nat (WaitNReplay.done_of !w t) - 1 in
           if WaitNReplay.any_on_list !w t (nat_of_int c) (nat_of_int 8) then fail "model: a record of the returned call is still on a list";
           ignore r
         | _ -> ()))
      acts;
    (* every thread of the model must be idle with an empty program at the end *)
    for tid = 1 to 15 do
      let t = nat_of_int tid in
      (match WaitNReplay.pc_of !w t with PIdle -> () | _ -> raise (Mismatch (Printf.sprintf "thread %d of the model is not idle at the end of the trace" tid)));
      if int_of_nat (WaitNReplay.prog_len !w t) <> 0 then raise (Mismatch "model has unexecuted operations at the end")
    done
  with Mismatch m -> Printf.printf "MISMATCH %s\n" m; exit 1);
  cover (if !max_count > int_of_nat WaitNModel.nw_set_len then "heap_path" else "stack_path");
  finish !steps !skipped
