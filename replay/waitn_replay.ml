(* Lock-step replay of a waitn_mix trace against the extracted WaitNModel.

   The model has one step per critical section of an object (note_mu, counter_mu, cv spinlock), per lock-free read,
   per wait.c site, per semaphore P / V.  Pass 1 maps every such operation of the implementation to the trace line
   at which it takes effect (its linearization point):
     - operations announced by the scenario's wrappers ("rb/re", "qb/qe", "db/de", "ab/ae") are located at the
       atomic event INSIDE them that publishes them: the store of n->notified (note_notify_child), the CAS on c->value
       (nsync_counter_add), the release store of pcv->word (cv_enqueue / cv_dequeue / signal / broadcast), the store of
       nw->waiting made under the object's lock (note_/counter_ enqueue, dequeue), the deciding lock-free load otherwise
       (sites are identified by (function, ordinal) from Gen/Sites.json, not by line numbers);
     - wait.c's own site (the `waiting` init store), free(nw), the successful semaphore CASes (P in
       nsync_mu_semaphore_p_with_deadline, V in nsync_mu_semaphore_v), wake_waiters' store of waiting, cv_dequeue's
       spin loads are located at their own events; a P that timed out at the caller's last event before its next operation;
     - call / return / unlock / lock callbacks at the scenario's notes.
   Pass 2 steps the model in that order with the same thread, the implementation's clock, and compares the step kind,
   the object index, ready times, enqueue / dequeue results, values stored / loaded, the number of records a
   signal / broadcast takes, counter values and the returned index.

   FOOTPRINTS (the tie of C13_waker_footprint to the code).  WaitNModel.step also returns `touched`, the set of
   nsync_waiter_s records (thread, call number, index) that the model says the step accesses; the theorem says none of
   them is dead.  The replay compares that set with the memory accesses the implementation made for the same step:
     - pass 1 attaches to every action the traced events of its thread that implement the step: the whole bracket of a
       ready_time / enqueue / notify / is_notified / add; for a note's dequeue the events before note_dequeue's own (the
       leading nsync_note_notified_deadline_) -> the PDeqPre step, the rest -> PDeq; for cv_dequeue the events up to the
       release store of pcv->word -> PDeq, every later spin load -> its own PDeqSpin step; for signal / broadcast the
       events up to the linearization event -> the take, then per record the events up to and including wake_waiters'
       store of `waiting` -> that PWake step and the semaphore events (nsync_semaphore_futex.c, futex wake) that follow it
       (and anything else up to the end of the call, for the last one) -> the PWakeV step; the wait.c init store, free (nw),
       the events of a P -> their own steps; call / return / callbacks have no events;
     - pass 1 also names the records: a wait.c init store whose address is in a malloc'd block (count > 4) identifies
       record (thread, number of the thread's earlier returns, number of earlier init stores of the call) by (block, offset) --
       blocks are never reused by the runtime; a record of a call with count <= 4 lives on the caller's stack and the trace
       gives only `stk<thread>` for it (no offset);
     - pass 2, after every step, for every event of the step on a record: a heap record must be IN `touched` (exact
       identity); for `stk<k>` some record of thread k's CURRENT call (call number = the model's `done` of k before the step)
       must be in `touched`.  So a step whose footprint is [] (PWakeV, P, free, ...) may not access any record or any
       thread's stack, and a waker's events after its store `waiting := 0` on r may access r no more (the footprint of
       the later PWake steps is the REMAINING to_wake_list).  The store of a PWake step is compared with the record of the
       model's EvWakeStore itself (exactly for the heap, owner and call for the stack); free's block must be the record
       array of the model's current call; the init store's index is the model's;
     - independently, at the trace position of EVERY atomic access (of any thread, attached to a step or not) to a
       record, the model's record must be alive in the state reached by the actions located before it: for `stk<k>`,
       thread k is inside an nsync_wait_n call (WaitNModel.in_call) that keeps its records on the stack (count <= nw_set_len);
       for a heap record r, rcall r = done of its owner, the owner is in its call and not (WaitNModel.rec_dead r) (the boolean
       forms are WaitNReplay.in_call_b / rec_dead_b, proved equivalent there).  Such an access must belong to a model step
       (no record is accessed outside the steps), must come from a site whose target is a `waiting` word (Gen/Sites.json),
       and an access into a record array at an offset that no init store named is rejected.
   What this cannot compare: PLAIN accesses (tag, sem, flags, the dll links nsync_dll_* writes -- the reason the model's
   footprints contain the whole list operated on) are not in the trace; `waiting` is the only atomic field of
   struct nsync_waiter_s.  Those accesses are checked by the runtime itself while the trace is produced (use after free,
   access to a dead stack frame abort the run).  For stack records the index is not identifiable (no offsets), so the
   comparison is per (owner, call), not per record. *)
open Rcommon
open WaitNModel

type expect =
  | XCall of WaitNModel.op
  | XReady of bool * int * string
  | XInit of int * int
  | XEnq of int * bool
  | XUnlock | XLock
  | XP of bool
  | XDeqPre of int
  | XDeq of int * bool
  | XSpin of int * int
  | XFree
  | XRet of int
  | XNotify of int | XPoll of int
  | XAdd of int * int * int
  | XTake of bool * int * int
  | XWStore | XV
  | XMuLock | XMuUnlock
  | XAcc            (* not a step: the liveness check of one access to a record, at its own trace position *)

type wop = WNone | WReady of int * bool | WEnq of int | WDeq of int | WAct of string * int * int
type tst = { mutable cur : wop; mutable evs : (int * event) list; mutable in_call : bool; mutable p_open : bool;
             mutable last_ev : int; mutable kinds : char array;
             mutable last_file : string;
             mutable calls : int;                     (* number of `ret` notes of this thread so far = the model's `done` *)
             mutable ninit : int;                     (* wait.c init stores of the current call so far *)
             mutable pend : (int * event) list }      (* events of the open P, newest first *)

(* what an event's address is, as far as records are concerned *)
type reg = RNone | RStack of int | RHeap of (int * int * int) | RArray of (int * int)

let site_of e = try Hashtbl.find sites (e.file, e.line) with Not_found -> ("", 0)
let time_of_string s = if s = "none" then None else Some (z_of_int (int_of_string s))
let string_of_time = function None -> "none" | Some z -> string_of_int (int_of_z z)
let string_of_rid (r : WaitNModel.rid) = Printf.sprintf "(%d,%d,%d)" (int_of_nat (owner r)) (int_of_nat (rcall r)) (int_of_nat (ridx r))
let string_of_rids l = "[" ^ String.concat " " (Stdlib.List.map string_of_rid l) ^ "]"

let () =
  load_sites Sys.argv.(2);
  let ic = open_in Sys.argv.(1) in
  let lines = ref [] in
  (try while true do lines := input_line ic :: !lines done with End_of_file -> ());
  let lines = Array.of_list (Stdlib.List.rev !lines) in
  let n = Array.length lines in
  let now_at = Array.make (n + 1) 0 in
  let actions = ref [] in
  let nact = ref 0 in
  let attached : (int, unit) Hashtbl.t = Hashtbl.create 1024 in      (* trace positions of the events that belong to some step *)
  let emit pos tid x evs =
    incr nact; Stdlib.List.iter (fun (p, _) -> Hashtbl.replace attached p ()) evs;
    actions := (pos, !nact, tid, x, evs) :: !actions in
  let all_events = ref [] in
  let recmap : (string, int * int * int) Hashtbl.t = Hashtbl.create 64 in     (* "blkN+off" -> (thread, call, index) *)
  let arrmap : (string, int * int) Hashtbl.t = Hashtbl.create 16 in           (* "blkN" -> (thread, call): the array nw of that call *)
  let classify e =
    if e.kind = "malloc" || e.kind = "free" then RNone
    else begin
      let base = obj_region e.obj in
      if String.length base > 3 && String.sub base 0 3 = "stk" then
        (match int_of_string_opt (String.sub base 3 (String.length base - 3)) with Some k -> RStack k | None -> RNone)
      else match Hashtbl.find_opt recmap e.obj with
        | Some r -> RHeap r
        | None -> (match Hashtbl.find_opt arrmap base with Some a -> RArray a | None -> RNone)
    end in
  let objs = ref [] in
  let ths = Array.init 16 (fun _ -> { cur = WNone; evs = []; in_call = false; p_open = false; last_ev = 0; kinds = [||];
                                     last_file = ""; calls = 0; ninit = 0; pend = [] }) in
  let skipped = ref 0 in
  let mutex_v : (string, int list) Hashtbl.t = Hashtbl.create 16 in
  let mutex_p : (string, int list) Hashtbl.t = Hashtbl.create 16 in
  let p_addr : (int, string) Hashtbl.t = Hashtbl.create 16 in
  let injected : (string, int) Hashtbl.t = Hashtbl.create 16 in
  let fail_at pos msg = raise (Mismatch (Printf.sprintf "%s (at trace line %d: %s)" msg (pos + 1) (if pos < n then lines.(pos) else ""))) in
  (* linearization helpers over the chronological events of one announced operation *)
  let is_nload (_, e) = e.file = "note.c" && e.kind = "load" &&
                        (let (fn, _) = site_of e in fn = "nsync_note_notified_deadline_" || fn = "notify" || fn = "note_notify_child") in
  let is_nstore (_, e) = e.file = "note.c" && e.kind = "store" && site_of e = ("note_notify_child", 2) in
  let last_such pos f evs = match Stdlib.List.rev (Stdlib.List.filter f evs) with x :: _ -> x | [] -> fail_at pos "no linearization event found" in
  let first_such f evs = match Stdlib.List.filter f evs with x :: _ -> Some x | [] -> None in
  let note_lin pos evs = match first_such is_nstore evs with Some (p, _) -> p | None -> fst (last_such pos is_nload evs) in
  let in_fn name (_, e) = fst (site_of e) = name in
  let is_sem (_, e) = e.file = "nsync_semaphore_futex.c" || e.kind = "fwake" || e.kind = "fwait" in
  let close_p st tid =
    if st.p_open then begin emit st.last_ev tid (XP false) (Stdlib.List.rev st.pend); st.pend <- []; st.p_open <- false end in
  let cur_now = ref 0 in
  (try
    for pos = 0 to n - 1 do
      let line = lines.(pos) in
      if String.length line > 2 && line.[0] = 'E' then begin
        (match parse_event line with
         | Some e ->
           cur_now := e.now;
           all_events := (pos, e) :: !all_events;
           (* posts and takes that belong to nsync_mu_lock sleeps (not part of this model): a V whose caller came from mu.c, a
              success of the untimed nsync_mu_semaphore_p *)
           if e.file = "nsync_semaphore_futex.c" && e.kind = "cas" && e.ok then begin
             let fn = fst (site_of e) in
             if fn = "nsync_mu_semaphore_v" && e.tid > 0 && e.tid < 16 && ths.(e.tid).last_file = "mu.c" then
               Hashtbl.replace mutex_v e.obj (pos :: (try Hashtbl.find mutex_v e.obj with Not_found -> []))
             else if fn = "nsync_mu_semaphore_p" then
               Hashtbl.replace mutex_p e.obj (pos :: (try Hashtbl.find mutex_p e.obj with Not_found -> []))
           end;
           if e.tid > 0 && e.tid < 16 && e.file <> "nsync_semaphore_futex.c" && e.file <> "-" then ths.(e.tid).last_file <- e.file;
           if e.tid > 0 && e.tid < 16 then begin
             let st = ths.(e.tid) in
             (match st.cur with
              | WNone ->
                if st.in_call then begin
                  if e.file = "wait.c" && e.kind = "store" then begin
                    let i = st.ninit in
                    st.ninit <- i + 1;
                    let base = obj_region e.obj in
                    if String.length base > 3 && String.sub base 0 3 = "blk" then begin
                      if Hashtbl.mem recmap e.obj then fail_at pos "footprint: two init stores at the same heap address";
                      (match Hashtbl.find_opt arrmap base with
                       | Some a when a <> (e.tid, st.calls) -> fail_at pos "footprint: the record arrays of two calls share a block"
                       | _ -> ());
                      Hashtbl.replace recmap e.obj (e.tid, st.calls, i);
                      Hashtbl.replace arrmap base (e.tid, st.calls)
                    end;
                    emit pos e.tid (XInit (e.b, i)) [(pos, e)]
                  end
                  else if e.kind = "free" then emit pos e.tid XFree [(pos, e)]
                  else if e.file = "nsync_semaphore_futex.c" && fst (site_of e) = "nsync_mu_semaphore_p_with_deadline" then begin
                    st.p_open <- true;
                    st.pend <- (pos, e) :: st.pend;
                    if e.kind = "cas" && e.ok then begin
                      Hashtbl.replace p_addr pos e.obj; emit pos e.tid (XP true) (Stdlib.List.rev st.pend); st.pend <- []; st.p_open <- false
                    end
                  end else begin
                    if st.p_open then st.pend <- (pos, e) :: st.pend;      (* futex wait, clock read, ... of the open P *)
                    incr skipped
                  end
                end else incr skipped
              | _ -> st.evs <- (pos, e) :: st.evs);
             st.last_ev <- pos
           end
         | None -> ())
      end else if String.length line > 2 && line.[0] = 'N' then begin
        let toks = Stdlib.List.filter (fun s -> s <> "") (String.split_on_char ' ' line) in
        (match toks with
         | "N" :: _ :: "obj" :: i :: rest -> objs := (int_of_string i, rest) :: !objs
         | "N" :: _ :: "call" :: tid :: mu :: dl :: cnt :: kinds ->
           let tid = int_of_string tid in
           let st = ths.(tid) in
           let cnt = int_of_string cnt in
           let kinds = Array.of_list (Stdlib.List.map (fun s -> s.[0]) kinds) in
           if Array.length kinds <> cnt then fail_at pos "call note: kinds do not match count";
           st.kinds <- kinds; st.in_call <- true; st.ninit <- 0; st.pend <- [];
           let os = Stdlib.List.mapi (fun i k -> match k with 'N' -> ONote (nat_of_int i) | 'C' -> OCounter (nat_of_int i) | _ -> OCv (nat_of_int i))
                      (Array.to_list kinds) in
           emit pos tid (XCall (OpWaitN ((if mu = "1" then Some (nat_of_int 0) else None), time_of_string dl, os))) []
         | ["N"; _; "ret"; tid; r] ->
           let tid = int_of_string tid in
           close_p ths.(tid) tid;
           ths.(tid).in_call <- false; ths.(tid).calls <- ths.(tid).calls + 1; emit pos tid (XRet (int_of_string r)) []
         | ["N"; _; "rb"; tid; j; first] ->
           let tid = int_of_string tid in let st = ths.(tid) in
           close_p st tid; st.cur <- WReady (int_of_string j, first = "1"); st.evs <- []
         | ["N"; _; "re"; tid; _; tm] ->
           let tid = int_of_string tid in let st = ths.(tid) in
           let evs = Stdlib.List.rev st.evs in
           (match st.cur with
            | WReady (j, first) ->
              let lin = (match st.kinds.(j) with
                  | 'N' -> note_lin pos evs
                  | 'C' -> fst (last_such pos (fun (_, e) -> e.kind = "load" && fst (site_of e) = "counter_ready_time") evs)
                  | _ -> if first then pos else fst (last_such pos (in_fn "cv_ready_time") evs)) in
              emit lin tid (XReady (first, j, tm)) evs
            | _ -> fail_at pos "re without rb");
           st.cur <- WNone
         | ["N"; _; "qb"; tid; j] -> let st = ths.(int_of_string tid) in st.cur <- WEnq (int_of_string j); st.evs <- []
         | ["N"; _; "qe"; tid; _; r] ->
           let tid = int_of_string tid in let st = ths.(tid) in
           let evs = Stdlib.List.rev st.evs in
           (match st.cur with
            | WEnq j ->
              let lin = (match st.kinds.(j) with
                  | 'N' -> fst (last_such pos (fun (p, e) -> e.kind = "store" && in_fn "note_enqueue" (p, e)) evs)
                  | 'C' -> fst (last_such pos (fun (p, e) -> e.kind = "store" && in_fn "counter_enqueue" (p, e)) evs)
                  | _ -> fst (last_such pos (fun (_, e) -> site_of e = ("cv_enqueue", 2)) evs)) in
              emit lin tid (XEnq (j, r = "1")) evs
            | _ -> fail_at pos "qe without qb");
           st.cur <- WNone
         | ["N"; _; "db"; tid; j] ->
           let tid = int_of_string tid in let st = ths.(tid) in
           close_p st tid; st.cur <- WDeq (int_of_string j); st.evs <- []
         | ["N"; _; "de"; tid; _; r] ->
           let tid = int_of_string tid in let st = ths.(tid) in
           let evs = Stdlib.List.rev st.evs in
           (match st.cur with
            | WDeq j ->
              (match st.kinds.(j) with
               | 'N' ->
                 let rec split acc = function
                   | x :: rest when not (in_fn "note_dequeue" x) -> split (x :: acc) rest
                   | l -> (Stdlib.List.rev acc, l) in
                 let (pre, cs) = split [] evs in
                 emit (note_lin pos pre) tid (XDeqPre j) pre;
                 emit (fst (last_such pos (in_fn "note_dequeue") cs)) tid (XDeq (j, r = "1")) cs
               | 'C' -> emit (fst (last_such pos (in_fn "counter_dequeue") evs)) tid (XDeq (j, r = "1")) evs
               | _ ->
                 (* the critical section ends with the release store of pcv->word; every later load of nw->waiting is a step *)
                 let rec split acc = function
                   | x :: rest -> if site_of (snd x) = ("cv_dequeue", 3) then (Stdlib.List.rev (x :: acc), rest) else split (x :: acc) rest
                   | [] -> fail_at pos "no linearization event found" in
                 let (cs, after) = split [] evs in
                 let groups = ref [ (fst (last_such pos (fun (_, e) -> site_of e = ("cv_dequeue", 3)) cs), XDeq (j, r = "1"), cs) ] in
                 let g = ref [] in
                 Stdlib.List.iter (fun (p, e) ->
                     g := (p, e) :: !g;
                     if site_of e = ("cv_dequeue", 4) then begin groups := (p, XSpin (j, e.a), Stdlib.List.rev !g) :: !groups; g := [] end) after;
                 (match !groups with (p, x, l) :: tl -> groups := (p, x, l @ Stdlib.List.rev !g) :: tl | [] -> ());
                 Stdlib.List.iter (fun (p, x, l) -> emit p tid x l) (Stdlib.List.rev !groups))
            | _ -> fail_at pos "de without db");
           st.cur <- WNone
         | ["N"; _; "unlock"; tid] -> emit pos (int_of_string tid) XUnlock []
         | ["N"; _; "lock"; tid] -> emit pos (int_of_string tid) XLock []
         | ["N"; _; "mulock"; tid] -> emit pos (int_of_string tid) XMuLock []
         | ["N"; _; "muunlock"; tid] -> emit pos (int_of_string tid) XMuUnlock []
         | "N" :: _ :: "ab" :: tid :: what :: i :: rest ->
           let st = ths.(int_of_string tid) in
           st.cur <- WAct (what, int_of_string i, (match rest with d :: _ -> int_of_string d | [] -> 0)); st.evs <- []
         | ["N"; _; "ae"; tid] ->
           let tid = int_of_string tid in let st = ths.(tid) in
           let evs = Stdlib.List.rev st.evs in
           (match st.cur with
            | WAct ("notify", i, _) -> emit (note_lin pos evs) tid (XNotify i) evs
            | WAct ("poll", i, _) -> emit (note_lin pos evs) tid (XPoll i) evs
            | WAct ("add", i, d) ->
              let (p, e) = last_such pos (fun (_, e) -> e.kind = "cas" && e.ok && fst (site_of e) = "nsync_counter_add") evs in
              emit p tid (XAdd (i, d, e.b)) evs
            | WAct (("signal" | "broadcast") as what, i, _) ->
              let fn = if what = "signal" then "nsync_cv_signal" else "nsync_cv_broadcast" in
              let rel = first_such (fun (_, e) -> e.kind = "store" && e.file = "cv.c" && fst (site_of e) = fn) evs in
              let lin = (match rel with Some (p, _) -> p | None -> fst (last_such pos (fun (_, e) -> site_of e = (fn, 1)) evs)) in
              let take_evs = Stdlib.List.filter (fun (p, _) -> p <= lin) evs in
              let after = Stdlib.List.filter (fun (p, _) -> p > lin) evs in
              (* segments of wake_waiters' final loop: each ends with a store of `waiting`; `rest` follows the last store *)
              let rec segs acc g = function
                | [] -> (Stdlib.List.rev acc, Stdlib.List.rev g)
                | x :: tl -> if site_of (snd x) = ("wake_waiters", 6) then segs (Stdlib.List.rev (x :: g) :: acc) [] tl else segs acc (x :: g) tl in
              let (sg, rest) = segs [] [] after in
              let k = Stdlib.List.length sg in
              if k = 0 then emit lin tid (XTake (what = "signal", i, 0)) evs
              else begin
                emit lin tid (XTake (what = "signal", i, k)) take_evs;
                let arr = Array.of_list sg in
                for m = 0 to k - 1 do
                  let seg = arr.(m) in
                  (* the semaphore events inside a later segment are the V of the record before *)
                  let mine = if m = 0 then seg else Stdlib.List.filter (fun x -> not (is_sem x)) seg in
                  let (sp, _) = Stdlib.List.nth seg (Stdlib.List.length seg - 1) in
                  emit sp tid XWStore mine;
                  let vevs = if m = k - 1 then rest else Stdlib.List.filter is_sem arr.(m + 1) in
                  (match first_such (fun (_, e) -> e.kind = "cas" && e.ok && fst (site_of e) = "nsync_mu_semaphore_v") vevs with
                   | Some (p, _) -> emit p tid XV vevs
                   | None -> fail_at sp "wake_waiters: no successful nsync_mu_semaphore_v after this store of waiting")
                done
              end
            | _ -> fail_at pos "ae without ab");
           st.cur <- WNone
         | _ -> ())
      end;
      now_at.(pos) <- !cur_now
    done
  with Mismatch m -> Printf.printf "MISMATCH %s\n" m; exit 1);
  (* the liveness check of every access to a record: a pseudo-action at the access's position, after the real action there *)
  let accs = Stdlib.List.filter (fun (_, e) -> classify e <> RNone) (Stdlib.List.rev !all_events) in
  let accs = Stdlib.List.mapi (fun i (p, e) -> (p, !nact + 1 + i, e.tid, XAcc, [(p, e)])) accs in
  (* ---------- pass 2 ---------- *)
  let acts = Stdlib.List.sort (fun (p1, s1, _, _, _) (p2, s2, _, _, _) -> compare (p1, s1) (p2, s2)) (!actions @ accs) in
  let w = ref WaitNReplay.world0 in
  Stdlib.List.iter (fun (i, rest) ->
      match rest with
      | ["N"; notified; exp] -> w := WaitNReplay.init_note !w (nat_of_int i) (z_of_int (int_of_string notified)) (time_of_string exp)
      | ["C"; v] -> w := WaitNReplay.init_ctr !w (nat_of_int i) (z_of_int (int_of_string v))
      | _ -> ()) !objs;
  let steps = ref 0 in
  let max_count = ref 0 in
  let rid_of (k, c, i) : WaitNModel.rid = ((nat_of_int k, nat_of_int c), nat_of_int i) in
  let done_i w k = int_of_nat (WaitNReplay.done_of w (nat_of_int k)) in
  (try
    Stdlib.List.iter (fun (pos, _, tid, x, evs) ->
      let fail msg = fail_at pos msg in
      if (match x with XAcc -> true | _ -> false) then begin
        (* the model state is the one reached by the actions located at or before this trace position *)
        let e = snd (Stdlib.List.hd evs) in
        let what = Printf.sprintf "footprint: thread %d's atomic access (%s:%d)" tid e.file e.line in
        let live_owner k = WaitNReplay.in_call_b !w (nat_of_int k) in
        (match classify e with
         | RStack k ->
           cover "fp_live_stack";
           if tid <> k then cover "fp_other_thread_access";
           if not (live_owner k) then
             fail (Printf.sprintf "%s to thread %d's stack while the model's thread %d is not inside an nsync_wait_n call" what k k);
           if int_of_nat (WaitNReplay.count_of !w (nat_of_int k)) > int_of_nat WaitNModel.nw_set_len then
             fail (Printf.sprintf "%s to thread %d's stack while the model's call of thread %d keeps its records on the heap" what k k);
           if WaitNReplay.rec_dead_b !w (rid_of (k, done_i !w k, 0)) then fail (Printf.sprintf "%s to a dead record of thread %d" what k)
         | RHeap ((k, c, _) as r) ->
           cover "fp_live_heap";
           if tid <> k then cover "fp_other_thread_access";
           if done_i !w k <> c || not (live_owner k) || WaitNReplay.rec_dead_b !w (rid_of r) then
             fail (Printf.sprintf "%s to record %s, which is dead in the model (its call returned, or its array was freed)" what (string_of_rid (rid_of r)))
         | RArray (k, c) ->
           fail (Printf.sprintf "%s into the record array of call %d of thread %d at an offset that is no `waiting` word" what c k)
         | RNone -> ());
        if not (Hashtbl.mem attached pos) then fail (what ^ " to a record belongs to no step of the model");
        (match (try Some (Hashtbl.find site_targets (e.file, e.line)) with Not_found -> None) with
         | Some tg when String.length tg >= 8 && String.sub tg 0 8 = "waiting." -> cover "fp_waiting_site"
         | Some tg -> fail (Printf.sprintf "%s to a record comes from a site whose target is %s, not a `waiting` word" what tg)
         | None -> fail (what ^ " to a record comes from no site of Gen/Sites.json"))
      end else begin
        let t = nat_of_int tid in
        w := WaitNReplay.clock_to !w (z_of_int now_at.(pos));
        let idle () = (match WaitNReplay.pc_of !w t with PIdle -> () | _ -> fail "the model's thread is not idle where the implementation starts a new operation") in
        let push o = idle (); w := WaitNReplay.push_op !w t o in
        (match x with
         | XCall o ->
           push o; (match o with OpWaitN (_, _, os) -> max_count := max !max_count (Stdlib.List.length os) | _ -> ())
         | XNotify i -> push (OpNotify (nat_of_int i))
         | XPoll i -> push (OpPoll (nat_of_int i))
         | XAdd (i, d, _) -> push (OpAdd (nat_of_int i, z_of_int d))
         | XTake (sg, i, _) -> push (if sg then OpSignal (nat_of_int i) else OpBroadcast (nat_of_int i))
         | XMuLock -> push (OpLock (nat_of_int 0))
         | XMuUnlock -> push (OpUnlock (nat_of_int 0))
         | XP true when int_of_nat (WaitNReplay.sem_of !w t) = 0 ->
           (* the implementation's P succeeded where the model holds no post: legitimate only if an nsync_mu_lock sleep of this
              thread left one behind on the same semaphore (a V made from mu.c not matched by a P of the mutex code) -- then the
              environment step OpStale supplies it, made by pseudo-thread 0 *)
           let addr = (try Hashtbl.find p_addr pos with Not_found -> "") in
           let before l = Stdlib.List.length (Stdlib.List.filter (fun p -> p < pos) l) in
           let avail = before (try Hashtbl.find mutex_v addr with Not_found -> []) - before (try Hashtbl.find mutex_p addr with Not_found -> [])
                       - (try Hashtbl.find injected addr with Not_found -> 0) in
           if avail >= 1 then begin
             let env = nat_of_int 0 in
             w := WaitNReplay.push_op !w env (OpStale t);
             let ((w', _), _) = WaitNModel.step !w env false in w := w';
             Hashtbl.replace injected addr (1 + (try Hashtbl.find injected addr with Not_found -> 0));
             cover "stale_post"
           end
         | _ -> ());
        let w0 = !w in                               (* the state the step is taken in: its `done` numbers the current calls *)
        let ((w', ev), touched) = WaitNModel.step !w t (match x with XP false -> true | _ -> false) in
        w := w'; incr steps;
        let name = (match ev with
            | EvNone -> "none" | EvCall -> "call" | EvReady (true, _, _) -> "ready_first" | EvReady (false, _, _) -> "ready_loop"
            | EvInit _ -> "init" | EvEnq (_, true) -> "enq1" | EvEnq (_, false) -> "enq0" | EvUnlock -> "unlock" | EvP POk -> "p_ok"
            | EvP PTimeout -> "p_timeout" | EvP PBlocked -> "p_blocked" | EvDeqPre _ -> "deqpre" | EvDeq (_, true, _) -> "deq1"
            | EvDeq (_, false, _) -> "deq0" | EvDeqSpin (_, v) -> if int_of_z v = 0 then "spin_done" else "spin_wait"
            | EvFree -> "free" | EvLock true -> "lock" | EvLock false -> "lock_blocked" | EvRet _ -> "ret" | EvNotify _ -> "notify" | EvPoll _ -> "poll"
            | EvAdd _ -> "add" | EvTake (_, k) -> if k = Datatypes.O then "take0" else "take" | EvWakeStore _ -> "wstore" | EvV _ -> "v"
            | EvMuLock (_, true) -> "mulock" | EvMuLock (_, false) -> "mulock_blocked" | EvMuUnlock _ -> "muunlock" | EvTick -> "tick" | EvPanic -> "panic") in
        cover name;
        let bad what = fail (Printf.sprintf "thread %d: implementation did %s, model did %s" tid what name) in
        (match x, ev with
         | XCall _, EvCall -> ()
         | XReady (f, j, tm), EvReady (f', j', nt) ->
           if f <> f' || j <> int_of_nat j' then bad (Printf.sprintf "ready_time(first=%b) of object %d" f j);
           if string_of_time nt <> tm then fail (Printf.sprintf "ready_time of object %d: implementation %s, model %s" j tm (string_of_time nt))
         | XInit (v, i), EvInit (i', v') ->
           if int_of_z v' <> v then fail "init store value differs";
           if int_of_nat i' <> i then fail (Printf.sprintf "init store: the implementation's is the %d-th of the call, the model's has index %d" i (int_of_nat i'))
         | XEnq (j, r), EvEnq (j', r') ->
           if j <> int_of_nat j' then bad (Printf.sprintf "enqueue of object %d" j);
           if r <> r' then fail (Printf.sprintf "enqueue of object %d: implementation returned %b, model %b" j r r')
         | XUnlock, EvUnlock -> ()
         | XLock, EvLock true -> ()
         | XP true, EvP POk -> ()
         | XP false, EvP PTimeout -> ()
         | XDeqPre j, EvDeqPre j' -> if j <> int_of_nat j' then bad (Printf.sprintf "dequeue (deadline part) of object %d" j)
         | XDeq (j, r), EvDeq (j', r', _) ->
           if j <> int_of_nat j' then bad (Printf.sprintf "dequeue of object %d" j);
           if r <> r' then fail (Printf.sprintf "dequeue of object %d: implementation returned %b, model %b" j r r')
         | XSpin (j, v), EvDeqSpin (j', v') ->
           if j <> int_of_nat j' then bad "cv_dequeue spin load";
           if int_of_z v' <> v then fail (Printf.sprintf "cv_dequeue spin load: implementation read %d, model %d" v (int_of_z v'))
         | XFree, EvFree -> ()
         | XRet r, EvRet r' -> if r <> int_of_nat r' then fail (Printf.sprintf "nsync_wait_n returned %d, the model %d" r (int_of_nat r'))
         | XNotify _, EvNotify _ -> ()
         | XPoll _, EvPoll _ -> ()
         | XAdd (_, _, v), EvAdd (_, v') -> if int_of_z v' <> v then fail (Printf.sprintf "counter value: implementation %d, model %d" v (int_of_z v'))
         | XTake (_, _, k), EvTake (_, k') ->
           if k <> int_of_nat k' then fail (Printf.sprintf "signal/broadcast took %d records, the model %d" k (int_of_nat k'))
         | XWStore, EvWakeStore (_, v) -> if int_of_z v <> 0 then fail "wake store value"
         | XV, EvV _ -> ()
         | XMuLock, EvMuLock (_, true) -> ()
         | XMuUnlock, EvMuUnlock _ -> ()
         | XCall _, _ -> bad "call" | XReady _, _ -> bad "ready_time" | XInit _, _ -> bad "the waiting init store (wait.c)"
         | XEnq _, _ -> bad "enqueue" | XUnlock, _ -> bad "the unlock callback" | XLock, _ -> bad "the lock callback"
         | XP true, _ -> bad "a successful P" | XP false, _ -> bad "a timed-out P" | XDeqPre _, _ -> bad "dequeue (deadline part)"
         | XDeq _, _ -> bad "dequeue" | XSpin _, _ -> bad "cv_dequeue spin load" | XFree, _ -> bad "free (nw)" | XRet _, _ -> bad "return"
         | XNotify _, _ -> bad "notify" | XPoll _, _ -> bad "is_notified" | XAdd _, _ -> bad "counter add" | XTake _, _ -> bad "signal/broadcast"
         | XWStore, _ -> bad "wake_waiters store" | XV, _ -> bad "semaphore V" | XMuLock, _ -> bad "mu lock" | XMuUnlock, _ -> bad "mu unlock"
         | XAcc, _ -> ());
        (* ---------- the step's footprint against the step's accesses ---------- *)
        let current k (r : WaitNModel.rid) = int_of_nat (owner r) = k && int_of_nat (rcall r) = done_i w0 k in
        Stdlib.List.iter (fun (p, e) ->
            let what = Printf.sprintf "footprint: step %s of thread %d accesses (%s:%d, %s)" name tid e.file e.line e.obj in
            match classify e with
            | RStack k ->
              cover "fp_stack_checked";
              if not (Stdlib.List.exists (current k) touched) then
                fail_at p (Printf.sprintf "%s a record on thread %d's stack; the model's footprint %s of the step has no record of call %d of thread %d"
                             what k (string_of_rids touched) (done_i w0 k) k)
            | RHeap r ->
              cover "fp_heap_checked";
              if not (WaitNModel.mem (rid_of r) touched) then
                fail_at p (Printf.sprintf "%s record %s, which is not in the model's footprint %s of the step" what (string_of_rid (rid_of r)) (string_of_rids touched))
            | RArray _ | RNone -> ()) evs;
        (match x, ev with
         | XWStore, EvWakeStore (r, _) ->
           (* the store itself is on the record the model wakes *)
           let (p, e) = Stdlib.List.nth evs (Stdlib.List.length evs - 1) in
           cover "fp_waker_store";
           let ok = (match classify e with
               | RStack k -> current k r
               | RHeap r' -> WaitNModel.rid_eqb (rid_of r') r
               | RArray _ | RNone -> false) in
           if not ok then fail_at p (Printf.sprintf "footprint: wake_waiters' store of waiting is at %s, the model wakes record %s" e.obj (string_of_rid r))
         | XFree, EvFree ->
           let (p, e) = Stdlib.List.hd evs in
           cover "fp_free_block";
           if Hashtbl.find_opt arrmap (obj_region e.obj) <> Some (tid, done_i w0 tid) then
             fail_at p (Printf.sprintf "footprint: free of %s, which is not the record array of call %d of thread %d" e.obj (done_i w0 tid) tid)
         | _ -> ());
        (* the mutex clause (C11_mutex_state): the scenario's caller satisfies the precondition of the theorems (it holds the mutex it passes:
           the ghost f_held, computed from the lock / unlock operations replayed so far), and the model's holder agrees with the phase of the
           call at every step of it: held until the unlock callback, not held at any P, held again at the return *)
        (if WaitNReplay.in_call_b !w t && WaitNReplay.has_mu !w t then begin
           cover "mutex_state_checked";
           let hold = WaitNReplay.holder_is !w t and unl = WaitNReplay.unlocked_of !w t in
           let at_ret = (match WaitNReplay.pc_of !w t with PRet -> true | _ -> false) in
           (match x with XCall _ -> if not (WaitNReplay.held_of !w t) then fail "mutex: the caller does not hold the mutex it passes to nsync_wait_n (model ghost f_held = false)" | _ -> ());
           if not unl && not hold then fail "mutex: model: the caller lost the mutex before the unlock callback";
           if unl && not at_ret && hold then fail "mutex: model: the caller holds the mutex between the unlock and the lock callback";
           if unl && at_ret && not hold then fail "mutex: model: the caller does not hold the mutex at the return";
           (match x with XP _ -> cover "mutex_p_not_held"; if hold then fail "mutex: a P of the implementation where the model's caller holds the mutex" | _ -> ())
         end);
        (* the model's own verdicts at a return *)
        (match x with
         | XRet r ->
           let c = int_of_nat (WaitNReplay.done_of !w t) - 1 in
           if WaitNReplay.any_on_list !w t (nat_of_int c) (nat_of_int 8) then fail "model: a record of the returned call is still on a list";
           ignore r
         | _ -> ())
      end)
      acts;
    (* every thread of the model must be idle with an empty program at the end *)
    for tid = 1 to 15 do
      let t = nat_of_int tid in
      (match WaitNReplay.pc_of !w t with PIdle -> () | _ -> raise (Mismatch (Printf.sprintf "thread %d of the model is not idle at the end of the trace" tid)));
      if int_of_nat (WaitNReplay.prog_len !w t) <> 0 then raise (Mismatch "model has unexecuted operations at the end")
    done
  with Mismatch m -> Printf.printf "MISMATCH %s\n" m; exit 1);
  cover (if !max_count > int_of_nat WaitNModel.nw_set_len then "heap_path" else "stack_path");
  finish !steps !skipped
