"""Shared body of the checks that rest on MuModel (C02, C13, C14): lock-step tie + scenario oracles."""
from vcommon import *
import scen_common, mu_common, vrt_runner


def mu_tie(res, tier, seed, nq=300, nt=3000):
    base = seed * 100000
    exe, err = vrt_runner.build("mu_mix")
    if exe is None:
        res["broken"].append({"what": "harness build failed", "detail": err})
        return {}
    replayer, err = mu_common.build_replayer("mu_replay")
    if replayer is None:
        res["broken"].append({"what": "replayer build failed", "detail": err})
        return {}
    n = nq if tier == "quick" else nt
    rr = mu_common.replay_many(replayer, exe, range(base + 1, base + 1 + n))
    steps, sites, mism = mu_common.replay_summary(rr)
    for m in mism[:3]:
        res["broken"].append({"what": "correspondence: MuModel and the real mu.c disagree in lock-step", "scenario": "mu_mix",
                              "seed": m["seed"], "detail": m["replay"]})
    return {"traces_validated_against_impl": n - len(mism), "lockstep_model_steps": steps, "model_sites_hit": sites,
            "model_sites_never_hit": [s for s in mu_common.MODEL_SITES if str(s) not in sites]}
