"""Shared machinery for bin/check: regeneration, Coq build, grep gate, evidence, verdicts."""
import os, sys, json, subprocess, hashlib, time, re, fcntl, glob, shutil

VERIF = os.path.dirname(os.path.dirname(os.path.abspath(__file__)))
REPO = os.environ.get("VERIF_REPO", "/repo")
WORK = os.path.join(VERIF, "_work")
COQ = os.path.join(VERIF, "coq")
GEN = os.path.join(COQ, "Gen")
NCPU = 16

C_INC = ["platform/linux", "platform/gcc", "platform/posix", "platform/x86_64", "public", "internal"]
CXX_INC = ["platform/c++11.futex", "platform/c++11", "platform/gcc", "platform/posix",
           "platform/x86_64", "public", "internal"]
CXX_DEFS = ["-DNSYNC_USE_CPP11_TIMEPOINT", "-DNSYNC_ATOMIC_CPP11"]
C_LIB_SRC = ["internal/common.c", "internal/counter.c", "internal/cv.c", "internal/debug.c", "internal/dll.c",
             "internal/mu.c", "internal/mu_wait.c", "internal/note.c", "internal/once.c", "internal/sem_wait.c",
             "internal/time_internal.c", "internal/wait.c", "platform/posix/src/nsync_panic.c",
             "platform/posix/src/per_thread_waiter.c", "platform/posix/src/time_rep.c", "platform/posix/src/yield.c",
             "platform/linux/src/nsync_semaphore_futex.c"]
CPP_LIB_SRC = ["internal/common.c", "internal/counter.c", "internal/cv.c", "internal/debug.c", "internal/dll.c",
               "internal/mu.c", "internal/mu_wait.c", "internal/note.c", "internal/once.c", "internal/sem_wait.c",
               "internal/time_internal.c", "internal/wait.c", "platform/posix/src/per_thread_waiter.c",
               "platform/c++11/src/yield.cc", "platform/c++11/src/time_rep_timespec.cc",
               "platform/c++11/src/nsync_panic.cc", "platform/linux/src/nsync_semaphore_futex.c"]


def sh(cmd, timeout=600, cwd=None, env=None, input=None):
    """Run, never raise on failure; returns (rc, stdout, stderr).  rc=124 on timeout."""
    try:
        r = subprocess.run(cmd, cwd=cwd, env=env, input=input, capture_output=True, text=True, timeout=timeout,
                           errors="replace")
        return r.returncode, r.stdout, r.stderr
    except subprocess.TimeoutExpired as e:
        return 124, (e.stdout or b"").decode("utf-8", "replace") if isinstance(e.stdout, bytes) else (e.stdout or ""), \
            "TIMEOUT after %ss" % timeout


class Lock:
    def __init__(self, name="global"):
        os.makedirs(WORK, exist_ok=True)
        self.path = os.path.join(WORK, name + ".lock")

    def __enter__(self):
        self.f = open(self.path, "w")
        fcntl.flock(self.f, fcntl.LOCK_EX)
        return self

    def __exit__(self, *a):
        fcntl.flock(self.f, fcntl.LOCK_UN)
        self.f.close()


def repo_fingerprint():
    h = hashlib.sha256()
    for sub in ("internal", "public", "platform"):
        for root, dirs, files in os.walk(os.path.join(REPO, sub)):
            dirs.sort()
            for fn in sorted(files):
                p = os.path.join(root, fn)
                h.update(p.encode())
                try:
                    h.update(open(p, "rb").read())
                except OSError:
                    pass
    for root, dirs, files in os.walk(os.path.join(VERIF, "gen")):
        dirs[:] = [d for d in sorted(dirs) if d != "__pycache__"]
        for fn in sorted(files):
            h.update(open(os.path.join(root, fn), "rb").read())
    tdir = os.path.join(COQ, "templates")
    for fn in sorted(os.listdir(tdir)) if os.path.isdir(tdir) else []:
        h.update(open(os.path.join(tdir, fn), "rb").read())
    # the header the site extractor parses the sources against, and the order constants it maps to
    for p in (os.path.join(VERIF, "harness", "platform", "atomic.h"), os.path.join(VERIF, "harness", "rt", "vrt.h")):
        if os.path.exists(p):
            h.update(open(p, "rb").read())
    return h.hexdigest()


def regen():
    """Regenerate coq/Gen from REPO's working tree (skipped only when no byte of the inputs changed)."""
    os.makedirs(WORK, exist_ok=True)
    fp = repo_fingerprint()
    stamp = os.path.join(GEN, "FINGERPRINT")
    if os.path.exists(stamp) and open(stamp).read() == fp and os.path.exists(os.path.join(GEN, "STATUS.json")) and os.path.exists(os.path.join(GEN, "Sites.v")) and os.path.exists(os.path.join(GEN, "Body.v")):
        return json.load(open(os.path.join(GEN, "STATUS.json"))), False
    for f in glob.glob(os.path.join(GEN, "*.v")):
        os.remove(f)
    rc, out, err = sh([sys.executable, os.path.join(VERIF, "gen", "regen.py"), "--repo", REPO, "--out", GEN,
                       "--work", WORK], timeout=300)
    st = json.load(open(os.path.join(GEN, "STATUS.json"))) if os.path.exists(os.path.join(GEN, "STATUS.json")) else {}
    if rc != 0:
        st["_regen"] = {"ok": False, "errors": [err[-800:]]}
    open(stamp, "w").write(fp)
    return st, True


def coq_project():
    with open(os.path.join(COQ, "_CoqProject.in")) as f:
        base = f.read()
    files = []
    for d in ("Base", "Gen", "Model", "Proof", "Props"):
        files += sorted(glob.glob(os.path.join(COQ, d, "*.v")))
    rel = [os.path.relpath(p, COQ) for p in files]
    new = base + "\n".join(rel) + "\n"
    p = os.path.join(COQ, "_CoqProject")
    if not os.path.exists(p) or open(p).read() != new or not os.path.exists(os.path.join(COQ, "Makefile")):
        open(p, "w").write(new)
        sh(["coq_makefile", "-f", "_CoqProject", "-o", "Makefile"], cwd=COQ)
    return rel


def coq_build(targets, timeout=1500):
    """make -k the given .vo targets.  Returns dict: ok, failed (list of .v), log, assumptions{thm: text}."""
    coq_project()
    # stale .vo of Gen files that no longer exist would be harmless; stale .vo of changed files are rebuilt by make
    rc, out, err = sh(["make", "-k", "-j%d" % NCPU] + targets, cwd=COQ, timeout=timeout)
    log = out + "\n" + err
    failed = sorted(set(re.findall(r'File "\./([^"]+\.v)", line \d+', log)) |
                    set(m + ".v" for m in re.findall(r"\*\*\* \[[^\]]*?: ([^\]\s]+)\.vo\] Error", log)))
    missing = [t for t in targets if not os.path.exists(os.path.join(COQ, t))]
    ok = (rc == 0) and not missing
    return {"ok": ok, "rc": rc, "failed": failed, "missing": missing, "log": log[-6000:]}


def assumptions_of(prop_file):
    """Re-run coqc on a (already compiled-deps) Props file to capture its Print Assumptions output."""
    rc, out, err = sh(["coqc", "-Q", "Base", "NsyncBase", "-Q", "Gen", "NsyncGen", "-Q", "Model", "NsyncModel",
                       "-Q", "Proof", "NsyncProof", "-Q", "Props", "NsyncProps", prop_file], cwd=COQ, timeout=900)
    txt = out.strip()
    blocks = [b.strip() for b in re.split(r"\n(?=Closed under|Axioms:)", txt) if b.strip()]
    return rc, blocks


GATE = re.compile(r"\b(Admitted|admit|Axiom|Axioms|Parameter|Parameters|Conjecture|Hypothesis|Hypotheses|Variable|Variables|"
                  r"Unset\s+Guard|bypass_check|Admit\s+Obligations|type-in-type|impredicative-set|"
                  r"Unset\s+Universe\s+Checking|Unset\s+Positivity)\b")


def strip_comments(s):
    out, depth, i = [], 0, 0
    while i < len(s):
        if s.startswith("(*", i):
            depth += 1; i += 2
        elif s.startswith("*)", i) and depth:
            depth -= 1; i += 2
        else:
            if not depth:
                out.append(s[i])
            i += 1
    return "".join(out)


def grep_gate():
    """No axioms/admits anywhere in the development.  Variable/Hypothesis are allowed only inside a Section."""
    bad = []
    for d in ("Base", "Gen", "Model", "Proof", "Props", "templates"):
        for p in sorted(glob.glob(os.path.join(COQ, d, "*.v")) + glob.glob(os.path.join(COQ, d, "*.v.in"))):
            txt = strip_comments(open(p).read())
            depth = 0
            for ln, line in enumerate(txt.splitlines(), 1):
                if re.match(r"\s*Section\b", line):
                    depth += 1
                if re.match(r"\s*End\b", line) and depth:
                    depth -= 1
                for m in GATE.finditer(line):
                    w = m.group(1)
                    if w in ("Variable", "Variables", "Hypothesis", "Hypotheses") and depth > 0:
                        continue
                    if w == "Axioms" and "Print" in line:
                        continue
                    bad.append("%s:%d: %s" % (os.path.relpath(p, VERIF), ln, line.strip()[:120]))
    return bad


def count_obligations(files):
    n = 0
    names = []
    for p in files:
        full = p if os.path.isabs(p) else os.path.join(COQ, p)
        if not os.path.exists(full):
            continue
        txt = strip_comments(open(full).read())
        for m in re.finditer(r"^\s*(?:Local\s+|Global\s+)?(Lemma|Theorem|Example|Corollary|Fact|Remark|Proposition)\s+([A-Za-z0-9_']+)", txt, re.M):
            n += 1
            names.append(m.group(2))
    return n, names


def cone(target_v):
    """Transitive project-local dependencies of a .v (via coqdep), including itself."""
    coq_project()
    rc, out, err = sh(["coqdep", "-f", "_CoqProject"], cwd=COQ, timeout=120)
    deps = {}
    for line in out.splitlines():
        if ":" not in line:
            continue
        lhs, rhs = line.split(":", 1)
        for t in lhs.split():
            if t.endswith(".vo"):
                deps[t[:-1]] = [x[:-1] for x in rhs.split() if x.endswith(".vo") and not x.startswith("/")]
    seen, todo = [], [target_v]
    while todo:
        x = todo.pop()
        if x in seen:
            continue
        seen.append(x)
        todo += deps.get(x, [])
    return sorted(seen)


def load_known_findings():
    p = os.path.join(VERIF, "known_findings.json")
    if not os.path.exists(p):
        return {"findings": [], "fixed": []}
    return json.load(open(p))


def write_evidence(pid, tier, seed, level, coverage, wall, violations, assumptions):
    os.makedirs(os.path.join(VERIF, "evidence"), exist_ok=True)
    ev = {"property_id": pid, "tier": tier, "seed": seed, "level": level, "coverage": coverage,
          "assumptions": assumptions, "wall_s": round(wall, 2), "violations": violations}
    with open(os.path.join(VERIF, "evidence", pid + ".json"), "w") as f:
        json.dump(ev, f, indent=1, default=str)
    return ev


def write_replay(pid, name, payload):
    d = os.path.join(VERIF, "_work", "replay")
    os.makedirs(d, exist_ok=True)
    p = os.path.join(d, "%s_%s.json" % (pid, name))
    with open(p, "w") as f:
        json.dump(payload, f, indent=1, default=str)
    return p


TRUSTED_BASE_COMMON = [
    "Coq 8.16.1 kernel (coqc; vm_compute used for finite sweeps and concrete witnesses; native_compute not used)",
    "gen/c2coq.py + gen/regen.py: translator from clang 14 JSON AST (and a compiled constant probe) to Gallina; "
    "trusted to render the accepted C subset faithfully and to refuse the rest; cross-checked on every run by "
    "differential execution of the translated functions against the compiled code",
    "no Axiom/Parameter/Admitted in the development (grep gate run on every check); Print Assumptions output "
    "recorded per theorem in coverage.print_assumptions",
]
