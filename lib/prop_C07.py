"""C07: nsync_run_once runs its function exactly once and nobody returns early."""
from vcommon import *
import scen_common, mu_common, vrt_runner

PID = "C07"
PROP_V = "Props/Properties_C07.v"
GEN_MODULES = ["Consts", "Sites"]
FLOW_FILES = ['once.c']
REPLAY_HINT = "VRT_SEED=<seed> _work/h/once_mix  (VRT_TRACE=<file>, then coq/_rp_once_replay/once_replay <file> coq/Gen/Sites.json)"
PARTIAL = ["C07_no_stuck / C07_progress: from every reachable world completion is possible within rank(w) steps and some thread can always strictly decrease "
           "the measure, under the explicit hypotheses that every once-function returns and every once_mu is obtainable when free (both shown necessary: "
           "C07_f_must_return, C07_lock_must_be_obtainable); termination under every fair schedule (Definition C07_fair_termination_full) is not proved -- it "
           "needs starvation-freedom of nsync_mu",
           "nested calls of nsync_run_once from inside a once-function are not modelled (the function is two opaque steps f-begin / f-end)"]
TRUSTED_BASE = ["Model/OnceModel.v control skeleton: hand-written, validated by lock-step replay of every once.c site plus the scenario's f-begin/f-end notes "
                "(order CAS < f-begin < f-end < store of 2 checked on every trace; replay/once_replay.ml)",
                "once_mu / once_cv are ABSTRACT (lock = atomic test-and-set when free, unlock, cv wait = release + a wait that the waiter's own step can always "
                "end + re-acquire; broadcast has no effect of its own): their correctness is nsync_mu / nsync_cv's (C01, C02, C04, C05); the replayer ties them to "
                "the trace only by (a) model lock free at every acquisition taken at the thread's next once.c site, (b) mu.c/cv.c activity present in a per-thread "
                "segment iff the model made a lock/cv step",
                "the map once -> once_sync slot is arbitrary in the theorems; the replay uses index mod 64 (array elements 0 and 64 share a slot)"]


def run(tier, seed):
    res = {"violations": [], "broken": [], "coverage": {}}
    base = seed * 100000
    exe, err = vrt_runner.build("once_mix")
    nrep = 400 if tier == "quick" else 4000
    steps, sites, mism = 0, {}, []
    if exe is None:
        res["broken"].append({"what": "harness build failed", "detail": err})
    else:
        replayer, err = mu_common.build_replayer("once_replay")
        if replayer is None:
            res["broken"].append({"what": "replayer build failed", "detail": err})
        else:
            rr = mu_common.replay_many(replayer, exe, range(base + 1, base + 1 + nrep), {"VRT_NOBJ": 2})
            steps, sites, mism = mu_common.replay_summary(rr)
            for m in mism[:3]:
                res["broken"].append({"what": "correspondence: OnceModel and the real once.c disagree in lock-step", "scenario": "once_mix",
                                      "seed": m["seed"], "detail": m["replay"]})
    cov = scen_common.run_scenarios(res, [("once_mix", {"VRT_NOBJ": 2}, 2500, 50000), ("once_mix", {"VRT_NOBJ": 3}, 1000, 20000)], tier, seed,
                                    {"C07"} | scen_common.LIVENESS | scen_common.CRASHES)
    cov["rule"] = ("once_mix: 2..4 callers x 1..2 calls mixing run_once / _arg / _spin / _arg_spin on 2..3 nsync_once objects, two of which share "
                   "an internal once_sync slot; the once function has a scheduling point inside; afterwards each thread calls again on the objects "
                   "it used (must not block); non-trivial = runs in which some caller slept")
    cov["traces_validated_against_impl"] = nrep - len(mism)
    cov["lockstep_model_steps"] = steps
    cov["model_sites_hit"] = sites
    res["coverage"] = cov
    return res
