"""Run harness scenarios for a property and turn oracle failures into violations."""
import os
from vcommon import *
import vrt_runner


def run_scenarios(res, specs, tier, seed, relevant, label_nontrivial="futex_sleep"):
    """specs: list of (scenario, env, n_quick, n_thorough).  relevant: set of oracle classes that are violations of THIS
    property (others found on the way are listed under coverage.other_oracle_failures, not raised)."""
    base = seed * 100000
    total = 0
    nontriv = 0
    agg = {}
    other = []
    samples = []
    for spec in specs:
        scen, env, nq, nt = spec[:4]
        flavour = spec[4] if len(spec) > 4 else None
        exe, err = vrt_runner.build(scen, flavour=flavour)
        if exe is None:
            res["broken"].append({"what": "harness build failed (%s): the code under test does not compile against the runtime" % scen, "detail": err})
            continue
        n = nq if tier == "quick" else nt
        e2 = dict(env)
        e2["VRT_QUIET"] = 1
        rs = vrt_runner.run_many(exe, range(base + 1, base + 1 + n), e2)
        a2, fails = vrt_runner.summarize(rs)
        total += n
        nontriv += sum(1 for r in rs if r.get("stats", {}).get(label_nontrivial, 0) > 0)
        for k, v in a2.items():
            agg["%s.%s" % (scen, k)] = agg.get("%s.%s" % (scen, k), 0) + v
        if rs:
            samples.append({"scenario": scen, "env": env, "semaphore": flavour or "counting", "seed": rs[0]["seed"], "stats": rs[0].get("stats")})
        seen = set()
        for f in fails:
            if f["prop"] in seen:
                continue
            seen.add(f["prop"])
            item = {"scenario": scen, "env": env, "semaphore": flavour or "counting", "seed": f["seed"], "oracle": f["prop"], "why": f["msg"],
                    "trace_tail": f.get("tail", []), "key": "%s:%s" % (scen, f["prop"])}
            if f["prop"] in relevant:
                res["violations"].append(item)
            else:
                other.append({k: item[k] for k in ("scenario", "env", "seed", "oracle", "why")})
    return {"evaluations": total, "distinct_nontrivial": nontriv, "sched_stats": agg, "samples": samples,
            "other_oracle_failures": other}


LIVENESS = {"STUCK", "BUDGET", "HANG"}
CRASHES = {"CRASH", "EXIT"}
MEMORY = {"UAF", "DEADSTACK"}
