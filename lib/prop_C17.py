"""C17: dll.c implements sequences.  Proof over the regenerated translation + differential run of the real dll.c."""
import os, random, time, itertools
from vcommon import *

PID = "C17"
PROP_V = "Props/Properties_C17.v"
GEN_MODULES = ["Dll"]
REPLAY_HINT = "feed case.ops to _work/c17/drv (harness/seq/dll_driver.c built against /repo/internal/dll.c)"


def build_driver():
    d = os.path.join(WORK, "c17")
    os.makedirs(d, exist_ok=True)
    rc, o, e = sh(["gcc", "-O1", "-g", "-w", "-fsanitize=address,undefined", "-fno-sanitize-recover=all"] +
                  ["-I%s/%s" % (REPO, i) for i in C_INC] +
                  [os.path.join(VERIF, "harness/seq/dll_driver.c"), REPO + "/internal/dll.c", "-o", d + "/drv"])
    return (d + "/drv", None) if rc == 0 else (None, e[-600:])


class Abs:
    """The abstract sequences (Python lists), i.e. the property's own oracle."""
    def __init__(self, nel, nempty):
        self.l = [[i] for i in range(1, nel + 1)] + [[] for _ in range(nempty)]

    def ok(self, o):
        k = o[0]
        L = self.l
        if k in "FL":
            _, i, j = o
            return i != j and i < len(L) and j < len(L) and len(L[j]) > 0
        if k == "R":
            _, i, kk = o
            return i < len(L) and kk < len(L[i])
        _, i, kk, j = o
        return i != j and i < len(L) and j < len(L) and kk + 1 < len(L[i]) and len(L[j]) > 0

    def apply(self, o):
        L = self.l
        k = o[0]
        if k == "F":
            _, i, j = o; L[i] = L[j] + L[i]; L[j] = []
        elif k == "L":
            _, i, j = o; L[i] = L[i] + L[j]; L[j] = []
        elif k == "R":
            _, i, kk = o; e = L[i][kk]; L[i] = L[i][:kk] + L[i][kk + 1:]; L.append([e])
        else:
            _, i, kk, j = o; L[i] = L[i][:kk + 1] + L[j] + L[i][kk + 1:]; L[j] = []

    def all_ops(self):
        n = len(self.l)
        out = []
        for i in range(n):
            for j in range(n):
                for k in "FL":
                    if self.ok((k, i, j)):
                        out.append((k, i, j))
                for kk in range(len(self.l[i])):
                    if self.ok(("S", i, kk, j)):
                        out.append(("S", i, kk, j))
            for kk in range(len(self.l[i])):
                out.append(("R", i, kk))
        return out


def gen_random(rnd, nel, nempty, length):
    a = Abs(nel, nempty)
    ops = []
    for _ in range(length):
        cand = a.all_ops()
        # prefer structure-changing variety: weight removes lower when few elements are linked
        o = rnd.choice(cand)
        ops.append(o)
        a.apply(o)
    return ops


def gen_exhaustive(nel, nempty, depth):
    seqs = []

    def rec(a_ops, a, d):
        seqs.append(list(a_ops))
        if d == 0:
            return
        for o in a.all_ops():
            b = Abs(0, 0)
            b.l = [list(x) for x in a.l]
            b.apply(o)
            rec(a_ops + [o], b, d - 1)
    rec([], Abs(nel, nempty), depth)
    return [s for s in seqs if s]


def exp_line(L):
    """The line harness/seq/dll_driver.c prints for these abstract sequences: per list the emptiness flag, the forward traversal
    (first/next) and the backward traversal (last/prev)."""
    return "".join("%d%s:%s |%s ;" % (i, "n" if x else "e", "".join(" %d" % e for e in x), "".join(" %d" % e for e in reversed(x)))
                   for i, x in enumerate(L))


def tree_chunk(args):
    """Exhaustive part, one subtree: EVERY operation sequence of length <= depth that starts with the ops `prefix`, over nel
    singleton lists + nempty empty lists.  The driver walks the tree of sequences (T = save state, apply, print; O = restore), so
    each sequence is executed on exactly the memory its prefix produced; after every operation all lists are compared with the
    abstract sequences.  Returns (nodes, nontrivial, op_counts, failure) with failure = None or (ops, message); nodes counts the
    sequences of length >= len(prefix) (the shorter ones are checked in every chunk they lead to and counted by the caller)."""
    drv, nel, nempty, prefix, depth = args
    inp = ["N %d %d" % (nel, nempty)]
    expect, parent, opof = [], [], []
    counts = {"F": 0, "L": 0, "R": 0, "S": 0}
    tot = [0, 0]
    np = len(prefix)

    def rec(a, lvl, par, nt):
        for o in ([prefix[lvl]] if lvl < np else a.all_ops()):
            b = Abs(0, 0)
            b.l = [list(x) for x in a.l]
            b.apply(o)
            inp.append("T " + " ".join(map(str, o)))
            me = len(expect)
            expect.append(exp_line(b.l))
            parent.append(par)
            opof.append(o)
            nt2 = nt or o[0] in "SR" or any(len(x) >= 3 for x in b.l)
            if lvl >= np - 1:
                counts[o[0]] += 1
                tot[0] += 1
                tot[1] += 1 if nt2 else 0
            if lvl + 1 < depth:
                rec(b, lvl + 1, me, nt2)
            inp.append("O")
    rec(Abs(nel, nempty), 0, -1, False)
    text = "\n".join(inp) + "\n"
    rc, out, err = sh([drv], input=text, timeout=3600)
    lines = out.splitlines()
    if rc != 0 or len(lines) != len(expect) or not out.endswith("\n"):
        # crashed: buffered output is lost, so run again with a flush after every line -- the first missing line is the crashing op
        env = dict(os.environ)
        env["DLL_DRIVER_FLUSH"] = "1"
        rc, out, err = sh([drv], input=text, timeout=3600, env=env)
        lines = out.splitlines()
        if not out.endswith("\n"):
            lines = lines[:-1]

    def path(k):
        ops = []
        while k >= 0:
            ops.append(opof[k])
            k = parent[k]
        return list(reversed(ops))
    fail = None
    for k, want in enumerate(expect):
        if k >= len(lines):
            fail = (path(k), "implementation crashed or produced no output (exit %s): %s" % (rc, err[-300:]))
            break
        if lines[k] != want:
            fail = (path(k), "traversals after %r are %r, the abstract sequences give %r" % (opof[k], lines[k], want))
            break
    if fail is None and rc != 0:
        fail = (list(prefix), "driver exit %s: %s" % (rc, err[-300:]))
    return tot[0], tot[1], counts, fail


def run_exhaustive(drv, nel, nempty, depth, split=1):
    """All operation sequences of length 1..depth (see tree_chunk): one subtree per sequence of length `split`, subtrees in
    parallel.  Returns (number of sequences, non-trivial ones, op counts, failures)."""
    import concurrent.futures as cf
    split = min(split, depth)
    prefixes = [[]]
    shorter = 0
    for lvl in range(split):
        nxt = []
        for pre in prefixes:
            a = Abs(nel, nempty)
            for o in pre:
                a.apply(o)
            nxt += [pre + [o] for o in a.all_ops()]
        if lvl < split - 1:
            shorter += len(nxt)
        prefixes = nxt
    nodes, nontriv = shorter, 0
    counts = {}
    fails = []
    with cf.ProcessPoolExecutor(max_workers=NCPU) as ex:
        for n, nt, c, f in ex.map(tree_chunk, [(drv, nel, nempty, pre, depth) for pre in prefixes], chunksize=1):
            nodes += n
            nontriv += nt
            for k, v in c.items():
                counts[k] = counts.get(k, 0) + v
            if f and len(fails) < 20:
                fails.append(f)
    return nodes, nontriv, counts, fails


def run_impl(drv, cases):
    """cases: list of (nel, nempty, ops).  Returns per case the list of printed states (one per op)."""
    inp = []
    for nel, nempty, ops in cases:
        inp.append("N %d %d" % (nel, nempty))
        for o in ops:
            inp.append(" ".join(str(x) for x in o))
            inp.append("P")
    rc, out, err = sh([drv], input="\n".join(inp) + "\n", timeout=600)
    lines = out.splitlines()
    res, k = [], 0
    for nel, nempty, ops in cases:
        res.append(lines[k:k + len(ops)])
        k += len(ops)
    return rc, res, err


def parse_state(line):
    lists = []
    for part in line.split(";"):
        part = part.strip()
        if not part:
            continue
        head, rest = part.split(":", 1)
        fwd, bwd = rest.split("|")
        lists.append((head.endswith("e"), [int(x) for x in fwd.split()], [int(x) for x in bwd.split()]))
    return lists


def model_diff(cases, finals):
    """Evaluate Gen/Dll through DllSpec.run on the same op sequences; compare final traversals with the implementation's."""
    d = os.path.join(WORK, "c17")
    path = os.path.join(d, "cases.v")
    L = ["From NsyncBase Require Import CSem.", "From NsyncGen Require Import Dll.",
         "From NsyncProof Require Import DllSpec.", "Local Open Scope Z_scope.",
         "Definition h0 (n : nat) : heap := fold_left (fun h i => nsync_dll_init_ h (Z.of_nat i) (Z.of_nat i)) (seq 1 n) (fun _ => zero_nsync_dll_element_s_).",
         "Definition st0 (n e : nat) : lists := map (fun i => (Z.of_nat i, [Z.of_nat i])) (seq 1 n) ++ repeat (0, []) e.",
         "Definition trav (n e : nat) (ops : list op) : list (list Z * list Z) :=",
         "  match run (h0 n) (st0 n e) ops with",
         "  | Some (h, st) => map (fun p => (traverse_fwd h (fst p) (S (length (snd p))), traverse_bwd h (fst p) (S (length (snd p))))) st",
         "  | None => [([-1], [-1])] end.",
         "Fixpoint eqlz (a b : list Z) : bool := match a, b with [], [] => true | x :: a', y :: b' => (x =? y) && eqlz a' b' | _, _ => false end.",
         "Fixpoint eqall (a b : list (list Z * list Z)) : bool := match a, b with [], [] => true | (x1, x2) :: a', (y1, y2) :: b' => eqlz x1 y1 && eqlz x2 y2 && eqall a' b' | _, _ => false end.",
         "Definition chk (i : Z) (ok : bool) : list Z := if ok then [] else [i]."]

    def opc(o):
        if o[0] == "F":
            return "OpFirst %d %d" % (o[1], o[2])
        if o[0] == "L":
            return "OpLast %d %d" % (o[1], o[2])
        if o[0] == "R":
            return "OpRemove %d %d" % (o[1], o[2])
        return "OpSplice %d %d %d" % (o[1], o[2], o[3])

    def zl(xs):
        return "[" + "; ".join(str(x) for x in xs) + "]"
    names = []
    shard = 150
    for k in range(0, len(cases), shard):
        body = []
        for i in range(k, min(k + shard, len(cases))):
            nel, nempty, ops = cases[i]
            exp = "[" + "; ".join("(%s, %s)" % (zl(f), zl(b)) for (_, f, b) in finals[i]) + "]"
            body.append("chk %d (eqall (trav %d %d [%s]) %s)" % (i, nel, nempty, "; ".join(opc(o) for o in ops), exp))
        nm = "bad_%d" % k
        names.append(nm)
        L.append("Definition %s := Eval vm_compute in (%s)." % (nm, " ++ ".join(body)))
    L.append("Definition all_bad := Eval vm_compute in (%s)." % " ++ ".join(names))
    L.append("Print all_bad.")
    open(path, "w").write("\n".join(L) + "\n")
    rc, out, err = sh(["coqc", "-Q", "Base", "NsyncBase", "-Q", "Gen", "NsyncGen", "-Q", "Proof", "NsyncProof", path],
                      cwd=COQ, timeout=900)
    if rc != 0:
        return None, (err or out)[-600:]
    m = re.search(r"all_bad\s*=\s*(.*?)\s*:\s*list Z", out, re.S)
    if not m:
        return None, "cannot parse coqc output"
    return [int(x) for x in re.findall(r"-?\d+", m.group(1))], None


def diagnose(drv, case, dflt):
    """Message for a (shrunk) failing case: the first operation after which the real lists differ from the abstract sequences."""
    nel, nempty, ops = case
    rc, res, err = run_impl(drv, [(nel, nempty, ops)])
    a = Abs(nel, nempty)
    for k, o in enumerate(ops):
        a.apply(o)
        if k >= len(res[0]):
            return "implementation crashed or produced no output after %r (exit %s): %s" % (o, rc, err[-300:])
        st = parse_state(res[0][k])
        if [f for (_, f, _) in st] != a.l:
            return "forward traversal %r differs from the abstract sequences %r after %r" % ([f for (_, f, _) in st], a.l, o)
        if [b for (_, _, b) in st] != [list(reversed(x)) for x in a.l]:
            return "backward traversal %r differs from the reversed abstract sequences %r after %r" % ([b for (_, _, b) in st], a.l, o)
        if [e for (e, _, _) in st] != [len(x) == 0 for x in a.l]:
            return "is_empty wrong after %r" % (o,)
    return dflt


def shrink(drv, case):
    """Greedy removal of ops while the implementation still disagrees with the abstract sequences."""
    nel, nempty, ops = case

    def fails(ops):
        a = Abs(nel, nempty)
        for o in ops:
            if not a.ok(o):
                return False
            a.apply(o)
        rc, res, err = run_impl(drv, [(nel, nempty, ops)])
        if rc != 0:
            return True
        a = Abs(nel, nempty)
        for o, line in zip(ops, res[0]):
            a.apply(o)
            st = parse_state(line)
            if [f for (_, f, _) in st] != a.l or [b for (_, _, b) in st] != [list(reversed(x)) for x in a.l]:
                return True
        return False
    cur = list(ops)
    changed = True
    while changed:
        changed = False
        for i in range(len(cur)):
            cand = cur[:i] + cur[i + 1:]
            if cand and fails(cand):
                cur = cand
                changed = True
                break
    return cur


def run(tier, seed):
    t0 = time.time()
    res = {"violations": [], "broken": [], "coverage": {}}
    drv, err = build_driver()
    if drv is None:
        res["broken"].append({"what": "real dll.c does not compile with the driver", "detail": err})
        return res
    rnd = random.Random(seed)
    cases = []
    # exhaustive part ("up to 5 elements and 2 lists"): (elements, spare empty lists, length bound, chunking).  Every element starts
    # as a singleton list, so group moves (make_first / make_last of a multi-element list onto a non-empty list, splice_after at every
    # inner position of every list) appear from length 2 on.
    exh_cfg = [(5, 2, 3, 1), (4, 2, 4, 1)] if tier == "quick" else [(5, 2, 4, 1), (4, 2, 5, 2)]
    exh_nodes = exh_nontriv = 0
    exh_counts = {}
    for (nel, nempty, depth, split) in exh_cfg:
        n, nt, cnt, fails = run_exhaustive(drv, nel, nempty, depth, split)
        exh_nodes += n
        exh_nontriv += nt
        for k, v in cnt.items():
            exh_counts[k] = exh_counts.get(k, 0) + v
        for ops, why in fails[:3]:
            small = shrink(drv, (nel, nempty, ops))
            res["violations"].append({"case": {"nel": nel, "nempty": nempty, "ops": small}, "why": diagnose(drv, (nel, nempty, small), why),
                                      "key": "dll:" + " ".join(map(str, small[:1]))})
        if fails:
            break
    res["violations"] = res["violations"][:3]
    # a small exhaustive set also goes through the sequence-at-a-time protocol below (and from there to the Coq evaluation of Gen/Dll.v)
    for ops in gen_exhaustive(3, 1, 2):
        cases.append((3, 1, ops))
    nrand = 300 if tier == "quick" else 3000
    for _ in range(nrand):
        nel = rnd.choice([2, 3, 5, 5, 8])
        cases.append((nel, 2, gen_random(rnd, nel, 2, rnd.choice([3, 8, 20, 40]))))
    rc, outs, err = run_impl(drv, cases)
    nontrivial = set()
    finals = []
    for ci, ((nel, nempty, ops), lines) in enumerate(zip(cases, outs)):
        a = Abs(nel, nempty)
        bad = None
        if len(lines) != len(ops):
            bad = "implementation crashed or produced no output (exit %d): %s" % (rc, err[-300:])
        else:
            for o, line in zip(ops, lines):
                a.apply(o)
                st = parse_state(line)
                if [f for (_, f, _) in st] != a.l:
                    bad = "forward traversal %r differs from the abstract sequences %r after %r" % ([f for (_, f, _) in st], a.l, o)
                    break
                if [b for (_, _, b) in st] != [list(reversed(x)) for x in a.l]:
                    bad = "backward traversal differs from the reversed abstract sequences after %r" % (o,)
                    break
                if [e for (e, _, _) in st] != [len(x) == 0 for x in a.l]:
                    bad = "is_empty wrong after %r" % (o,)
                    break
        if bad:
            small = shrink(drv, (nel, nempty, ops))
            res["violations"].append({"case": {"nel": nel, "nempty": nempty, "ops": small}, "why": diagnose(drv, (nel, nempty, small), bad),
                                      "key": "dll:" + " ".join(map(str, small[:1]))})
            finals.append(None)
            if len(res["violations"]) >= 3:
                break
        else:
            finals.append(parse_state(lines[-1]) if lines else [])
            if any(len(x) >= 3 for x in a.l) or any(o[0] in "SR" for o in ops):
                nontrivial.add((nel, tuple(ops)))
    res["violations"] = res["violations"][:3]
    diffs = 0
    st = json.load(open(os.path.join(GEN, "STATUS.json")))
    if st.get("Dll", {}).get("ok") and not res["violations"] and os.path.exists(os.path.join(COQ, "Proof/DllSpec.vo")):
        sub = [i for i in range(len(cases)) if finals[i] is not None]
        if tier == "quick":
            sub = sub[:600]
        bad, err = model_diff([cases[i] for i in sub], [finals[i] for i in sub])
        if bad is None:
            res["broken"].append({"what": "model evaluation failed", "detail": err})
        else:
            diffs = len(sub)
            for i in bad[:3]:
                res["broken"].append({"what": "correspondence: Gen/Dll.v and the real dll.c disagree",
                                      "case": cases[sub[i]]})
    kinds = dict(exh_counts)
    for c in cases:
        for o in c[2]:
            kinds[o[0]] = kinds.get(o[0], 0) + 1
    res["coverage"] = {"evaluations": len(cases) + exh_nodes, "distinct_nontrivial": len(nontrivial) + exh_nontriv,
                       "rule": "EVERY op sequence of length <= L over n singleton lists + 2 empty lists for (n, L) in %s (%d sequences, walked as a "
                               "tree by the driver: each sequence runs on the memory its prefix left), plus %d random sequences "
                               "(length 3..40, 2..8 elements, 2 extra lists) drawn from VERIF_SEED; after every op all lists are "
                               "traversed forwards and backwards by the real functions and compared with Python lists; "
                               "non-trivial = contains a remove or splice, or builds a list of >= 3 elements"
                               % ([(c[0], c[2]) for c in exh_cfg], exh_nodes, nrand),
                       "exhaustive_sequences": exh_nodes, "op_counts": kinds, "traces_validated_against_impl": diffs,
                       "samples": [{"nel": c[0], "ops": [list(o) for o in c[2][:8]]} for c in cases[-3:]]}
    return res
