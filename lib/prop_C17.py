"""C17: dll.c implements sequences.  Proof over the regenerated translation + differential run of the real dll.c."""
import os, random, time, itertools
from vcommon import *

PID = "C17"
PROP_V = "Props/Properties_C17.v"
GEN_MODULES = ["Dll"]
REPLAY_HINT = "feed case.ops to _work/c17/drv (harness/seq/dll_driver.c built against /repo/internal/dll.c)"


def build_driver():
    d = os.path.join(WORK, "c17")
    os.makedirs(d, exist_ok=True)
    rc, o, e = sh(["gcc", "-O1", "-g", "-w", "-fsanitize=address,undefined", "-fno-sanitize-recover=all"] +
                  ["-I%s/%s" % (REPO, i) for i in C_INC] +
                  [os.path.join(VERIF, "harness/seq/dll_driver.c"), REPO + "/internal/dll.c", "-o", d + "/drv"])
    return (d + "/drv", None) if rc == 0 else (None, e[-600:])


class Abs:
    """The abstract sequences (Python lists), i.e. the property's own oracle."""
    def __init__(self, nel, nempty):
        self.l = [[i] for i in range(1, nel + 1)] + [[] for _ in range(nempty)]

    def ok(self, o):
        k = o[0]
        L = self.l
        if k in "FL":
            _, i, j = o
            return i != j and i < len(L) and j < len(L) and len(L[j]) > 0
        if k == "R":
            _, i, kk = o
            return i < len(L) and kk < len(L[i])
        _, i, kk, j = o
        return i != j and i < len(L) and j < len(L) and kk + 1 < len(L[i]) and len(L[j]) > 0

    def apply(self, o):
        L = self.l
        k = o[0]
        if k == "F":
            _, i, j = o; L[i] = L[j] + L[i]; L[j] = []
        elif k == "L":
            _, i, j = o; L[i] = L[i] + L[j]; L[j] = []
        elif k == "R":
            _, i, kk = o; e = L[i][kk]; L[i] = L[i][:kk] + L[i][kk + 1:]; L.append([e])
        else:
            _, i, kk, j = o; L[i] = L[i][:kk + 1] + L[j] + L[i][kk + 1:]; L[j] = []

    def all_ops(self):
        n = len(self.l)
        out = []
        for i in range(n):
            for j in range(n):
                for k in "FL":
                    if self.ok((k, i, j)):
                        out.append((k, i, j))
                for kk in range(len(self.l[i])):
                    if self.ok(("S", i, kk, j)):
                        out.append(("S", i, kk, j))
            for kk in range(len(self.l[i])):
                out.append(("R", i, kk))
        return out


def gen_random(rnd, nel, nempty, length):
    a = Abs(nel, nempty)
    ops = []
    for _ in range(length):
        cand = a.all_ops()
        # prefer structure-changing variety: weight removes lower when few elements are linked
        o = rnd.choice(cand)
        ops.append(o)
        a.apply(o)
    return ops


def gen_exhaustive(nel, nempty, depth):
    seqs = []

    def rec(a_ops, a, d):
        seqs.append(list(a_ops))
        if d == 0:
            return
        for o in a.all_ops():
            b = Abs(0, 0)
            b.l = [list(x) for x in a.l]
            b.apply(o)
            rec(a_ops + [o], b, d - 1)
    rec([], Abs(nel, nempty), depth)
    return [s for s in seqs if s]


def run_impl(drv, cases):
    """cases: list of (nel, nempty, ops).  Returns per case the list of printed states (one per op)."""
    inp = []
    for nel, nempty, ops in cases:
        inp.append("N %d %d" % (nel, nempty))
        for o in ops:
            inp.append(" ".join(str(x) for x in o))
            inp.append("P")
    rc, out, err = sh([drv], input="\n".join(inp) + "\n", timeout=600)
    lines = out.splitlines()
    res, k = [], 0
    for nel, nempty, ops in cases:
        res.append(lines[k:k + len(ops)])
        k += len(ops)
    return rc, res, err


def parse_state(line):
    lists = []
    for part in line.split(";"):
        part = part.strip()
        if not part:
            continue
        head, rest = part.split(":", 1)
        fwd, bwd = rest.split("|")
        lists.append((head.endswith("e"), [int(x) for x in fwd.split()], [int(x) for x in bwd.split()]))
    return lists


def model_diff(cases, finals):
    """Evaluate Gen/Dll through DllSpec.run on the same op sequences; compare final traversals with the implementation's."""
    d = os.path.join(WORK, "c17")
    path = os.path.join(d, "cases.v")
    L = ["From NsyncBase Require Import CSem.", "From NsyncGen Require Import Dll.",
         "From NsyncProof Require Import DllSpec.", "Local Open Scope Z_scope.",
         "Definition h0 (n : nat) : heap := fold_left (fun h i => nsync_dll_init_ h (Z.of_nat i) (Z.of_nat i)) (seq 1 n) (fun _ => zero_nsync_dll_element_s_).",
         "Definition st0 (n e : nat) : lists := map (fun i => (Z.of_nat i, [Z.of_nat i])) (seq 1 n) ++ repeat (0, []) e.",
         "Definition trav (n e : nat) (ops : list op) : list (list Z * list Z) :=",
         "  match run (h0 n) (st0 n e) ops with",
         "  | Some (h, st) => map (fun p => (traverse_fwd h (fst p) (S (length (snd p))), traverse_bwd h (fst p) (S (length (snd p))))) st",
         "  | None => [([-1], [-1])] end.",
         "Fixpoint eqlz (a b : list Z) : bool := match a, b with [], [] => true | x :: a', y :: b' => (x =? y) && eqlz a' b' | _, _ => false end.",
         "Fixpoint eqall (a b : list (list Z * list Z)) : bool := match a, b with [], [] => true | (x1, x2) :: a', (y1, y2) :: b' => eqlz x1 y1 && eqlz x2 y2 && eqall a' b' | _, _ => false end.",
         "Definition chk (i : Z) (ok : bool) : list Z := if ok then [] else [i]."]

    def opc(o):
        if o[0] == "F":
            return "OpFirst %d %d" % (o[1], o[2])
        if o[0] == "L":
            return "OpLast %d %d" % (o[1], o[2])
        if o[0] == "R":
            return "OpRemove %d %d" % (o[1], o[2])
        return "OpSplice %d %d %d" % (o[1], o[2], o[3])

    def zl(xs):
        return "[" + "; ".join(str(x) for x in xs) + "]"
    names = []
    shard = 150
    for k in range(0, len(cases), shard):
        body = []
        for i in range(k, min(k + shard, len(cases))):
            nel, nempty, ops = cases[i]
            exp = "[" + "; ".join("(%s, %s)" % (zl(f), zl(b)) for (_, f, b) in finals[i]) + "]"
            body.append("chk %d (eqall (trav %d %d [%s]) %s)" % (i, nel, nempty, "; ".join(opc(o) for o in ops), exp))
        nm = "bad_%d" % k
        names.append(nm)
        L.append("Definition %s := Eval vm_compute in (%s)." % (nm, " ++ ".join(body)))
    L.append("Definition all_bad := Eval vm_compute in (%s)." % " ++ ".join(names))
    L.append("Print all_bad.")
    open(path, "w").write("\n".join(L) + "\n")
    rc, out, err = sh(["coqc", "-Q", "Base", "NsyncBase", "-Q", "Gen", "NsyncGen", "-Q", "Proof", "NsyncProof", path],
                      cwd=COQ, timeout=900)
    if rc != 0:
        return None, (err or out)[-600:]
    m = re.search(r"all_bad\s*=\s*(.*?)\s*:\s*list Z", out, re.S)
    if not m:
        return None, "cannot parse coqc output"
    return [int(x) for x in re.findall(r"-?\d+", m.group(1))], None


def shrink(drv, case):
    """Greedy removal of ops while the implementation still disagrees with the abstract sequences."""
    nel, nempty, ops = case

    def fails(ops):
        a = Abs(nel, nempty)
        for o in ops:
            if not a.ok(o):
                return False
            a.apply(o)
        rc, res, err = run_impl(drv, [(nel, nempty, ops)])
        if rc != 0:
            return True
        a = Abs(nel, nempty)
        for o, line in zip(ops, res[0]):
            a.apply(o)
            st = parse_state(line)
            if [f for (_, f, _) in st] != a.l or [b for (_, _, b) in st] != [list(reversed(x)) for x in a.l]:
                return True
        return False
    cur = list(ops)
    changed = True
    while changed:
        changed = False
        for i in range(len(cur)):
            cand = cur[:i] + cur[i + 1:]
            if cand and fails(cand):
                cur = cand
                changed = True
                break
    return cur


def run(tier, seed):
    t0 = time.time()
    res = {"violations": [], "broken": [], "coverage": {}}
    drv, err = build_driver()
    if drv is None:
        res["broken"].append({"what": "real dll.c does not compile with the driver", "detail": err})
        return res
    rnd = random.Random(seed)
    cases = []
    exh_depth = 2 if tier == "quick" else 3
    for ops in gen_exhaustive(3, 1, exh_depth):
        cases.append((3, 1, ops))
    nrand = 300 if tier == "quick" else 3000
    for _ in range(nrand):
        nel = rnd.choice([2, 3, 5, 5, 8])
        cases.append((nel, 2, gen_random(rnd, nel, 2, rnd.choice([3, 8, 20, 40]))))
    rc, outs, err = run_impl(drv, cases)
    nontrivial = set()
    finals = []
    for ci, ((nel, nempty, ops), lines) in enumerate(zip(cases, outs)):
        a = Abs(nel, nempty)
        bad = None
        if len(lines) != len(ops):
            bad = "implementation crashed or produced no output (exit %d): %s" % (rc, err[-300:])
        else:
            for o, line in zip(ops, lines):
                a.apply(o)
                st = parse_state(line)
                if [f for (_, f, _) in st] != a.l:
                    bad = "forward traversal %r differs from the abstract sequences %r after %r" % ([f for (_, f, _) in st], a.l, o)
                    break
                if [b for (_, _, b) in st] != [list(reversed(x)) for x in a.l]:
                    bad = "backward traversal differs from the reversed abstract sequences after %r" % (o,)
                    break
                if [e for (e, _, _) in st] != [len(x) == 0 for x in a.l]:
                    bad = "is_empty wrong after %r" % (o,)
                    break
        if bad:
            small = shrink(drv, (nel, nempty, ops))
            res["violations"].append({"case": {"nel": nel, "nempty": nempty, "ops": small}, "why": bad,
                                      "key": "dll:" + " ".join(map(str, small[:1]))})
            if len(res["violations"]) >= 3:
                break
            finals.append(None)
        else:
            finals.append(parse_state(lines[-1]) if lines else [])
            if any(len(x) >= 3 for x in a.l) or any(o[0] in "SR" for o in ops):
                nontrivial.add((nel, tuple(ops)))
    diffs = 0
    st = json.load(open(os.path.join(GEN, "STATUS.json")))
    if st.get("Dll", {}).get("ok") and not res["violations"] and os.path.exists(os.path.join(COQ, "Proof/DllSpec.vo")):
        sub = [i for i in range(len(cases)) if finals[i] is not None]
        if tier == "quick":
            sub = sub[:600]
        bad, err = model_diff([cases[i] for i in sub], [finals[i] for i in sub])
        if bad is None:
            res["broken"].append({"what": "model evaluation failed", "detail": err})
        else:
            diffs = len(sub)
            for i in bad[:3]:
                res["broken"].append({"what": "correspondence: Gen/Dll.v and the real dll.c disagree",
                                      "case": cases[sub[i]]})
    kinds = {}
    for c in cases:
        for o in c[2]:
            kinds[o[0]] = kinds.get(o[0], 0) + 1
    res["coverage"] = {"evaluations": len(cases), "distinct_nontrivial": len(nontrivial),
                       "rule": "exhaustive op sequences up to length %d over 3 elements + 1 empty list, plus %d random sequences "
                               "(length 3..40, 2..8 elements, 2 extra lists) drawn from VERIF_SEED; after every op all lists are "
                               "traversed forwards and backwards by the real functions and compared with Python lists; "
                               "non-trivial = contains a remove or splice, or builds a list of >= 3 elements" % (exh_depth, nrand),
                       "op_counts": kinds, "traces_validated_against_impl": diffs,
                       "samples": [{"nel": c[0], "ops": [list(o) for o in c[2][:8]]} for c in cases[-3:]]}
    return res
