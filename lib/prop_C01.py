"""C01: writer exclusion / reader sharing."""
import os, time
from vcommon import *
import vrt_runner, mu_common

PID = "C01"
PROP_V = "Props/Properties_C01.v"
GEN_MODULES = ["Consts", "Sites"]
REPLAY_HINT = "VRT_SEED=<seed> [env] _work/h/<scenario>  (deterministic: same seed, same schedule); add VRT_TRACE=<file> for the step trace"
PARTIAL = ["C01_exclusion is proved for the condition-free mutex model (lock/rlock/trylock/rtrylock/unlock/runlock with the slow paths); "
           "the re-acquisitions inside nsync_cv_wait*, nsync_mu_wait* and nsync_wait_n are covered by the occupancy oracle over "
           "sampled schedules, not yet by a theorem"]
TRUSTED_BASE = ["Model/MuModel.v control skeleton: hand-written, validated by lock-step replay of implementation traces "
                "(replay/mu_replay.ml over the extracted model; extraction uses ExtrOcamlBasic only)",
                "harness/rt/vrt.c deterministic runtime: modelled futex, virtual clock, allocator"]


def run(tier, seed):
    res = {"violations": [], "broken": [], "coverage": {}}
    exe, err = vrt_runner.build("mu_mix")
    if exe is None:
        res["broken"].append({"what": "harness build failed", "detail": err})
        return res
    base = seed * 100000
    # 1. tie: lock-step replay of real traces through the extracted model
    replayer, err = mu_common.build_replayer()
    nrep = 300 if tier == "quick" else 3000
    steps, sites, mism = 0, {}, []
    if replayer is None:
        res["broken"].append({"what": "replayer build failed", "detail": err})
    else:
        rr = mu_common.replay_many(replayer, exe, range(base + 1, base + 1 + nrep))
        steps, sites, mism = mu_common.replay_summary(rr)
        for m in mism[:3]:
            res["broken"].append({"what": "correspondence: MuModel and the real mu.c disagree in lock-step", "scenario": "mu_mix",
                                  "seed": m["seed"], "detail": m["replay"]})
    # 2. oracle: shadow occupancy over many schedules (both with and without a designated late arrival)
    nrun = 3000 if tier == "quick" else 60000
    rs = vrt_runner.run_many(exe, range(base + 1, base + 1 + nrun), {"VRT_QUIET": 1})
    agg, fails = vrt_runner.summarize(rs)
    seen = set()
    for f in fails:
        if f["prop"] in seen:
            continue
        seen.add(f["prop"])
        res["violations"].append({"scenario": "mu_mix", "seed": f["seed"], "oracle": f["prop"], "why": f["msg"],
                                  "trace_tail": f.get("tail", []), "key": "mu_mix:" + f["prop"]})
    # wait re-acquisition paths (cv wait, signal/broadcast with transfer to the mutex queue, timeouts, cancellation)
    for scen, envs in (("cv_mix", [{"VRT_MODE": 0}, {"VRT_MODE": 1}, {"VRT_MODE": 2}]),):
        exe2, err = vrt_runner.build(scen)
        if exe2 is None:
            res["broken"].append({"what": "harness build failed (%s)" % scen, "detail": err})
            continue
        for env in envs:
            n2 = 1500 if tier == "quick" else 30000
            e2 = dict(env)
            e2["VRT_QUIET"] = 1
            rs2 = vrt_runner.run_many(exe2, range(base + 1, base + 1 + n2), e2)
            a2, fails2 = vrt_runner.summarize(rs2)
            nrun += n2
            for k, v in a2.items():
                agg[scen + "." + k] = agg.get(scen + "." + k, 0) + v
            seen = set()
            for f in fails2:
                if f["prop"] in seen:
                    continue
                seen.add(f["prop"])
                res["violations"].append({"scenario": scen, "env": env, "seed": f["seed"], "oracle": f["prop"], "why": f["msg"],
                                          "trace_tail": f.get("tail", []), "key": scen + ":" + f["prop"]})
    uncovered = [s for s in mu_common.MODEL_SITES if str(s) not in sites]
    res["coverage"] = {"evaluations": nrun + nrep, "distinct_nontrivial": sum(1 for r in rs if r.get("stats", {}).get("futex_sleep", 0) > 0),
                       "rule": "mu_mix: 2..4 threads (+ late arrivals) x random sequences of lock/rlock/trylock/rtrylock sections, random "
                               "and PCT-like schedules from VERIF_SEED; non-trivial = executions in which some thread slept on its semaphore "
                               "(contended slow paths)",
                       "traces_validated_against_impl": nrep - len(mism), "lockstep_model_steps": steps,
                       "model_sites_hit": sites, "model_sites_never_hit": uncovered, "sched_stats": agg,
                       "samples": [{"scenario": "mu_mix", "seed": base + 1, "stats": rs[0].get("stats")}]}
    return res
