"""C01: writer exclusion / reader sharing."""
import os, time
from vcommon import *
import vrt_runner, mu_common

PID = "C01"
PROP_V = ["Props/Properties_C01.v", "Props/Properties_C01w.v", "Props/Properties_C01p.v", "Props/Properties_C01x.v"]
GEN_MODULES = ["Consts", "Sites"]
FLOW_FILES = ['mu.c', 'mu_wait.c', 'cv.c', 'wait.c']
REPLAY_HINT = "VRT_SEED=<seed> [env] _work/h/<scenario>  (deterministic: same seed, same schedule); add VRT_TRACE=<file> for the step trace"
PARTIAL = ["quantifier 'counting and binary semaphores': the models use an abstract COUNTING semaphore (a sound over-approximation of the binary one for exclusion: fewer posts are never needed for safety); the binary flavour is exercised by the scenario runs only",
           "Properties_C01p: Crash 2 (unlock/runlock sanity check) and Crash 3 (MU_CONDITION seen by unlock_slow) are unreachable for ANY programs "
           "(C01_no_internal_panic); contract-respecting programs never panic (C01_no_panic); a Crash 1/4 pc is entered only by the step that begins an unlock of a "
           "non-holder / an acquisition by a holder (C01_panic_only_by_client_error).  well_bracketed is defined on straight-line op lists, so OTry may only be the "
           "last op; nsync_mu_assert_held / rassert_held / is_reader panics are outside MuModel; the 'checking a waiter condition' panic is MuWaitModel's (C06_no_scan_panic)",
           "C01_exclusion (MuModel), C01w_exclusion (MuWaitModel: + nsync_mu_wait_with_deadline incl. the timeout re-acquisition with its frozen-word window, "
           "unlock_slow's conversion to a writer, unlock_without_wakeup) and C01x_exclusion (Model/MuXferModel.v, a wrapper that steps MuModel unchanged and adds "
           "condition-variable waits on the same mutex: the release inside nsync_cv_wait, nsync_cv_signal / broadcast with wake_waiters stepped site by site "
           "-- both of its writes of the mutex word proved lock-bit-preserving from the generated expressions --, the transfer of waiters to the mutex queue, the "
           "re-acquisition as designated waker through nsync_mu_lock_slow_ (clear = MU_DESIG_WAKER) or afresh, timeouts / cancellation at any point: "
           "C01x_reacquire_mode, C01x_reacquire_by_cas, C04x_transfer_sound, C04x_queue_sets_waiting, C04x_spinlock_exclusive) are theorems for any number of "
           "threads, programs and schedules.  Abstractions of MuXferModel: the cv spinlock as three atomic sections, native waiters on one cv and one mutex, "
           "cv word and remove_count not modelled.  The re-acquisition inside nsync_wait_n (through the caller's lock callback = a plain nsync_mu_lock) is "
           "C11_mutex_state's plus C01_exclusion; one combined model of mu_wait.c AND cv.c on the same mutex does not exist: that mix is the occupancy oracle's"]
TRUSTED_BASE = ["the Crash codes are ghost-routed: an unlock by a non-holder is stopped in begin_op (Crash 1) before nsync_mu_unlock's own check could see it -- that the real check catches the same client error is shown only by scenario runs",
                "Model/MuModel.v control skeleton: hand-written, validated by lock-step replay of implementation traces "
                "(replay/mu_replay.ml over the extracted model; extraction uses ExtrOcamlBasic only)",
                "harness/rt/vrt.c deterministic runtime: modelled futex, virtual clock, allocator"]


def run(tier, seed):
    res = {"violations": [], "broken": [], "coverage": {}}
    exe, err = vrt_runner.build("mu_mix")
    if exe is None:
        res["broken"].append({"what": "harness build failed", "detail": err})
        return res
    base = seed * 100000
    # 1. tie: lock-step replay of real traces through the extracted model
    replayer, err = mu_common.build_replayer()
    nrep = 300 if tier == "quick" else 3000
    steps, sites, mism = 0, {}, []
    if replayer is None:
        res["broken"].append({"what": "replayer build failed", "detail": err})
    else:
        rr = mu_common.replay_many(replayer, exe, range(base + 1, base + 1 + nrep))
        steps, sites, mism = mu_common.replay_summary(rr)
        for m in mism[:3]:
            res["broken"].append({"what": "correspondence: MuModel and the real mu.c disagree in lock-step", "scenario": "mu_mix",
                                  "seed": m["seed"], "detail": m["replay"]})
    tiex = mu_common.tie(res, "muxfer_replay", "MuXferModel", [("cv_mix", {"VRT_MODE": m}, 80, 800) for m in (0, 1, 2, 3, 4, 7)] +
                         [("cv_mix", {"VRT_MODE": m, "VRT_MIXLOCKS": 1}, 60, 600) for m in (5, 6)], tier, seed)
    # 2. oracle: shadow occupancy on every acquisition path, counting and binary semaphore flavours
    import scen_common
    specs = [("muwait_mix", {"VRT_MODE": 5}, 600, 10000), ("muwait_mix", {"VRT_MODE": 6}, 500, 8000), ("cv_mix", {"VRT_MODE": 7}, 500, 8000), ("cv_mixlocks", {}, 400, 6000), ("muall_mix", {}, 500, 8000), ("mu_mix", {}, 3000, 60000), ("cv_mix", {"VRT_MODE": 0}, 1500, 30000), ("cv_mix", {"VRT_MODE": 1}, 1000, 30000),
             ("cv_mix", {"VRT_MODE": 2}, 1500, 30000), ("muwait_mix", {}, 1500, 30000), ("waitn_mix", {}, 2500, 40000),
             ("mu_mix", {}, 1000, 20000, "binary"), ("cv_mix", {}, 1000, 20000, "binary"), ("muwait_mix", {}, 700, 15000, "binary"),
             # re-acquisition on return from nsync_wait_n (MODE 3), from a cv wait whose wake-up races deadline and cancellation (MODE 4),
             # through the generic entry point with caller-supplied lock callbacks and from reader-mode timed / cancellable cv waits (MODE 5, 6)
             ("cv_mix", {"VRT_MODE": 3}, 1000, 20000), ("cv_mix", {"VRT_MODE": 4}, 1000, 20000), ("cv_mix", {"VRT_MODE": 5}, 1000, 20000),
             ("cv_mix", {"VRT_MODE": 6}, 1500, 30000), ("cv_mix", {"VRT_MODE": 6}, 600, 12000, "binary"), ("cancel_mix", {}, 1000, 20000), ("mix_all", {}, 1500, 30000)]
    oc = scen_common.run_scenarios(res, specs, tier, seed, {"C01"} | scen_common.LIVENESS | scen_common.CRASHES)
    nrun = oc["evaluations"]
    agg = oc["sched_stats"]
    rs = []
    uncovered = [s for s in mu_common.MODEL_SITES if str(s) not in sites]
    res["coverage"] = {"muxfer_traces_validated": tiex.get("traces_validated_against_impl", 0), "muxfer_lockstep_model_steps": tiex.get("lockstep_model_steps", 0),
                       "muxfer_sites_hit": tiex.get("model_sites_hit", {}),
                       "evaluations": nrun + nrep, "distinct_nontrivial": oc["distinct_nontrivial"], "other_oracle_failures": oc["other_oracle_failures"],
                       "rule": "mu_mix / cv_mix (3 modes) / muwait_mix / waitn_mix with the counting semaphore and mu_mix / cv_mix / muwait_mix with a binary one; "
                               "mu_mix: 2..4 threads (+ late arrivals) x random sequences of lock/rlock/trylock/rtrylock sections, random "
                               "and PCT-like schedules from VERIF_SEED; non-trivial = executions in which some thread slept on its semaphore "
                               "(contended slow paths)",
                       "traces_validated_against_impl": nrep - len(mism), "lockstep_model_steps": steps,
                       "model_sites_hit": sites, "model_sites_never_hit": uncovered, "sched_stats": agg,
                       "samples": oc["samples"]}
    return res
