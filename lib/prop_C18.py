"""C18: nsync_time arithmetic.  Proof over the regenerated translation + differential run of both real builds."""
import os, random, time
from vcommon import *

PID = "C18"
PROP_V = "Props/Properties_C18.v"
GEN_MODULES = ["Time", "TimeCpp", "TimeInt", "TimeIntCpp", "Consts", "ConstsCpp"]
NS = 10 ** 9
I64 = (-(2 ** 63), 2 ** 63 - 1)
DIFF_GRID_QUICK = 2000     # grid cases (of 82944) sent through the Coq evaluation of the translated functions in the quick tier


def build_drivers():
    d = os.path.join(WORK, "c18")
    os.makedirs(d, exist_ok=True)
    drv = os.path.join(VERIF, "harness", "seq", "time_driver.c")
    errs = {}
    exes = {}
    rc, o, e = sh(["gcc", "-O1", "-fwrapv", "-w"] + ["-I%s/%s" % (REPO, i) for i in C_INC] +
                  [drv, REPO + "/platform/posix/src/time_rep.c", REPO + "/internal/time_internal.c", "-o", d + "/drv_c"])
    if rc != 0:
        errs["c"] = e[-500:]
    else:
        exes["c"] = d + "/drv_c"
    rc, o, e = sh(["g++", "-x", "c++", "-std=c++11", "-O1", "-fwrapv", "-w"] + CXX_DEFS +
                  ["-I%s/%s" % (REPO, i) for i in CXX_INC] +
                  [drv, REPO + "/platform/c++11/src/time_rep_timespec.cc", REPO + "/internal/time_internal.c",
                   "-o", d + "/drv_cpp"])
    if rc != 0:
        errs["c++"] = e[-500:]
    else:
        exes["c++"] = d + "/drv_cpp"
    return exes, errs


def gen_cases(seed, tier):
    """Returns (cases, n_grid): the first n_grid cases are the COMPLETE boundary grid (every pair of boundary points x 4 ops, both
    tiers: the driver handles them in one process in well under a second per build); the rest are aimed / random / ms / us / s_ns."""
    rnd = random.Random(seed)
    secs = [0, 1, -1, 2, -2, 2 ** 31, -(2 ** 31), 2 ** 31 - 1, 2 ** 31 + 1, 2 ** 40, -(2 ** 40), 2 ** 62, -(2 ** 62),
            2 ** 63 - 1, 2 ** 63 - 2, -(2 ** 63), -(2 ** 63) + 1, 1700000000]
    nsecs = [0, 1, 2, 499999999, 500000000, 500000001, NS - 2, NS - 1]
    cases = []
    pairs = [(s, n) for s in secs for n in nsecs]
    npair = 500 if tier == "quick" else 4000
    grid = [(a, b) for a in pairs for b in pairs]          # all 144 x 144 = 20736 pairs
    rnd.shuffle(grid)
    # aimed: carry/borrow boundaries (na+nb = NS-1, NS, NS+1; na = nb, na = nb +/- 1) with every seconds pair sign mix
    aimed = []
    for sa in (0, -1, 5, -7, 2 ** 31):
        for sb in (0, 1, -1, -(2 ** 31)):
            for na in (0, 1, NS // 2, NS - 1):
                for nb in {NS - na - 1, NS - na, NS - na + 1, na, na - 1, na + 1}:
                    if 0 <= nb < NS:
                        aimed.append(((sa, na), (sb, nb)))
    rand = []
    for _ in range(npair):
        sa = rnd.choice([rnd.randint(-2 ** 40, 2 ** 40), rnd.randint(-10, 10), rnd.choice(secs)])
        sb = rnd.choice([rnd.randint(-2 ** 40, 2 ** 40), rnd.randint(-10, 10), rnd.choice(secs)])
        rand.append(((sa, rnd.randrange(NS)), (sb, rnd.randrange(NS))))
    for (a, b) in grid:
        for op in ("add", "sub", "cmp", "rt"):
            cases.append((op, a[0], a[1], b[0], b[1]))
    n_grid = len(cases)
    for (a, b) in aimed + rand:
        for op in ("add", "sub", "cmp", "rt"):
            cases.append((op, a[0], a[1], b[0], b[1]))
    us = [0, 1, 999, 1000, 1001, 999999, 1000000, 1000001, 4294967, 4294968, 4294967295, 4294967294, 2 ** 31, 2 ** 31 - 1,
          4294000, 4295000, 4294966999, 4294967000]
    us += [rnd.randrange(2 ** 32) for _ in range(200 if tier == "quick" else 3000)]
    for u in us:
        cases.append(("ms", u))
        cases.append(("us", u))
    # nsync_time_s_ns (time_t s, unsigned ns): "for every argument" -- every boundary second x nanosecond arguments below, at and
    # above one second, up to the largest value of the parameter type (unsigned, 32 bits)
    for s in secs:
        for n in (0, 1, NS // 2, NS - 1, NS, NS + 1, 2 * NS - 1, 2 * NS, 2 ** 31 - 1, 2 ** 31, 4 * NS, 2 ** 32 - 1):
            cases.append(("sns", s, n))
    return cases, n_grid


def run_driver(exe, cases):
    inp = "\n".join(" ".join(str(x) for x in c) for c in cases) + "\nconsts\n"
    rc, out, err = sh([exe], input=inp, timeout=120)
    if rc != 0:
        return None, "driver exit %d %s" % (rc, err[-200:])
    lines = out.strip().splitlines()
    res = [tuple(int(x) for x in l.split()) for l in lines]
    return res, None


def in64(x):
    return I64[0] <= x <= I64[1]


def oracle(case, res, consts):
    """The property itself, checked with Python integers.  Returns None or a description."""
    op = case[0]
    if op in ("add", "sub", "rt"):
        _, sa, na, sb, nb = case
        A, B = sa * NS + na, sb * NS + nb
        if op == "add":
            exact = A + B
            if not (in64(sa + sb) and in64(exact // NS)):
                return None   # "barring overflow of the seconds field"
        elif op == "sub":
            exact = A - B
            if not (in64(sa - sb) and in64(exact // NS)):
                return None
        else:
            exact = A
            s1 = (A + B) // NS
            if not (in64(sa + sb) and in64(s1) and in64(s1 - sb) and in64(sa)):
                return None
        rs, rn = res
        if not (0 <= rn < NS):
            return "%s result not normalized: %r" % (op, res)
        if rs * NS + rn != exact:
            return "%s result %r != exact %d ns" % (op, res, exact)
    elif op == "cmp":
        _, sa, na, sb, nb = case
        d = (sa * NS + na) - (sb * NS + nb)
        want = (d > 0) - (d < 0)
        # the header and the property fix only the SIGN of the result ("+ve, 0, or -ve"), not its magnitude
        if (res[0] > 0) - (res[0] < 0) != want:
            return "cmp returned %d, sign of a-b is %d" % (res[0], want)
    elif op in ("ms", "us"):
        u = case[1]
        want = u * (10 ** 6 if op == "ms" else 10 ** 3)
        rs, rn = res
        if not (0 <= rn < NS) or rs * NS + rn != want:
            return "%s(%d) = %r, expected %d ns" % (op, u, res, want)
    elif op == "sns":
        # "yield the stated duration for every argument": s seconds + n nanoseconds, as an exact integer.  For n >= 1e9 the
        # property does not say whether the result is normalized, so only the duration is compared; a result whose normalized
        # seconds field would not fit (overflow) is outside the property
        _, s, n = case
        exact = s * NS + n
        if not in64(exact // NS):
            return None
        rs, rn = res
        if rs * NS + rn != exact:
            return "s_ns(%d,%d) = %r, which is %d ns, expected %d ns" % (s, n, res, rs * NS + rn, exact)
        if n < NS and not (0 <= rn < NS):
            return "s_ns(%d,%d) = %r is not normalized although its arguments are" % (s, n, res)
    return None


def bounds_oracle(exe, consts, rnd):
    """zero <= t <= no_deadline for non-negative t, through the real cmp."""
    zs, zn, ds, dn = consts
    ts = [(0, 0), (0, 1), (1, 0), (2 ** 63 - 1, NS - 1), (2 ** 63 - 1, 0), (2 ** 62, 5), (2 ** 31, NS - 1)]
    ts += [(rnd.randrange(2 ** 63), rnd.randrange(NS)) for _ in range(50)]
    cases = []
    for (s, n) in ts:
        cases.append(("cmp", zs, zn, s, n))
        cases.append(("cmp", s, n, ds, dn))
    res, err = run_driver(exe, cases)
    bad = []
    if res is None:
        return [("driver", err)]
    for c, r in zip(cases, res):
        if r[0] > 0:
            bad.append((c, "bound violated: cmp=%d" % r[0]))
    return bad


def zlit(x):
    return "(%d)" % x


def model_diff(cases, results, lang, chunk=6000):
    """model_diff_1 over chunks of the cases, several coqc processes at a time (the thorough tier sends ~90000 cases per build)."""
    import concurrent.futures as cf
    if len(cases) <= chunk:
        return model_diff_1(cases, results, lang, 0)
    starts = list(range(0, len(cases), chunk))
    with cf.ThreadPoolExecutor(max_workers=max(1, NCPU // 2)) as ex:
        futs = [(k, ex.submit(model_diff_1, cases[k:k + chunk], results[k:k + chunk], lang, k)) for k in starts]
        allbad = []
        for k, f in futs:
            bad, err = f.result()
            if bad is None:
                return None, err
            allbad += [k + i for i in bad]
    return allbad, None


def model_diff_1(cases, results, lang, tag):
    """Evaluate the regenerated Gallina functions on the same cases inside Coq; return mismatching case indices."""
    T, TI = ("Time", "TimeInt") if lang == "c" else ("TimeCpp", "TimeIntCpp")
    d = os.path.join(WORK, "c18")
    path = os.path.join(d, "cases_%s_%d.v" % ("c" if lang == "c" else "cpp", tag))
    lines = ["From NsyncBase Require Import CSem.", "From NsyncGen Require Import %s %s." % (T, TI),
             "Local Open Scope Z_scope.",
             "Definition ts (t : timespec) := (timespec_tv_sec t, timespec_tv_nsec t).",
             "Definition eqp (a b : Z * Z) := (fst a =? fst b) && (snd a =? snd b).",
             "Definition chk (i : Z) (ok : bool) : list Z := if ok then [] else [i]."]
    shard = 400
    names = []
    for k in range(0, len(cases), shard):
        body = []
        for i in range(k, min(k + shard, len(cases))):
            c, r = cases[i], results[i]
            op = c[0]
            if op in ("add", "sub", "rt", "cmp"):
                a = "(mk_timespec %s %s)" % (zlit(c[1]), zlit(c[2]))
                b = "(mk_timespec %s %s)" % (zlit(c[3]), zlit(c[4]))
                if op == "add":
                    e = "eqp (ts (nsync_time_add %s %s)) (%s, %s)" % (a, b, zlit(r[0]), zlit(r[1]))
                elif op == "sub":
                    e = "eqp (ts (nsync_time_sub %s %s)) (%s, %s)" % (a, b, zlit(r[0]), zlit(r[1]))
                elif op == "rt":
                    e = "eqp (ts (nsync_time_sub (nsync_time_add %s %s) %s)) (%s, %s)" % (a, b, b, zlit(r[0]), zlit(r[1]))
                else:
                    e = "(nsync_time_cmp %s %s =? %s)" % (a, b, zlit(r[0]))
            elif op in ("ms", "us"):
                e = "eqp (ts (nsync_time_%s %s)) (%s, %s)" % (op, zlit(c[1]), zlit(r[0]), zlit(r[1]))
            else:
                e = "eqp (ts (nsync_time_s_ns %s (wrap_u 32 %s))) (%s, %s)" % (zlit(c[1]), zlit(c[2]), zlit(r[0]), zlit(r[1]))
            body.append("chk %d (%s)" % (i, e))
        nm = "bad_%d" % k
        names.append(nm)
        lines.append("Definition %s := Eval vm_compute in (%s)." % (nm, " ++ ".join(body)))
    lines.append("Definition all_bad := Eval vm_compute in (%s)." % " ++ ".join(names))
    lines.append("Print all_bad.")
    open(path, "w").write("\n".join(lines) + "\n")
    rc, out, err = sh(["coqc", "-Q", "Base", "NsyncBase", "-Q", "Gen", "NsyncGen", path], cwd=COQ, timeout=600)
    if rc != 0:
        return None, (err or out)[-600:]
    m = re.search(r"all_bad\s*=\s*(.*?)\s*:\s*list Z", out, re.S)
    if not m:
        return None, "cannot parse coqc output: " + out[-300:]
    idx = [int(x) for x in re.findall(r"-?\d+", m.group(1))]
    return idx, None


def run(tier, seed):
    t0 = time.time()
    res = {"pid": PID, "violations": [], "broken": [], "coverage": {}, "assumptions": []}
    exes, errs = build_drivers()
    for lang, e in errs.items():
        res["broken"].append({"what": "real %s build of the time functions does not compile" % lang, "detail": e})
    cases, n_grid = gen_cases(seed, tier)
    rnd = random.Random(seed + 1)
    # the PROPERTY oracle runs on every case in both tiers.  The translator-correspondence check (Gen model evaluated inside Coq on
    # the same inputs) is the expensive part: in quick it takes the first DIFF_GRID_QUICK grid cases (the grid is shuffled by the
    # seed) plus everything that is not grid; in thorough all cases.
    if tier == "quick":
        diff_idx = list(range(min(n_grid, DIFF_GRID_QUICK))) + list(range(n_grid, len(cases)))
    else:
        diff_idx = list(range(len(cases)))
    kinds = {}
    for c in cases:
        kinds[c[0]] = kinds.get(c[0], 0) + 1
    nontrivial = set()
    total = 0
    diffs = 0
    samples = []
    for lang, exe in exes.items():
        out, err = run_driver(exe, cases)
        if out is None:
            res["broken"].append({"what": "driver failed (%s)" % lang, "detail": err})
            continue
        consts = out[-1]
        out = out[:-1]
        total += len(cases)
        for c, r in zip(cases, out):
            v = oracle(c, r, consts)
            if v:
                res["violations"].append({"build": lang, "case": c, "result": r, "why": v})
            if c[0] in ("add", "sub", "rt") and (c[2] + c[4] >= NS or c[2] < c[4]):
                nontrivial.add(c)
            elif c[0] in ("ms", "us") and c[1] >= 1000:
                nontrivial.add(c)
            elif c[0] == "cmp" and c[1] == c[3]:
                nontrivial.add(c)
        for c, why in bounds_oracle(exe, consts, rnd):
            res["violations"].append({"build": lang, "case": c, "why": why})
        if not samples:
            samples = [{"case": list(c), "result_%s" % lang: list(r)} for c, r in list(zip(cases, out))[:3]] + \
                      [{"case": list(c), "result_%s" % lang: list(r)} for c, r in list(zip(cases, out))[-3:]]
        if res_gen_ok(lang):
            bad, err = model_diff([cases[i] for i in diff_idx], [out[i] for i in diff_idx], lang)
            if bad is None:
                res["broken"].append({"what": "model evaluation failed (%s)" % lang, "detail": err})
            else:
                diffs += len(diff_idx)
                for i in bad[:5]:
                    res["broken"].append({"what": "correspondence: Gen model and real %s build disagree" % lang,
                                          "case": cases[diff_idx[i]], "impl": out[diff_idx[i]]})
    nviol = len(res["violations"])
    res["violations"] = res["violations"][:10]      # one defect can fail thousands of grid cases; keep the evidence file small
    res["coverage"] = {"differential_cases_per_build": len(cases), "violating_cases": nviol, "builds": sorted(exes), "case_kinds": kinds,
                       "evaluations": total, "distinct_nontrivial": len(nontrivial),
                       "rule": "ALL pairs of the boundary grid of 18 seconds x 8 nanoseconds values (20736 pairs x add/sub/cmp/round-trip), "
                               "aimed carry/borrow pairs, random pairs, ms/us boundary + random 32-bit arguments, s_ns with nanosecond "
                               "arguments below/at/above 1e9 up to 2^32-1; cmp is judged by its sign; cases whose exact result "
                               "overflows the seconds field are not judged; non-trivial = add/sub with carry or "
                               "borrow, ms/us with a non-zero seconds part, cmp decided by the nanosecond field",
                       "grid_cases": n_grid, "correspondence_cases_per_build": len(diff_idx),
                       "samples": samples, "traces_validated_against_impl": diffs}
    res["wall"] = time.time() - t0
    return res


def res_gen_ok(lang):
    st = json.load(open(os.path.join(GEN, "STATUS.json")))
    mods = ["Time", "TimeInt"] if lang == "c" else ["TimeCpp", "TimeIntCpp"]
    return all(st.get(m, {}).get("ok") for m in mods)
