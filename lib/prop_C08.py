"""C08: a note is a one-way flag set by notify, by its deadline, or by an ancestor."""
from vcommon import *
import scen_common

PID = "C08"
PROP_V = ["Props/Properties_C08.v"]
GEN_MODULES = ["Consts", "Sites"]
FLOW_FILES = ['note.c']
REPLAY_HINT = "VRT_SEED=<seed> VRT_FAMILY=<f> _work/h/note_mix"
PARTIAL = []


def run(tier, seed):
    res = {"violations": [], "broken": [], "coverage": {}}
    specs = [("note_mix", {"VRT_FAMILY": f}, 2000, 40000) for f in (0, 1, 2, 3)] + [("note_f8", {}, 800, 15000), ("note_f9", {}, 800, 15000)]
    cov = scen_common.run_scenarios(res, specs, tier, seed, {"C08"} | scen_common.LIVENESS | scen_common.CRASHES)
    cov["rule"] = ("note_mix: parent-child-grandchild(+sibling) trees with deadlines none/past/future, notifiers, pollers, waiters, creators, "
                   "freers; per-note observation history must be monotone (w.r.t. observations completed before a call starts), notify returns "
                   "with the note notified, at quiescence descendants of a notified note are notified, a notified note has a cause, expiry = "
                   "min over the creation path; family 3: two notifiers of one child while the parent's lock is busy; non-trivial = runs with sleeps")
    res["coverage"] = cov
    return res
