"""C08: a note is a one-way flag set by notify, by its deadline, or by an ancestor."""
from vcommon import *
import scen_common

PID = "C08"
PROP_V = ["Props/Properties_C08.v", "Props/Properties_C08b.v", "Props/Properties_C08c.v"]
GEN_MODULES = ["Consts", "Sites"]
FLOW_FILES = ['note.c', 'sem_wait.c']
REPLAY_HINT = "VRT_SEED=<seed> VRT_FAMILY=<f> _work/h/note_mix"
PARTIAL = ["C08_descendants is PROVED in its creation-time form (Properties_C08b.C08_descendants_full_holds = the Definition C08_descendants_full of "
           "Properties_C08: in every reachable quiet world -- no notification in progress -- every fully constructed, not freed note m with a notified "
           "note a on its CREATION path is observed notified and has no waiters), by the invariant C08_creation_path_linked (for every live in-scope "
           "note and every strict creation ancestor: the ancestor is dead and un-notified, or the note's current parent still lies below it -- "
           "preserved across adoption by nsync_note_free, the unlink at the end of note_notify_child, and nsync_note_new under a notified or expired "
           "parent) and a well-founded climb along the current parent links; the proof uses the repairs F7, F10, F11 (a dead note is never notified).  "
           "`quiet` there is GLOBAL (no notify / note_notify_child / free frame on any stack); the LOCAL form is Properties_C08c.C08_descendants_path: the ancestor only has to be "
           "OBSERVED notified (also by an expiry at or before the epoch) and the side condition is quiet_for w m a = no note_notify_child frame on a note of the creation path "
           "between m and a, and m not already unlinked by its own nsync_note_free (both halves needed: C08_path_quiet_alone_refuted, C08_not_unlinked_alone_refuted); "
           "notifies of other notes, frees of other (also intermediate) notes and pollers may be in progress.  'every thread waiting on them is released': C08_waiter_armed "
           "(a thread in nsync_note_wait's semaphore wait on m is still queued on m, or a notifier is at the store / the V for it, or its semaphore is positive -- every "
           "reachable world), C08_waiters_released (m observed notified and no notification of m in progress => the waiter's semaphore is positive), joined with the "
           "descendants clause in C08_descendants_waiters_released; a model variant whose note_notify_child does not post falsifies it "
           "(C08_waiters_released_variant_refuted); non-vacuity: C08_descendants_nonvacuous (tree 0 -> 1 -> 2, a waiter on 2, free (1) interleaved with notify (0), an "
           "unrelated notification left in progress).  That a notification in progress terminates is C09's progress statement (C09_no_stuck_strong)",
           "the literal reading of the expiry clause ('minimum of the abs_deadline values') is refuted by design: an explicitly notified "
           "ancestor counts as deadline zero (C08_expiry_literal_refuted); the clause is proved under that reading (C08_expiry)"]
TRUSTED_BASE = ["Model/NoteModel.v control skeleton (note.c incl. the repairs F4, F7, F10, F11, F12): hand-written, validated by lock-step replay "
                "(replay/note_replay.ml); note_mu is an atomic lock with nsync_mu_wait as an atomic blocking step (C01/C02/C06 are the licence)"]


def run(tier, seed):
    import mu_common
    res = {"violations": [], "broken": [], "coverage": {}}
    tie = mu_common.tie(res, "note_replay", "NoteModel", [("note_mix", {"VRT_FAMILY": f}, 150, 1500) for f in (0, 1, 2, 3)], tier, seed)
    specs = [("note_mix", {"VRT_FAMILY": f}, 2000, 40000) for f in (0, 1, 2, 3, 4)] + [("note_waitwin", {"VRT_AIM": 60}, 1000, 15000), ("note_f8", {}, 800, 15000), ("note_f9", {}, 800, 15000), ("note_f9", {"VRT_T3": 2}, 800, 15000)]
    cov = scen_common.run_scenarios(res, specs, tier, seed, {"C08"} | scen_common.LIVENESS | scen_common.CRASHES)
    cov["rule"] = ("note_mix: parent-child-grandchild(+sibling) trees with deadlines none/past/future, notifiers, pollers, waiters, creators, "
                   "freers; per-note observation history must be monotone (w.r.t. observations completed before a call starts), notify returns "
                   "with the note notified, at quiescence descendants of a notified note are notified, a notified note has a cause, expiry = "
                   "min over the creation path; family 3: two notifiers of one child while the parent's lock is busy; non-trivial = runs with sleeps")
    cov.update(tie)
    res["coverage"] = cov
    return res
