"""C06: conditional critical sections wake every waiter whose condition became true."""
from vcommon import *
import scen_common

PID = "C06"
PROP_V = ["Props/Properties_C06.v", "Props/Properties_C01w.v"]
GEN_MODULES = ["Consts", "Sites"]
REPLAY_HINT = "VRT_SEED=<seed> [VRT_MODE=<m>] _work/h/muwait_mix"
PARTIAL = []


def run(tier, seed):
    res = {"violations": [], "broken": [], "coverage": {}}
    specs = [("muwait_mix", {"VRT_MODE": 0}, 4000, 80000), ("muwait_mix", {"VRT_MODE": 1}, 1000, 20000), ("muwait_mix", {"VRT_MODE": 2}, 2500, 50000),
             ("muwait_mix", {"VRT_MODE": 0}, 800, 15000, "binary"), ("muwait_mix", {"VRT_MODE": 3}, 1500, 30000)]
    cov = scen_common.run_scenarios(res, specs, tier, seed, {"C06", "C05"} | scen_common.LIVENESS | scen_common.CRASHES)
    cov["rule"] = ("muwait_mix: 2..4 waiters on {same f+arg, same f+different arg, eq-equivalent args, different f, no condition} in reader/"
                   "writer mode, setters that end with plain nsync_mu_unlock, a bystander using nsync_mu_unlock_without_wakeup after sections "
                   "that change nothing, plain lockers queued in front of conditional waiters (MODE 2), cv waiters, timeouts and "
                   "cancellation; oracles: every untimed waiter returns once its condition is true (stuck detector), no condition is "
                   "evaluated while another thread is inside a write section; non-trivial = runs with semaphore sleeps")
    res["coverage"] = cov
    return res
