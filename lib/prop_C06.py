"""C06: conditional critical sections wake every waiter whose condition became true."""
from vcommon import *
import scen_common

PID = "C06"
PROP_V = ["Props/Properties_C06.v", "Props/Properties_C06w.v", "Props/Properties_C06x.v", "Props/Properties_C06a.v"]
GEN_MODULES = ["Consts", "Sites"]
FLOW_FILES = ['mu.c', 'mu_wait.c', 'cv.c']
REPLAY_HINT = "VRT_SEED=<seed> [VRT_MODE=<m>] _work/h/muwait_mix"
PARTIAL = ["the clause 'a release by nsync_mu_unlock_without_wakeup may leave asleep only waiters whose conditions were already false before that "
           "critical section began' has no theorem (C06_allfalse_sound is for programs without OUnlockNW: with it the MU_ALL_FALSE claim is violated within "
           "a few dozen random runs of the extracted model, by design of that call's contract); it is decided by the muwait_mix bystander oracle",
           
           "'alongside cv waiters': Model/MuAllModel.v wraps MuWaitModel (stepped unchanged for mu.c / mu_wait.c) with cv waits, signal / broadcast, wake_waiters site by site "
           "(the transfer appends to mu->waiters, which a scanner may have swapped out: its next round picks the arrivals up as new_waiters) and nsync_wait_n records; tied in "
           "lock-step (muall_replay: muwait_mix VRT_CV=1 / MODE 3 / MODE 6 and muall_mix, which reaches transfers INSIDE a scanner's released-spinlock window).  PROVED "
           "(Properties_C06a, any reachable world, < 2^24 threads): C06a_word_agrees, C06a_exclusion, C06a_eval_under_lock (a condition is evaluated only by a thread that "
           "owns lock bits while no other thread owns the write lock -- with cv waiters present), C06a_transfer_in_scanner_window (a scanner without the spinlock owns the "
           "write lock, so a wake_waiters CAS that succeeds then always transfers its first waiter and keeps MU_WAITING: the F15 clearing cannot misfire there), "
           "C06a_wake_waiters_keeps_lock_bits / _flag_bits (site level, all word values).  NOT proved with cv waiters present: the ring / queue invariant with transferred "
           "waiters as unconditional singletons, world-level MU_ALL_FALSE soundness, no lost wake-up -- MuWaitWorld's info map is computed from each waiter's own mu_wait pc "
           "and would have to be restated; these are covered by exploration of the extracted model only (replay/muall_explore.ml: 1.4 * 10^6 random programs, every state "
           "checked for exclusion, no Crash, evaluation under the lock, MU_ALL_FALSE soundness, list discipline, F15's bit, and no sleeper beside a free mutex at "
           "quiescence: 0 violations; the checks themselves catch a reversed F15 repair and a dropped transfer) and by the scenario oracles",
           "PROVED for every reachable world (Properties_C06w, Proof/MuWaitWorld1-5): RingInv of mu->waiters and of every scanner's private lists "
           "(C06_RingInv_reachable, C06_rings_reachable: rings are runs of adjacent WAIT_CONDITION_EQ-equivalent waiters -- runs, not maximal runs: merges are only "
           "attempted at enqueue and removal boundaries), the scan never panics (C06_no_scan_panic), and MU_ALL_FALSE is sound: whenever it is set and nobody "
           "owns the write lock every queued waiter's condition is false in the current protected state (C06_allfalse_sound = the full statement C06_allfalse_full)",
           "C06 no-lost-wake-up is PROVED on the model of the repaired code (Properties_C06x: C06_no_stuck = C06_no_stuck_full, C06_handoff, "
           "C06_sleeper_faces_holder): no reachable quiescent world has the mutex free and a queued nsync_mu_wait caller (reader or writer mode, deadline, cancel, "
           "timed-out re-acquisition, multi-round scan) whose condition is true.  The statement was FALSE of the code as found: F13 (5890963) and F14 (b3597cd) were "
           "found by this proof and reproduced on the real library (scenarios rdwait_stuck, longwait_stuck; docs/F13_witness.v, docs/F14_witness.v).  Quiescence is "
           "'no step changes the world'; that an agent which can move eventually does so (fair scheduling) is outside the model and is the scenario oracles' job "
           "(stuck / livelock detector, quiescent-state observers); nsync_mu_unlock_without_wakeup is excluded by hypothesis.  Internal panics (Crash 2/5/6/7/10) are "
           "proved unreachable (C06_no_internal_panic); Crash 1/4/8/9 are client-contract violations"]
TRUSTED_BASE = ["Model/MuAllModel.v control skeleton incl. the parked-pc encoding (Crash 99 + ghost spin) of a wake_waiters thread that owns the mutex spinlock without running mu.c code; validated by muall_replay", "Model/MuWaitModel.v control skeleton (mu.c + mu_wait.c incl. the multi-round scan with condition evaluation, ring repair, the "
                "timeout re-acquisition path): hand-written, validated by lock-step replay with queue AND same_condition-ring snapshots (replay/muwait_replay.ml)"]


def run(tier, seed):
    import mu_common
    res = {"violations": [], "broken": [], "coverage": {}}
    tie = mu_common.tie(res, "muwait_replay", "MuWaitModel", [("muwait_mix", {"VRT_MODE": 0, "VRT_CV": 0}, 250, 2500),
                                                              ("muwait_mix", {"VRT_MODE": 1, "VRT_CV": 0}, 150, 1500),
                                                              ("muwait_mix", {"VRT_MODE": 5, "VRT_CV": 0}, 150, 1500),
                                                              ("mu_mix", {}, 150, 1500)], tier, seed)
    tie_all = mu_common.tie(res, "muall_replay", "MuAllModel", [("muwait_mix", {"VRT_MODE": 0, "VRT_CV": 1}, 150, 1500), ("muwait_mix", {"VRT_MODE": 3}, 150, 1500),
                                                                 ("muwait_mix", {"VRT_MODE": 6}, 150, 1500), ("muall_mix", {}, 250, 3000)], tier, seed)
    for k in ("traces_validated_against_impl", "lockstep_model_steps"):
        tie[k] = tie.get(k, 0) + tie_all.get(k, 0)
    tie["model_sites_hit_muall"] = tie_all.get("model_sites_hit", {})
    specs = [("muwait_mix", {"VRT_MODE": 0}, 4000, 80000), ("muwait_mix", {"VRT_MODE": 1}, 1000, 20000), ("muwait_mix", {"VRT_MODE": 2}, 2500, 50000),
             ("muwait_mix", {"VRT_MODE": 0}, 800, 15000, "binary"), ("muwait_mix", {"VRT_MODE": 3}, 1500, 30000), ("muwait_mix", {"VRT_MODE": 0, "VRT_FINE": 600}, 1500, 30000),
             # observer thread: in a quiescent world no waiter may be asleep with its condition already made true (a lost wake-up that a timed
             # waiter's own timeout would mask); OBS=2: every waiter timed with a far deadline
             ("muwait_mix", {"VRT_MODE": 0, "VRT_OBS": 1}, 1500, 30000), ("muwait_mix", {"VRT_MODE": 0, "VRT_OBS": 2}, 1500, 30000),
             # F13's shape (reader-mode nsync_mu_wait while a reader is the designated waker): scripted and random schedules
             # producers / consumers: conditions that become false again, so woken waiters wait a second time inside one call (MODE 5)
             ("muwait_mix", {"VRT_MODE": 5}, 3000, 60000), ("muwait_mix", {"VRT_MODE": 5, "VRT_PLAINPM": 30}, 1000, 20000),
             # a conditional waiter queued + a reader cv waiter + an nsync_wait_n record + a wake-up under a read lock that transfers nobody (MODE 6)
             ("muwait_mix", {"VRT_MODE": 6}, 1200, 20000),
             ("muall_mix", {}, 1500, 30000),
             ("rdwait_stuck", {}, 3, 10), ("longwait_stuck", {"VRT_CLOCKP": 0}, 5, 30), ("rdwait_stuck", {"VRT_SCRIPT": 0}, 2500, 50000)]
    cov = scen_common.run_scenarios(res, specs, tier, seed, {"C06", "C05", "C02", "C06x"} | scen_common.LIVENESS | scen_common.CRASHES)
    cov["rule"] = ("muwait_mix: 2..4 waiters on {same f+arg, same f+different arg, eq-equivalent args, different f, no condition} in reader/"
                   "writer mode, setters that end with plain nsync_mu_unlock, a bystander using nsync_mu_unlock_without_wakeup after sections "
                   "that change nothing, plain lockers queued in front of conditional waiters (MODE 2), cv waiters, timeouts and "
                   "cancellation, producers and consumers whose conditions become false again (MODE 5: a woken waiter whose token was taken waits again "
                   "inside the same call); oracles: every untimed waiter returns once its condition is true (stuck detector), no condition is "
                   "evaluated while another thread is inside a write section; non-trivial = runs with semaphore sleeps")
    cov.update(tie)
    res["coverage"] = cov
    return res
