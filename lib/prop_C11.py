"""C11: nsync_wait_n reports a ready object, or a real timeout, and cleans up."""
from vcommon import *
import scen_common

PID = "C11"
PROP_V = ["Props/Properties_C11.v"]
GEN_MODULES = ["Consts", "Sites"]
FLOW_FILES = ['wait.c', 'cv.c', 'note.c', 'counter.c']
REPLAY_HINT = "VRT_SEED=<seed> [VRT_NOBJ=<n>] [VRT_KIND=<k>] _work/h/waitn_mix"
PARTIAL = ["C11_mutex is proved in state form (C11_mutex_state / C11_sleeps_unlocked / C11_mutex_held_on_return): a caller that held mu at the call holds it "
           "through the first loop and the whole enqueue loop; it does not hold it at any pc between the unlock callback and the return, in particular while it "
           "reads ready times or sleeps; it holds it again at the return.  In log form (C11_mutex_order, C11_mutex_partial): the unlock callback is older than "
           "every P and newer than the enqueue calls of all indices count-1..0, none follows it, and lock runs iff unlock ran.  The stronger reading 'unlock only "
           "if ALL enqueues succeeded' is refuted (C11_mutex_refuted): when the LAST object turns out ready at its enqueue, nsync_wait_n still releases and "
           "re-acquires the mutex (needless but within the property: held again on return)",
           "where the unlock did not run, 'holds the mutex' is conditional on the ghost f_held (the caller held mu when it called, which is the API's "
           "precondition); the replay checks f_held = true at every replayed call",
           "'does not keep sleeping after one becomes ready' is proved in three parts: C11_wakes (a woken record implies a post or a pending V); "
           "C11_sleep_deadline (min_ntime is exactly min(abs_deadline, the count ready times of the round), so it is no later than any note's expiry); "
           "C11_sleep_timeout_enabled with C11_slept_examined (at clock >= min_ntime the timeout step is enabled and every object is dequeued).  That the P "
           "then really returns is liveness of the semaphore (C12) and the scheduler, not a theorem of this model, which has no fairness",
           "the waitable objects are abstract in WaitNModel (abstractions A1-A6 at the top of Model/WaitNModel.v); their own models are NoteModel / CounterModel / CvModel"]
TRUSTED_BASE = ["Model/WaitNModel.v control skeleton and abstract objects: hand-written, validated by two-pass lock-step replay (replay/waitn_replay.ml), "
                "including footprint comparison, record-liveness at every atomic record access, and mutex-state verdicts at every step of a call with a mutex",
                "merged steps (A1-A3): counter_ready_time's STORE waited + LOAD value are one step; nsync_counter_add's CAS and the ASSERT's load of `waited` are "
                "one step (the interleaving in which C aborts is absent: the model panics iff waited was set before the CAS); nsync_note_notified_deadline_'s "
                "load / note_mu section / clock read / notify are one step, sound because notified is monotone, expiry immutable and the clock only advances",
                "the timed P may time out only at clock >= its deadline (C12's theorem used as a specification); the mutex is an abstract holder option "
                "(C01/C02 are the licence)"]


def run(tier, seed):
    import mu_common, vrt_runner
    res = {"violations": [], "broken": [], "coverage": {}}
    base = seed * 100000
    tie = {}
    exe, err = vrt_runner.build("waitn_mix")
    replayer, err2 = mu_common.build_replayer("waitn_replay")
    if exe is None or replayer is None:
        res["broken"].append({"what": "harness or replayer build failed", "detail": err or err2})
    else:
        steps, sites, mism, n = 0, {}, [], 0
        for env, k in (({}, 300 if tier == "quick" else 3000), ({"VRT_KIND": 2}, 150 if tier == "quick" else 1500), ({"VRT_NOBJ": 5}, 150 if tier == "quick" else 1500)):
            rr = mu_common.replay_many(replayer, exe, range(base + 1, base + 1 + k), env)
            s2, st2, mm = mu_common.replay_summary(rr)
            steps += s2
            n += k
            mism += mm
            for a, b in st2.items():
                sites[a] = sites.get(a, 0) + b
        for m in mism[:3]:
            res["broken"].append({"what": "correspondence: WaitNModel and the real wait.c (+objects) disagree in lock-step", "scenario": "waitn_mix",
                                  "seed": m["seed"], "detail": m["replay"]})
        tie = {"traces_validated_against_impl": n - len(mism), "lockstep_model_steps": steps, "model_events_hit": sites}
    specs = [("note_waitwin", {"VRT_AIM": 60}, 1500, 20000), ("cv_mix", {"VRT_MODE": 7}, 600, 10000), ("cv_mix", {"VRT_MODE": 3}, 600, 10000), ("waitn_mix", {}, 5000, 100000), ("waitn_mix", {"VRT_NOBJ": 5}, 1500, 30000), ("waitn_mix", {"VRT_NOBJ": 1}, 1000, 20000), ("waitn_mix", {"VRT_PLAINPM": 40}, 2000, 40000), ("waitn_mix", {"VRT_AIM": 60}, 3000, 60000), ("waitn_mix", {"VRT_PRE": 1}, 1000, 20000)]
    cov = scen_common.run_scenarios(res, specs, tier, seed, {"C11", "C01", "C04", "C10"} | scen_common.LIVENESS | scen_common.CRASHES | scen_common.MEMORY)
    cov["rule"] = ("waitn_mix: one or two nsync_wait_n callers over 1..5 objects of mixed kinds (heap path for > 4), with/without a mutex, "
                   "deadlines past/future/never, actors notifying / decrementing / signalling; returned index checked against object state, "
                   "count only at/after the deadline, unlock/lock callbacks balanced and the lock held on return, every object made ready "
                   "again after return (leftover registration => dead-stack / freed-heap access); non-trivial = runs with semaphore sleeps")
    cov.update(tie)
    res["coverage"] = cov
    return res
