"""C11: nsync_wait_n reports a ready object, or a real timeout, and cleans up."""
from vcommon import *
import scen_common

PID = "C11"
PROP_V = ["Props/Properties_C11.v"]
GEN_MODULES = ["Consts", "Sites"]
REPLAY_HINT = "VRT_SEED=<seed> [VRT_NOBJ=<n>] [VRT_KIND=<k>] _work/h/waitn_mix"
PARTIAL = []


def run(tier, seed):
    res = {"violations": [], "broken": [], "coverage": {}}
    specs = [("waitn_mix", {}, 5000, 100000), ("waitn_mix", {"VRT_NOBJ": 5}, 1500, 30000), ("waitn_mix", {"VRT_NOBJ": 1}, 1000, 20000)]
    cov = scen_common.run_scenarios(res, specs, tier, seed, {"C11"} | scen_common.LIVENESS | scen_common.CRASHES | scen_common.MEMORY)
    cov["rule"] = ("waitn_mix: one or two nsync_wait_n callers over 1..5 objects of mixed kinds (heap path for > 4), with/without a mutex, "
                   "deadlines past/future/never, actors notifying / decrementing / signalling; returned index checked against object state, "
                   "count only at/after the deadline, unlock/lock callbacks balanced and the lock held on return, every object made ready "
                   "again after return (leftover registration => dead-stack / freed-heap access); non-trivial = runs with semaphore sleeps")
    res["coverage"] = cov
    return res
