"""C11: nsync_wait_n reports a ready object, or a real timeout, and cleans up."""
from vcommon import *
import scen_common

PID = "C11"
PROP_V = ["Props/Properties_C11.v"]
GEN_MODULES = ["Consts", "Sites"]
FLOW_FILES = ['wait.c']
REPLAY_HINT = "VRT_SEED=<seed> [VRT_NOBJ=<n>] [VRT_KIND=<k>] _work/h/waitn_mix"
PARTIAL = ["C11_mutex is proved as C11_mutex_partial (unlock runs after every enqueue call and lock runs iff unlock ran); the design's stronger "
           "reading 'unlock only if ALL enqueues succeeded' is refuted (C11_mutex_refuted): when the LAST object turns out ready at its enqueue, "
           "nsync_wait_n still releases and re-acquires the mutex (needless but within the property: the mutex is held again on return)",
           "the waitable objects are abstract in WaitNModel (their own models are NoteModel / CounterModel / CvModel)"]
TRUSTED_BASE = ["Model/WaitNModel.v control skeleton and abstract objects: hand-written, validated by two-pass lock-step replay (replay/waitn_replay.ml)"]


def run(tier, seed):
    import mu_common, vrt_runner
    res = {"violations": [], "broken": [], "coverage": {}}
    base = seed * 100000
    tie = {}
    exe, err = vrt_runner.build("waitn_mix")
    replayer, err2 = mu_common.build_replayer("waitn_replay")
    if exe is None or replayer is None:
        res["broken"].append({"what": "harness or replayer build failed", "detail": err or err2})
    else:
        steps, sites, mism, n = 0, {}, [], 0
        for env, k in (({}, 300 if tier == "quick" else 3000), ({"VRT_KIND": 2}, 150 if tier == "quick" else 1500), ({"VRT_NOBJ": 5}, 150 if tier == "quick" else 1500)):
            rr = mu_common.replay_many(replayer, exe, range(base + 1, base + 1 + k), env)
            s2, st2, mm = mu_common.replay_summary(rr)
            steps += s2
            n += k
            mism += mm
            for a, b in st2.items():
                sites[a] = sites.get(a, 0) + b
        for m in mism[:3]:
            res["broken"].append({"what": "correspondence: WaitNModel and the real wait.c (+objects) disagree in lock-step", "scenario": "waitn_mix",
                                  "seed": m["seed"], "detail": m["replay"]})
        tie = {"traces_validated_against_impl": n - len(mism), "lockstep_model_steps": steps, "model_events_hit": sites}
    specs = [("waitn_mix", {}, 5000, 100000), ("waitn_mix", {"VRT_NOBJ": 5}, 1500, 30000), ("waitn_mix", {"VRT_NOBJ": 1}, 1000, 20000), ("waitn_mix", {"VRT_PLAINPM": 40}, 2000, 40000), ("waitn_mix", {"VRT_AIM": 60}, 3000, 60000), ("waitn_mix", {"VRT_PRE": 1}, 1000, 20000)]
    cov = scen_common.run_scenarios(res, specs, tier, seed, {"C11", "C01", "C04", "C10"} | scen_common.LIVENESS | scen_common.CRASHES | scen_common.MEMORY)
    cov["rule"] = ("waitn_mix: one or two nsync_wait_n callers over 1..5 objects of mixed kinds (heap path for > 4), with/without a mutex, "
                   "deadlines past/future/never, actors notifying / decrementing / signalling; returned index checked against object state, "
                   "count only at/after the deadline, unlock/lock callbacks balanced and the lock held on return, every object made ready "
                   "again after return (leftover registration => dead-stack / freed-heap access); non-trivial = runs with semaphore sleeps")
    cov.update(tie)
    res["coverage"] = cov
    return res
