"""Build scenario binaries against /repo's working tree and run them over many seeds in parallel."""
import os, re, subprocess, concurrent.futures as cf
from vcommon import *

HARNESS = os.path.join(VERIF, "harness")
HOUT = os.path.join(WORK, "h")


def build_lib(force=False):
    """(Re)build libnsync_vrt.a if any input changed."""
    fp = repo_fingerprint() + harness_fp()
    stamp = os.path.join(HOUT, "FINGERPRINT")
    env = dict(os.environ)
    if force or not os.path.exists(stamp) or open(stamp).read() != fp:
        env["VRT_REBUILD"] = "1"
        if os.path.exists(stamp):
            os.remove(stamp)
    return env, stamp, fp


def harness_fp():
    import hashlib
    h = hashlib.sha256()
    for root, dirs, files in os.walk(HARNESS):
        dirs.sort()
        for fn in sorted(files):
            h.update(open(os.path.join(root, fn), "rb").read())
    return h.hexdigest()


def build(scen, extra=None, flavour=None):
    """Returns (exe or None, error text).  flavour="binary" links the harness' binary semaphore instead of the futex one."""
    with Lock("hbuild"):
        hout = HOUT + ("_" + flavour if flavour else "")
        fp = repo_fingerprint() + harness_fp()
        stamp = os.path.join(hout, "FINGERPRINT")
        env = dict(os.environ)
        if not os.path.exists(stamp) or open(stamp).read() != fp:
            env["VRT_REBUILD"] = "1"
            if os.path.exists(stamp):
                os.remove(stamp)
        if flavour:
            env["VRT_SEMFLAVOUR"] = flavour
        env["VERIF_REPO"] = REPO
        src = os.path.join(HARNESS, "scen", scen + ".c")
        exe = os.path.join(hout, scen)
        sstamp = exe + ".fp"
        if "VRT_REBUILD" not in env and os.path.exists(exe) and os.path.exists(sstamp) and open(sstamp).read() == fp:
            return exe, None      # up to date: never relink a binary another check may be executing
        rc, out, err = sh([os.path.join(HARNESS, "build.sh"), hout, src] + (extra or []), env=env, timeout=300)
        if rc != 0:
            return None, (err or out)[-1500:]
        open(stamp, "w").write(fp)
        open(sstamp, "w").write(fp)
        return exe, None


def run_one(exe, seed, env_extra, timeout):
    env = dict(os.environ)
    env.update({k: str(v) for k, v in env_extra.items()})
    env["VRT_SEED"] = str(seed)
    env["VRT_QUIET"] = env.get("VRT_QUIET", "0")
    try:
        r = subprocess.run([exe], env=env, capture_output=True, text=True, timeout=timeout, errors="replace")
        rc, out, err = r.returncode, r.stdout, r.stderr
    except subprocess.TimeoutExpired:
        rc, out, err = 124, "", "VRT-VIOLATION prop=HANG wall-clock timeout"
    res = {"seed": seed, "rc": rc, "env": env_extra}
    m = re.search(r"VRT-VIOLATION prop=(\S+) (.*)", err)
    if m:
        res["prop"] = m.group(1)
        res["msg"] = m.group(2)[:400]
        res["tail"] = [l for l in err.splitlines() if l.startswith("E ")][-25:]
    elif rc != 0:
        res["prop"] = "EXIT"
        res["msg"] = "exit code %d: %s" % (rc, (err or out)[-300:])
    st = re.search(r"VRT-STATS (.*)", out)
    if st:
        res["stats"] = {k: int(v) for k, v in (kv.split("=") for kv in st.group(1).split())}
    return res


def run_many(exe, seeds, env_extra=None, timeout=60, stop_after=5):
    env_extra = env_extra or {}
    results = []
    bad = 0
    with cf.ThreadPoolExecutor(max_workers=NCPU) as ex:
        futs = [ex.submit(run_one, exe, s, env_extra, timeout) for s in seeds]
        for f in futs:
            r = f.result()
            results.append(r)
    return results


def summarize(results):
    agg = {}
    fails = [r for r in results if r.get("prop")]
    for r in results:
        for k, v in r.get("stats", {}).items():
            if k in ("seed", "strategy", "switch", "clockp"):
                continue
            agg[k] = agg.get(k, 0) + v
    return agg, fails
