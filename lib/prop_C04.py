"""C04: condition-variable wake-ups are never lost and never swallowed by a timeout."""
from vcommon import *
import scen_common

PID = "C04"
PROP_V = ["Props/Properties_C04.v", "Props/Properties_C01x.v"]
GEN_MODULES = ["Consts", "Sites"]
FLOW_FILES = ['cv.c', 'sem_wait.c', 'mu.c', 'wait.c']
REPLAY_HINT = "VRT_SEED=<seed> VRT_MODE=<m> _work/h/cv_mix (or waitn_mix)"
PARTIAL = ["C04_no_lost_wakeup(_waitn): a waiter at its semaphore wait whose record a waker took is still on that waker's private list, or on the abstract "
           "mutex's queue / wake list, or has waiting = 0 with a post available, its waker at the V for it, or a post owed by the abstract mutex.  C04_no_stuck / "
           "C04_no_stuck_waitn are proved for quiescent worlds in which the ABSTRACT mutex holds no transferred waiter and owes no post (muq = mwake = [], owed = 0); "
           "without 'owes no post' the statement is refuted (C04_no_stuck_uncoupled_refuted: an unlocker that clears waiting and never posts), a behaviour mu.c excludes "
           "(the V follows the store) and the lock-step replay checks on every trace; that the abstract mutex eventually dequeues and wakes a transferred waiter is "
           "C02/MuModel's, not connected by a theorem",
           "C04_wake_complete is over the ghost history of each signal/broadcast call (k_q .. k_posts, written in the same step as the real effect: "
           "C04_taken/xfer/store/post_ghost): broadcast takes every queued record, signal the first and, if that is a reader, all queued readers; every taken record is "
           "woken (waiting cleared and the owner's semaphore posted) or handed to the mutex queue; that the woken thread then returns is C04_no_lost_wakeup + C04_no_stuck",
           "touch_queue over-approximates the records the dll operations access (every queued record)",
           "'(0, or the object's index from nsync_wait_n)': CvModel logs only was_queued for nsync_wait_n records; the returned index is WaitNModel's theorem (C11_index_world)",
           "configurations: CvModel has one cv, one mutex, one note; waiter-struct reuse across two cvs (remove_count carries over) is covered by the scenario oracles only",
           "the mutex inside CvModel is abstract (atomic lock field, environment actors for the queue hand-over); its concrete counterpart is Model/MuXferModel.v "
           "(Properties_C01x: MuModel stepped unchanged + cv waits, wake_waiters site by site, transfer, designated-waker re-entry): C04x_transfer_sound (a transferred "
           "waiter whose flag is still set is on the mutex queue or on the wake list of a thread inside nsync_mu_unlock_slow_), C04x_queue_sets_waiting (MU_WAITING is set "
           "whenever the queue is non-empty and the spinlock free, so mu.c's release will find it), C04x_spinlock_exclusive, C04x_no_lost_transfer_partial (in a "
           "quiescent world a sleeping transferred waiter is on the queue, MU_WAITING is set and no fast-path release is possible); C04x_no_lost_transfer_full "
           "(such a waiter never sleeps beside a FREE mutex) is a Definition: it needs MuProof3's HInv lifted to this wrapper (done for the debugger wrapper, "
           "not for this one); 30000 random programs of the extracted model show no counterexample"]
TRUSTED_BASE = ["CvModel's abstract mutex couples the unlocker's store waiting = 0 with its V through the ghost counter `owed`; the coupling (each MuWakeSt is followed by "
                "that thread's V on the same waiter, nothing owed at the end) is validated on every replayed trace by replay/cv_replay.ml, as is 'every signal/broadcast "
                "call past the early exit is logged' (#sites 306/404 = |wlog|)",
                "wake_waiters' access pattern after the F3 repair (semaphore owner captured at the store, the V touches nothing) is in the model; a mutant that reads it in "
                "VV violates C04_no_dead_record",
                "Model/CvModel.v control skeleton (cv.c: wait with deadline/cancel incl. the generic-lock path, signal, broadcast, wake_waiters with "
                "the transfer to the mutex queue, nsync_wait_n's cv callbacks): hand-written, validated by lock-step replay with cv-queue and "
                "mutex-queue snapshots (replay/cv_replay.ml)"]


def run(tier, seed):
    import mu_common
    res = {"violations": [], "broken": [], "coverage": {}}
    tie = mu_common.tie(res, "cv_replay", "CvModel", [("cv_mix", {"VRT_MODE": m}, 150, 1500) for m in (0, 1, 2, 3)], tier, seed)
    specs = [("cv_mix", {"VRT_MODE": 0}, 2000, 40000), ("cv_mix", {"VRT_MODE": 1}, 1500, 30000), ("cv_mix", {"VRT_MODE": 2}, 1000, 20000),
             ("cv_mix", {"VRT_MODE": 3}, 1500, 30000), ("cv_mix", {"VRT_MODE": 4}, 3000, 60000), ("waitn_mix", {"VRT_KIND": 2}, 1500, 30000),
             ("cv_mix", {"VRT_MODE": 0}, 800, 15000, "binary"), ("cv_mix", {"VRT_PLAINPM": 40}, 1500, 30000), ("muwait_mix", {"VRT_MODE": 3}, 2500, 50000),
             # MODE 5: every waiter (writer / reader / generic-lock) queued, then ONE broadcast (all must return) or ONE signal (>= 1, all
             # readers if only readers returned); MODE 6: all lock kinds x plain / timed / cancellable race the setter's broadcast
             ("cv_mix", {"VRT_MODE": 5}, 2500, 50000), ("cv_mix", {"VRT_MODE": 6}, 2000, 40000), ("cv_mix", {"VRT_MODE": 5}, 600, 12000, "binary"),
             ("cv_mix", {"VRT_MODE": 5, "VRT_GENERIC": 1}, 800, 15000)]
    cov = scen_common.run_scenarios(res, specs, tier, seed, {"C04", "C05"} | scen_common.LIVENESS | scen_common.CRASHES | scen_common.MEMORY)
    cov["rule"] = ("cv_mix: token monitor with plain/timed/cancellable/reader/wait_n waiters and signallers inside or after the critical "
                   "section (every waiter without deadline must finish: a lost or swallowed wake-up ends stuck), readers + ONE signal, signal "
                   "under a read lock, and the single-waiter mode in which a wake-up issued in time must be reported as 0 whatever the clock "
                   "and the note do afterwards; waitn_mix on cvs; non-trivial = runs with semaphore sleeps")
    tiex = mu_common.tie(res, "muxfer_replay", "MuXferModel", [("cv_mix", {"VRT_MODE": m}, 80, 800) for m in (0, 1, 2, 4)] +
                         [("cv_mix", {"VRT_MODE": m, "VRT_GENERIC": 0}, 60, 600) for m in (5, 6)], tier, seed)
    for k in ("traces_validated_against_impl", "lockstep_model_steps"):
        tie[k] = tie.get(k, 0) + tiex.get(k, 0)
    tie["model_sites_hit_muxfer"] = tiex.get("model_sites_hit", {})
    cov.update(tie)
    res["coverage"] = cov
    return res
