"""C04: condition-variable wake-ups are never lost and never swallowed by a timeout."""
from vcommon import *
import scen_common

PID = "C04"
PROP_V = ["Props/Properties_C04.v"]
GEN_MODULES = ["Consts", "Sites"]
FLOW_FILES = ['cv.c', 'sem_wait.c']
REPLAY_HINT = "VRT_SEED=<seed> VRT_MODE=<m> _work/h/cv_mix (or waitn_mix)"
PARTIAL = ["'(0, or the object's index from nsync_wait_n)': CvModel logs only was_queued for nsync_wait_n records; the returned index is WaitNModel's theorem (C11_index)",
           'configurations: CvModel has one cv, one mutex, one note; waiter-struct reuse across two cvs (remove_count carries over) is covered by the scenario oracles only',
           "C04_no_stuck is proved as C04_no_stuck_partial (in a quiescent world a thread asleep in nsync_cv_wait is still on the cv queue, or its "
           "record was taken by a waker that has finished with it while its semaphore is empty) + C04_waker_moves; the full statement "
           "(C04_no_stuck_full, kept as a Definition) additionally needs the per-thread semaphore post accounting, which the abstract mutex "
           "of CvModel does not carry (the semaphore is shared with the thread's mutex sleeps), and the mutex's obligation to wake "
           "transferred waiters (C02 / MuModel); 'every waiter without a deadline finishes' is decided by the stuck detector",
           "the mutex inside CvModel is abstract (atomic lock field, environment actors for the queue hand-over); MuModel / MuWaitModel are its models"]
TRUSTED_BASE = ["Model/CvModel.v control skeleton (cv.c: wait with deadline/cancel incl. the generic-lock path, signal, broadcast, wake_waiters with "
                "the transfer to the mutex queue, nsync_wait_n's cv callbacks): hand-written, validated by lock-step replay with cv-queue and "
                "mutex-queue snapshots (replay/cv_replay.ml)"]


def run(tier, seed):
    import mu_common
    res = {"violations": [], "broken": [], "coverage": {}}
    tie = mu_common.tie(res, "cv_replay", "CvModel", [("cv_mix", {"VRT_MODE": m}, 150, 1500) for m in (0, 1, 2, 3)], tier, seed)
    specs = [("cv_mix", {"VRT_MODE": 0}, 2000, 40000), ("cv_mix", {"VRT_MODE": 1}, 1500, 30000), ("cv_mix", {"VRT_MODE": 2}, 1000, 20000),
             ("cv_mix", {"VRT_MODE": 3}, 1500, 30000), ("cv_mix", {"VRT_MODE": 4}, 3000, 60000), ("waitn_mix", {"VRT_KIND": 2}, 1500, 30000),
             ("cv_mix", {"VRT_MODE": 0}, 800, 15000, "binary"), ("cv_mix", {"VRT_PLAINPM": 40}, 1500, 30000), ("muwait_mix", {"VRT_MODE": 3}, 2500, 50000),
             # MODE 5: every waiter (writer / reader / generic-lock) queued, then ONE broadcast (all must return) or ONE signal (>= 1, all
             # readers if only readers returned); MODE 6: all lock kinds x plain / timed / cancellable race the setter's broadcast
             ("cv_mix", {"VRT_MODE": 5}, 2500, 50000), ("cv_mix", {"VRT_MODE": 6}, 2000, 40000), ("cv_mix", {"VRT_MODE": 5}, 600, 12000, "binary"),
             ("cv_mix", {"VRT_MODE": 5, "VRT_GENERIC": 1}, 800, 15000)]
    cov = scen_common.run_scenarios(res, specs, tier, seed, {"C04", "C05"} | scen_common.LIVENESS | scen_common.CRASHES | scen_common.MEMORY)
    cov["rule"] = ("cv_mix: token monitor with plain/timed/cancellable/reader/wait_n waiters and signallers inside or after the critical "
                   "section (every waiter without deadline must finish: a lost or swallowed wake-up ends stuck), readers + ONE signal, signal "
                   "under a read lock, and the single-waiter mode in which a wake-up issued in time must be reported as 0 whatever the clock "
                   "and the note do afterwards; waitn_mix on cvs; non-trivial = runs with semaphore sleeps")
    cov.update(tie)
    res["coverage"] = cov
    return res
