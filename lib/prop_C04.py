"""C04: condition-variable wake-ups are never lost and never swallowed by a timeout."""
from vcommon import *
import scen_common

PID = "C04"
PROP_V = ["Props/Properties_C04.v", "Props/Properties_C01x.v", "Props/Properties_C04x.v"]
GEN_MODULES = ["Consts", "Sites"]
FLOW_FILES = ['cv.c', 'sem_wait.c', 'mu.c', 'wait.c']
REPLAY_HINT = "VRT_SEED=<seed> VRT_MODE=<m> _work/h/cv_mix (or waitn_mix)"
PARTIAL = ["MuXferModel now also has GENERIC-interface waiters (XWaitG) and nsync_wait_n records: C04x_generic_never_transferred (a generic waiter is never marked transferred, never on the mutex queue or a releaser's wake list), C04x_f16_old_code_refuted / C04x_f16_old_stranded (with the transfer test of the code before f28c99f a balanced program -- native writer, generic waiter behind it, one broadcast under the write lock -- reaches a quiescent world with a locker asleep beside a free mutex, word 44), C04x_f16_schedule_repaired, C04x_balanced_no_mu_sleeper (balanced programs: no thread sleeps on the mutex queue in a quiescent world); the replayer compares the RETURN VALUES of the waits with the model's outcome ghost and follows cv_mix MODE 5 / 6 with mixed lock identities",
           "after the F16 repair: C04_transferred_is_native (CvModel, every reachable world: whatever wake_waiters moves to the mutex queue is a native waiter associated with the mutex -- never a generic-interface waiter, which is woken directly), C04_old_xfer_moves_generic (the transfer loop of the code before f28c99f moves the generic record onto the mutex queue in a run with a native waiter first, a generic one behind it and one broadcast under the write lock; the repaired model wakes it); the replayer follows runs that mix native and generic waiters (cv_mix MODE 5 / 6 with VRT_MIXLOCKS=1) and fails if the implementation moves a record the model leaves on its wake list",
           "after the F15 repair: C04_waiting_bit_has_a_waiter / C04_waiting_bit_exact (CvModel: at wake_waiters' release MU_WAITING is left set only if a transferred record is on the mutex queue or the environment reported a plain locker queued; the replayer derives that choice from the trace and fails on a cleared bit over a non-empty queue or a kept bit over an empty one; cv_mix MODE 7 exercises the clearing branch), C04_abstract_mutex_lock_field (the lock field of the abstract mutex word counts the model's holders), C04_mu_spin_section; the environment actor MuDeq is refused while a wake_waiters thread owns the mutex spinlock (the real dequeue needs that spinlock)",
           "C04_no_lost_wakeup(_waitn): a waiter at its semaphore wait whose record a waker took is still on that waker's private list, or on the abstract "
           "mutex's queue / wake list, or has waiting = 0 with a post available, its waker at the V for it, or a post owed by the abstract mutex.  C04_no_stuck / "
           "C04_no_stuck_waitn are proved for quiescent worlds in which the ABSTRACT mutex holds no transferred waiter and owes no post (muq = mwake = [], owed = 0); "
           "without 'owes no post' the statement is refuted (C04_no_stuck_uncoupled_refuted: an unlocker that clears waiting and never posts), a behaviour mu.c excludes "
           "(the V follows the store) and the lock-step replay checks on every trace; that the abstract mutex eventually dequeues and wakes a transferred waiter is "
           "C02/MuModel's, not connected by a theorem",
           "C04_wake_complete is over the ghost history of each signal/broadcast call (k_q .. k_posts, written in the same step as the real effect: "
           "C04_taken/xfer/store/post_ghost): broadcast takes every queued record, signal the first and, if that is a reader, all queued readers; every taken record is "
           "woken (waiting cleared and the owner's semaphore posted) or handed to the mutex queue; that the woken thread then returns is C04_no_lost_wakeup + C04_no_stuck",
           "touch_queue over-approximates the records the dll operations access (every queued record)",
           "'(0, or the object's index from nsync_wait_n)': CvModel logs only was_queued for nsync_wait_n records; the returned index is WaitNModel's theorem (C11_index_world)",
           "configurations: CvModel has one cv, one mutex, one note; waiter-struct reuse across two cvs (remove_count carries over) is covered by the scenario oracles only",
           "the mutex inside CvModel is abstract (atomic lock field, environment actors for the queue hand-over); its concrete counterpart is Model/MuXferModel.v "
           "(Properties_C01x / C04x: MuModel stepped for the base threads + cv waits, wake_waiters site by site, transfer, designated-waker re-entry; updated to the F15 "
           "repair): C04x_transfer_sound, C04x_queue_sets_waiting, C04x_waiting_only_if_queued (queue empty => MU_WAITING clear whenever the spinlock is free: the F15 "
           "repair as an invariant), C04x_spinlock_exclusive; the hand-off invariant of C02 LIFTED to this wrapper (Proof/MuXferProof4-8): "
           "C04x_handoff_all_states (in EVERY reachable world a non-empty queue with no holder and the spinlock free has a live waker: a waiter whose flag has been "
           "cleared, a designated waker inside lock_slow, a transferred cv waiter with its flag cleared, or a releaser with a non-empty wake list), "
           "C04x_no_lost_transfer_full (no transferred waiter sleeps beside a free mutex in a quiescent world), C04x_holder_is_responsible, "
           "C04x_last_holder_must_scan, C04x_cleared_flag_has_post (the coupling CvModel trusts), and for the result: C05x_transferred_returns_zero / "
           "C05x_zero_until_return (a waiter that was transferred or woken returns 0 even if its deadline expires afterwards).  Abstractions of MuXferModel: the cv "
           "spinlock as three atomic sections, native waiters on one cv and one mutex, cv word and remove_count not modelled; 'MU_DESIG_WAKER set' is NOT part of the "
           "all-states form (a batch of woken readers shares one bit: the first to acquire clears it)"]
TRUSTED_BASE = ["CvModel's abstract mutex couples the unlocker's store waiting = 0 with its V through the ghost counter `owed`; the coupling (each MuWakeSt is followed by "
                "that thread's V on the same waiter, nothing owed at the end) is validated on every replayed trace by replay/cv_replay.ml, as is 'every signal/broadcast "
                "call past the early exit is logged' (#sites 306/404 = |wlog|)",
                "wake_waiters' access pattern after the F3 repair (semaphore owner captured at the store, the V touches nothing) is in the model; a mutant that reads it in "
                "VV violates C04_no_dead_record",
                "Model/CvModel.v control skeleton (cv.c: wait with deadline/cancel incl. the generic-lock path, signal, broadcast, wake_waiters with "
                "the transfer to the mutex queue, nsync_wait_n's cv callbacks): hand-written, validated by lock-step replay with cv-queue and "
                "mutex-queue snapshots (replay/cv_replay.ml)"]


def run(tier, seed):
    import mu_common
    res = {"violations": [], "broken": [], "coverage": {}}
    tie = mu_common.tie(res, "cv_replay", "CvModel", [("cv_mix", {"VRT_MODE": m}, 150, 1500) for m in (0, 1, 2, 3)] + [("cv_mix", {"VRT_MODE": 7}, 100, 1000), ("cv_mix", {"VRT_MODE": 5, "VRT_MIXLOCKS": 1}, 100, 1000), ("cv_mix", {"VRT_MODE": 6, "VRT_MIXLOCKS": 1}, 100, 1000)], tier, seed)
    specs = [("cv_mixlocks", {}, 800, 15000), ("cv_mix", {"VRT_MODE": 0}, 2000, 40000), ("cv_mix", {"VRT_MODE": 1}, 1500, 30000), ("cv_mix", {"VRT_MODE": 2}, 1000, 20000),
             ("cv_mix", {"VRT_MODE": 3}, 1500, 30000), ("cv_mix", {"VRT_MODE": 7}, 1000, 20000), ("cv_mix", {"VRT_MODE": 4}, 3000, 60000), ("waitn_mix", {"VRT_KIND": 2}, 1500, 30000),
             ("cv_mix", {"VRT_MODE": 0}, 800, 15000, "binary"), ("cv_mix", {"VRT_PLAINPM": 40}, 1500, 30000), ("muwait_mix", {"VRT_MODE": 3}, 2500, 50000),
             # MODE 5: every waiter (writer / reader / generic-lock) queued, then ONE broadcast (all must return) or ONE signal (>= 1, all
             # readers if only readers returned); MODE 6: all lock kinds x plain / timed / cancellable race the setter's broadcast
             ("cv_mix", {"VRT_MODE": 5}, 2500, 50000), ("cv_mix", {"VRT_MODE": 6}, 2000, 40000), ("cv_mix", {"VRT_MODE": 5}, 600, 12000, "binary"),
             ("cv_mix", {"VRT_MODE": 5, "VRT_GENERIC": 1}, 800, 15000)]
    cov = scen_common.run_scenarios(res, specs, tier, seed, {"C04", "C05"} | scen_common.LIVENESS | scen_common.CRASHES | scen_common.MEMORY)
    cov["rule"] = ("cv_mix: token monitor with plain/timed/cancellable/reader/wait_n waiters and signallers inside or after the critical "
                   "section (every waiter without deadline must finish: a lost or swallowed wake-up ends stuck), readers + ONE signal, signal "
                   "under a read lock, and the single-waiter mode in which a wake-up issued in time must be reported as 0 whatever the clock "
                   "and the note do afterwards; waitn_mix on cvs; non-trivial = runs with semaphore sleeps")
    tiex = mu_common.tie(res, "muxfer_replay", "MuXferModel", [("cv_mix", {"VRT_MODE": m}, 80, 800) for m in (0, 1, 2, 3, 4, 7)] +
                         [("cv_mix", {"VRT_MODE": m, "VRT_MIXLOCKS": 1}, 60, 600) for m in (5, 6)], tier, seed)
    for k in ("traces_validated_against_impl", "lockstep_model_steps"):
        tie[k] = tie.get(k, 0) + tiex.get(k, 0)
    tie["model_sites_hit_muxfer"] = tiex.get("model_sites_hit", {})
    cov.update(tie)
    res["coverage"] = cov
    return res
