"""C04: condition-variable wake-ups are never lost and never swallowed by a timeout."""
from vcommon import *
import scen_common

PID = "C04"
PROP_V = ["Props/Properties_C04.v"]
GEN_MODULES = ["Consts", "Sites"]
REPLAY_HINT = "VRT_SEED=<seed> VRT_MODE=<m> _work/h/cv_mix (or waitn_mix)"
PARTIAL = []


def run(tier, seed):
    res = {"violations": [], "broken": [], "coverage": {}}
    specs = [("cv_mix", {"VRT_MODE": 0}, 2000, 40000), ("cv_mix", {"VRT_MODE": 1}, 1500, 30000), ("cv_mix", {"VRT_MODE": 2}, 1000, 20000),
             ("cv_mix", {"VRT_MODE": 3}, 1500, 30000), ("cv_mix", {"VRT_MODE": 4}, 3000, 60000), ("waitn_mix", {"VRT_KIND": 2}, 1500, 30000),
             ("cv_mix", {"VRT_MODE": 0}, 800, 15000, "binary"), ("cv_mix", {"VRT_PLAINPM": 40}, 1500, 30000), ("muwait_mix", {"VRT_MODE": 3}, 2500, 50000)]
    cov = scen_common.run_scenarios(res, specs, tier, seed, {"C04", "C05"} | scen_common.LIVENESS | scen_common.CRASHES | scen_common.MEMORY)
    cov["rule"] = ("cv_mix: token monitor with plain/timed/cancellable/reader/wait_n waiters and signallers inside or after the critical "
                   "section (every waiter without deadline must finish: a lost or swallowed wake-up ends stuck), readers + ONE signal, signal "
                   "under a read lock, and the single-waiter mode in which a wake-up issued in time must be reported as 0 whatever the clock "
                   "and the note do afterwards; waitn_mix on cvs; non-trivial = runs with semaphore sleeps")
    res["coverage"] = cov
    return res
