CHECKS = {
    "C18": {
        "text": "Machine-checked theorems (Coq) over the Gallina translation of nsync_time_add/sub/cmp/s_ns/ms/us that "
                "gen/c2coq.py regenerates from the C and the C++ source on every run: exactness, normalisation, "
                "round-trip, total order, bounds, for all 64-bit seconds and all 32-bit ms/us arguments; the translation "
                "is validated against both compiled builds on a boundary grid and random values on every run.",
        "design_ref": "DESIGN.md section 4, C18",
        "note": "Trusted: Coq kernel, the clang-AST-to-Gallina translator (cross-checked differentially each run), gcc/g++ "
                "for the differential drivers (-fwrapv so that signed wrap matches the model's explicit wrap). "
                "Overflow of the seconds field is excluded by explicit hypotheses (add_no_ovf/sub_no_ovf).",
        "technique": "Coq proof over source-regenerated model + differential execution",
    },
}
CHECKS["C17"] = {
    "text": "Machine-checked refinement (Coq): the Gallina translation of every function of internal/dll.c, regenerated from the "
            "source on every run, implements sequences: splice/make_first/make_last/remove/init specifications over rings of any "
            "length, frame conditions, forward/backward traversal = the sequence / its reverse, and by induction every operation "
            "sequence on any number of disjoint lists (C17_refines, C17_sequences).  The translation is validated against the "
            "compiled dll.c (ASan/UBSan) on exhaustive short and random long operation sequences each run.",
    "design_ref": "DESIGN.md section 4, C17",
    "note": "Trusted: Coq kernel, translator (cross-checked differentially), gcc. Heap modelled as a total map address -> cell; "
            "preconditions of the C API (elements of different lists, e not in list) are hypotheses (disjoint, lrep).",
    "technique": "Coq refinement proof over source-regenerated model + differential execution",
}
CHECKS["C16"] = {
    "text": "(b) Machine-checked theorem (Coq) over the regenerated translation of emit_init/emit_c: for every int n (also <= 0), "
            "every start address and every character sequence, writes stay in [start,start+n), the contents are exactly the text "
            "and NUL if it fits, else the first n-4 characters + '...' + NUL (C16_buffer); validated byte-for-byte against the real "
            "debug functions for n in 0..80 and more, with canaries.  (a) the four debug functions run as participants of "
            "deterministic-scheduler executions with a write monitor asserting that they change nothing but the queue spinlock bit.  Third session: part (a) is a theorem: debugger threads as participants of the mutex model (MuDbgModel, Properties_C16a: holders unchanged, exclusion, spinlock discipline, never blocks, MuProof3's hand-off invariant lifted -- no lost hand-off and a live spinlock owner with debuggers present; the F2 regression refuted as a theorem about the old code shape) and of the cv model (CvDbgModel, Properties_C16c), both replayed in lock-step with a debugger thread.",
    "design_ref": "DESIGN.md section 4, C16",
    "note": "cv half: no-lost-wake-up over the combined system not proved; condition-free mutex without cv traffic (coverage.partial).",
    "technique": "Coq proofs over source-regenerated models (buffer; debugger participants of the mutex / cv models) + differential execution + lock-step trace inclusion + write-monitor exploration",
}
CHECKS["C01"] = {
    "text": "Machine-checked invariant (Coq) over MuModel, the step-per-atomic-site model of mu.c whose CAS values, guards, masks and "
            "lock_type tables are regenerated from /repo on every run: for any number of threads (< 2^24), any programs of "
            "lock/rlock/trylock/rtrylock/unlock and any schedule, the lock field of the word equals the set of holders, hence at most "
            "one writer and never a writer with a reader (C01_word_agrees, C01_exclusion).  The control skeleton is replayed in "
            "lock-step against traces of the real mu.c (values read/written, queue contents) on every run; a shadow-occupancy oracle "
            "runs over thousands of deterministic schedules.  Third session: the same invariant over MuXferModel (MuModel stepped unchanged + condition-variable waits on the mutex: the release inside nsync_cv_wait, wake_waiters site by site with the transfer to the mutex queue, re-acquisition as designated waker or afresh, timeouts): C01x_exclusion, C01x_reacquire_mode, C01x_reacquire_by_cas, replayed in lock-step against cv_mix; C01w_exclusion over MuWaitModel for nsync_mu_wait_with_deadline.",
    "design_ref": "DESIGN.md section 4, C01",
    "note": "Trusted: Coq kernel, site/constant extractor, hand-written control skeletons (validated by sampled lock-step replay and pinned to the code: sites, flow, function bodies), the vrt runtime's futex model. nsync_wait_n's re-acquisition and the mix of mu_wait.c and cv.c on one mutex: occupancy oracle (coverage.partial).",
    "technique": "Coq inductive invariant over source-regenerated transition system + lock-step trace inclusion",
}
CHECKS["C12"] = {
    "text": "Machine-checked invariants (Coq) over SemModel, the step-per-site model of nsync_semaphore_futex.c over a modelled kernel futex "
            "with adversarial EINTR / EAGAIN / early-ETIMEDOUT returns, one owner and ANY number of posters, any schedule: count = #V-#P >= 0, "
            "posts made = successful Ps + count + pending posts (C12_conservation), ETIMEDOUT only if the deadline was <= a clock value READ in that "
            "call (the clock read is its own step; comparison = the translated nsync_time_cmp), owner asleep => count 0 or a wake pending (no lost "
            "post), an idle owner's next call on a positive count returns 0 in 2 steps (C12_future), solo termination within 4 steps.  CAS values/guards regenerated from the source; skeleton replayed in "
            "lock-step (incl. the timespec passed to the kernel) against the real file on every run.",
    "design_ref": "DESIGN.md section 4, C12",
    "note": "The kernel futex is modelled, not verified (trusted base); replay samples schedules.",
    "technique": "Coq inductive invariants over source-regenerated transition system + lock-step trace inclusion",
}
CHECKS["C15"] = {
    "text": "Theorems (Coq) over SemModel for EVERY normalized deadline, any 64-bit seconds incl. before the epoch: no ASSERT failure "
            "(C15_no_crash), an expired deadline yields the timeout result within 4 own steps (C15_expired_prompt), no early timeout "
            "(C15_no_early_timeout); tied to the code by lock-step replay incl. the timespec handed to FUTEX_WAIT.  The entry points above "
            "the semaphore are run on the REAL library and kernel (C and C++ builds) over the boundary deadline set, one child process per case.  Third session: sem_wait.c above the semaphore is modelled (SemWaitModel): any deadline value enables the time-out once reached, an expired deadline or note returns non-zero within a bounded number of own steps (C05sx_expired_prompt), no deadline and no note never times out (C15sw_no_deadline); the grid also passes never-notified cancel notes and takes nsync_wait_n's heap path.  Fifth review: the grid also builds the PURE C++11 platform (std::mutex / condition_variable semaphore) and calls the C++ overloads that take a std::chrono time_point and nsync_note_expiry_timepoint; two genuine defects found there and repaired in /repo: F17 (nsync_from_time_point_ produced a negative tv_nsec for a fractional pre-epoch time_point: SIGSEGV in every timed wait) and F18 (nsync_to_time_point_ overflowed for far-future times: hang on the pure C++11 semaphore, expiry before the epoch).",
    "design_ref": "DESIGN.md section 4, C15",
    "note": "Unnormalized deadlines (tv_nsec >= 10^9) are outside theorems and grid; posix-mutex / sem_t / win32 / macOS semaphores are not built here (coverage.partial).",
    "technique": "Coq proof over semaphore and sem_wait models + lock-step ties + real-library boundary grid in child processes",
}
CHECKS["C03"] = {
    "text": "Theorems (Coq): (1) over MuModel instrumented with the operational release/acquire view semantics driven ONLY by the memory "
            "order each site requests in the source (Gen/Sites.v): whatever a releaser had in its view is in the view of every later "
            "acquirer, any threads/programs/schedules (C03_mutex_handoff); likewise over OnceModel (the end of the once-function is in the "
            "view of every nsync_run_once* return, C03_once_handoff) and CounterModel (the zeroing decrement is in the view of every later "
            "return that reports 0, and a V is in the view of the P it wakes, C03_counter_handoff / _wake_handoff); (2) every acquiring site is acquire, every releasing site release, "
            "no plain store to the mutex word; publication sites of once/note/counter/waiting are release, observers acquire; (3) the whole "
            "atomic-site inventory (kind, order, target of all ~160 sites) regenerated from /repo equals the pinned one.  A vector-clock "
            "detector with the same rules runs over all scenario families, fed by the orders the executed macros really pass.",
    "design_ref": "DESIGN.md section 4, C03",
    "note": "Execution-level theorems for mutex, once, counter; note flag and signal->waiter: order lemmas over the inventory + detector (coverage.partial). "
            "SC interleaving of the atomics themselves.",
    "technique": "Coq proof over view-instrumented model + pinned site inventory (reflexivity) + vector-clock race detection",
}
CHECKS["C07"] = {
    "text": "Machine-checked invariants (Coq) over OnceModel (one step per atomic site of once.c on the once word; values/guards regenerated "
            "from the source), with the call of the once-function as two steps (f-begin / f-end), once_mu / once_cv as abstract lock and timed wait, and an ARBITRARY "
            "map from once objects to internal lock slots), for ANY number of callers, objects, variants and schedules: at most one thread ever wins "
            "the 0 -> 1 CAS and at most one f-begin per word (C07_winner_unique), f-end precedes the store of 2 and every return (C07_order, "
            "C07_not_early), exactly once if anybody returned, spin variants take no lock, a call on a done once returns at its first load touching "
            "nothing else, and completion stays possible from every reachable world if the function returns and the lock is obtainable (both shown "
            "necessary).  Lock-step replay of every once.c site AND the function's entry/exit against the real code on every run.",
    "design_ref": "DESIGN.md section 4, C07",
    "note": "once_mu/once_cv abstract (a loser's timed wait can always end by its own step); fair-schedule termination not a theorem (coverage.partial).",
    "technique": "Coq inductive invariant over source-regenerated transition system + lock-step trace inclusion",
}
CHECKS["C19"] = {
    "text": "Theorems (Coq, by evaluation of regenerated terms): every call, pointer store and atomic site that follows the allocation in "
            "nsync_note_new / nsync_counter_new is dominated by a test that is false for a NULL pointer, so a failed allocation makes the "
            "constructor return NULL having touched nothing (C19_*_does_nothing_on_null), and the guards are not vacuous.  For nsync_note_new also a "
            "frame theorem over NoteModel (C19m_note_new_null_frame: from ANY world the failing allocation step returns NULL and changes no note, "
            "lock, thread, counter or ghost), with NoteModel replayed in lock-step against runs in which a creator thread's allocations fail under "
            "concurrency (scenario note_alloc); every C08 / C09 theorem quantifies over such runs.  Sequential scenario with a fail-the-allocation "
            "switch compares existing objects byte-for-byte and re-uses them afterwards.  KNOWN FINDING (fifth review): the constructor's SECOND possible allocation -- the calling thread's waiter struct when parent->note_mu is contended (nsync_waiter_new_: unchecked malloc) -- crashes on failure instead of returning NULL; reproduced by the scenario alloc_waiter, listed in known_findings.json (no local repair: a lock acquisition cannot report failure); the check prints KNOWN-FINDING for it and fails for any other violation.",
    "design_ref": "DESIGN.md section 4, C19",
    "note": "The dominance facts come from the translator's AST walk (trusted); the known finding concerns nsync_note_new with a contended parent only (nsync_counter_new takes no lock).",
    "technique": "Coq evaluation of source-regenerated dominance conditions + frame theorem over NoteModel with lock-step replay + fault-injection scenarios",
}
CHECKS["C02"] = {
    "text": "Theorems (Coq) over MuModel: trylock/rtrylock never block from ANY world (each own step is never a semaphore wait, a rank 3->0 "
            "decreases, other threads cannot change the caller's pc) and report truthfully; in every reachable world (any threads, programs, "
            "schedules) the queue holds distinct sleeping lockers and MU_WAITING is set whenever it is non-empty; NO LOST HAND-OFF: in a "
            "reachable world where nothing can move, every thread asleep in lock/rlock faces a mutex that is still held, and the last "
            "holder's release is forced onto the path that scans the queue and wakes somebody (who-wakes-whom invariant HInv, "
            "Proof/MuProof3.v).  Global progress over thousands of schedules is also decided by the runtime's stuck detector; the model "
            "is replayed in lock-step against the real mu.c.  Third session: the hand-off invariant also over mutex + cv waits (Properties_C04x: C04x_handoff_all_states, C04x_last_holder_must_scan); the fourth review found F16 (a generic-interface cv waiter moved onto the mutex queue left MU_DESIG_WAKER set for ever: a later locker slept on a free mutex), reproduced on the real library and by the scenario cv_mixlocks, repaired in /repo f28c99f.",
    "design_ref": "DESIGN.md section 4, C02",
    "note": "Reader half as first written is refuted by writer-priority schedules and restated (coverage.partial); fairness-based liveness not a theorem.",
    "technique": "Coq invariants over source-regenerated transition system + lock-step tie + stuck-state detection on schedules",
}
CHECKS["C13"] = {
    "text": "Theorems (Coq) over MuModel: after a release's last successful word CAS only waiter records are touched (C13_last_cas), "
            "uncontended releases end in that very step, and between an early release and that last CAS the mutex is pinned by a non-empty "
            "queue/wake list whose members are still inside nsync_mu_lock (C13_pinned), for any threads/programs/schedules.  The refcount "
            "pattern and the waker-vs-wait_n half are run against an arena that unmaps freed blocks and a dead-stack-frame check.  Third session: the reference-count theorem with an explicit free over MuRefModel (C13r_no_touch_after_free, C13r_tail_after_free, C13r_reader_variant; in-lock read-mode decrement refuted as a client error), and C13sw_no_dead_touch for cancellable waits' on-stack records (SemWaitModel).  The audit of C13r found F15 (stale MU_WAITING from cv.c's wake_waiters lets the pattern free the mutex under a thread still in nsync_mu_unlock_slow_): reproduced by the scripted scenario refcount_cv and repaired in /repo 0f631a1; the theorem WITH cv traffic is C13x_no_touch_after_free over MuXRefModel (mutex + cv waits + nsync_wait_n records + non-user signallers), and C13x_old_code_refuted shows the pre-repair release step reaches a touch-after-free on the F15 schedule; around conditional critical sections (nsync_mu_wait users, timeouts inside the critical section) it is C13w_no_touch_after_free over MuWRefModel.",
    "design_ref": "DESIGN.md section 4, C13",
    "note": "Mutex + cv + nsync_mu_wait users TOGETHER: arena oracle (mix_all) only; waker half vs nsync_wait_n: oracle (coverage.partial).",
    "technique": "Coq invariants over source-regenerated transition systems (mutex, refcount wrapper, sem_wait) + lock-step trace inclusion + arena/dead-stack oracles on schedules",
}
CHECKS["C14"] = {
    "text": "Theorems (Coq) over MuModel: while MU_LONG_WAIT is set no thread that has not slept in its current call can acquire (all fast "
            "paths, try-locks, lock_slow before the first sleep; any number of such threads), the LONG_WAIT_THRESHOLD-th fruitless wake-up "
            "makes the waiter set the bit in every enqueue CAS, it re-queues at the front, and once woken it ignores the barrier.  The bound "
            "on the victim's sleeps is asserted under a scenario-directed adversarial scheduler and random schedules.  Third session: the property's second sentence over runs (Properties_C14c): MU_LONG_WAIT is set only by an escalated thread's enqueue CAS and cleared only by such a thread's acquisition (C14_long_wait_transition, C14_long_wait_owner); from the victim's enqueue to its acquisition no fresh thread acquires unless another long waiter acquired in between (C14_no_fresh_overtake, C14_single_victim).  A numeric bound for arbitrary schedules is refuted on the model and replayed on the real code (starve2): the overtakers there have themselves waited (outside the property's second sentence).",
    "design_ref": "DESIGN.md section 4, C14",
    "note": "Bound LONG_WAIT_THRESHOLD + 4 for fresh-barger adversaries: starve oracle only (coverage.partial).",
    "technique": "Coq invariants over source-regenerated transition system (history ghosts over runs) + lock-step trace inclusion + adversarial-schedule oracle",
}
CHECKS["C10"] = {
    "text": "Theorems (Coq) over CounterModel (one step per atomic site of counter.c incl. the one-object wait_n path, abstract counter_mu, "
            "abstract semaphore, monotone clock; values/guards regenerated from the source), any threads/programs/schedules/clock: add's "
            "successful CAS is its linearization point and the returned value is the abstract value right after it; value()/non-zero wait "
            "results are values held during the call; wait returns 0 only if the value was 0 during the call and non-zero only after its "
            "deadline; waiters queued => value != 0 while the lock is free, records removed at zero get waiting:=0 and a V; a wait that finds "
            "0 at its first load performs no P.  Lock-step replay incl. returned values; linearizability search over scenario histories.",
    "design_ref": "DESIGN.md section 4, C10",
    "note": "Contract (no increment from zero once a waiter has waited) is the model's `broken` flag, excluded by hypothesis; no-stuck partial.",
    "technique": "Coq inductive invariants over source-regenerated transition system + lock-step trace inclusion + linearizability oracle",
}
CHECKS["C11"] = {
    "text": "Theorems (Coq) over WaitNModel (nsync_wait_n step by step for any count incl. the heap path, abstract note/counter/cv objects "
            "faithful to their enqueue/dequeue contracts, signal/broadcast split so that cv_dequeue can run between take and store), any "
            "threads/schedules/clock: a returned index names an object that was ready when selected; count only after the deadline was "
            "observed and every dequeue found the record registered; a record woken by a waker implies the caller's semaphore is posted or "
            "the V is pending; the sleep deadline is exactly min (abs_deadline, every ready time of the round) and at that time the timeout step is "
            "enabled and every object re-examined (C11_sleep_deadline, C11_sleep_timeout_enabled); on return no record of the call is on any list; "
            "the caller does not hold the mutex at any pc where it can sleep, the unlock follows all count enqueues and precedes every P, and the "
            "mutex is held again at the return (C11_mutex_state, C11_sleeps_unlocked, C11_mutex_order); no step touches a record of a returned "
            "call (C13_waker_footprint; footprints compared with the implementation's accesses in the replay).  Two-pass lock-step replay; scenario oracles incl. "
            "'a broadcast completed before the deadline on a cv the call was registered on forbids a timeout result'.",
    "design_ref": "DESIGN.md section 4, C11",
    "note": "Objects abstract; that the timed P really returns at its deadline is C12 + scheduler (coverage.partial); the stronger mutex reading refuted with a witness.",
    "technique": "Coq inductive invariants over transition system + lock-step trace inclusion + scenario oracles",
}
CHECKS["C06"] = {
    "text": "Theorems (Coq) over MuWaitModel (mu.c + mu_wait.c: conditional waits, the multi-round scan of unlock_slow with condition "
            "evaluation outside the spinlock, same_condition rings as explicit prev/next pointers, ring repair on removal, timeout "
            "re-acquisition; values/guards regenerated): every condition evaluation happens while the evaluator owns lock bits and no "
            "other thread is a writer (C06_eval_under_lock, resting on C01w_exclusion); in every reachable world the same_condition rings partition "
            "mu->waiters and every scanner's private lists into runs of equivalent waiters (C06_RingInv_reachable), the scan only skips waiters "
            "whose condition is false under a truth-preserving eq (C06_scan_sound), and whenever MU_ALL_FALSE is set with no writer, every queued "
            "condition is false in the current state (C06_allfalse_sound); no reachable quiescent world has the mutex free and a queued waiter whose "
            "condition is true (C06_no_stuck, via the designated-waker invariant HA/HB/HC) -- any threads / programs / schedules.  "
            "Lock-step replay with queue and ring snapshots; termination + evaluation oracles over conditional-wait scenarios.  Third session: 'alongside cv waiters' -- MuAllModel wraps MuWaitModel with cv waits, wake_waiters site by site (transfers landing while a scanner has swapped the queue out and released the spinlock) and nsync_wait_n records, tied in lock-step (muall_replay); proved there: exclusion, evaluation under the lock, and that a transfer inside a scanner window keeps MU_WAITING (Properties_C06a); ring invariant / MU_ALL_FALSE / no-lost-wake-up with cv waiters: exploration of the extracted model and scenario oracles only.",
    "design_ref": "DESIGN.md section 4, C06",
    "note": "no lost wake-up is a theorem on the model of the REPAIRED code (it was false before: F13, F14); fair-schedule liveness and unlock_without_wakeup's clause are oracle-decided (coverage.partial).",
    "technique": "Coq invariants and pure-function lemmas over source-regenerated model + lock-step trace inclusion + scenario oracles",
}
CHECKS["C05"] = {
    "text": "Theorems (Coq): at every return of nsync_mu_wait_with_deadline (MuWaitModel) / nsync_cv_wait_with_deadline (CvModel) the "
            "thread holds the mutex in the mode captured at entry, ETIMEDOUT only if the clock had reached the deadline at an earlier step "
            "of the call, ECANCELED only if the note is notified, mu_wait returns 0 exactly when the condition is true now (any threads / "
            "programs / schedules / clock / note behaviour).  Every wait return of the cv, mu_wait and cancellation scenarios is checked "
            "against shadow lock mode, virtual clock and note state; waits nobody wakes must end by the note or the deadline.  Third session: nsync_sem_wait_with_cancel_ modelled step by step (SemWaitModel, lock-step against cancel_mix): results and reasons (C05sw_results, C05sw_reason_partial, C05sx_reason_strong), ECANCELED only for a note that was notified by a call or whose expiry was reached (C05sx_flag_sound, C05sx_cancel_sound; the seeded defect C15c as a model variant falsifies it), 'needs no further wake-up' as C05sx_expired_prompt(_composed) and C05sx_no_lost_cancel_strong.",
    "design_ref": "DESIGN.md section 4, C05",
    "note": "Fair-schedule termination is not a theorem; CvModel / MuWaitModel take sem_wait.c's result as a guarded choice (composition by contract, coverage.partial).",
    "technique": "Coq invariants over source-regenerated transition systems + lock-step trace inclusion + return-time oracles",
}
CHECKS["C04"] = {
    "text": "Theorems (Coq) over CvModel (cv.c, one step per atomic site, values/guards regenerated): a waiter's record is on the cv queue "
            "before the step that releases the mutex and stays there until a waker or the waiter itself takes it (C04_atomic_wait, "
            "C04_queued_until_taken); CV_NON_EMPTY is set whenever the queue is non-empty outside spinlock sections (C04_non_empty); "
            "broadcast takes every queued record and signal the first (plus following readers), and every taken record is woken or handed "
            "to the mutex queue (C04_broadcast_covers, C04_signal_covers, C04_private_fate, C04_V_posts); a non-zero result only if the "
            "waiter unlinked itself, so a wake-up is never reported as a timeout (C04_outcome, C04_outcome_waitn); every signal/broadcast call "
            "accounts for what it took (C04_wake_complete); a taken waiter always has a post available, pending or owed (C04_no_lost_wakeup), hence "
            "no quiescent world with a waiter asleep off the queue (C04_no_stuck); no step touches a nsync_wait_n record after its call returned, "
            "the waker's V included (C04_no_dead_record) -- any threads / programs / schedules / clock / note.  "
            "Lock-step replay with queue snapshots; stuck detector + return-value oracles over cv scenarios.  Third session: the concrete counterpart of the abstract mutex, MuXferModel (Properties_C01x / C04x): a transferred waiter is on the mutex queue or a releaser's wake list with MU_WAITING set (C04x_transfer_sound, C04x_queue_sets_waiting); after the F15 repair wake_waiters leaves MU_WAITING set only over a non-empty queue.  After the F16 repair: C04_transferred_is_native (only native waiters associated with the mutex are moved to its queue), C04_old_xfer_moves_generic (the old transfer loop moved a generic waiter); cv_mix mixes native and generic waiters by default and every cv scenario ends with both words 0.",
    "design_ref": "DESIGN.md section 4, C04",
    "note": "No lost wake-up and no-stuck are theorems relative to the abstract mutex owing no post (coverage.partial); abstract mutex inside CvModel.",
    "technique": "Coq invariants over source-regenerated transition system + lock-step trace inclusion + scenario oracles",
}
CHECKS["C08"] = {
    "text": "Theorems (Coq) over NoteModel (note.c, trees of any shape, any threads / programs / schedules / clocks): once an observer saw a "
            "note notified every later observer does (C08_monotone); a notified note has a cause -- notify called on it or an ancestor, or a "
            "deadline passed (C08_sound, C08_sound_obs); when nsync_note_notify returns the note is notified (C08_notify_post); a "
            "notification changes only the note's subtree (C08_local); a notified note with no notification in progress has no children and "
            "no waiters left (C08_descendants_partial/_linked); nsync_note_expiry = min (own deadline, parent's notification time at creation) "
            "(C08_expiry).  Lock-step replay; per-note observation histories, tree state at every notify return and at quiescence, expiry "
            "checked on the implementation.  Third session: the creation-time-descendants clause is a theorem (C08_descendants_full_holds, Properties_C08b: invariant C08_creation_path_linked across adoptions + a well-founded climb along the current parent links).",
    "design_ref": "DESIGN.md section 4, C08",
    "note": "Literal expiry reading refuted by design; 'quiet' in C08_descendants_full is global (no notification or free in progress anywhere) -- the local form is in progress (coverage.partial).",
    "technique": "Coq invariants over source-regenerated transition system + lock-step trace inclusion + observation-history oracles",
}
CHECKS["C09"] = {
    "text": "Theorems (Coq) over NoteModel: no step of any thread touches a note after its nsync_note_free returned (C09_no_uaf, with the "
            "per-step footprint compared against the implementation in the replay); free re-parents the children under the former parent or "
            "notifies them instead when that parent is notified (C09_adoption, C09_free_post); locks are taken in increasing note order, so "
            "no deadlock consists of lock acquisitions alone (C09_lock_order, C09_no_stuck_partial).  Arena that unmaps freed notes, stuck "
            "detector, descendants check at quiescence over notify/free/create families incl. the F10/F11 shapes.  Third session: 'no such call deadlocks' proved by a ranking argument over the condition waits (Properties_C09b, invariant InvS: disconnecting counts accounted to threads, children accounted during the child waits; strengthened form with a world-changing step in Properties_C09c when present).",
    "design_ref": "DESIGN.md section 4, C09",
    "note": "The first formulation of C09_no_stuck_full was satisfiable by an idle thread (audit 3): the strengthened statement is C09_no_stuck_strong (coverage.partial).",
    "technique": "Coq inductive invariant (lock ownership, disconnecting counts, retired notes) + lock-step trace inclusion + arena / stuck oracles",
}
NOT_APPLICABLE = {}
