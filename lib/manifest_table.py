CHECKS = {
    "C18": {
        "text": "Machine-checked theorems (Coq) over the Gallina translation of nsync_time_add/sub/cmp/s_ns/ms/us that "
                "gen/c2coq.py regenerates from the C and the C++ source on every run: exactness, normalisation, "
                "round-trip, total order, bounds, for all 64-bit seconds and all 32-bit ms/us arguments; the translation "
                "is validated against both compiled builds on a boundary grid and random values on every run.",
        "design_ref": "DESIGN.md section 4, C18",
        "note": "Trusted: Coq kernel, the clang-AST-to-Gallina translator (cross-checked differentially each run), gcc/g++ "
                "for the differential drivers (-fwrapv so that signed wrap matches the model's explicit wrap). "
                "Overflow of the seconds field is excluded by explicit hypotheses (add_no_ovf/sub_no_ovf).",
        "technique": "Coq proof over source-regenerated model + differential execution",
    },
}
NOT_APPLICABLE = {}
