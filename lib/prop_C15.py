"""C15: every deadline value is handled (real library, C and C++ builds, one child process per case)."""
import os, time, subprocess, concurrent.futures as cf
from vcommon import *

PID = "C15"
PROP_V = ["Props/Properties_C15.v", "Props/Properties_C05sw.v", "Props/Properties_C05sx.v"]
GEN_MODULES = ["Consts", "Sites", "Time"]
FLOW_FILES = ['nsync_semaphore_futex.c', 'sem_wait.c', 'wait.c', 'cv.c', 'mu_wait.c']
TRUSTED_BASE = ["the kernel futex contract is modelled in SemModel (timespec validation as Linux timespec64_valid); the real-kernel "
                "behaviour is exercised by the child-process grid on the real library"]
PARTIAL = ["UNNORMALIZED deadlines (tv_nsec >= 10^9, e.g. nsync_time_add (now, nsync_time_s_ns (0, 1999999999)): nsync_time_add carries once) are outside the theorems (C12 / C15 assume `normalized`) and outside the grid: the futex build then dies with EINVAL -> ASSERT; the public header puts no bound on nsync_time_s_ns's `ns` -- recorded in DESIGN 9.5 (fifth review) as a documentation gap, not raised.  Platforms: the grid runs the C build, the C++ build with the futex semaphore and the PURE C++11 build (std::mutex / condition_variable semaphore, C++ per-thread waiter); the posix-mutex, sem_t, win32 and macOS semaphores are not built here; the theorems (SemModel) are about the futex semaphore only",
           "C15_expired_prompt/C15_no_crash/C15_no_early_timeout are proved for the semaphore layer every timed entry point bottoms out in; the "
           "plumbing above it: nsync_sem_wait_with_cancel_ is modelled step by step (Model/SemWaitModel.v, Properties_C05sw): C05sw_deadline_enabled / "
           "C05sw_plain_deadline_enabled (for ANY deadline value, before the epoch included, the time-out step is enabled as soon as the clock has reached it), "
           "C15sw_no_deadline (with no deadline and no note the wait never times out and returns only 0), C05sw_results (no other result exists); that an expired "
           "deadline (or an expired cancel note) makes the wait return non-zero within 15 + 2 * (records on the note) own steps, never blocked, is "
           "C05sx_expired_prompt / _quiet / _composed (Properties_C05sx); wait_n's short-circuit "
           "and the cv / mu / note / counter wait loops are covered by the real-library grid (now also with never-notified cancel notes and the wait_n heap path), "
           "not by a theorem"]
REPLAY_HINT = "_work/c15/drv_<build> <entry> <kind> <sec> <nsec>   (harness/seq/deadline_driver.c linked with the library built from /repo)"
PROMPT_MS = 500      # an expired deadline must be reported within this many ms (1 ms is typical under load 30-50); a slower case is re-run twice before it counts
ENTRIES = ["cv", "mu", "note", "counter", "waitn", "cvn", "mun", "rmun", "waitn5"]
# C++ builds only: the overloads that take a std::chrono time_point, and nsync_note_expiry_timepoint (fifth review: F17, F18)
TP_ENTRIES = ["cvtp", "mutp", "notetp", "countertp", "waitntp", "exptp"]
I64MAX = 2 ** 63 - 1
NS = 10 ** 9


def build():
    d = os.path.join(WORK, "c15")
    os.makedirs(d, exist_ok=True)
    drv = os.path.join(VERIF, "harness/seq/deadline_driver.c")
    exes, errs = {}, {}
    jobs = {
        "c": ["gcc", "-O1", "-g", "-w", "-pthread"] + ["-I%s/%s" % (REPO, i) for i in C_INC] + [drv] +
             [os.path.join(REPO, s) for s in C_LIB_SRC] + ["-o", d + "/drv_c.tmp%d" % os.getpid()],
        "c++": ["g++", "-x", "c++", "-std=c++11", "-O1", "-g", "-w", "-pthread"] + CXX_DEFS +
               ["-I%s/%s" % (REPO, i) for i in CXX_INC] + [drv] + [os.path.join(REPO, s) for s in CPP_LIB_SRC] +
               ["-o", d + "/drv_cpp.tmp%d" % os.getpid()],
        # the PURE C++11 platform (std::mutex / condition_variable semaphore, C++ per-thread waiter): what CMakeLists.txt builds on the
        # systems without a futex; it compiles and runs on Linux as well
        "c++11m": ["g++", "-x", "c++", "-std=c++11", "-O1", "-g", "-w", "-pthread"] + CXX_DEFS +
               ["-I%s/%s" % (REPO, i) for i in CXX_INC if i != "platform/c++11.futex"] + [drv] +
               [os.path.join(REPO, {"platform/linux/src/nsync_semaphore_futex.c": "platform/c++11/src/nsync_semaphore_mutex.cc",
                                    "platform/posix/src/per_thread_waiter.c": "platform/c++11/src/per_thread_waiter.cc"}.get(s, s)) for s in CPP_LIB_SRC] +
               ["-o", d + "/drv_cppm.tmp%d" % os.getpid()],
    }
    with cf.ThreadPoolExecutor(3) as ex:
        futs = {k: ex.submit(sh, v, 300) for k, v in jobs.items()}
        for k, f in futs.items():
            rc, o, e = f.result()
            if rc == 0:
                # publish by atomic rename: C05 and C15 may build and run these drivers at the same time (fourth review, M4)
                final = d + {"c": "/drv_c", "c++": "/drv_cpp", "c++11m": "/drv_cppm"}[k]
                os.replace(final + ".tmp%d" % os.getpid(), final)
                exes[k] = final
            else:
                errs[k] = e[-600:]
    return exes, errs


def deadlines(tier):
    """(kind, sec, nsec, expectation) -- expectation: 'expired' | ('future', ms) | 'none' | 'far'.
    'far' = a deadline far in the future (years): like 'none' the driver produces the awaited event after 100 ms, and the wait must
    end by that event -- a timeout result there is an early timeout."""
    ds = [("abs", 0, 0, "expired"), ("abs", 0, 1, "expired"), ("abs", -1, NS - 1, "expired"), ("abs", 1, 0, "expired"),
          ("abs", -1, 0, "expired"), ("abs", -1, NS // 2, "expired"), ("abs", -2, NS - 1, "expired"), ("abs", -(2 ** 31), 0, "expired"), ("abs", -(2 ** 62), 5, "expired"),
          ("abs", -I64MAX - 1, 0, "expired"), ("abs", -100000, 5, "expired"),
          ("rel", -1, 0, "expired"), ("rel", 0, 0, "expired"), ("rel", -3600, 0, "expired"),
          ("rel", 0, 150000000, ("future", 150)), ("rel", 0, 60000000, ("future", 60)),
          ("none", 0, 0, "none"),
          # far future: max-1 (one nanosecond below nsync_time_no_deadline, taken from the library's constant by the driver),
          # the largest seconds value with other nanoseconds, 2^31 and 2^62 seconds from now, 2^62 seconds absolute
          ("maxm1", 0, 0, "far"), ("absh", I64MAX, 0, "far"), ("absh", I64MAX - 1, NS - 1, "far"),
          ("relh", 2 ** 31, 0, "far"), ("relh", 2 ** 62, 0, "far"), ("absh", 2 ** 62, NS - 1, "far")]
    if tier == "thorough":
        ds += [("abs", -2, 5, "expired"), ("abs", 1000, NS - 1, "expired"), ("rel", 0, 300000000, ("future", 300)),
               ("abs", -(2 ** 40), NS - 1, "expired"), ("rel", -1, NS - 1, "expired"),
               ("relh", 2 ** 31 - 1, NS - 1, "far"), ("relh", 2 ** 32, 1, "far"), ("relh", 2 ** 40, 0, "far"), ("relh", 2 ** 53, 0, "far"),
               ("absh", 2 ** 63 - 2 ** 31, 0, "far"), ("relh", 86400 * 365 * 300, 0, "far"), ("relh", 9223372036, 854775808, "far")]
    return ds


def run_case(exe, entry, d):
    kind, sec, nsec, exp = d
    t0 = time.time()
    rc, out = "hang", ""
    for attempt in range(3):
        try:
            r = subprocess.run([exe, entry, kind, str(sec), str(nsec)], capture_output=True, text=True, timeout=15)
            rc, out = r.returncode, r.stdout.strip()
            break
        except subprocess.TimeoutExpired:
            rc, out = "hang", ""
            break
        except OSError:                      # the driver is being replaced by a concurrent build: try again
            time.sleep(0.3)
    return {"entry": entry, "deadline": [kind, sec, nsec], "expect": exp, "rc": rc, "out": out, "wall": round(time.time() - t0, 2)}


def judge(c):
    """The verdicts are independent of machine load except for the generous bounds named here: a loaded machine only makes calls
    return LATER, and nothing below objects to a late return short of the watchdog (15 s) and the 3 s promptness bound."""
    exp = c["expect"]
    if c["rc"] == "hang":
        return "hang: no return within 15 s"
    if c["rc"] != 0:
        return "crash: exit status %s" % c["rc"]
    m = re.match(r"(\w+) elapsed_ms=([\d.]+) ret=(-?\d+) early=(\d) since_dl_ms=([\d.]+)", c["out"])
    if not m:
        return "unparseable output %r" % c["out"]
    cls, ms, early, since_dl = m.group(1), float(m.group(2)), int(m.group(4)), float(m.group(5))
    if cls == "NA":
        return None          # the deadline does not fit a time_point: the case does not apply to the time_point overloads
    if exp == "expired":
        if cls != "TIMEOUT":
            return "expired deadline did not produce the timeout result (%s)" % c["out"]
        if ms > PROMPT_MS:
            return "expired deadline not reported promptly (%.0f ms inside the call)" % ms
    elif exp == "none":
        if cls != "EVENT":
            return "no_deadline wait did not return the event (%s)" % c["out"]
    elif exp == "far":
        # the deadline is years away: any timeout result is early; the wait must end when the event is produced
        if cls == "TIMEOUT":
            return "far-future deadline timed out (after %.0f ms; the deadline is years away): %s" % (ms, c["out"])
        if cls != "EVENT":
            return "far-future deadline: the wait did not return the event (%s)" % c["out"]
    else:
        want = exp[1]
        if cls != "TIMEOUT":
            return "future deadline: nothing produces the event, expected the timeout result, got %s" % c["out"]
        # early = the timeout was reported while CLOCK_REALTIME (read after the return) was still before the deadline itself.
        # The monotonic time since the instant BEFORE the deadline was computed guards against a step of the real-time clock.
        if early and since_dl < want:
            return "future deadline timed out early: timeout reported before the deadline was reached on CLOCK_REALTIME (%.1f ms after a deadline %d ms ahead was computed)" % (since_dl, want)
    return None


def run(tier, seed):
    import prop_C12
    # tie of the deadline plumbing (the timespec handed to the kernel, the re-check against now) = SemModel's lock-step replay
    sem = prop_C12.run(tier, seed)
    res = {"violations": [v for v in sem["violations"]], "broken": list(sem["broken"]), "coverage": {}}
    # tie of sem_wait.c's deadline / expiry plumbing = SemWaitModel's lock-step replay over cancel_mix
    import mu_common
    tie_sw = mu_common.tie(res, "semwait_replay", "SemWaitModel", [("cancel_mix", {}, 100, 1000), ("cancel_mix", {"VRT_KIND": 2, "VRT_OMIT": 1}, 50, 500)], tier, seed)
    exes, errs = build()
    for k, e in errs.items():
        res["broken"].append({"what": "library + driver (%s build) does not compile" % k, "detail": e})
    cases = []
    with cf.ThreadPoolExecutor(max_workers=NCPU) as ex:
        futs = []
        for b, exe in exes.items():
            for entry in ENTRIES + (TP_ENTRIES if b != "c" else []):
                for d in deadlines(tier):
                    futs.append((b, ex.submit(run_case, exe, entry, d)))
        for b, f in futs:
            c = f.result()
            c["build"] = b
            v0 = judge(c)
            if v0 and "promptly" in v0:      # a loaded machine: only a case that is slow three times in a row counts
                for _ in range(2):
                    c2 = run_case(exes[b], c["entry"], tuple(c["deadline"]) + (c["expect"],))
                    c2["build"] = b
                    if not judge(c2):
                        c = c2
                        break
            cases.append(c)
    seen = set()
    for c in cases:
        v = judge(c)
        if v:
            neg = c["deadline"][0] == "abs" and c["deadline"][1] < 0
            key = "%s:%s" % (c["entry"], "negative-abs-deadline" if neg else "%s" % (c["deadline"],))
            if key in seen:
                continue
            seen.add(key)
            res["violations"].append({"case": c, "why": v, "key": key})
    res["coverage"] = {"evaluations": len(cases), "distinct_nontrivial": len([c for c in cases if c["expect"] != "none"]),
                       "rule": "boundary set of deadlines (0, +/-1 ns, +/-1 s, large negative, INT64_MIN, now-d, now, now+d, no_deadline; far future: "
                               "no_deadline - 1 ns, INT64_MAX s, now + 2^31 s, now + 2^62 s, 2^62 s, each with the awaited event produced after 100 ms) x "
                               "{C build, C++ build (futex semaphore), pure C++11 build (std::mutex / condition_variable semaphore)}; the C++ builds also through the time_point "
                               "overloads and nsync_note_expiry_timepoint; entry points: {cv_wait_with_deadline, mu_wait_with_deadline, note_wait, counter_wait, wait_n; cv wait / writer- and reader-mode mu wait WITH a cancel note "
                               "that is never notified (ETIMEDOUT, not ECANCELED, is the timeout result); wait_n on five notes (heap path)} x {C build, C++ build} of the "
                               "real library on the real futex, one child process per case with a 15 s watchdog; early timeouts are judged against the deadline itself on CLOCK_REALTIME; non-trivial = all but no_deadline",
                       "builds": sorted(exes), "samples": cases[:3],
                       "traces_validated_against_impl": sem["coverage"].get("traces_validated_against_impl", 0) + tie_sw.get("traces_validated_against_impl", 0),
                       "semwait_lockstep_model_steps": tie_sw.get("lockstep_model_steps", 0),
                       "sem_model_events_hit": sem["coverage"].get("model_events_hit", {})}
    return res
