"""C02: a released mutex is always handed on; try-locks never block."""
from vcommon import *
import scen_common, prop_mu_family

PID = "C02"
PROP_V = ["Props/Properties_C02.v", "Props/Properties_C02b.v", "Props/Properties_C02c.v", "Props/Properties_C06x.v", "Props/Properties_C04x.v"]
GEN_MODULES = ["Consts", "Sites"]
FLOW_FILES = ['mu.c', 'mu_wait.c', 'common.c', 'nsync_semaphore_futex.c', 'cv.c']
REPLAY_HINT = "VRT_SEED=<seed> [env] _work/h/<scenario>; a STUCK report lists the sleeping threads and the last steps"
PARTIAL = ["hand-off WITH condition-variable waiters transferred onto the mutex queue: Properties_C04x over MuXferModel (C04x_handoff_all_states, C04x_holder_is_responsible, C04x_last_holder_must_scan, C04x_no_lost_transfer_full: MuProof3's invariant lifted to the mutex + cv wrapper); a single model containing mu_wait.c AND cv.c on one mutex does not exist (MuWaitModel and MuXferModel each extend MuModel on one side)",
           "hand-off for the mutex WITH conditional critical sections (MuWaitModel, repaired code): Properties_C06x.C06_sleeper_faces_holder and C06_handoff: in every "
           "reachable quiescent world every thread asleep in nsync_mu_lock / nsync_mu_rlock / nsync_mu_wait faces a mutex that some thread still holds (or, for a "
           "conditional waiter, has a false condition); the invariant behind it (MU_DESIG_WAKER implies an agent; MU_WAITING set while the queue is non-empty; "
           "MU_WRITER_WAITING and MU_LONG_WAIT have owners; semaphore accounting) holds in every reachable world of programs without nsync_mu_unlock_without_wakeup; "
           "it was false of the code as found (F13, F14)",
           "the property's own shape is a theorem for balanced straight-line programs (Properties_C02c, C02_balanced_quiescent_done: every reachable world in which "
           "every thread is asleep, finished or crashed has everybody finished; no trylock, no nested acquisition -- the model stops a re-acquiring thread at Crash 4, so "
           "self-deadlock is excluded by hypothesis); it is the safety half (no reachable deadlock / lost wake-up): that a fair schedule reaches such a world is still "
           "not a theorem (spinners are runnable)",
           "quantifier 'counting and binary semaphores': as C01 (abstract counting semaphore in the model; binary flavour in the scenario runs of mu_mix only)",
           'C02_try_result relates two ghosts set by the same expression (last_try / held): its weight is on the lock-step tie, which compares the word values; C02_try_nonblocking holds by the shape of the three Try pcs (no P among them) -- likewise tied by replay and by the flow pin of mu.c',
           "hand-off half, proved (Properties_C02b over MuModel, any threads/programs/schedules): in a quiescent reachable world every thread "
           "asleep in nsync_mu_lock / nsync_mu_rlock faces a mutex that is HELD (C02_no_lost_handoff_partial; writer half at full strength), it "
           "is on the queue with its flag set, MU_WAITING is set and MU_DESIG_WAKER / MU_ALL_FALSE / the spinlock are clear "
           "(C02_holder_is_responsible), and the last holder's release cannot take any path that wakes nobody (C02_last_holder_must_scan).  "
           "The design's first reading of the reader half ('a sleeping reader implies a WRITE holder') is refuted by two schedules "
           "(C02_no_lost_handoff_refuted: a reader queued behind a writer beside a read holder; C02_reader_sleeps_beside_reader: after a "
           "designated-waker race) -- both are nsync's writer-priority design, and in both the read holder's release is forced to wake the sleeper",
           "fair-scheduler liveness ('eventually returns') is not a theorem: spin loops that retry a CAS are not bounded; global progress over "
           "sampled schedules is decided by the runtime's stuck / livelock detector"]
TRUSTED_BASE = ["Model/MuModel.v control skeleton validated by lock-step replay; abstract counting semaphore in the model (C12 is its licence)"]


def run(tier, seed):
    res = {"violations": [], "broken": [], "coverage": {}}
    tie = prop_mu_family.mu_tie(res, tier, seed)
    specs = [("refcount_cv", {}, 300, 5000), ("refcount_cv", {"VRT_SCRIPT": 0}, 600, 10000), ("mix_all", {}, 800, 15000), ("muwait_mix", {"VRT_MODE": 6}, 600, 10000), ("cv_mix", {"VRT_MODE": 7}, 500, 8000), ("cv_mixlocks", {}, 800, 15000), ("mu_mix", {}, 4000, 80000), ("mu_mix", {"VRT_N": 4}, 1500, 30000), ("muwait_mix", {"VRT_MODE": 1}, 1500, 30000),
             ("cv_mix", {"VRT_MODE": 2}, 1000, 20000), ("mu_mix", {}, 1500, 30000, "binary"),
             ("rdwait_stuck", {}, 3, 10), ("longwait_stuck", {"VRT_CLOCKP": 0}, 5, 30), ("longwait_stuck", {"VRT_SCRIPT": 0}, 300, 5000), ("rdwait_stuck", {"VRT_SCRIPT": 0}, 2000, 40000)]
    cov = scen_common.run_scenarios(res, specs, tier, seed, {"C02", "C06", "C06x"} | scen_common.LIVENESS | scen_common.CRASHES)
    cov["rule"] = ("mu_mix (2..4 threads + late arrivals, lock/rlock/trylock/rtrylock sections), muwait_mix MODE 1 (reader-mode timed "
                   "conditional waits followed by fresh readers/writers), cv_mix MODE 2; oracles: no run ends with every unfinished thread "
                   "asleep without a deadline or spinning without progress, try-locks never sleep; non-trivial = runs with semaphore sleeps")
    cov.update(tie)
    res["coverage"] = cov
    return res
