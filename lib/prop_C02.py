"""C02: a released mutex is always handed on; try-locks never block."""
from vcommon import *
import scen_common, prop_mu_family

PID = "C02"
PROP_V = "Props/Properties_C02.v"
GEN_MODULES = ["Consts", "Sites"]
REPLAY_HINT = "VRT_SEED=<seed> [env] _work/h/<scenario>; a STUCK report lists the sleeping threads and the last steps"
PARTIAL = ["the hand-off half is proved as the queue discipline (C02_queue_invariant: queued threads are distinct, waiting, inside lock_slow; "
           "MU_WAITING is set whenever the queue is non-empty) and, in Properties_C13, the pinned lemma; the full 'no reachable stuck world' "
           "theorem (WR invariant with the designated-waker cases) is not stated -- global progress is decided by the runtime's stuck detector "
           "over sampled schedules",
           "fair-scheduler liveness is not claimed"]
TRUSTED_BASE = ["Model/MuModel.v control skeleton validated by lock-step replay; abstract counting semaphore in the model (C12 is its licence)"]


def run(tier, seed):
    res = {"violations": [], "broken": [], "coverage": {}}
    tie = prop_mu_family.mu_tie(res, tier, seed)
    specs = [("mu_mix", {}, 4000, 80000), ("mu_mix", {"VRT_N": 4}, 1500, 30000), ("muwait_mix", {"VRT_MODE": 1}, 1500, 30000),
             ("cv_mix", {"VRT_MODE": 2}, 1000, 20000), ("mu_mix", {}, 1500, 30000, "binary")]
    cov = scen_common.run_scenarios(res, specs, tier, seed, {"C02"} | scen_common.LIVENESS | scen_common.CRASHES)
    cov["rule"] = ("mu_mix (2..4 threads + late arrivals, lock/rlock/trylock/rtrylock sections), muwait_mix MODE 1 (reader-mode timed "
                   "conditional waits followed by fresh readers/writers), cv_mix MODE 2; oracles: no run ends with every unfinished thread "
                   "asleep without a deadline or spinning without progress, try-locks never sleep; non-trivial = runs with semaphore sleeps")
    cov.update(tie)
    res["coverage"] = cov
    return res
