"""C14: a blocked locker cannot be overtaken indefinitely."""
from vcommon import *
import scen_common, prop_mu_family

PID = "C14"
PROP_V = ["Props/Properties_C14.v", "Props/Properties_C14b.v", "Props/Properties_C14c.v"]
GEN_MODULES = ["Consts", "Sites"]
FLOW_FILES = ['mu.c']
REPLAY_HINT = "VRT_SEED=<seed> VRT_ADVERSARY=1 VRT_KIND=<0|1|2> _work/h/starve: the trace notes how often the victim slept inside one lock call"
PARTIAL = ["scope of the C14 theorems: programs of lock / rlock / trylock / unlock over MuModel; transferred cv waiters, nsync_mu_wait callers and mu_try_acquire_after_timeout_or_cancel are outside; the bound LONG_WAIT_THRESHOLD + 4 for fresh-barger adversaries is the starve ORACLE's assertion over sampled adversarial schedules, not a theorem",
           "the property's second sentence is a theorem over runs (Properties_C14c, Proof/MuProof5.v; any number of threads < 2^24 - 1, any programs, any schedule): "
           "C14_long_wait_transition (MU_LONG_WAIT is set only by a successful enqueue CAS of a thread whose wake-up count reached LONG_WAIT_THRESHOLD and cleared "
           "only by the acquiring CAS of such a thread; no release path touches it), C14_long_wait_owner (the bit has an owner inside lock_slow; an escalated, "
           "enqueued thread sees the bit set unless ANOTHER long waiter acquired since), C14_no_fresh_overtake / C14_single_victim (from the victim's enqueue "
           "with the bit until its acquisition every acquiring step is made by a thread that has itself slept in its current call; with one long waiter there "
           "is no exception; with two the exception is real: C14_exception_witness -- two readers woken together both escalate, the first one's acquisition "
           "clears the bit), C14_overtaker_waited; non-vacuity: C14c_nonvacuous and the 30-round run of Properties_C14b",
           "the first sentence read as a NUMERIC bound on the victim's sleeps for arbitrary schedules (C14_bound_full) is REFUTED on the faithful model "
           "(C14_bound_refuted_reader: 1030 sleeps with 3 threads; C14_bound_refuted_writer: 330 sleeps with 5 threads, no barging writer at all) and the "
           "refutation replays on the real library (harness/scen/starve2.c, scenario-directed scheduler: the victim blocks ROUNDS + 30 times inside ONE "
           "nsync_mu_lock call).  The overtakers are threads that HAVE themselves waited in their current call (they queue behind the victim, are woken in "
           "the same batch of readers or by a release made before the victim ran, and win the race because the scheduler does not run the victim before them): "
           "the property's own second sentence limits the guarantee to 'threads that have not themselves waited', and its quantifier to adversaries that let a "
           "FRESH thread in; for that adversary class the bound LONG_WAIT_THRESHOLD + 4 is asserted by the starve oracle (not proved).  Not raised as a finding "
           "(DESIGN 9.2); reported by the check as an informational line"]
TRUSTED_BASE = ["harness/scen/starve.c adversary: scenario-directed scheduling that lets a barger take the mutex in every window between the victim's wake-up and its next attempt"]


def run(tier, seed):
    res = {"violations": [], "broken": [], "coverage": {}}
    tie = prop_mu_family.mu_tie(res, tier, seed, 200, 2000)
    specs = [("starve", {"VRT_ADVERSARY": 1, "VRT_KIND": k}, 150, 3000) for k in (0, 1, 2)] + \
            [("starve", {"VRT_ADVERSARY": 0, "VRT_BARGERS": 3}, 600, 12000)]
    cov = scen_common.run_scenarios(res, specs, tier, seed, {"C14"} | scen_common.LIVENESS | scen_common.CRASHES, label_nontrivial="victim_escalated")
    cov["rule"] = ("starve: victim = writer among writers / writer among readers / reader among writers; adversarial schedules (a barger re-takes "
                   "the mutex in every window between the victim's wake-up and its next attempt, 60 rounds per barger) and random schedules with "
                   "3 bargers; oracle: sleeps of the victim inside ONE lock call <= LONG_WAIT_THRESHOLD + 4; non-trivial = runs in which the "
                   "victim reached the threshold (escalated)")
    # informational: the refutation of the numeric bound (C14_bound_refuted_*) replayed on the real code; NOT a verdict
    import vrt_runner
    exe, err = vrt_runner.build("starve2")
    if exe is not None:
        info = {}
        for k in (1, 2):
            r = vrt_runner.run_one(exe, 1, {"VRT_KIND": k, "VRT_ROUNDS": 100}, 60)
            info["KIND=%d" % k] = r.get("prop") or "ok"
        cov["starve2_outside_the_quantifier"] = info
    cov.update(tie)
    res["coverage"] = cov
    return res
