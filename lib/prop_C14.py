"""C14: a blocked locker cannot be overtaken indefinitely."""
from vcommon import *
import scen_common, prop_mu_family

PID = "C14"
PROP_V = ["Props/Properties_C14.v", "Props/Properties_C14b.v"]
GEN_MODULES = ["Consts", "Sites"]
FLOW_FILES = ['mu.c']
REPLAY_HINT = "VRT_SEED=<seed> VRT_ADVERSARY=1 VRT_KIND=<0|1|2> _work/h/starve: the trace notes how often the victim slept inside one lock call"
PARTIAL = ["non-vacuity: Properties_C14b computes a 30-round adversarial run of the model (word 101 after the 30th failed wake-up, then word 72 with the lock free "
           "and MU_LONG_WAIT set: a fresh locker queues, the victim acquires and clears the bit); the numeric bound for arbitrary schedules remains unproved",
           "the numeric bound on the victim's sleeps (C14_bound) is not proved: the four lemmas it follows from are (barrier, escalation + "
           "enqueue-sets-bit, front re-queueing, a woken waiter ignores the barrier); the bound itself is asserted by the adversarial-schedule oracle"]
TRUSTED_BASE = ["harness/scen/starve.c adversary: scenario-directed scheduling that lets a barger take the mutex in every window between the victim's wake-up and its next attempt"]


def run(tier, seed):
    res = {"violations": [], "broken": [], "coverage": {}}
    tie = prop_mu_family.mu_tie(res, tier, seed, 200, 2000)
    specs = [("starve", {"VRT_ADVERSARY": 1, "VRT_KIND": k}, 150, 3000) for k in (0, 1, 2)] + \
            [("starve", {"VRT_ADVERSARY": 0, "VRT_BARGERS": 3}, 600, 12000)]
    cov = scen_common.run_scenarios(res, specs, tier, seed, {"C14"} | scen_common.LIVENESS | scen_common.CRASHES, label_nontrivial="victim_escalated")
    cov["rule"] = ("starve: victim = writer among writers / writer among readers / reader among writers; adversarial schedules (a barger re-takes "
                   "the mutex in every window between the victim's wake-up and its next attempt, 60 rounds per barger) and random schedules with "
                   "3 bargers; oracle: sleeps of the victim inside ONE lock call <= LONG_WAIT_THRESHOLD + 4; non-trivial = runs in which the "
                   "victim reached the threshold (escalated)")
    cov.update(tie)
    res["coverage"] = cov
    return res
