"""C05: timed and cancellable waits return for the stated reason, holding the lock."""
from vcommon import *
import scen_common

PID = "C05"
ECANCELED_NUM = 125   # Linux errno ECANCELED (Gen/Consts.v has the probed value; the driver prints the raw return value)
PROP_V = ["Props/Properties_C05cv.v", "Props/Properties_C05mu.v"]
GEN_MODULES = ["Consts", "Sites"]
FLOW_FILES = ['cv.c', 'mu_wait.c', 'sem_wait.c']
REPLAY_HINT = "VRT_SEED=<seed> [VRT_MODE=<m>] _work/h/cv_mix | muwait_mix | cancel_mix"
PARTIAL = ["the logic of nsync_sem_wait_with_cancel_ (sem_wait.c:39-73: the minimum of the deadline and the note's expiry, `deadline_is_nearer` with its strict `<`, "
           "notify-on-expiry) is NOT modelled step by step: CvModel and MuWaitModel take its result as a guarded choice (ETIMEDOUT only with clock >= deadline, "
           "ECANCELED only with the note notified); that function is covered by the cancel_mix / cv_mix oracles and the flow pin of sem_wait.c only",
           "C05_reason / C05_mode: the guards of st_WSem and the abstract acquire are by construction (stated in the theorem comments); their content is "
           "outcome in {0, sem_outcome} on every path and the re-acquired mode = entry mode (invariant lt_ok); C05_no_P_after_outcome_pc/_log only restate the loop guard; "
           "the mode in which nsync_mu_lock_slow_ re-acquires (cv.c:299) is inside CvModel's abstract mutex -- the mu_wait half (C05mu_return over MuWaitModel) models "
           "the re-acquisition step by step",
           "'needs no further wake-up' is C05_returns_alone (a wait whose sem_outcome is non-zero and whose waiting flag is clear -- or which is unlinking itself -- run "
           "ALONE with the mutex free and no other thread in a cv spinlock section returns within 8 steps without any P or V); not covered by a theorem: the spin while "
           "a waker/unlocker still has to store waiting = 0, and fair-schedule termination under interference (stuck detector, cancel_mix quiescent-state observer)"]
TRUSTED_BASE = ["Model/MuWaitModel.v / Model/CvModel.v control skeletons validated by lock-step replay"]


def run(tier, seed):
    import mu_common
    res = {"violations": [], "broken": [], "coverage": {}}
    tie = mu_common.tie(res, "muwait_replay", "MuWaitModel", [("muwait_mix", {"VRT_MODE": 0, "VRT_CV": 0}, 200, 2000),
                                                              ("muwait_mix", {"VRT_MODE": 1, "VRT_CV": 0}, 200, 2000)], tier, seed)
    tie2 = mu_common.tie(res, "cv_replay", "CvModel", [("cv_mix", {"VRT_MODE": 0}, 150, 1500), ("cv_mix", {"VRT_MODE": 3}, 100, 1000)], tier, seed)
    for k in ("traces_validated_against_impl", "lockstep_model_steps"):
        tie[k] = tie.get(k, 0) + tie2.get(k, 0)
    tie["model_sites_hit_cv"] = tie2.get("model_sites_hit", {})
    specs = [("cv_mix", {"VRT_MODE": 0}, 2000, 40000), ("cv_mix", {"VRT_MODE": 4}, 1500, 30000), ("muwait_mix", {"VRT_MODE": 0}, 2000, 40000),
             ("muwait_mix", {"VRT_MODE": 1}, 1000, 20000), ("muwait_mix", {"VRT_MODE": 0, "VRT_FINE": 600}, 1500, 30000), ("muwait_mix", {"VRT_MODE": 5}, 1000, 20000), ("cancel_mix", {}, 3000, 60000),
             # reader-mode / generic-lock timed and cancellable cv waits racing real wake-ups (MODE 6), untimed generic waits (MODE 5),
             # expiring notes that nobody notifies explicitly
             ("cv_mix", {"VRT_MODE": 6}, 2500, 50000), ("cv_mix", {"VRT_MODE": 6, "VRT_GENERIC": 1}, 800, 15000), ("cv_mix", {"VRT_MODE": 5}, 800, 15000),
             ("cancel_mix", {"VRT_KIND": 2, "VRT_OMIT": 1}, 800, 15000), ("cancel_mix", {"VRT_KIND": 3, "VRT_OMIT": 1}, 800, 15000)]
    cov = scen_common.run_scenarios(res, specs, tier, seed, {"C05", "C01"} | scen_common.LIVENESS | scen_common.CRASHES)
    cov["rule"] = ("every return of nsync_cv_wait_with_deadline / nsync_mu_wait_with_deadline is checked: shadow lock mode, virtual clock vs "
                   "deadline for ETIMEDOUT, note state for ECANCELED, condition value for mu_wait; cancel_mix: notes fresh / already notified / "
                   "expiring / children of expiring parents, notified at every point of the wait, reader and writer mode: once the note is "
                   "notified the call must return without any further wake-up; non-trivial = runs with semaphore sleeps")
    # real library, real futex: cv / mu waits (writer and reader mode) with a cancel note that NOBODY ever notifies and that has no expiry, over the
    # boundary deadlines of C15's grid (zero, before the epoch, just past, now - d): ECANCELED is never a legal result there
    import prop_C15, concurrent.futures as cf
    exes, errs = prop_C15.build()
    for k, e in errs.items():
        res["broken"].append({"what": "library + deadline driver (%s build) does not compile" % k, "detail": e})
    ncanc = 0
    with cf.ThreadPoolExecutor(max_workers=NCPU) as ex:
        futs = [ex.submit(prop_C15.run_case, exe, entry, d) for exe in exes.values() for entry in ("cvn", "mun", "rmun")
                for d in prop_C15.deadlines(tier) if d[3] == "expired" or isinstance(d[3], tuple)]
        for f in futs:
            c = f.result()
            ncanc += 1
            m = re.search(r"ret=(-?\d+)", c["out"] or "")
            if m and int(m.group(1)) == ECANCELED_NUM:
                if not any(v.get("key") == "ecanceled-unnotified" for v in res["violations"]):
                    res["violations"].append({"case": c, "key": "ecanceled-unnotified", "oracle": "C05",
                                              "why": "%s with deadline %s returned ECANCELED although its cancel note was never notified and has no expiry" % (c["entry"], c["deadline"])})
    cov["real_library_cancel_note_cases"] = ncanc
    cov.update(tie)
    res["coverage"] = cov
    return res
