"""C05: timed and cancellable waits return for the stated reason, holding the lock."""
from vcommon import *
import scen_common

PID = "C05"
ECANCELED_NUM = 125   # Linux errno ECANCELED (Gen/Consts.v has the probed value; the driver prints the raw return value)
PROP_V = ["Props/Properties_C05cv.v", "Props/Properties_C05mu.v", "Props/Properties_C05sw.v", "Props/Properties_C05sx.v"]
GEN_MODULES = ["Consts", "Sites"]
FLOW_FILES = ['cv.c', 'mu_wait.c', 'sem_wait.c', 'note.c']
REPLAY_HINT = "VRT_SEED=<seed> [VRT_MODE=<m>] _work/h/cv_mix | muwait_mix | cancel_mix"
PARTIAL = ["nsync_sem_wait_with_cancel_ (all of sem_wait.c) and what it meets in note.c (nsync_note_notified_deadline_, notify, note_notify_child, seen from the "
           "cancel note) are modelled step by step in Model/SemWaitModel.v (any number of threads, notes, waiters per note; the minimum of the deadline and the "
           "note's expiry with its strict `<`, notify-on-expiry, the on-stack record) and replayed in lock-step against cancel_mix; Properties_C05sw: "
           "C05sw_results (0 / ETIMEDOUT / ECANCELED only), C05sw_reason_partial (0 => the P took a post; ETIMEDOUT => the clock had reached abs_deadline and the "
           "deadline was the nearer one or there was no note; ECANCELED => there was a note and its `notified` word is set OR its expiry is not after the epoch; "
           "by expiry only if the clock had reached the expiry), C05sw_clean, C05sw_no_lost_cancel / C05sw_drainer_enabled / C05sw_not_stuck (a waiter in its P "
           "with the note notified has a post or a notifier still draining, and that notifier is never blocked), C05sw_deadline_enabled (any deadline value, "
           "negative included, enables the time-out once reached), C15sw_no_deadline; C13sw_no_dead_touch / C13sw_taken_live / C13sw_queue (no step reads or "
           "writes an on-stack record whose call has returned).  CvModel / MuWaitModel still take the function's RESULT as a guarded choice: the composition "
           "is by the shared contract, not one combined model",
           "Properties_C05sx (after the third statement audit): C05sx_flag_sound (a note's `notified` word is non-zero only if nsync_note_notify was called on it, "
           "the parent's notifier has come to it, or the clock has reached its expiry) and C05sx_cancel_sound (a wait returns ECANCELED only for a cancel note with "
           "that justification, in the state the returning step started from) -- the clause 'ECANCELED only if the note is notified'; the seeded defect C15c as a "
           "model variant falsifies it (C05sx_cancel_sound_variant_refuted); C05sx_reason_strong (which `why` goes with which result, record created or not); "
           "C05sx_expired_prompt / _quiet / _composed ('needs no further wake-up', C15 'promptly': with the deadline or the note's expiry reached, the wait run "
           "alone is never blocked and returns non-zero within 15 + 2 * (records queued on the note) own steps once note_mu is free and disconnecting = 0; from ANY "
           "reachable world the threads in the way -- the note_mu holder, the disconnecting notifier -- finish alone in boundedly many steps); "
           "C05sx_no_lost_cancel_strong (by the waiter's own record state: queued => a notifier holding note_mu is draining that queue; taken => a notifier is at "
           "the store / post for exactly this record; posted => sem >= 1); C05sx_expiry_enabled; C05sx_next_call_cancelled (a cancelled waiter whose P took the "
           "notifier's post returns 0 and its NEXT wait on that note returns ECANCELED at once).  C05sw_reason_full ('ECANCELED => the notified word is set') "
           "stays refuted by design (a note created with an expiry at or before the epoch never gets its word stored: section 9.2)",
           "C05_reason / C05_mode: the guards of st_WSem and the abstract acquire are by construction (stated in the theorem comments); their content is "
           "outcome in {0, sem_outcome} on every path and the re-acquired mode = entry mode (invariant lt_ok); C05_no_P_after_outcome_pc/_log only restate the loop guard; "
           "the mode in which nsync_mu_lock_slow_ re-acquires (cv.c:299) is inside CvModel's abstract mutex -- the mu_wait half (C05mu_return over MuWaitModel) models "
           "the re-acquisition step by step",
           "'needs no further wake-up' is C05_returns_alone (a wait whose sem_outcome is non-zero and whose waiting flag is clear -- or which is unlinking itself -- run "
           "ALONE with the mutex free and no other thread in a cv spinlock section returns within 8 steps without any P or V); not covered by a theorem: the spin while "
           "a waker/unlocker still has to store waiting = 0, and fair-schedule termination under interference (stuck detector, cancel_mix quiescent-state observer)"]
TRUSTED_BASE = ["Model/MuWaitModel.v / Model/CvModel.v / Model/SemWaitModel.v control skeletons validated by lock-step replay; in SemWaitModel note_mu and the semaphore are abstract (C01/C02, C12 are the licence), cancel notes have no children"]


def run(tier, seed):
    import mu_common
    res = {"violations": [], "broken": [], "coverage": {}}
    tie = mu_common.tie(res, "muwait_replay", "MuWaitModel", [("muwait_mix", {"VRT_MODE": 0, "VRT_CV": 0}, 200, 2000),
                                                              ("muwait_mix", {"VRT_MODE": 1, "VRT_CV": 0}, 200, 2000)], tier, seed)
    tie2 = mu_common.tie(res, "cv_replay", "CvModel", [("cv_mix", {"VRT_MODE": 0}, 150, 1500), ("cv_mix", {"VRT_MODE": 3}, 100, 1000)], tier, seed)
    tie3 = mu_common.tie(res, "semwait_replay", "SemWaitModel",
                         [("cancel_mix", {}, 150, 1500), ("cancel_mix", {"VRT_KIND": 0}, 60, 600), ("cancel_mix", {"VRT_KIND": 1}, 40, 400),
                          ("cancel_mix", {"VRT_KIND": 2, "VRT_OMIT": 1}, 60, 600), ("cancel_mix", {"VRT_KIND": 3, "VRT_OMIT": 1}, 60, 600),
                          ("cancel_mix", {"VRT_KIND": 2, "VRT_OMIT": 0}, 60, 600), ("cancel_mix", {"VRT_KIND": 3, "VRT_OMIT": 0}, 80, 800)], tier, seed)
    for k in ("traces_validated_against_impl", "lockstep_model_steps"):
        tie[k] = tie.get(k, 0) + tie2.get(k, 0) + tie3.get(k, 0)
    tie["model_sites_hit_cv"] = tie2.get("model_sites_hit", {})
    tie["model_sites_hit_semwait"] = tie3.get("model_sites_hit", {})
    specs = [("note_waitwin", {"VRT_AIM": 60}, 1000, 15000), ("mix_all", {}, 800, 15000), ("cv_mix", {"VRT_MODE": 0}, 2000, 40000), ("cv_mix", {"VRT_MODE": 4}, 1500, 30000), ("muwait_mix", {"VRT_MODE": 0}, 2000, 40000),
             ("muwait_mix", {"VRT_MODE": 1}, 1000, 20000), ("muwait_mix", {"VRT_MODE": 0, "VRT_FINE": 600}, 1500, 30000), ("muwait_mix", {"VRT_MODE": 5}, 1000, 20000), ("cancel_mix", {}, 3000, 60000),
             # reader-mode / generic-lock timed and cancellable cv waits racing real wake-ups (MODE 6), untimed generic waits (MODE 5),
             # expiring notes that nobody notifies explicitly
             ("cv_mix", {"VRT_MODE": 6}, 2500, 50000), ("cv_mix", {"VRT_MODE": 6, "VRT_GENERIC": 1}, 800, 15000), ("cv_mix", {"VRT_MODE": 5}, 800, 15000),
             ("cancel_mix", {"VRT_KIND": 2, "VRT_OMIT": 1}, 800, 15000), ("cancel_mix", {"VRT_KIND": 3, "VRT_OMIT": 1}, 800, 15000)]
    cov = scen_common.run_scenarios(res, specs, tier, seed, {"C05", "C01"} | scen_common.LIVENESS | scen_common.CRASHES)
    cov["rule"] = ("every return of nsync_cv_wait_with_deadline / nsync_mu_wait_with_deadline is checked: shadow lock mode, virtual clock vs "
                   "deadline for ETIMEDOUT, note state for ECANCELED, condition value for mu_wait; cancel_mix: notes fresh / already notified / "
                   "expiring / children of expiring parents, notified at every point of the wait, reader and writer mode: once the note is "
                   "notified the call must return without any further wake-up; non-trivial = runs with semaphore sleeps")
    # real library, real futex: cv / mu waits (writer and reader mode) with a cancel note that NOBODY ever notifies and that has no expiry, over the
    # boundary deadlines of C15's grid (zero, before the epoch, just past, now - d): ECANCELED is never a legal result there
    import prop_C15, concurrent.futures as cf
    exes, errs = prop_C15.build()
    for k, e in errs.items():
        res["broken"].append({"what": "library + deadline driver (%s build) does not compile" % k, "detail": e})
    ncanc = 0
    with cf.ThreadPoolExecutor(max_workers=NCPU) as ex:
        futs = [ex.submit(prop_C15.run_case, exe, entry, d) for exe in exes.values() for entry in ("cvn", "mun", "rmun")
                for d in prop_C15.deadlines(tier) if d[3] == "expired" or isinstance(d[3], tuple)]
        for f in futs:
            c = f.result()
            ncanc += 1
            m = re.search(r"ret=(-?\d+)", c["out"] or "")
            if m and int(m.group(1)) == ECANCELED_NUM:
                if not any(v.get("key") == "ecanceled-unnotified" for v in res["violations"]):
                    res["violations"].append({"case": c, "key": "ecanceled-unnotified", "oracle": "C05",
                                              "why": "%s with deadline %s returned ECANCELED although its cancel note was never notified and has no expiry" % (c["entry"], c["deadline"])})
    cov["real_library_cancel_note_cases"] = ncanc
    cov.update(tie)
    res["coverage"] = cov
    return res
