"""C05: timed and cancellable waits return for the stated reason, holding the lock."""
from vcommon import *
import scen_common

PID = "C05"
PROP_V = ["Props/Properties_C05cv.v", "Props/Properties_C05mu.v"]
GEN_MODULES = ["Consts", "Sites"]
REPLAY_HINT = "VRT_SEED=<seed> [VRT_MODE=<m>] _work/h/cv_mix | muwait_mix | cancel_mix"
PARTIAL = []


def run(tier, seed):
    res = {"violations": [], "broken": [], "coverage": {}}
    specs = [("cv_mix", {"VRT_MODE": 0}, 2000, 40000), ("cv_mix", {"VRT_MODE": 4}, 1500, 30000), ("muwait_mix", {"VRT_MODE": 0}, 2000, 40000),
             ("muwait_mix", {"VRT_MODE": 1}, 1000, 20000), ("cancel_mix", {}, 3000, 60000)]
    cov = scen_common.run_scenarios(res, specs, tier, seed, {"C05", "C01"} | scen_common.LIVENESS | scen_common.CRASHES)
    cov["rule"] = ("every return of nsync_cv_wait_with_deadline / nsync_mu_wait_with_deadline is checked: shadow lock mode, virtual clock vs "
                   "deadline for ETIMEDOUT, note state for ECANCELED, condition value for mu_wait; cancel_mix: notes fresh / already notified / "
                   "expiring / children of expiring parents, notified at every point of the wait, reader and writer mode: once the note is "
                   "notified the call must return without any further wake-up; non-trivial = runs with semaphore sleeps")
    res["coverage"] = cov
    return res
