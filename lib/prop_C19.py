"""C19: allocation failure is reported by the constructors."""
from vcommon import *
import scen_common

PID = "C19"
PROP_V = "Props/Properties_C19.v"
GEN_MODULES = ["Sites"]
REPLAY_HINT = "VRT_WHICH=<0|1|2> VRT_SEED=<seed> _work/h/alloc_fail   (the allocation of that constructor call returns NULL)"
TRUSTED_BASE = ["gen/sites.py's extraction of the calls / pointer stores / atomic sites of the two constructors and of the conditions dominating them"]


def run(tier, seed):
    res = {"violations": [], "broken": [], "coverage": {}}
    specs = [("alloc_fail", {"VRT_WHICH": w}, 60, 600) for w in (0, 1, 2)]
    cov = scen_common.run_scenarios(res, specs, tier, seed, {"C19", "UAF"} | scen_common.CRASHES | scen_common.LIVENESS, label_nontrivial="malloc_failed")
    cov["rule"] = ("alloc_fail: builds root/child notes and counters, makes the allocation of one constructor call (child of root, child of a "
                   "child with a deadline, a counter) fail, checks NULL result, byte-for-byte unchanged existing objects, and that the tree and "
                   "counters are still usable (new child, notify reaches children, free); non-trivial = runs in which an allocation failed")
    res["coverage"] = cov
    return res
